#!/bin/bash
# seedconfirm.sh <worktree> <seed-id>
# Independently confirms a sub-agent's seeded change in its scratch worktree and files it under /verif/seeded/<seed-id>/:
#  1. the repository's own suite passes with the change (demo moved aside)
#  2. the demonstration fails with the change and passes without it
set -u
WT="$1"; ID="$2"
export GOFLAGS=-mod=mod GOPROXY=off GOSUMDB=off GOTOOLCHAIN=local
cd "$WT" || exit 2
OUT=/verif/seeded/$ID; mkdir -p $OUT
git diff > $OUT/patch.diff
[ -s $OUT/patch.diff ] || { echo "$ID: empty patch"; exit 1; }
DEMOS=$(git status --porcelain | grep '^??' | awk '{print $2}' | grep -E '_test\.go$|seed_demo' )
[ -n "$DEMOS" ] || { echo "$ID: no demo found"; exit 1; }
mkdir -p /tmp/seedaside-$ID; for d in $DEMOS; do mkdir -p /tmp/seedaside-$ID/$(dirname $d); cp -r $d /tmp/seedaside-$ID/$d; done
# 1. suite with change, demo aside
for d in $DEMOS; do rm -rf $d; done
suite=pass
for m in . v2 cmd; do (cd $m && go test -vet=off -count=1 ./... > /tmp/seedsuite-$ID-$(echo $m|tr './' '__').log 2>&1) || suite="FAIL($m)"; done
for d in $DEMOS; do mkdir -p $(dirname $d); cp -r /tmp/seedaside-$ID/$d $d; done
# 2. demo with and without
first=$(echo "$DEMOS" | grep "_test\.go$" | head -1); [ -n "$first" ] || first=$(echo "$DEMOS" | head -1)
ddir=$(dirname $first)
mod=v2; case $first in cmd/*) mod=cmd;; v2/*) mod=v2;; *) mod=.;; esac
rel=${ddir#$mod/}; [ "$mod" = "." ] && rel=$ddir; [ "$rel" = "$mod" ] && rel=.
run_demo() { (cd $mod && go test -vet=off -count=1 -run 'Seed' ./$rel/ 2>&1 | tail -3); }
with=$(run_demo); echo "$with" | grep -q "^ok" && w=PASS || w=FAIL
git apply -R $OUT/patch.diff; without=$(run_demo); echo "$without" | grep -q "^ok" && wo=PASS || wo=FAIL; git apply $OUT/patch.diff
for d in $DEMOS; do mkdir -p $OUT/demo/$(dirname $d); cp -r $d $OUT/demo/$d; done
cp SEED_REPORT.md $OUT/ 2>/dev/null
echo "$ID suite_with_change=$suite demo_with_change=$w demo_without_change=$wo files=$(git diff --name-only | tr '\n' ' ')"
rm -rf /tmp/seedaside-$ID
