#!/bin/bash
# seedtest.sh <patch.diff> <ID> [<ID> ...]
# Applies a seeded property-breaking change to /repo, runs the quick checks named, prints one line per
# check (CAUGHT / MISSED + signatures), and ALWAYS restores /repo afterwards. /repo must be clean.
set -u
PATCH="$(readlink -f "$1")"; shift
cd /repo || exit 2
if [ -n "$(git status --porcelain)" ]; then echo "seedtest: /repo is not clean" >&2; exit 2; fi
restore() { git -C /repo checkout -- . ; git -C /repo clean -fdq -- . >/dev/null 2>&1; }
trap restore EXIT
if ! git apply "$PATCH"; then echo "seedtest: patch does not apply" >&2; exit 2; fi
cd /verif
for id in "$@"; do
  out=$(./vcheck "$id" --tier "${SEED_TIER:-quick}" 2>&1); rc=$?
  sigs=$(echo "$out" | grep -E "^\s+signature=" | sed 's/^\s*signature=//' | sort -u | head -6 | tr '\n' ' ')
  case $rc in
    1) echo "$id CAUGHT rc=1 $sigs" ;;
    0) echo "$id MISSED rc=0 $(echo "$out" | tail -1 | cut -c1-120)" ;;
    *) echo "$id BROKEN rc=$rc $(echo "$out" | grep -E "HARNESS|BUILD|error" | head -3 | cut -c1-300)" ;;
  esac
done
