#!/bin/bash
# seed6.sh <ID> [check IDs...] : confirm a round-6 seed from /tmp/wt6-<ID> and run it through the check(s)
ID=$1; shift; CHK="${*:-$ID}"
cd /verif
tools/seedconfirm.sh /tmp/wt6-$ID $ID-agent6 2>&1 | tail -1
for c in $CHK; do echo "$ID-agent6 -> $c: $(tools/seedtest_ovl.sh seeded/$ID-agent6/patch.diff $c 2>&1 | tail -1 | cut -c1-260)"; done
