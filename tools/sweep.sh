#!/bin/bash
# sweep.sh <tier> <ids...> : builds the worker once (pinned copy) and runs the given checks sequentially, logging.
cd /verif
export GOFLAGS=-mod=mod GOPROXY=off GOSUMDB=off GOTOOLCHAIN=local CGO_ENABLED=0
tier=$1; shift
cat /repo/go.sum /repo/v2/go.sum /repo/cmd/go.sum engine/go.sum.extra 2>/dev/null | sort -u > engine/go.sum
(cd engine && go build -tags verif -overlay /verif/engine/overlay.json -o /verif/bin/worker-sweep ./cmd/worker) || exit 2
for id in "$@"; do
  echo "=== $id $(date -u +%T)"
  ./bin/worker-sweep $id --tier $tier 2>&1 | grep -E "^(VIOLATION|KNOWN|HARNESS|C[0-9]+ (quick|thorough):)|signature=" | cut -c1-260 | sort | uniq -c | sort -rn | head -12
  echo "exit=${PIPESTATUS[0]}"
done
echo "=== done $(date -u +%T)"
