#!/usr/bin/env python3
"""Generates /verif/MANIFEST.json from the table below (kept in one place so it stays valid)."""
import json, subprocess, os

CLAIMED = {
 # id: (technique, level text, level note, design ref)
}
def claim(i, technique, text, note, ref):
    CLAIMED[i] = (technique, text, note, ref)

exec(open(os.path.join(os.path.dirname(__file__), 'claims.py')).read())

props = [json.loads(l) for l in open('/verif/properties.jsonl')]
hook_commits = subprocess.run(['git','-C','/repo','log','--format=%H','--grep=^verif hook'],capture_output=True,text=True).stdout.split()
checks=[]; na=[]
for p in props:
    i=p['id']
    if i in CLAIMED:
        t,text,note,ref=CLAIMED[i]
        checks.append({
          "property_id": i,
          "quick_cmd": f"./vcheck {i} --tier quick",
          "thorough_cmd": f"./vcheck {i} --tier thorough",
          "evidence_file": f"/verif/evidence/{i}.json",
          "replay_cmd_template": f"./vcheck {i} --replay {{path}}",
          "engine": "vcheck",
          "level_claimed": {"category":"model_checking","text":text,"design_ref":ref},
          "level_note": note,
          "technique": t,
        })
    else:
        na.append({"property_id": i, "reason": NOT_YET.get(i, "check not built yet in this revision; no claim is made (the technique does apply, see DESIGN.md section 5)")})
m={
 "version":1,
 "setup_cmd":"./setup.sh",
 "hooks":{
   "guard":"verif",
   "enable":"go build -tags verif -overlay /verif/engine/overlay.json (run by ./vcheck; C08 additionally uses a generated sync-rewrite overlay)",
   "baseline_off_cmd":"for m in . cmd v2; do (cd /repo/$m && go test -mod=mod -json -vet=off -count=1 -timeout 25m ./...); done",
   "source_commits":hook_commits,
   "add_only":True,
 },
 "engines":[{"name":"vcheck","path":"/verif/engine","serves_properties":sorted(CLAIMED),"kind_free_text":"hand-written bounded-exhaustive explorer in Go: enumerates every case/operation sequence/crash image/fault position/schedule of a stated bound, runs each on the real go-car code built from /repo's working tree, compares with an independent reference codec and reference models"}],
 "checks":checks,
 "not_applicable":na,
 "notes":"All checks run the implementation itself (no abstract model to drift): traces_validated_against_impl == executions. Exit 0 held / 1 violation / 2 harness or build problem. Known findings: /verif/KNOWN_FINDINGS.txt. Assertions that go beyond a property statement (documented or current behaviour the statement leaves open) are recorded in the evidence as outcome classes 'beyond-statement:*' and never raise a violation (DESIGN.md section 15). Regression corpora: seeded/ (100 property-breaking changes written by independent sub-agents in 5 rounds), demos/, benign/ (284 changes with expected verdicts); tools/seedregress.sh, tools/fixregress.sh, tools/benignregress.sh.",
}
json.dump(m,open('/verif/MANIFEST.json','w'),indent=1)
print("claimed",sorted(CLAIMED),"not claimed",[x['property_id'] for x in na])
