#!/bin/bash
# seedregress.sh [ids...] : runs every kept seeded change (and own demo) against the check of the property it
# breaks, through seedtest_ovl.sh (no change to /repo). Prints one line per seed; MISSED/BROKEN lines need attention.
# C08 seeds/demos are skipped (use seedtest.sh for them).
cd /verif
J="${SEED_JOBS:-3}"
list() {
  # the check that is run is the first one meta.json lists as catching the seed (normally the seed's own
  # property; C10-agent4 breaks the CLI's wrap, which is C19's subject)
  for d in seeded/*/; do s=$(basename "$d"); p=$(python3 -c "import json,sys; print(list(json.load(open(sys.argv[1]))['checks_run']['caught_by'])[0])" "$d/meta.json" 2>/dev/null || echo "${s%%-*}"); echo "$p $d/patch.diff $s"; done
  for f in demos/*.diff; do s=$(basename "$f" .diff); p=${s%%-*}; echo "$p $f demo:$s"; done
}
list | { if [ $# -gt 0 ]; then grep -E "^($(echo "$@" | tr ' ' '|')) "; else cat; fi; } | \
  xargs -P "$J" -L 1 bash -c 'r=$(tools/seedtest_ovl.sh "$1" "$0" 2>&1 | tail -1); echo "$2: $r"'
