#!/bin/bash
# seed5.sh <ID> [check IDs...] : confirm a round-5 seed from /tmp/wt5-<ID> and run it through the check(s)
ID=$1; shift; CHK="${*:-$ID}"
cd /verif
tools/seedconfirm.sh /tmp/wt5-$ID $ID-agent5 2>&1 | tail -1
for c in $CHK; do echo "$ID-agent5 -> $c: $(tools/seedtest_ovl.sh seeded/$ID-agent5/patch.diff $c 2>&1 | tail -1 | cut -c1-260)"; done
