#!/bin/bash
# runsuite.sh [dir] : runs ipld/go-car's own test suite (the three modules, guard tag OFF) in dir (default /repo)
D="${1:-/repo}"
export GOFLAGS=-mod=mod GOPROXY=off GOSUMDB=off GOTOOLCHAIN=local
rc=0
for m in . v2 cmd; do
  out=$(cd "$D/$m" && go test -vet=off -count=1 -timeout 25m ./... 2>&1) || { rc=1; echo "$out" | grep -E "^(---|FAIL|panic)" | head -20; }
  echo "$m: $(echo "$out" | grep -c '^ok') ok, $(echo "$out" | grep -c '^FAIL') FAIL"
done
exit $rc
