NOT_YET = {}
claim("C05", "bounded-exhaustive enumeration of put histories x option configurations on the real writers; independent reference decoder as oracle",
  "Every put history up to the stated length over a collision-rich block alphabet, under every padding/codec/identity/v1/de-dup configuration and every writer front-end, is executed on the real code and its bytes are strictly decoded by an independent codec; exhaustive within the bound, no sampling.",
  "Trusted: refcar reference codec and the map model (DESIGN A.4, A.5); blocks outside the alphabet are assumed to behave like some block in it; bounds in evidence.bound.",
  "DESIGN.md 5/C05")
claim("C01", "bounded-exhaustive enumeration of (roots, block sequence, options, container) with every writer x every reader run on the real code; reference codec as oracle",
  "All block sequences up to the stated length over a collision-rich alphabet x root sets x de-dup/identity options x containers are written by every writer and each distinct output is read by every reader; payload bytes are compared across writers and with an independent encoder. Exhaustive within the bound.",
  "Trusted: refcar reference codec, map model for de-duplication; alphabet and bounds in evidence.bound.",
  "DESIGN.md 5/C01")
claim("C03", "bounded-exhaustive enumeration of payloads x containers x index kinds x APIs/source kinds; offsets compared with the reference layout",
  "Every payload up to the bound (duplicates, equal digests under different hash functions and codecs, identity, mixed widths) laid out by the independent encoder is indexed through every API and source kind; every alphabet CID is queried and every reported offset is checked against the bytes. Exhaustive within the bound.",
  "Trusted: refcar layout; insertion index treated as digest-only.",
  "DESIGN.md 5/C03")
