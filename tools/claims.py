NOT_YET = {}
claim("C05", "bounded-exhaustive enumeration of put histories x option configurations on the real writers; independent reference decoder as oracle",
  "Every put history up to the stated length over a collision-rich block alphabet, under every padding/codec/identity/v1/de-dup configuration and every writer front-end, is executed on the real code and its bytes are strictly decoded by an independent codec; exhaustive within the bound, no sampling.",
  "Trusted: refcar reference codec and the map model (DESIGN A.4, A.5); blocks outside the alphabet are assumed to behave like some block in it; bounds in evidence.bound.",
  "DESIGN.md 5/C05")
