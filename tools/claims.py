NOT_YET = {}
claim("C05", "bounded-exhaustive enumeration of put histories x option configurations on the real writers; independent reference decoder as oracle",
  "Every put history up to the stated length over a collision-rich block alphabet, under every padding/codec/identity/v1/de-dup configuration and every writer front-end, is executed on the real code and its bytes are strictly decoded by an independent codec; exhaustive within the bound, no sampling.",
  "Trusted: refcar reference codec and the map model (DESIGN A.4, A.5); blocks outside the alphabet are assumed to behave like some block in it; bounds in evidence.bound.",
  "DESIGN.md 5/C05")
claim("C01", "bounded-exhaustive enumeration of (roots, block sequence, options, container) with every writer x every reader run on the real code; reference codec as oracle",
  "All block sequences up to the stated length over a collision-rich alphabet x root sets x de-dup/identity options x containers are written by every writer and each distinct output is read by every reader; payload bytes are compared across writers and with an independent encoder. Exhaustive within the bound.",
  "Trusted: refcar reference codec, map model for de-duplication; alphabet and bounds in evidence.bound.",
  "DESIGN.md 5/C01")
claim("C03", "bounded-exhaustive enumeration of payloads x containers x index kinds x APIs/source kinds; offsets compared with the reference layout",
  "Every payload up to the bound (duplicates, equal digests under different hash functions and codecs, identity, mixed widths) laid out by the independent encoder is indexed through every API and source kind; every alphabet CID is queried and every reported offset is checked against the bytes. Exhaustive within the bound.",
  "Trusted: refcar layout; insertion index treated as digest-only.",
  "DESIGN.md 5/C03")
claim("C11", "bounded-exhaustive enumeration of record multisets x all load-order permutations x both codecs on the real index code; reference index codec as oracle",
  "Every record multiset up to the bound over a 14-record alphabet (all width/code/duplicate shapes) is loaded in every order, serialized, strictly decoded by the independent codec, read back and queried with every key; plus Flatten vs GenerateIndex for every put history up to the bound. Exhaustive within the bound.",
  "Trusted: refcar index codec; values outside the record alphabet not covered.",
  "DESIGN.md 5/C11")
claim("C14", "bounded-exhaustive enumeration of archives x all 2^n Next/SkipNext choice strings x source kinds on the real BlockReader",
  "Every archive up to the bound (CID widths 4..68, section lengths at varint boundaries, v1/v2/padded) is iterated under every Next/SkipNext choice string over every source kind; metadata is compared with the reference layout and the actual bytes; source consumption is probed. Exhaustive within the bound.",
  "Trusted: refcar layout; the over-read probe cannot wrap a raw bytes.Reader.",
  "DESIGN.md 5/C14")
claim("C10", "bounded-exhaustive enumeration of archives x destination states x root-list pairs on the real transform functions; byte comparison with the reference layout",
  "Every CARv1 up to the bound is wrapped (both codecs) and extract(wrap(x)) compared; every CARv2 layout (paddings, with/without index) is extracted into absent/larger/smaller/same destinations; ReplaceRootsInFile is run for every ordered pair of 13 root lists on v1 and v2 files, checking bytes changed/untouched. Exhaustive within the bound.",
  "Trusted: refcar layout; filesystem semantics of /dev/shm.",
  "DESIGN.md 5/C10")
claim("C07", "bounded-exhaustive enumeration of archives x index sources x options x front-ends with every alphabet CID queried; reference scan as oracle",
  "Every archive up to the bound laid out by the independent encoder is opened through each read-only front-end and option set; every alphabet CID (present, absent, same hash other codec, equal digest other function, identity) is queried and listing/roots compared with the reference scan. Exhaustive within the bound.",
  "Trusted: refcar scan; identity entries in embedded/supplied indexes follow the reader's StoreIdentityCIDs (the other combination is documented as open).",
  "DESIGN.md 5/C07")
claim("C02", "exhaustive single-deviation mutation (every bit flip of data/digest bytes, every truncation offset) of every archive up to the bound, run through every verifying reader",
  "For every archive up to the bound, every single-bit flip of every block-data and digest byte and every proper prefix not on a section boundary is fed to every verifying scanning reader; returned blocks are re-hashed independently and a clean completion is a violation. Exhaustive over the 1-deviation neighbourhood.",
  "Trusted: refcar hashing; 'all byte strings' is covered only as the 1-deviation neighbourhood of enumerated valid archives.",
  "DESIGN.md 5/C02")
claim("C13", "exhaustive single-deviation mutation of seed archives (7 byte values per position, every truncation) x options; Inspect(true) compared with a verifying scan of the same payload window",
  "Every seed archive up to the bound and every 1-deviation neighbour that NewReader accepts is inspected and independently scanned (library BlockReader cross-checked by the reference scan); verdict equivalence and every statistic are compared. Exhaustive over the 1-deviation neighbourhood.",
  "Inputs where the two scans disagree (e.g. inner header version != 1) are excluded as oracle-ambiguous and counted; corruption coverage is the 1-deviation neighbourhood only.",
  "DESIGN.md 5/C13")
claim("C04", "explicit-state breadth-first search over operation sequences on the real stores (successor = replay on a fresh instance), every observer compared with a reference map model in every reached state",
  "All mutator sequences up to the depth bound over a collision-rich alphabet (equal multihash/different codec, equal digest/different hash function, identity, over-long CID, batches, lifecycle calls) for 64 configurations x 2 front-ends; all observers are evaluated in every state. Exhaustive within the bound with state de-duplication on model state + implementation fingerprint.",
  "Trusted: the map model (DESIGN A.4). Not compared: identity lookups after close; lifecycle return values other than first success.",
  "DESIGN.md 5/C04")
claim("C20", "exhaustive enumeration of operation sequences of the depth bound on the real deferred writer; differential oracle against a directly constructed writer; callback model",
  "Every sequence over {Put, Has, OnPut(always), OnPut(once), Close} up to the depth bound x path/stream x option sets is executed, with laziness, byte equality with a direct storage writer, callback log and closed-state errors checked after every step. Exhaustive within the bound.",
  "Trusted: storage.NewWritable as byte reference (C01/C05 check it independently).",
  "DESIGN.md 5/C20")
claim("C12", "exhaustive enumeration of {Put, Discard+reopen, Finalize+reopen} sequences on the real stores; differential oracle (uninterrupted session); exhaustive single-field mismatch probes on every distinct intermediate image",
  "Every interleaving of puts and interruptions up to the depth bound x 7 configurations x 2 front-ends ends byte-identical to the uninterrupted session; every distinct intermediate file image is reopened with every single-field mismatch and must be refused untouched. Exhaustive within the bound.",
  "Trusted: the uninterrupted session as reference. Interruptions are at operation boundaries only (byte-level cuts are C06).",
  "DESIGN.md 5/C12")
claim("C06", "exhaustive crash-image enumeration: real write order recorded through the build-tag write seam + file diffing, every prefix x every torn length of the next write reopened on the real Resume code; second-generation sessions included",
  "For every session of the bound x 7 configurations x 2 front-ends (and sessions resuming complete or crashed images of a first one) every crash image (each write boundary and each byte offset inside each write; 5 offsets for data writes > 64 bytes in quick, all in thorough) is reopened: refusal must not destroy acknowledged blocks; success must expose exactly intact put blocks and continue to a strictly well-formed archive.",
  "Crash model is the property's (prefix of issued writes, last one torn; no reordering since the library never syncs). One class of crash points is a recorded known finding (see KNOWN_FINDINGS.txt).",
  "DESIGN.md 5/C06")
claim("C16", "exhaustive single-fault (thorough: two-fault) enumeration over every write call and every short-write length of a fixed session on four front-ends, through the write seam / a faulty stream",
  "One transient fault is injected at every write call of the session (plain error and every short length), with and without retrying the failed put; the faulted call must report the error, the failed block must not be reported stored, and whenever the continuation succeeds the archive must strictly decode to exactly the successfully put blocks.",
  "Faults are transient; if later calls keep failing nothing is asserted (as the property states).",
  "DESIGN.md 5/C16")
claim("C08", "stateless model checking of the implementation: controlled cooperative scheduler over mechanically rewritten sources (sync/go/select/close -> shim), depth-first enumeration of all schedules with iterative pre-emption bounding; per-schedule vector-clock race check, porcupine linearizability, deadlock/panic detection",
  "All schedules of 12 small colliding scenarios (3-4 threads plus AllKeysChan goroutines) x 3 configurations are enumerated up to pre-emption bound 2 (quick) / 4 (thorough) on the real blockstore, storage and deferred-writer code; each schedule is judged for panics, deadlock, happens-before races on the index and writer objects, linearizability w.r.t. a set model, listing consistency and a strictly well-formed final file. A free-running -race pass is a separately reported sampling complement.",
  "Scheduling points only at lock acquisition, channel operations, goroutine start and harness yields; unhooked unsynchronised memory only seen by the sampling -race complement; 16 goroutines not explored exhaustively; the shim models Go's RWMutex writer preference.",
  "DESIGN.md 5/C08, A.1")
claim("C17", "bounded-exhaustive enumeration (deviation bound: two hostile entries) of crafted UnixFS archives x output-directory states, extracted by the real car binary; before/after snapshot oracle",
  "Every archive with up to two hostile entries (9 names x 9 kinds incl. symlinks to relative/absolute outside targets) in every placement (same directory, two roots, parent/child, non-directory roots) is extracted by the built car binary into empty/pre-populated/absent output directories; a recursive snapshot of everything outside the output directory must be unchanged.",
  "Own dag-pb/UnixFS encoder trusted; sharded directories not generated; deviation bound 2.",
  "DESIGN.md 5/C17")
claim("C18", "bounded-exhaustive enumeration of directory trees x CLI flags, packed and extracted by the real car binary; tree-equality oracle",
  "Every tree up to the entry bound over 4 names x 5 kinds (plus chunk-boundary file sizes, depth-6 nesting, a sharded directory) is packed with car create (v1/v2, wrap/no-wrap, directory/single source) and extracted from file and from a pipe; trees are compared by names, contents and link targets; the archive has one root equal to `car root` and stored.",
  "Permissions/timestamps not compared; bare file/symlink roots with --no-wrap are outside the domain (no name to extract to).",
  "DESIGN.md 5/C18")
claim("C19", "bounded-exhaustive enumeration of input archives x sub-commands x flag sets, run with the real car binary; outputs re-checked with the tool's own verifier and compared with reference answers",
  "Every input archive up to the bound x 22 command/flag combinations (+ get-dag from every start node of a UnixFS DAG) is run through the built car binary; each produced archive must pass car inspect --full and car verify and equal the reference answer (selected blocks in source order, unchanged payload + regenerated index, exact block bytes, scan order, concatenation).",
  "Two call-site specific known findings (inspect --full on CARv1, concat --version 2) are recorded in KNOWN_FINDINGS.txt; filter goes through the blockstore so its de-dup/identity rules apply.",
  "DESIGN.md 5/C19")
claim("C15", "bounded-exhaustive enumeration of DAG shapes x selectors x writer kinds x traversal options on the real traversal writers; independent load log as oracle",
  "Every dag-cbor DAG up to the node bound (all upper-triangular adjacencies with link multiplicity 0/1/2, raw leaves) x 4 selectors x 6 writers x link-visit-once/budget/padding/index options is written; the output must be exactly the first-visit order of the loads logged during the writing pass, announced sizes and returned counts must equal bytes written, Dump must equal Write and callbacks must report true offsets.",
  "Hand-written dag-cbor encoder; errors outside the default traversal configuration are refusals that assert nothing.",
  "DESIGN.md 5/C15")
claim("C09", "deviation-bounded exhaustive mutation of seed archives/indexes (every position x 7 byte values, every truncation, boundary-value products of every numeric field; thorough: all pairs in structural regions) x option sets x 26 parsing entry points, each run in a resource-limited child process",
  "Every mutant of the bounded neighbourhood is fed to every parsing entry point under small and default limits; a panic, a fatal error (child death, attributed to the announced input and re-run in isolation), more reads/seeks than 64*(len+64), or allocation beyond header max + section max + 1 KiB/byte + 1 MiB is a violation; limits are checked to be enforced exactly (at-limit accepted, one over rejected with the too-large error).",
  "Coverage statement over the 1-deviation (thorough: 2-deviation) neighbourhood of the seeds and field-boundary products, not all byte strings; allocation measured via runtime/metrics; one known finding (go-cid digest pre-allocation).",
  "DESIGN.md 5/C09")
