#!/bin/bash
# seedtest_ovl.sh <patch.diff> <ID> [<ID> ...]
# Like seedtest.sh, but /repo is NOT touched: the patch is applied to a scratch copy of the tree, the changed files
# are substituted at build time through a go build -overlay (VCHECK_OVERLAY; for C08 the rewriter additionally reads
# the scratch copy, VCHECK_SRC_V2), and the checks run from a scratch copy of /verif.
# Safe to run in parallel and while other work builds from /repo.
set -u
PATCH="$(readlink -f "$1")"; shift
W=/work/seed/$(basename "$(dirname "$PATCH")")-$$
rm -rf "$W"; mkdir -p "$W"
trap 'rm -rf "$W"' EXIT
rsync -a --exclude .git /repo/ "$W/tree/"
(cd "$W/tree" && patch -p1 -s < "$PATCH") || { echo "seedtest_ovl: patch does not apply" >&2; exit 2; }
python3 - "$W" "$PATCH" <<'PY'
import json,os,sys,subprocess
W,P=sys.argv[1],sys.argv[2]
o=json.load(open('/verif/engine/overlay.json'))
files=[l.split('\t')[2] for l in subprocess.run(['git','-C','/repo','apply','--numstat',P],capture_output=True,text=True).stdout.splitlines()]
for f in files:
    p=os.path.join(W,'tree',f)
    if os.path.exists(p): o['Replace']['/repo/'+f]=p
    else: o['Replace']['/repo/'+f]=''   # file deleted by the patch
json.dump(o,open(W+'/overlay.json','w'),indent=1)
PY
# SEED_VERIF_SRC: take the harness from a scratch copy of /verif instead (development of a check in a copy)
rsync -a --exclude bin --exclude .git --exclude replays --exclude seeded --exclude notes "${SEED_VERIF_SRC:-/verif}/" "$W/verif/"
for id in "$@"; do
  out=$(VERIF_DIR="$W/verif" VCHECK_OVERLAY="$W/overlay.json" VCHECK_SRC_V2="$W/tree/v2" timeout "${SEED_TIMEOUT:-5400}" "$W/verif/vcheck" "$id" --tier "${SEED_TIER:-quick}" 2>&1); rc=$?
  sigs=$(echo "$out" | grep -E "^\s+signature=" | sed 's/^\s*signature=//' | sort -u | head -6 | tr '\n' ' ')
  case $rc in
    1) echo "$id CAUGHT rc=1 $sigs" ;;
    0) echo "$id MISSED rc=0 $(echo "$out" | tail -1 | cut -c1-120)" ;;
    *) echo "$id BROKEN rc=$rc $(echo "$out" | grep -E "HARNESS|BUILD|error" | head -3 | cut -c1-300)" ;;
  esac
done
