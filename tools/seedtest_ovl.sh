#!/bin/bash
# seedtest_ovl.sh <patch.diff> <ID> [<ID> ...]
# Like seedtest.sh, but /repo is NOT touched: the patched files are placed in a scratch directory and
# substituted at build time through a go build -overlay; the checks run from a scratch copy of /verif.
# Safe to run in parallel and while other work builds from /repo. Not usable for C08 (its explorer
# regenerates rewritten sources from /repo itself): use seedtest.sh for C08.
set -u
PATCH="$(readlink -f "$1")"; shift
W=/work/seed/$(basename "$(dirname "$PATCH")")-$$
rm -rf "$W"; mkdir -p "$W/src"
trap 'rm -rf "$W"' EXIT
for f in $(git -C /repo apply --numstat "$PATCH" | awk '{print $3}'); do
  if [ -f "/repo/$f" ]; then mkdir -p "$W/src/$(dirname "$f")"; cp "/repo/$f" "$W/src/$f"; fi
done
(cd "$W/src" && patch -p1 -s < "$PATCH") || { echo "seedtest_ovl: patch does not apply" >&2; exit 2; }
python3 - "$W" <<'PY'
import json,os,sys
W=sys.argv[1]
o=json.load(open('/verif/engine/overlay.json'))
for d,_,fs in os.walk(W+'/src'):
    for f in fs:
        p=os.path.join(d,f); rel=os.path.relpath(p,W+'/src')
        if rel.endswith('.orig') or rel.endswith('.rej'): continue
        o['Replace']['/repo/'+rel]=p
json.dump(o,open(W+'/overlay.json','w'),indent=1)
PY
rsync -a --exclude bin --exclude .git --exclude replays --exclude seeded --exclude notes /verif/ "$W/verif/"
for id in "$@"; do
  out=$(VERIF_DIR="$W/verif" VCHECK_OVERLAY="$W/overlay.json" "$W/verif/vcheck" "$id" --tier "${SEED_TIER:-quick}" 2>&1); rc=$?
  sigs=$(echo "$out" | grep -E "^\s+signature=" | sed 's/^\s*signature=//' | sort -u | head -6 | tr '\n' ' ')
  case $rc in
    1) echo "$id CAUGHT rc=1 $sigs" ;;
    0) echo "$id MISSED rc=0 $(echo "$out" | tail -1 | cut -c1-120)" ;;
    *) echo "$id BROKEN rc=$rc $(echo "$out" | grep -E "HARNESS|BUILD|error" | head -3 | cut -c1-300)" ;;
  esac
done
