#!/bin/bash
# fixregress.sh [property ...]: for every "fixed:" line of KNOWN_FINDINGS.txt, take the repair out again (reverse
# diff of the fix commit, substituted through a build overlay: /repo is not touched) and run the property's quick
# check; it must report a violation. C08 is skipped (see seedtest_ovl.sh).
cd /verif
grep '^fixed:' KNOWN_FINDINGS.txt | sed -E 's/^fixed: property=(C[0-9]+) ([0-9a-f]+) .*/\1 \2/' | \
 { if [ $# -gt 0 ]; then grep -E "^($(echo "$@" | tr ' ' '|')) "; else cat; fi; } | \
 xargs -P "${SEED_JOBS:-3}" -L 1 bash -c 'd=/work/rev-$1; mkdir -p $d; git -C /repo diff $1 $1~1 > $d/patch.diff; r=$(tools/seedtest_ovl.sh $d/patch.diff $0 2>&1 | tail -1 | cut -c1-220); echo "revert $1: $r"; rm -rf $d'
