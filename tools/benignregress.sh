#!/bin/bash
# benignregress.sh [ids...] : runs every patch under /verif/benign/<ID>/<name>/patch.diff against the quick check of
# <ID> through seedtest_ovl.sh (no change to /repo) and compares with /verif/benign/EXPECT.tsv
# (columns: ID name expected{SILENT|CAUGHT}). SILENT = a change of go-car after which the property statement still
# holds (the check must exit 0); CAUGHT = a control that breaks the statement. Prints one line per patch and a summary.
cd /verif
J="${SEED_JOBS:-4}"
find benign -name patch.diff | sort | awk -F/ '{print $2" "$3}' | { if [ $# -gt 0 ]; then grep -E "^($(echo "$@" | tr ' ' '|')) "; else cat; fi; } | \
 xargs -P "$J" -L 1 bash -c 'r=$(tools/seedtest_ovl.sh benign/$0/$1/patch.diff $0 2>&1 | tail -1 | cut -c1-200); exp=$(awk -v i=$0 -v n=$1 "\$1==i && \$2==n {print \$3}" benign/EXPECT.tsv 2>/dev/null); case "$r" in *MISSED*) got=SILENT;; *CAUGHT*) got=CAUGHT;; *) got=BROKEN;; esac; st=ok; [ -n "$exp" ] && [ "$exp" != "$got" ] && st=MISMATCH; [ -z "$exp" ] && st=new; echo "$st $0 $1 expected=${exp:-?} got=$got :: $r"'
