#!/usr/bin/env python3
"""Writes /verif/seeded/<id>/meta.json and prints the DESIGN.md table. Results come from tools/seedtest.sh runs."""
import json,os
S={
 "C01-agent1":("C01","blockstore PutMany split into two passes (check all, then write): duplicates inside one batch are all written","one PutMany call whose batch contains a duplicate key, de-duplication on",{"C01":"c01:payload:bsmany","C05":"c05:payload:v2, c05:data-size:v2","C04":"c04:keys:bs, c04:get-present:bs"}),
 "C02-agent1":("C02","BlockReader.Next skips the hash check for identity-multihash CIDs","an identity-CID section whose data or digest bytes are corrupted, verifying BlockReader",{"C02":"c02:corrupt-block-returned:br-bytes:flip, c02:flip-undetected:br-bytes"}),
 "C03-agent1":("C03","discarding reader's Seek(SeekStart) skips through the raw reader, losing offset tracking","plain io.Reader source + CARv2 + non-zero data padding",{"C03":"c03:offsets:gen-stream:v2pad, c03:build-error:gen-stream:v2idx"}),
 "C04-agent1":("C04","FindCid no longer resets the length of a rejected candidate in the multihash branch","Put(K1) then Get/GetSize(K2) where K2 has equal digest bytes under another hash code and was never put",{"C04":"c04:get-absent:bs, c04:size-absent:st","C07":"c07:get-absent:*"}),
 "C05-agent1":("C05","fully-indexed flag moved from store.Finalize to the blockstore's open path; storage never sets it","storage/deferred writer + StoreIdentityCIDs(true) + CARv2 output",{"C05":"c05:fully-indexed:v2"}),
 "C06-agent1":("C06","Resume's whole-section probe computed from the section offset, landing 1-3 bytes early","crash inside the last bytes (1-3) of a section's data write, then resume",{"C06":"c06:put:data:torn:corrupt-bytes, c06:put:data:torn:malformed-after-continue"}),
 "C07-agent1":("C07","MultihashIndexSorted.Unmarshal reuses one bucket object for all hash codes","deserialized multihash index with two hash functions of equal digest length; query of the lower code",{"C07":"c07:get-present:*","C11":"c11:roundtrip-lookup:mh, c11:rewrite:mh"}),
 "C08-agent1":("C08","storage Put does the de-dup check under RLock, releases, then writes under Lock without re-checking","two goroutines putting the same key (or Put racing Finalize) interleaved between check and write",{"C08":"c08:race:write StorageCar.Put || write StorageCar.Put, c08:final-duplicate:S6 (before the store-state hooks: final-duplicate/final-malformed only)"}),
 "C09-agent1":("C09","NewReader no longer forwards options to ReadVersion: header buffered against the 32 MiB default","direct NewReader with a small MaxAllowedHeaderSize and a header length prefix between the limit and 32 MiB",{"C09":"c09:alloc:v1-header:Reader, c09:alloc:pragma:Inspect(true)"}),
 "C10-agent1":("C10","ReplaceRootsInFile measures the inner header from offset 51 instead of DataOffset","CARv2 with non-zero data padding",{"C10":"c10:replace-refused, c10:replace-accepted, c10:replace-touched"}),
 "C11-agent1":("C11","recordSet.Less compares only the first 8 digest bytes","two digests of one bucket sharing an 8-byte prefix, loaded out of order",{"C11":"c11:not-canonical:mh, c11:flatten-lookup (MISSED before records/blocks with late-differing digests were added to the alphabets)","C03":"c03:getall-error:*","C07":"c07:get-present:*"}),
 "C12-agent1":("C12","Resume's rescan skips identity CIDs","StoreIdentityCIDs(true), an identity block put before an interruption, then reopen and Finalize",{"C12":"c12:bytes-differ:bs, c12:bytes-differ:st (first run exposed a slice-aliasing bug in the harness's replay cases: exit 2, fixed)","C06":"c06:*:acked-block-missing"}),
 "C13-agent1":("C13","break added to Inspect's roots-present loop","header listing the same root twice with one copy of the block",{"C13":"c13:stat:roots-present"}),
 "C14-agent1":("C14","Next advances the offset by the varint width of the data length instead of the section length","block with data length < 128 <= CID+data length consumed by Next, later block by SkipNext",{"C14":"c14:offset:v1:stream, c14:offset:v2:bytes"}),
 "C15-agent1":("C15","teeing loader records written blocks only when an index is requested","no index (TraverseV1 / WithoutIndex) and the same CID loaded more than once (AllowDuplicatePuts or repeated links)",{"C15":"c15:blocks:v2-traversev1, c15:blocks:v2-selective"}),
 "C16-agent1":("C16","blockstore finalize: WriteAsCarV1 early return moved before the failed-write refusal","WriteAsCarV1 + a write fault that leaves bytes of the section on disk + Finalize",{"C16":"c16:bs:put:w1:error:malformed-archive"}),
 "C17-agent1":("C17","resolvePath accepts a symlinked parent if the resolved path has the output root as a string prefix","symlink to a sibling directory whose path extends the output directory's path (out vs out-old) + an entry routed through it",{"C17":"c17:escape:same-dir:symlink+file, c17:escape:two-roots:symlink+dir"}),
 "C18-agent1":("C18","stdin streaming store evicts each block after handing it out","extraction from stdin of a tree holding the same block twice (two empty files, two equal symlinks)",{"C18":"c18:tree-differs:*:stdin=true"}),
 "C19-agent1":("C19","concat computes the header size to skip only for the first input","concat of >=2 inputs whose CARv1 headers have different lengths",{"C19":"c19:concat-v1:output-malformed"}),
 "C20-agent1":("C20","once-callback removal by swap-with-last","a once callback registered before at least two others, then a Put",{"C20":"c20:callbacks:path, c20:callbacks:stream"}),
}
rows=[]
for sid,(prop,what,needs,caught) in S.items():
    d=f"/verif/seeded/{sid}"
    if not os.path.isdir(d): continue
    meta={"seed":sid,"breaks_property":prop,"change":what,"needs_to_manifest":needs,
          "confirmed":{"suite_passes_with_change":True,"demo_fails_with_change":True,"demo_passes_without_change":True,"how":"tools/seedconfirm.sh in the sub-agent's scratch worktree (suite with the demo moved aside; demo run with and without the source change)"},
          "checks_run":{"how":"tools/seedtest.sh seeded/%s/patch.diff %s (git apply to /repo, ./vcheck <ID> --tier quick, git checkout)"%(sid," ".join(caught)),"caught_by":caught}}
    json.dump(meta,open(d+"/meta.json","w"),indent=1)
    rows.append(f"| {sid} | {what} | {needs} | "+"; ".join(f"**{k}**: `{v}`" for k,v in caught.items())+" |")
print("\n".join(rows))
