#!/bin/bash
# Builds the framework offline from files on disk (and warms the Go build cache).
set -e
cd /verif
export GOFLAGS=-mod=mod GOPROXY=off GOSUMDB=off GOTOOLCHAIN=local CGO_ENABLED=0
mkdir -p bin evidence replays
cat /repo/go.sum /repo/v2/go.sum /repo/cmd/go.sum engine/go.sum.extra 2>/dev/null | sort -u > engine/go.sum
(cd engine && go build -tags verif -overlay /verif/engine/overlay.json -o /verif/bin/worker ./cmd/worker)
# pre-build what individual checks build on demand (explorer, -race complement, car CLI)
./bin/worker __prebuild || true
echo setup ok
