package kit

import (
	"bytes"
	"fmt"
	"strings"

	blocks "github.com/ipfs/go-block-format"
	"github.com/ipfs/go-cid"

	"verif/refcar"
)

// Blk is one alphabet block. CID bytes are built by refcar (not by go-cid).
type Blk struct {
	Name string
	Raw  []byte // CID bytes
	Cid  cid.Cid
	Data []byte
}

func (b Blk) Block() blocks.Block {
	bl, err := blocks.NewBlockWithCid(b.Data, b.Cid)
	if err != nil {
		panic(err)
	}
	return bl
}

func (b Blk) Ref() refcar.Block { return refcar.Block{Cid: b.Raw, Data: b.Data} }

func mk(name string, raw, data []byte) Blk {
	c, err := cid.Cast(raw)
	if err != nil {
		panic(fmt.Sprintf("alphabet block %s: %v", name, err))
	}
	if !bytes.Equal(c.Bytes(), raw) {
		panic("alphabet block " + name + ": go-cid re-encodes differently")
	}
	return Blk{Name: name, Raw: raw, Cid: c, Data: data}
}

func hashed(name string, codec, mh uint64, data []byte, trunc int) Blk {
	d, err := refcar.Digest(mh, data)
	if err != nil {
		panic(err)
	}
	if trunc > 0 {
		d = d[:trunc]
	}
	return mk(name, refcar.CIDv1(codec, mh, d), data)
}

// Alphabet of named blocks (DESIGN §4).
var Alpha = map[string]Blk{}

// AlphaOrder lists names simplest-first.
var AlphaOrder []string

func add(b Blk) {
	Alpha[b.Name] = b
	AlphaOrder = append(AlphaOrder, b.Name)
}

func sized(total int, seed byte) []byte {
	// data such that len(cid)+len(data) == total for a 36-byte raw sha2-256 CIDv1
	n := total - 36
	d := make([]byte, n)
	for i := range d {
		d[i] = seed + byte(i*7)
	}
	return d
}

func init() {
	aData := []byte("aaa")
	add(hashed("a", refcar.CodecRaw, refcar.MhSha256, aData, 0))
	add(hashed("b", refcar.CodecRaw, refcar.MhSha256, []byte("bb-block"), 0))
	add(hashed("c", refcar.CodecRaw, refcar.MhSha256, []byte("c"), 0))
	add(hashed("e", refcar.CodecRaw, refcar.MhSha256, []byte{}, 0))
	add(hashed("a'", refcar.CodecDagCBOR, refcar.MhSha256, aData, 0))
	da, _ := refcar.Digest(refcar.MhSha256, aData)
	add(mk("a0", refcar.CIDv0(da), aData))
	add(mk("i", refcar.CIDv1(refcar.CodecRaw, refcar.MhIdentity, []byte("idn")), []byte("idn")))
	add(mk("i0", refcar.CIDv1(refcar.CodecRaw, refcar.MhIdentity, nil), []byte{}))
	add(mk("ia", refcar.CIDv1(refcar.CodecRaw, refcar.MhIdentity, da), da))
	add(hashed("s", refcar.CodecRaw, refcar.MhSha512, []byte("sha512 block"), 0))
	add(hashed("t", refcar.CodecRaw, refcar.MhSha256, []byte("truncated"), 20))
	add(hashed("k", refcar.CodecRaw, refcar.MhBlake2b256, []byte("blake"), 0))
	// two identity CIDs whose digests share a 16-byte prefix (same width, same code: adjacent
	// records of one index bucket that differ only late in the digest)
	add(mk("ip1", refcar.CIDv1(refcar.CodecRaw, refcar.MhIdentity, []byte("prefix--prefix--B")), []byte("prefix--prefix--B")))
	add(mk("ip2", refcar.CIDv1(refcar.CodecRaw, refcar.MhIdentity, []byte("prefix--prefix--A")), []byte("prefix--prefix--A")))
	// identity CID longer than 40 bytes (over-long when MaxIndexCidSize = 40)
	long := bytes.Repeat([]byte("X"), 60)
	add(mk("X", refcar.CIDv1(refcar.CodecRaw, refcar.MhIdentity, long), long))
	// section length exactly at / one past each varint width boundary
	for _, n := range []int{127, 128, 16383, 16384} {
		add(hashed(fmt.Sprintf("L%d", n), refcar.CodecRaw, refcar.MhSha256, sized(n, byte(n)), 0))
	}
}

// BigBlock builds (not registered) a block with section length n.
func BigBlock(n int) Blk {
	return hashed(fmt.Sprintf("L%d", n), refcar.CodecRaw, refcar.MhSha256, sized(n, byte(n)), 0)
}

// B looks a block up by name; unknown names of the form L<n> are built on demand.
func B(name string) Blk {
	if b, ok := Alpha[name]; ok {
		return b
	}
	if strings.HasPrefix(name, "L") {
		var n int
		fmt.Sscanf(name[1:], "%d", &n)
		if n > 36 {
			return BigBlock(n)
		}
	}
	panic("unknown alphabet block " + name)
}

func Bs(names []string) []Blk {
	out := make([]Blk, len(names))
	for i, n := range names {
		out[i] = B(n)
	}
	return out
}

// Absent is a CID that is never stored.
var Absent = hashed("absent", refcar.CodecRaw, refcar.MhSha256, []byte("never stored"), 0)

// RootSets (by name) — lists of alphabet block names; "nil" means a nil slice.
var RootSets = map[string][]string{
	"nil":    nil,
	"empty":  {},
	"a":      {"a"},
	"aa":     {"a", "a"},
	"a0":     {"a0"},
	"ab":     {"a", "b"},
	"s":      {"s"},
	"absent": {"absent"},
	// headers whose length prefix is 2 and 3 bytes wide (>=128 and >=16384 bytes), and whose CBOR
	// array head changes width (24 roots)
	"r4":   {"a", "b", "c", "s"},
	"aab":  {"a", "a", "b"},
	"r24":  ManyNames(24),
	"r100": ManyNames(100),
	"r400": ManyNames(400),
}
var RootSetOrder = []string{"a", "empty", "nil", "ab", "aa", "a0", "s", "absent"}

// Roots resolves a root-set name. The bool is true for the nil slice.
func Roots(name string) ([]cid.Cid, [][]byte, bool) {
	names, ok := RootSets[name]
	if !ok {
		panic("unknown root set " + name)
	}
	if name == "nil" {
		return nil, nil, true
	}
	cs := []cid.Cid{}
	raws := [][]byte{}
	for _, n := range names {
		var b Blk
		if n == "absent" {
			b = Absent
		} else {
			b = B(n)
		}
		cs = append(cs, b.Cid)
		raws = append(raws, b.Raw)
	}
	return cs, raws, false
}

// Seqs enumerates all sequences over names with length in [0,maxLen], shortest first.
func Seqs(names []string, maxLen int, emit func([]string)) {
	var rec func(cur []string, l int)
	for l := 0; l <= maxLen; l++ {
		rec = func(cur []string, left int) {
			if left == 0 {
				emit(append([]string{}, cur...))
				return
			}
			for _, n := range names {
				rec(append(cur, n), left-1)
			}
		}
		rec(nil, l)
	}
}

// ManyNames returns n names of distinct small blocks (section lengths 40, 41, ...), for
// archives that are larger than any internal buffer or batch size.
func ManyNames(n int) []string {
	out := make([]string, n)
	for i := range out {
		out[i] = fmt.Sprintf("L%d", 40+i)
	}
	return out
}
