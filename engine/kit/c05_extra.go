package kit

// Additional root sets (C05): "abs" makes the CARv1 header body longer than 127 bytes, so its
// length prefix is a two-byte varint; "i" is an identity-CID root. They are not added to
// RootSetOrder, so drivers iterating that list are unaffected.
func init() {
	RootSets["abs"] = []string{"a", "b", "s"}
	RootSets["i"] = []string{"i"}
}
