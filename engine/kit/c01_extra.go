package kit

import (
	"bytes"

	"verif/refcar"
)

// Additional alphabet blocks and root sets used by C01 only. The blocks are registered in
// Alpha (so that B resolves them) but NOT in AlphaOrder: the properties that enumerate
// AlphaOrder keep their alphabet.
//
//	j     dag-json (codec 0x0129: a two-byte codec varint), sha2-256
//	I200  identity CID with a 200-byte digest (two-byte digest-length varint); only stored
//	      under StoreIdentityCIDs
//
// Root sets:
//
//	i, a', t, j   a single identity / dag-cbor / truncated-digest / two-byte-codec root
//	r3            3 roots:   header body of 140 bytes (two-byte length prefix)
//	r24           24 roots:  header body of 1002 bytes; the CBOR array head switches to its two-byte form
//	r100          100 roots: header body of 4118 bytes (longer than a 4 KiB bufio buffer)
//	r400          400 roots: header body of 16419 bytes (three-byte length prefix, three-byte array head)
var C01RootSetsSmall = []string{"i", "a'", "t", "j"}
var C01RootSetsLarge = []string{"r3", "r24", "r100", "r400"}

func init() {
	jb := hashed("j", 0x0129, refcar.MhSha256, []byte(`{"j":1}`), 0)
	Alpha[jb.Name] = jb
	long := bytes.Repeat([]byte("0123456789"), 20)
	Alpha["I200"] = mk("I200", refcar.CIDv1(refcar.CodecRaw, refcar.MhIdentity, long), long)

	RootSets["i"] = []string{"i"}
	RootSets["a'"] = []string{"a'"}
	RootSets["t"] = []string{"t"}
	RootSets["j"] = []string{"j"}
	RootSets["r3"] = []string{"a", "b", "c"}
	many := ManyNames(400)
	RootSets["r24"] = many[:24]
	RootSets["r100"] = many[:100]
	RootSets["r400"] = many
}
