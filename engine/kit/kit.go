// Package kit is the shared runner: case enumeration, parallel execution on the real
// implementation, violation bookkeeping (signature, replay file, 5x re-execution, known
// findings) and evidence writing.
package kit

import (
	"bufio"
	"crypto/sha256"
	"encoding/hex"
	"encoding/json"
	"fmt"
	"os"
	"path/filepath"
	"runtime"
	"runtime/debug"
	"sort"
	"strconv"
	"strings"
	"sync"
	"sync/atomic"
	"time"
)

// VerifDir is /verif; VERIF_DIR overrides it for scratch copies of the harness used during development.
var VerifDir = func() string {
	if d := os.Getenv("VERIF_DIR"); d != "" {
		return d
	}
	return "/verif"
}()

// Prop is one property driver.
type Prop struct {
	ID string
	// Gen enumerates every case of the bounded space for the tier, simplest first.
	Gen func(tier string, emit func(c any))
	// Run executes one case against the implementation and reports through x.
	Run func(c any, x *Ctx)
	// Decode turns a replay file's case back into the driver's case type.
	Decode func(raw json.RawMessage) (any, error)
	// Rule describes enumeration and what counts as non-trivial.
	Rule string
	// Bound is recorded verbatim in the evidence (per tier).
	Bound func(tier string) map[string]any
	// Assumptions recorded in evidence.
	Assumptions []string
	// Parallel = number of concurrent cases (0 = NumCPU).
	Parallel int
	// Setup runs once before the cases (e.g. build the CLI binary).
	Setup func(tier string) error
	// CaseTimeout bounds one case (default 15 minutes; negative = no bound). It is not a performance oracle:
	// cases take milliseconds to a few minutes, and a case that is still running after this long is a
	// non-termination of the code under test (or of the harness), reported as a violation "hang:<site>".
	CaseTimeout time.Duration
	// SamplingSigPrefix marks signatures produced by a sampling complement (e.g. a free-running
	// race-detector pass): they are confirmed if any signature with that prefix re-occurs in
	// at least one of the 5 re-executions, instead of the identical signature in all 5.
	SamplingSigPrefix string
	// Finish may add extra coverage keys after all cases ran.
	Finish func(tier string, extra map[string]any)
}

var props = map[string]*Prop{}

func Register(p *Prop)       { props[p.ID] = p }
func Lookup(id string) *Prop { return props[id] }
func IDs() []string {
	var out []string
	for k := range props {
		out = append(out, k)
	}
	sort.Strings(out)
	return out
}

func DecodeAs[T any](raw json.RawMessage) (any, error) {
	var v T
	if err := json.Unmarshal(raw, &v); err != nil {
		return nil, err
	}
	return v, nil
}

// Violation is one failing case.
type Violation struct {
	Sig  string `json:"signature"`
	Msg  string `json:"message"`
	Case any    `json:"case"`
}

// Ctx is handed to Run for one case. Not shared between goroutines.
type Ctx struct {
	run     *run
	Case    any
	Dir     string // private scratch dir on /dev/shm for this worker
	fails   []Violation
	seenSig map[string]bool
	w       *wstate
	Quiet   bool // replay-verification mode: do not count
}

type wstate struct {
	states      map[uint64]struct{}
	nontrivial  map[uint64]struct{}
	outcomes    map[string]int64
	transitions int64
	evals       int64
	extra       map[string]int64
	stateExtra  int64
	notes       map[string]any
}

func newW() *wstate {
	return &wstate{states: map[uint64]struct{}{}, nontrivial: map[uint64]struct{}{}, outcomes: map[string]int64{}, extra: map[string]int64{}, notes: map[string]any{}}
}

func h64(s string) uint64 {
	h := sha256.Sum256([]byte(s))
	var x uint64
	for i := 0; i < 8; i++ {
		x = x<<8 | uint64(h[i])
	}
	return x
}

// State records a distinct canonical state / case key.
func (x *Ctx) State(key string) bool {
	k := h64(key)
	if _, ok := x.w.states[k]; ok {
		return false
	}
	x.w.states[k] = struct{}{}
	return true
}

// AddStates counts states that are known to be distinct without hashing them here
// (e.g. schedules enumerated by an explorer subprocess).
func (x *Ctx) AddStates(n int) { x.w.stateExtra += int64(n) }

// Note attaches a per-case detail record to the evidence (coverage.details).
func (x *Ctx) Note(key string, v any) { x.w.notes[key] = v }

// NotExhaustive records that a cap was hit: the run is reported with exhaustive:false.
func (x *Ctx) NotExhaustive(why string) { x.w.notes["cap: "+why] = true; x.w.extra["caps_hit"]++ }

// Transition counts implementation calls that move between states.
func (x *Ctx) Transition(n int) { x.w.transitions += int64(n) }

// Eval counts one execution against the implementation.
func (x *Ctx) Eval(n int) { x.w.evals += int64(n) }

// Nontrivial records a distinct non-trivial case key (see the driver's Rule).
func (x *Ctx) Nontrivial(key string) { x.w.nontrivial[h64(key)] = struct{}{} }

// Outcome counts an observed outcome class (for vacuity detection).
func (x *Ctx) Outcome(key string) { x.w.outcomes[key]++ }

// Count bumps a free-form counter that lands in coverage.
func (x *Ctx) Count(key string, n int) { x.w.extra[key] += int64(n) }

// Fail reports a violation of the property for this case. sig identifies the class of
// failure (call site / crash-point class / input class), used for known-finding matching.
func (x *Ctx) Fail(sig, format string, args ...any) {
	if x.seenSig == nil {
		x.seenSig = map[string]bool{}
	}
	if x.seenSig[sig] {
		return
	}
	x.seenSig[sig] = true
	x.fails = append(x.fails, Violation{Sig: sig, Msg: fmt.Sprintf(format, args...), Case: x.Case})
}

// FailCase is Fail with an explicit (more specific) replay case.
func (x *Ctx) FailCase(c any, sig, format string, args ...any) {
	if x.seenSig == nil {
		x.seenSig = map[string]bool{}
	}
	if x.seenSig[sig] {
		return
	}
	x.seenSig[sig] = true
	x.fails = append(x.fails, Violation{Sig: sig, Msg: fmt.Sprintf(format, args...), Case: c})
}

func (x *Ctx) Failed() bool { return len(x.fails) > 0 }

type run struct {
	p     *Prop
	tier  string
	seed  int64
	start time.Time

	mu         sync.Mutex
	violations map[string][]Violation // by signature
	samples    []any
	cases      int64
}

type known struct {
	Property, Signature, What string
}

func loadKnown(id string) ([]known, []string) {
	f, err := os.Open(filepath.Join(VerifDir, "KNOWN_FINDINGS.txt"))
	if err != nil {
		return nil, nil
	}
	defer f.Close()
	var out []known
	var fixed []string
	sc := bufio.NewScanner(f)
	for sc.Scan() {
		line := strings.TrimSpace(sc.Text())
		if strings.HasPrefix(line, "fixed:") {
			if strings.Contains(line, "property="+id+" ") {
				fixed = append(fixed, line)
			}
			continue
		}
		if !strings.HasPrefix(line, "known:") {
			continue
		}
		rest := strings.TrimSpace(strings.TrimPrefix(line, "known:"))
		fs := strings.Fields(rest)
		k := known{}
		var what []string
		for _, f := range fs {
			switch {
			case strings.HasPrefix(f, "property=") && k.Property == "":
				k.Property = strings.TrimPrefix(f, "property=")
			case strings.HasPrefix(f, "signature=") && k.Signature == "":
				k.Signature = strings.TrimPrefix(f, "signature=")
			default:
				what = append(what, f)
			}
		}
		k.What = strings.Join(what, " ")
		if k.Property == id && k.Signature != "" {
			out = append(out, k)
		}
	}
	return out, fixed
}

func sigMatches(pattern, sig string) bool {
	if strings.HasSuffix(pattern, "*") {
		return strings.HasPrefix(sig, strings.TrimSuffix(pattern, "*"))
	}
	return pattern == sig
}

func scratchRoot() string {
	base := "/dev/shm"
	if st, err := os.Stat(base); err != nil || !st.IsDir() {
		base = os.TempDir()
	}
	return filepath.Join(base, fmt.Sprintf("verif-%d", os.Getpid()))
}

// Main runs property id in the given tier and returns the process exit code.
func Main(id, tier string, replayPath string) int {
	p := props[id]
	if p == nil {
		fmt.Fprintf(os.Stderr, "unknown property %s\n", id)
		return 2
	}
	seed := int64(0)
	if s := os.Getenv("VERIF_SEED"); s != "" {
		seed, _ = strconv.ParseInt(s, 10, 64)
	}
	if os.Getenv("GOGC") == "" {
		debug.SetGCPercent(800) // many small short-lived allocations; the default setting serialises the workers on GC
	}
	root := scratchRoot()
	os.MkdirAll(root, 0o755)
	defer os.RemoveAll(root)

	if p.Setup != nil {
		if err := p.Setup(tier); err != nil {
			fmt.Fprintf(os.Stderr, "setup failed: %v\n", err)
			return 2
		}
	}

	if replayPath != "" {
		return replay(p, replayPath, root)
	}

	r := &run{p: p, tier: tier, seed: seed, start: time.Now(), violations: map[string][]Violation{}}
	nw := p.Parallel
	if nw <= 0 {
		nw = runtime.NumCPU()
	}
	if s := os.Getenv("VERIF_WORKERS"); s != "" {
		if n, err := strconv.Atoi(s); err == nil && n > 0 {
			nw = n
		}
	}
	caseTimeout := p.CaseTimeout
	if caseTimeout == 0 {
		caseTimeout = 15 * time.Minute
	}
	if s := os.Getenv("VERIF_CASE_TIMEOUT"); s != "" {
		if d, err := time.ParseDuration(s); err == nil {
			caseTimeout = d
		}
	}
	var hung int32
	ch := make(chan any, 4*nw)
	ws := make([]*wstate, nw)
	var wg sync.WaitGroup
	var caseCount int64
	for i := 0; i < nw; i++ {
		ws[i] = newW()
		wg.Add(1)
		go func(i int) {
			defer wg.Done()
			dir := filepath.Join(root, fmt.Sprintf("w%d", i))
			os.MkdirAll(dir, 0o755)
			for c := range ch {
				if atomic.LoadInt32(&hung) != 0 {
					continue // a case hung: the remaining cases are drained, the run is reported as not exhaustive
				}
				x := &Ctx{run: r, Case: c, Dir: dir, w: ws[i]}
				if !runCaseBounded(p, c, x, caseTimeout) {
					// the case goroutine is abandoned together with its worker state and scratch directory
					atomic.StoreInt32(&hung, 1)
					r.mu.Lock()
					ws[i] = newW()
					ws[i].notes["cap: a case did not terminate; the cases after it were not run"] = true
					ws[i].extra["caps_hit"]++
					r.mu.Unlock()
					dir = filepath.Join(root, fmt.Sprintf("w%d-after-hang", i))
					os.MkdirAll(dir, 0o755)
				}
				n := atomic.AddInt64(&caseCount, 1)
				if len(x.fails) > 0 || n <= 3 {
					r.mu.Lock()
					if n <= 3 {
						r.samples = append(r.samples, c)
					}
					for _, v := range x.fails {
						if len(r.violations[v.Sig]) < 3 {
							r.violations[v.Sig] = append(r.violations[v.Sig], v)
						} else {
							r.violations[v.Sig][0].Msg = r.violations[v.Sig][0].Msg // keep first
						}
					}
					r.mu.Unlock()
				}
			}
		}(i)
	}
	var lastCase any
	p.Gen(tier, func(c any) { lastCase = c; ch <- c })
	close(ch)
	wg.Wait()
	if lastCase != nil {
		r.samples = append(r.samples, lastCase)
	}
	r.cases = caseCount

	// merge worker state
	states := map[uint64]struct{}{}
	nontriv := map[uint64]struct{}{}
	outcomes := map[string]int64{}
	extra := map[string]int64{}
	var transitions, evals, stateExtra int64
	notes := map[string]any{}
	for _, w := range ws {
		stateExtra += w.stateExtra
		for k, v := range w.notes {
			notes[k] = v
		}
		for k := range w.states {
			states[k] = struct{}{}
		}
		for k := range w.nontrivial {
			nontriv[k] = struct{}{}
		}
		for k, v := range w.outcomes {
			outcomes[k] += v
		}
		for k, v := range w.extra {
			extra[k] += v
		}
		transitions += w.transitions
		evals += w.evals
	}

	// classify violations
	kn, fixed := loadKnown(id)
	_ = fixed
	var sigs []string
	for s := range r.violations {
		sigs = append(sigs, s)
	}
	sort.Strings(sigs)
	exit := 0
	var knownSeen, unconfirmed []string
	newViol := 0
	os.MkdirAll(filepath.Join(VerifDir, "replays"), 0o755)
	for _, s := range sigs {
		v := r.violations[s][0]
		// re-execute 5x before believing it
		ok, why := confirm(p, v, root)
		if !ok {
			if p.SamplingSigPrefix != "" && strings.HasPrefix(s, p.SamplingSigPrefix) {
				// A report of the sampling complement (a free-running pass, not the deciding exhaustive
				// step) that 5 further runs do not show again is not believed and not counted: it is
				// noted in the evidence. The exhaustive exploration of the same scenario stands.
				fmt.Printf("UNCONFIRMED-SAMPLE property=%s signature=%s (sampling complement; not reproduced in 5 re-executions; not counted)\n", id, s)
				unconfirmed = append(unconfirmed, s)
				continue
			}
			fmt.Printf("HARNESS-ERROR property=%s signature=%s not reproducible: %s\n", id, s, why)
			if exit == 0 {
				exit = 2
			}
			continue
		}
		matched := false
		for _, k := range kn {
			if sigMatches(k.Signature, s) {
				fmt.Printf("KNOWN-FINDING: property=%s signature=%s %s\n", id, s, k.What)
				knownSeen = append(knownSeen, s)
				matched = true
				break
			}
		}
		if matched {
			continue
		}
		path := writeReplay(id, v)
		newViol++
		if newViol <= 12 {
			fmt.Printf("VIOLATION property=%s replay=%s\n", id, path)
			msg := v.Msg
			if len(msg) > 600 {
				msg = msg[:600] + "..."
			}
			fmt.Printf("  signature=%s\n  %s\n", s, msg)
		} else if newViol == 13 {
			fmt.Printf("(further violations are listed by signature only; replay files are under /verif/replays)\n")
			fmt.Printf("  signature=%s\n", s)
		} else {
			fmt.Printf("  signature=%s\n", s)
		}
		// a violation that reproduced 5 times out of 5 stands, whatever else did not reproduce
		exit = 1
	}

	// evidence
	cov := map[string]any{
		"states":                        int64(len(states)) + stateExtra,
		"transitions":                   transitions,
		"traces_validated_against_impl": evals,
		"evaluations":                   evals,
		"cases":                         caseCount,
		"distinct_nontrivial":           len(nontriv),
		"rule":                          p.Rule,
		"samples":                       r.samples,
		"exhaustive":                    true,
		"distinct_outcomes":             len(outcomes),
		"outcomes":                      topOutcomes(outcomes, 40),
		"known_findings_seen":           knownSeen,
		"unconfirmed_sampling_reports":  unconfirmed,
	}
	if len(states) == 0 && stateExtra == 0 {
		cov["states"] = caseCount
	}
	if len(notes) > 0 {
		cov["details"] = notes
	}
	if transitions == 0 {
		cov["transitions"] = evals
	}
	for k, v := range extra {
		cov[k] = v
	}
	if extra["caps_hit"] > 0 {
		cov["exhaustive"] = false
	}
	if p.Bound != nil {
		cov["bound"] = p.Bound(tier)
	}
	ex := map[string]any{}
	if p.Finish != nil {
		p.Finish(tier, ex)
	}
	for k, v := range ex {
		cov[k] = v
	}
	if len(r.samples) == 0 {
		cov["samples"] = []any{"(no cases)"}
	}
	ev := map[string]any{
		"property_id": id,
		"tier":        tier,
		"seed":        seed,
		"level":       "model_checking",
		"coverage":    cov,
		"assumptions": p.Assumptions,
		"wall_s":      time.Since(r.start).Seconds(),
		"violations":  newViol,
	}
	os.MkdirAll(filepath.Join(VerifDir, "evidence"), 0o755)
	b, _ := json.MarshalIndent(ev, "", " ")
	if err := os.WriteFile(filepath.Join(VerifDir, "evidence", id+".json"), b, 0o644); err != nil {
		fmt.Fprintf(os.Stderr, "cannot write evidence: %v\n", err)
		return 2
	}
	fmt.Printf("%s %s: cases=%d executions=%d states=%v transitions=%v nontrivial=%d outcomes=%d violations=%d known=%d wall=%.1fs\n",
		id, tier, caseCount, evals, cov["states"], cov["transitions"], len(nontriv), len(outcomes), newViol, len(knownSeen), time.Since(r.start).Seconds())
	return exit
}

func topOutcomes(m map[string]int64, n int) map[string]int64 {
	type kv struct {
		k string
		v int64
	}
	var l []kv
	for k, v := range m {
		l = append(l, kv{k, v})
	}
	sort.Slice(l, func(i, j int) bool { return l[i].v > l[j].v || (l[i].v == l[j].v && l[i].k < l[j].k) })
	out := map[string]int64{}
	for i, e := range l {
		if i >= n {
			break
		}
		out[e.k] = e.v
	}
	return out
}

// runCaseBounded runs one case and reports false when it is still running after the bound; the goroutine
// is then abandoned and a violation "hang:<site>" with the stacks of the case is recorded.
func runCaseBounded(p *Prop, c any, x *Ctx, bound time.Duration) bool {
	if bound < 0 {
		runCase(p, c, x)
		return true
	}
	done := make(chan struct{})
	go func() { defer close(done); runCase(p, c, x) }()
	t := time.NewTimer(bound)
	defer t.Stop()
	select {
	case <-done:
		return true
	case <-t.C:
	}
	buf := make([]byte, 1<<20)
	buf = buf[:runtime.Stack(buf, true)]
	site, excerpt := "unknown", ""
	for _, g := range strings.Split(string(buf), "\n\n") {
		if strings.Contains(g, "kit.runCase(") && !strings.Contains(g, "kit.runCaseBounded(") {
			site = panicSite(g)
			excerpt = g
			if len(excerpt) > 3000 {
				excerpt = excerpt[:3000] + "..."
			}
			break
		}
	}
	// a fresh Ctx carries the report: the abandoned goroutine still owns x
	x2 := &Ctx{run: x.run, Case: c, Dir: x.Dir, w: newW()}
	x2.Fail("hang:"+site, "the case did not terminate within %v\n%s", bound, excerpt)
	x.fails = append(x.fails[:0:0], x2.fails...)
	return false
}

func runCase(p *Prop, c any, x *Ctx) {
	defer func() {
		if rec := recover(); rec != nil {
			st := string(debug.Stack())
			x.Fail("panic:"+panicSite(st), "panic: %v\n%s", rec, st)
		}
	}()
	p.Run(c, x)
}

// panicSite extracts the first go-car frame of a stack for use in a signature.
func panicSite(st string) string {
	lines := strings.Split(st, "\n")
	for _, l := range lines {
		l = strings.TrimSpace(l)
		if strings.HasPrefix(l, "github.com/ipld/go-car") {
			if i := strings.Index(l, "("); i > 0 {
				l = l[:i]
			}
			return l
		}
	}
	return "unknown"
}

func roundTrip(p *Prop, c any) (any, error) {
	b, err := json.Marshal(c)
	if err != nil {
		return nil, err
	}
	return p.Decode(b)
}

func confirm(p *Prop, v Violation, root string) (bool, string) {
	c, err := roundTrip(p, v.Case)
	if err != nil {
		return false, "case does not survive JSON: " + err.Error()
	}
	if strings.HasPrefix(v.Sig, "hang:") {
		// re-executing a case that does not terminate would take the bound five times over; the bound is
		// orders of magnitude above the duration of any case
		return true, ""
	}
	dir := filepath.Join(root, "confirm")
	os.MkdirAll(dir, 0o755)
	sampling := p.SamplingSigPrefix != "" && strings.HasPrefix(v.Sig, p.SamplingSigPrefix)
	hits := 0
	for i := 0; i < 5; i++ {
		x := &Ctx{Case: c, Dir: dir, w: newW(), Quiet: true}
		runCase(p, c, x)
		found := false
		for _, f := range x.fails {
			if f.Sig == v.Sig || (sampling && strings.HasPrefix(f.Sig, p.SamplingSigPrefix)) {
				found = true
			}
		}
		if found {
			hits++
			if sampling {
				return true, ""
			}
			continue
		}
		if sampling {
			continue
		}
		var got []string
		for _, f := range x.fails {
			got = append(got, f.Sig)
		}
		return false, fmt.Sprintf("re-execution %d gave signatures %v", i+1, got)
	}
	if sampling && hits == 0 {
		return false, "sampling complement did not reproduce the report in 5 re-executions"
	}
	return true, ""
}

func writeReplay(id string, v Violation) string {
	b, _ := json.MarshalIndent(map[string]any{"property": id, "signature": v.Sig, "message": v.Msg, "case": v.Case}, "", " ")
	h := sha256.Sum256([]byte(id + v.Sig))
	path := filepath.Join(VerifDir, "replays", fmt.Sprintf("%s-%s.json", id, hex.EncodeToString(h[:6])))
	os.WriteFile(path, b, 0o644)
	return path
}

func replay(p *Prop, path, root string) int {
	b, err := os.ReadFile(path)
	if err != nil {
		fmt.Fprintln(os.Stderr, err)
		return 2
	}
	var rf struct {
		Signature string          `json:"signature"`
		Case      json.RawMessage `json:"case"`
	}
	if err := json.Unmarshal(b, &rf); err != nil {
		fmt.Fprintln(os.Stderr, err)
		return 2
	}
	c, err := p.Decode(rf.Case)
	if err != nil {
		fmt.Fprintln(os.Stderr, err)
		return 2
	}
	dir := filepath.Join(root, "replay")
	os.MkdirAll(dir, 0o755)
	x := &Ctx{Case: c, Dir: dir, w: newW()}
	runCase(p, c, x)
	if len(x.fails) == 0 {
		fmt.Printf("replay %s: property held\n", path)
		return 0
	}
	for _, f := range x.fails {
		fmt.Printf("VIOLATION property=%s replay=%s\n  signature=%s\n  %s\n", p.ID, path, f.Sig, f.Msg)
	}
	return 1
}

// ScratchCtx returns a context that only counts locally (for use by generators that need
// to run the implementation once to learn the shape of the space).
func ScratchCtx(dir string) *Ctx { return &Ctx{Dir: dir, w: newW(), Quiet: true} }
