// Package verifbridge exists only in the verification build (go build -overlay): it
// re-exports internal go-car packages that the harness needs to drive directly.
package verifbridge

import (
	"io"

	"github.com/ipld/go-car/v2/internal/carv1"
	internalio "github.com/ipld/go-car/v2/internal/io"
)

type CarV1Reader = carv1.CarReader
type CarV1Header = carv1.CarHeader
type CarV1Store = carv1.Store

func NewCarV1Reader(r io.Reader) (*carv1.CarReader, error) { return carv1.NewCarReader(r) }
func NewCarV1ReaderZeroEOF(r io.Reader) (*carv1.CarReader, error) {
	return carv1.NewCarReaderWithZeroLengthSectionAsEOF(r)
}
func NewCarV1ReaderWithoutDefaults(r io.Reader, zeroLenAsEOF bool, maxHeader, maxSection uint64) (*carv1.CarReader, error) {
	return carv1.NewCarReaderWithoutDefaults(r, zeroLenAsEOF, maxHeader, maxSection)
}
func LoadCarV1(s carv1.Store, r io.Reader) (*carv1.CarHeader, error) { return carv1.LoadCar(s, r) }
func ReadHeaderV1(r io.Reader, max uint64) (*carv1.CarHeader, error) { return carv1.ReadHeader(r, max) }

// SetWriteHook installs the write seam hook (only exists with -tags verif).
func SetWriteHook(h func(w io.WriterAt, p []byte, off int64) (n int, err error, handled bool)) {
	internalio.VerifWriteHook = h
}
