// Package refcar is an independent reference codec for the CARv1/CARv2 container
// formats and the two on-disk index codecs. It shares no code with go-car (nor with
// go-cid / go-multihash / go-varint): it is the oracle side of every byte-level check.
package refcar

import (
	"bytes"
	"crypto/sha256"
	"crypto/sha512"
	"encoding/binary"
	"errors"
	"fmt"
	"sort"

	"golang.org/x/crypto/blake2b"
)

// ---------------------------------------------------------------- varint

func PutUvarint(x uint64) []byte {
	var out []byte
	for x >= 0x80 {
		out = append(out, byte(x)|0x80)
		x >>= 7
	}
	return append(out, byte(x))
}

func UvarintSize(x uint64) int { return len(PutUvarint(x)) }

var (
	ErrVarintShort      = errors.New("refcar: varint truncated")
	ErrVarintNotMinimal = errors.New("refcar: varint not minimal")
	ErrVarintTooLong    = errors.New("refcar: varint too long")
)

// Uvarint decodes a minimal unsigned varint of at most 9 bytes.
func Uvarint(b []byte) (uint64, int, error) {
	var x uint64
	var s uint
	for i := 0; ; i++ {
		if i >= len(b) {
			return 0, 0, ErrVarintShort
		}
		if i == 9 {
			return 0, 0, ErrVarintTooLong
		}
		c := b[i]
		if c < 0x80 {
			if c == 0 && i > 0 {
				return 0, 0, ErrVarintNotMinimal
			}
			return x | uint64(c)<<s, i + 1, nil
		}
		x |= uint64(c&0x7f) << s
		s += 7
	}
}

// ---------------------------------------------------------------- multihash / CID

const (
	MhIdentity   = 0x00
	MhSha256     = 0x12
	MhSha512     = 0x13
	MhBlake2b256 = 0xb220

	CodecRaw     = 0x55
	CodecDagPB   = 0x70
	CodecDagCBOR = 0x71
)

// Digest computes the full digest for a known hash function.
func Digest(mhcode uint64, data []byte) ([]byte, error) {
	switch mhcode {
	case MhIdentity:
		return append([]byte{}, data...), nil
	case MhSha256:
		h := sha256.Sum256(data)
		return h[:], nil
	case MhSha512:
		h := sha512.Sum512(data)
		return h[:], nil
	case MhBlake2b256:
		h := blake2b.Sum256(data)
		return h[:], nil
	}
	return nil, fmt.Errorf("refcar: unknown hash function 0x%x", mhcode)
}

type CIDInfo struct {
	Version uint64
	Codec   uint64
	MhCode  uint64
	Digest  []byte
	Len     int // encoded length
}

// Multihash returns the encoded multihash of the CID.
func (c CIDInfo) Multihash() []byte {
	out := PutUvarint(c.MhCode)
	out = append(out, PutUvarint(uint64(len(c.Digest)))...)
	return append(out, c.Digest...)
}

func CIDv1(codec, mhcode uint64, digest []byte) []byte {
	out := []byte{1}
	out = append(out, PutUvarint(codec)...)
	out = append(out, PutUvarint(mhcode)...)
	out = append(out, PutUvarint(uint64(len(digest)))...)
	return append(out, digest...)
}

func CIDv0(digest32 []byte) []byte {
	if len(digest32) != 32 {
		panic("CIDv0 needs a 32-byte digest")
	}
	return append([]byte{0x12, 0x20}, digest32...)
}

// ParseCID splits a CID off the front of b.
func ParseCID(b []byte) (CIDInfo, error) {
	if len(b) >= 2 && b[0] == 0x12 && b[1] == 0x20 {
		if len(b) < 34 {
			return CIDInfo{}, errors.New("refcar: truncated CIDv0")
		}
		return CIDInfo{Version: 0, Codec: CodecDagPB, MhCode: MhSha256, Digest: b[2:34], Len: 34}, nil
	}
	pos := 0
	next := func() (uint64, error) {
		v, n, err := Uvarint(b[pos:])
		if err != nil {
			return 0, err
		}
		pos += n
		return v, nil
	}
	ver, err := next()
	if err != nil {
		return CIDInfo{}, err
	}
	if ver != 1 {
		return CIDInfo{}, fmt.Errorf("refcar: bad CID version %d", ver)
	}
	codec, err := next()
	if err != nil {
		return CIDInfo{}, err
	}
	mhc, err := next()
	if err != nil {
		return CIDInfo{}, err
	}
	mhl, err := next()
	if err != nil {
		return CIDInfo{}, err
	}
	if mhl > uint64(len(b)-pos) {
		return CIDInfo{}, errors.New("refcar: truncated CID digest")
	}
	return CIDInfo{Version: 1, Codec: codec, MhCode: mhc, Digest: b[pos : pos+int(mhl)], Len: pos + int(mhl)}, nil
}

// VerifyBlock reports whether data hashes to the CID under the CID's own function
// (a shorter digest than the function's output is a truncation, as multihash defines).
func VerifyBlock(cidBytes, data []byte) (bool, error) {
	ci, err := ParseCID(cidBytes)
	if err != nil {
		return false, err
	}
	full, err := Digest(ci.MhCode, data)
	if err != nil {
		return false, err
	}
	if ci.MhCode == MhIdentity {
		return bytes.Equal(full, ci.Digest), nil
	}
	if len(ci.Digest) > len(full) || len(ci.Digest) == 0 {
		return false, nil
	}
	return bytes.Equal(full[:len(ci.Digest)], ci.Digest), nil
}

// ---------------------------------------------------------------- CARv1

type Block struct {
	Cid  []byte
	Data []byte
}

// EncodeHeaderBody is the dag-cbor map {roots, version}. nilRoots encodes the roots as
// CBOR null (what go-car does for a nil slice); otherwise an array.
func EncodeHeaderBody(roots [][]byte, nilRoots bool, version uint64) []byte {
	var b []byte
	b = append(b, 0xa2, 0x65, 'r', 'o', 'o', 't', 's')
	if nilRoots && len(roots) == 0 {
		b = append(b, 0xf6)
	} else {
		b = append(b, cborHead(4, uint64(len(roots)))...)
		for _, r := range roots {
			b = append(b, 0xd8, 0x2a)
			b = append(b, cborHead(2, uint64(len(r)+1))...)
			b = append(b, 0x00)
			b = append(b, r...)
		}
	}
	b = append(b, 0x67, 'v', 'e', 'r', 's', 'i', 'o', 'n')
	b = append(b, cborHead(0, version)...)
	return b
}

func cborHead(major byte, n uint64) []byte {
	m := major << 5
	switch {
	case n < 24:
		return []byte{m | byte(n)}
	case n < 1<<8:
		return []byte{m | 24, byte(n)}
	case n < 1<<16:
		return []byte{m | 25, byte(n >> 8), byte(n)}
	case n < 1<<32:
		return []byte{m | 26, byte(n >> 24), byte(n >> 16), byte(n >> 8), byte(n)}
	}
	out := []byte{m | 27, 0, 0, 0, 0, 0, 0, 0, 0}
	binary.BigEndian.PutUint64(out[1:], n)
	return out
}

// EncodeHeader is the length-prefixed CARv1 header.
func EncodeHeader(roots [][]byte, nilRoots bool) []byte {
	body := EncodeHeaderBody(roots, nilRoots, 1)
	return append(PutUvarint(uint64(len(body))), body...)
}

func EncodeSection(b Block) []byte {
	out := PutUvarint(uint64(len(b.Cid) + len(b.Data)))
	out = append(out, b.Cid...)
	return append(out, b.Data...)
}

func EncodeV1(roots [][]byte, nilRoots bool, blocks []Block) []byte {
	out := EncodeHeader(roots, nilRoots)
	for _, b := range blocks {
		out = append(out, EncodeSection(b)...)
	}
	return out
}

// cbor reader ------------------------------------------------------------

type cborR struct {
	b   []byte
	pos int
}

func (r *cborR) head() (major byte, n uint64, err error) {
	if r.pos >= len(r.b) {
		return 0, 0, errors.New("refcar: cbor truncated")
	}
	c := r.b[r.pos]
	r.pos++
	major = c >> 5
	ai := c & 0x1f
	switch {
	case ai < 24:
		return major, uint64(ai), nil
	case ai == 24, ai == 25, ai == 26, ai == 27:
		w := 1 << (ai - 24)
		if r.pos+w > len(r.b) {
			return 0, 0, errors.New("refcar: cbor truncated")
		}
		for i := 0; i < w; i++ {
			n = n<<8 | uint64(r.b[r.pos+i])
		}
		r.pos += w
		return major, n, nil
	}
	return major, uint64(ai), fmt.Errorf("refcar: cbor additional info %d", ai)
}

type Header struct {
	Roots    [][]byte
	RootsNil bool
	HasRoots bool
	Version  uint64
	HasVer   bool
}

// DecodeHeaderBody decodes a strict dag-cbor header map (keys roots and/or version).
func DecodeHeaderBody(b []byte) (Header, error) {
	var h Header
	r := &cborR{b: b}
	maj, n, err := r.head()
	if err != nil {
		return h, err
	}
	if maj != 5 {
		return h, errors.New("refcar: header is not a map")
	}
	for i := uint64(0); i < n; i++ {
		km, kl, err := r.head()
		if err != nil {
			return h, err
		}
		if km != 3 || r.pos+int(kl) > len(b) || kl > 64 {
			return h, errors.New("refcar: bad header key")
		}
		key := string(b[r.pos : r.pos+int(kl)])
		r.pos += int(kl)
		switch key {
		case "roots":
			if h.HasRoots {
				return h, errors.New("refcar: duplicate roots")
			}
			h.HasRoots = true
			if r.pos < len(b) && b[r.pos] == 0xf6 {
				r.pos++
				h.RootsNil = true
				continue
			}
			am, an, err := r.head()
			if err != nil {
				return h, err
			}
			if am != 4 {
				return h, errors.New("refcar: roots is not an array")
			}
			if an > uint64(len(b)) {
				return h, errors.New("refcar: roots array too long")
			}
			for j := uint64(0); j < an; j++ {
				tm, tn, err := r.head()
				if err != nil {
					return h, err
				}
				if tm != 6 || tn != 42 {
					return h, errors.New("refcar: root is not a link")
				}
				bm, bl, err := r.head()
				if err != nil {
					return h, err
				}
				if bm != 2 || bl < 1 || r.pos+int(bl) > len(b) || bl > uint64(len(b)) {
					return h, errors.New("refcar: bad link bytes")
				}
				if b[r.pos] != 0 {
					return h, errors.New("refcar: link without identity multibase prefix")
				}
				cb := b[r.pos+1 : r.pos+int(bl)]
				ci, err := ParseCID(cb)
				if err != nil || ci.Len != len(cb) {
					return h, errors.New("refcar: bad root CID")
				}
				h.Roots = append(h.Roots, cb)
				r.pos += int(bl)
			}
		case "version":
			if h.HasVer {
				return h, errors.New("refcar: duplicate version")
			}
			vm, vn, err := r.head()
			if err != nil {
				return h, err
			}
			if vm != 0 {
				return h, errors.New("refcar: version is not a uint")
			}
			h.Version = vn
			h.HasVer = true
		default:
			return h, fmt.Errorf("refcar: unknown header key %q", key)
		}
	}
	if r.pos != len(b) {
		return h, errors.New("refcar: trailing bytes in header")
	}
	if !h.HasVer {
		return h, errors.New("refcar: header without version")
	}
	return h, nil
}

type Section struct {
	Offset uint64 // of the length varint, relative to payload start
	Len    uint64 // total bytes including the varint
	Cid    []byte
	Info   CIDInfo
	Data   []byte
}

type Payload struct {
	Header     Header
	HeaderLen  uint64 // including its varint
	Sections   []Section
	End        uint64 // bytes consumed (payload-relative)
	NullPadded bool   // stopped at a zero-length section (only if zeroLenAsEOF)
	HeaderOK   bool   // header body decoded strictly, version 1, roots present
}

// DecodePayload strictly scans a CARv1 payload (the whole of p must be consumed unless a
// zero-length section is met and zeroLenAsEOF is set). Block hashes are verified when verify.
func DecodePayload(p []byte, zeroLenAsEOF, verify bool) (*Payload, error) {
	return decodePayload(p, zeroLenAsEOF, verify, false)
}

// ScanPayload is the lenient variant: the header is only skipped by its length prefix
// (its body is decoded when possible, HeaderOK tells), the sections are scanned strictly.
func ScanPayload(p []byte, zeroLenAsEOF, verify bool) (*Payload, error) {
	return decodePayload(p, zeroLenAsEOF, verify, true)
}

func decodePayload(p []byte, zeroLenAsEOF, verify, lenientHeader bool) (*Payload, error) {
	out := &Payload{}
	hl, n, err := Uvarint(p)
	if err != nil {
		return nil, fmt.Errorf("header length: %w", err)
	}
	if hl > uint64(len(p)-n) {
		return nil, errors.New("refcar: header truncated")
	}
	h, err := DecodeHeaderBody(p[n : n+int(hl)])
	if !lenientHeader {
		if err != nil {
			return nil, err
		}
		if h.Version != 1 {
			return nil, fmt.Errorf("refcar: payload header version %d", h.Version)
		}
		if !h.HasRoots {
			return nil, errors.New("refcar: header without roots")
		}
	}
	out.HeaderOK = err == nil && h.Version == 1 && h.HasRoots
	out.Header = h
	pos := uint64(n) + hl
	out.HeaderLen = pos
	for pos < uint64(len(p)) {
		sl, sn, err := Uvarint(p[pos:])
		if err != nil {
			return nil, fmt.Errorf("section length at %d: %w", pos, err)
		}
		if sl == 0 {
			if zeroLenAsEOF {
				out.NullPadded = true
				break
			}
			return nil, fmt.Errorf("refcar: zero-length section at %d", pos)
		}
		if sl > uint64(len(p))-pos-uint64(sn) {
			return nil, fmt.Errorf("refcar: section at %d truncated", pos)
		}
		body := p[pos+uint64(sn) : pos+uint64(sn)+sl]
		ci, err := ParseCID(body)
		if err != nil {
			return nil, fmt.Errorf("section at %d: %w", pos, err)
		}
		s := Section{Offset: pos, Len: uint64(sn) + sl, Cid: body[:ci.Len], Info: ci, Data: body[ci.Len:]}
		if verify {
			ok, err := VerifyBlock(s.Cid, s.Data)
			if err != nil {
				return nil, fmt.Errorf("section at %d: %w", pos, err)
			}
			if !ok {
				return nil, fmt.Errorf("refcar: section at %d does not hash to its CID", pos)
			}
		}
		out.Sections = append(out.Sections, s)
		pos += s.Len
	}
	out.End = pos
	return out, nil
}

// ---------------------------------------------------------------- CARv2

var Pragma = []byte{0x0a, 0xa1, 0x67, 'v', 'e', 'r', 's', 'i', 'o', 'n', 0x02}

const (
	PragmaSize   = 11
	V2HeaderSize = 40
)

type V2Header struct {
	CharHi, CharLo uint64
	DataOffset     uint64
	DataSize       uint64
	IndexOffset    uint64
}

func (h V2Header) FullyIndexed() bool { return h.CharHi&(1<<7) != 0 }

func (h V2Header) Bytes() []byte {
	b := make([]byte, 40)
	binary.LittleEndian.PutUint64(b[0:], h.CharHi)
	binary.LittleEndian.PutUint64(b[8:], h.CharLo)
	binary.LittleEndian.PutUint64(b[16:], h.DataOffset)
	binary.LittleEndian.PutUint64(b[24:], h.DataSize)
	binary.LittleEndian.PutUint64(b[32:], h.IndexOffset)
	return b
}

func ParseV2Header(b []byte) V2Header {
	return V2Header{
		CharHi:      binary.LittleEndian.Uint64(b[0:]),
		CharLo:      binary.LittleEndian.Uint64(b[8:]),
		DataOffset:  binary.LittleEndian.Uint64(b[16:]),
		DataSize:    binary.LittleEndian.Uint64(b[24:]),
		IndexOffset: binary.LittleEndian.Uint64(b[32:]),
	}
}

// EncodeV2 lays out pragma | header | dataPad zeros | payload | indexPad zeros | index.
// index may be nil (IndexOffset = 0).
func EncodeV2(payload []byte, dataPad, indexPad uint64, index []byte, fullyIndexed bool) []byte {
	h := V2Header{DataOffset: PragmaSize + V2HeaderSize + dataPad, DataSize: uint64(len(payload))}
	if fullyIndexed {
		h.CharHi = 1 << 7
	}
	if index != nil {
		h.IndexOffset = h.DataOffset + h.DataSize + indexPad
	}
	out := append([]byte{}, Pragma...)
	out = append(out, h.Bytes()...)
	out = append(out, make([]byte, dataPad)...)
	out = append(out, payload...)
	if index != nil {
		out = append(out, make([]byte, indexPad)...)
		out = append(out, index...)
	}
	return out
}

// ---------------------------------------------------------------- indexes

const (
	CodecIndexSorted   = 0x0400
	CodecMhIndexSorted = 0x0401
)

// IndexRecord is one (multihash, offset) entry. MhCode is meaningless (0) for records
// decoded from the digest-only codec.
type IndexRecord struct {
	MhCode uint64
	Digest []byte
	Offset uint64
}

type widthBucket struct {
	width uint32 // digest length + 8
	recs  []IndexRecord
}

func bucketize(recs []IndexRecord) []widthBucket {
	m := map[uint32][]IndexRecord{}
	for _, r := range recs {
		w := uint32(len(r.Digest) + 8)
		m[w] = append(m[w], r)
	}
	var ws []uint32
	for w := range m {
		ws = append(ws, w)
	}
	sort.Slice(ws, func(i, j int) bool { return ws[i] < ws[j] })
	var out []widthBucket
	for _, w := range ws {
		rs := m[w]
		// canonical order: by digest, then by offset (the format leaves the order inside an
		// equal-digest run open; callers normalise before comparing bytes).
		sort.SliceStable(rs, func(i, j int) bool {
			c := bytes.Compare(rs[i].Digest, rs[j].Digest)
			if c != 0 {
				return c < 0
			}
			return rs[i].Offset < rs[j].Offset
		})
		out = append(out, widthBucket{w, rs})
	}
	return out
}

func encodeSortedBody(recs []IndexRecord) []byte {
	bs := bucketize(recs)
	out := make([]byte, 4)
	binary.LittleEndian.PutUint32(out, uint32(len(bs)))
	for _, b := range bs {
		hdr := make([]byte, 12)
		binary.LittleEndian.PutUint32(hdr, b.width)
		binary.LittleEndian.PutUint64(hdr[4:], uint64(len(b.recs))*uint64(b.width))
		out = append(out, hdr...)
		for _, r := range b.recs {
			out = append(out, r.Digest...)
			var o [8]byte
			binary.LittleEndian.PutUint64(o[:], r.Offset)
			out = append(out, o[:]...)
		}
	}
	return out
}

// EncodeIndex returns the canonical serialisation (codec varint included).
func EncodeIndex(codec uint64, recs []IndexRecord) []byte {
	out := PutUvarint(codec)
	switch codec {
	case CodecIndexSorted:
		return append(out, encodeSortedBody(recs)...)
	case CodecMhIndexSorted:
		m := map[uint64][]IndexRecord{}
		for _, r := range recs {
			m[r.MhCode] = append(m[r.MhCode], r)
		}
		var codes []uint64
		for c := range m {
			codes = append(codes, c)
		}
		sort.Slice(codes, func(i, j int) bool { return codes[i] < codes[j] })
		cnt := make([]byte, 4)
		binary.LittleEndian.PutUint32(cnt, uint32(len(codes)))
		out = append(out, cnt...)
		for _, c := range codes {
			var cb [8]byte
			binary.LittleEndian.PutUint64(cb[:], c)
			out = append(out, cb[:]...)
			out = append(out, encodeSortedBody(m[c])...)
		}
		return out
	}
	panic("unknown index codec")
}

func decodeSortedBody(b []byte, pos int, mhcode uint64) ([]IndexRecord, int, error) {
	if pos+4 > len(b) {
		return nil, 0, errors.New("refcar: index truncated (bucket count)")
	}
	n := int32(binary.LittleEndian.Uint32(b[pos:]))
	pos += 4
	if n < 0 {
		return nil, 0, errors.New("refcar: negative bucket count")
	}
	var out []IndexRecord
	lastW := uint32(0)
	for i := int32(0); i < n; i++ {
		if pos+12 > len(b) {
			return nil, 0, errors.New("refcar: index truncated (bucket header)")
		}
		w := binary.LittleEndian.Uint32(b[pos:])
		l := binary.LittleEndian.Uint64(b[pos+4:])
		pos += 12
		if w < 8 {
			return nil, 0, errors.New("refcar: bucket width < 8")
		}
		if i > 0 && w <= lastW {
			return nil, 0, errors.New("refcar: buckets not ascending by width")
		}
		lastW = w
		if l > uint64(len(b)-pos) {
			return nil, 0, errors.New("refcar: index truncated (bucket body)")
		}
		if l%uint64(w) != 0 {
			return nil, 0, errors.New("refcar: bucket length not a multiple of width")
		}
		if l == 0 {
			return nil, 0, errors.New("refcar: empty bucket")
		}
		var prev []byte
		for k := uint64(0); k < l/uint64(w); k++ {
			rec := b[pos : pos+int(w)]
			d := rec[:w-8]
			if prev != nil && bytes.Compare(prev, d) > 0 {
				return nil, 0, errors.New("refcar: records not ascending by digest")
			}
			prev = d
			out = append(out, IndexRecord{MhCode: mhcode, Digest: d, Offset: binary.LittleEndian.Uint64(rec[w-8:])})
			pos += int(w)
		}
	}
	return out, pos, nil
}

// DecodeIndex strictly decodes a serialized index and rejects trailing bytes.
func DecodeIndex(b []byte) (codec uint64, recs []IndexRecord, err error) {
	codec, n, err := Uvarint(b)
	if err != nil {
		return 0, nil, fmt.Errorf("index codec: %w", err)
	}
	pos := n
	switch codec {
	case CodecIndexSorted:
		recs, pos, err = decodeSortedBody(b, pos, 0)
		if err != nil {
			return codec, nil, err
		}
	case CodecMhIndexSorted:
		if pos+4 > len(b) {
			return codec, nil, errors.New("refcar: index truncated (code count)")
		}
		cnt := int32(binary.LittleEndian.Uint32(b[pos:]))
		pos += 4
		if cnt < 0 {
			return codec, nil, errors.New("refcar: negative code count")
		}
		var last uint64
		for i := int32(0); i < cnt; i++ {
			if pos+8 > len(b) {
				return codec, nil, errors.New("refcar: index truncated (code)")
			}
			code := binary.LittleEndian.Uint64(b[pos:])
			pos += 8
			if i > 0 && code <= last {
				return codec, nil, errors.New("refcar: codes not ascending")
			}
			last = code
			var rs []IndexRecord
			rs, pos, err = decodeSortedBody(b, pos, code)
			if err != nil {
				return codec, nil, err
			}
			recs = append(recs, rs...)
		}
	default:
		return codec, nil, fmt.Errorf("refcar: unknown index codec 0x%x", codec)
	}
	if pos != len(b) {
		return codec, nil, fmt.Errorf("refcar: %d trailing bytes after index", len(b)-pos)
	}
	return codec, recs, nil
}

// RecordsOf derives the index records a payload implies.
func RecordsOf(p *Payload, withIdentity bool) []IndexRecord {
	var out []IndexRecord
	for _, s := range p.Sections {
		if s.Info.MhCode == MhIdentity && !withIdentity {
			continue
		}
		out = append(out, IndexRecord{MhCode: s.Info.MhCode, Digest: s.Info.Digest, Offset: s.Offset})
	}
	return out
}

// ---------------------------------------------------------------- whole files

type File struct {
	Version    int
	V2         V2Header
	Payload    *Payload
	PayloadRaw []byte
	HasIndex   bool
	IndexCodec uint64
	Index      []IndexRecord
	IndexRaw   []byte
	// padding bytes that are not zero were seen (not an error: the format does not define padding content)
	DataPaddingNonZero, IndexPaddingNonZero bool
}

// DecodeFile strictly decodes a complete CARv1 or CARv2 file: pragma, header arithmetic,
// payload scan with hash verification, index decode, nothing trailing.
func DecodeFile(f []byte, zeroLenAsEOF bool) (*File, error) {
	if bytes.HasPrefix(f, Pragma) {
		if len(f) < PragmaSize+V2HeaderSize {
			return nil, errors.New("refcar: v2 header truncated")
		}
		h := ParseV2Header(f[PragmaSize:])
		out := &File{Version: 2, V2: h}
		if h.DataOffset < PragmaSize+V2HeaderSize {
			return nil, fmt.Errorf("refcar: data offset %d < 51", h.DataOffset)
		}
		if h.DataOffset > uint64(len(f)) || h.DataSize > uint64(len(f))-h.DataOffset {
			return nil, fmt.Errorf("refcar: payload window [%d,+%d) outside file of %d", h.DataOffset, h.DataSize, len(f))
		}
		// The content of padding is not defined by the format (go-car writes holes, i.e. zeros): it is
		// recorded, not judged.
		for i := uint64(PragmaSize + V2HeaderSize); i < h.DataOffset; i++ {
			if f[i] != 0 {
				out.DataPaddingNonZero = true
			}
		}
		out.PayloadRaw = f[h.DataOffset : h.DataOffset+h.DataSize]
		p, err := DecodePayload(out.PayloadRaw, zeroLenAsEOF, true)
		if err != nil {
			return nil, err
		}
		out.Payload = p
		end := h.DataOffset + h.DataSize
		if h.IndexOffset == 0 {
			if uint64(len(f)) != end {
				return nil, fmt.Errorf("refcar: %d bytes after payload but no index", uint64(len(f))-end)
			}
			return out, nil
		}
		if h.IndexOffset < end || h.IndexOffset > uint64(len(f)) {
			return nil, fmt.Errorf("refcar: index offset %d outside [%d,%d]", h.IndexOffset, end, len(f))
		}
		for i := end; i < h.IndexOffset; i++ {
			if f[i] != 0 {
				out.IndexPaddingNonZero = true
			}
		}
		out.HasIndex = true
		out.IndexRaw = f[h.IndexOffset:]
		codec, recs, err := DecodeIndex(out.IndexRaw)
		if err != nil {
			return nil, err
		}
		out.IndexCodec = codec
		out.Index = recs
		return out, nil
	}
	p, err := DecodePayload(f, zeroLenAsEOF, true)
	if err != nil {
		return nil, err
	}
	return &File{Version: 1, Payload: p, PayloadRaw: f}, nil
}
