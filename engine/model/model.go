// Package model holds the boring reference models (DESIGN A.4): an append-only
// content-addressed map with the documented option matrix.
package model

import (
	"bytes"

	"verif/kit"
	"verif/refcar"
)

type Cfg struct {
	Whole, AllowDup, StoreID bool
	MaxCid                   uint64 // 0 = default 2048
}

type Map struct {
	Cfg    Cfg
	Stored []kit.Blk
}

func (m *Map) maxCid() uint64 {
	if m.Cfg.MaxCid == 0 {
		return 2048
	}
	return m.Cfg.MaxCid
}

func IsIdentity(raw []byte) bool {
	ci, err := refcar.ParseCID(raw)
	return err == nil && ci.MhCode == refcar.MhIdentity
}

func multihashOf(raw []byte) []byte {
	ci, err := refcar.ParseCID(raw)
	if err != nil {
		panic(err)
	}
	return ci.Multihash()
}

// SameKey reports whether two CIDs are the same key under the configuration.
func (m *Map) SameKey(a, b []byte) bool {
	if m.Cfg.Whole {
		return bytes.Equal(a, b)
	}
	return bytes.Equal(multihashOf(a), multihashOf(b))
}

type PutResult int

const (
	PutStored PutResult = iota
	PutSkipped
	PutTooLarge
)

// Put applies the documented rules and reports what must happen.
func (m *Map) Put(b kit.Blk) PutResult {
	if IsIdentity(b.Raw) && !m.Cfg.StoreID {
		return PutSkipped
	}
	if uint64(len(b.Raw)) > m.maxCid() {
		return PutTooLarge
	}
	if !m.Cfg.AllowDup {
		for _, s := range m.Stored {
			if m.SameKey(s.Raw, b.Raw) {
				return PutSkipped
			}
		}
	}
	m.Stored = append(m.Stored, b)
	return PutStored
}

// Find returns the stored blocks carrying the key of raw.
func (m *Map) Find(raw []byte) []kit.Blk {
	var out []kit.Blk
	for _, s := range m.Stored {
		if m.SameKey(s.Raw, raw) {
			out = append(out, s)
		}
	}
	return out
}

// Has per the documented rules (store open).
func (m *Map) Has(raw []byte) bool {
	if IsIdentity(raw) && !m.Cfg.StoreID {
		return true
	}
	return len(m.Find(raw)) > 0
}

func (m *Map) RefBlocks() []refcar.Block {
	out := make([]refcar.Block, len(m.Stored))
	for i, s := range m.Stored {
		out[i] = s.Ref()
	}
	return out
}
