// Package vsync is the controlled scheduler and the sync shim used to explore thread
// interleavings of the real go-car code (DESIGN A.1). The rewritten go-car sources import
// this package under the name "sync"; it imports nothing from go-car.
//
// Exactly one thread runs at a time. A thread reaches a scheduling point by parking in
// point(); the driver picks the next thread among the enabled ones (replaying a prefix of
// choices, then always choice 0 = keep running the current thread if it is enabled, else the
// lowest enabled id). Outside an exploration every shim operation degrades to a direct,
// non-yielding operation.
package vsync

import (
	"fmt"
	"reflect"
	"runtime/debug"
	"sort"
	"strings"
	"sync/atomic"
	"time"
)

// ---------------------------------------------------------------- vector clocks

type vclock []int

func (v vclock) copy() vclock { return append(vclock{}, v...) }
func (v vclock) get(i int) int {
	if i < len(v) {
		return v[i]
	}
	return 0
}
func join(a, b vclock) vclock {
	n := len(a)
	if len(b) > n {
		n = len(b)
	}
	out := make(vclock, n)
	for i := range out {
		out[i] = a.get(i)
		if b.get(i) > out[i] {
			out[i] = b.get(i)
		}
	}
	return out
}
func (v vclock) leq(o vclock) bool {
	for i := range v {
		if v[i] > o.get(i) {
			return false
		}
	}
	return true
}

// ---------------------------------------------------------------- scheduler

type opKind int

const (
	opStart opKind = iota
	opMutexLock
	opRLock
	opWAnnounce
	opWAcquire
	opSelect
	opRecv
	opYield
	opExit
)

type pending struct {
	kind opKind
	mu   *Mutex
	rw   *RWMutex
	ch   *chanState
	done <-chan struct{}
	desc string
	// results filled in by the scheduler when it performs the transition
	granted  bool // read lock already granted by a writer's Unlock
	selected int  // for opSelect: 0 = sent, 1 = done
	recvVal  any
	recvOK   bool
	hasMail  bool
}

type thread struct {
	id       int
	name     string
	gate     chan struct{}
	vc       vclock
	pend     *pending
	finished bool
	panicked any
	stack    string
}

// Point describes one scheduling decision of an execution.
type Point struct {
	Enabled []int // thread ids in canonical order
	Choice  int   // index into Enabled
	Running int   // thread that was running before the point (-1 at start)
	// RunningEnabled: the previously running thread is Enabled[0]
	RunningEnabled bool
	Alts           int // number of alternatives (incl. select case choices)
}

// Execution is the result of one run.
type Execution struct {
	Points     []Point
	Choices    []int
	Deadlock   bool
	DeadlockAt string
	Panics     []string
	Races      []string
	Diverged   string
	Steps      int
}

type Sched struct {
	threads []*thread
	cur     *thread
	parked  chan *thread
	prefix  []int
	exec    *Execution
	chans   map[uintptr]*chanState
	objs    map[any]*objState
	races   map[string]bool
	clock   int64
	active  bool
	// StateKey, when set, is appended to the pruning key (file bytes, index content ...)
	ExtraKey func() string
}

var cur *Sched

// freeClock is the timestamp source outside an exploration (the free-running -race complement
// records histories too): a global atomic counter is consistent with real time.
var freeClock int64

// Now returns a logical timestamp (monotone; one tick per call) for history recording.
func Now() int64 {
	if s := cur; s != nil {
		s.clock++
		return s.clock
	}
	return atomic.AddInt64(&freeClock, 1)
}

const watchdog = 120 * time.Second // not an oracle: only bounds how long an unhooked blocking operation goes unnoticed (20 s was reached on an overloaded machine)

// Run executes the given thread bodies under the scheduler, replaying prefix and then always
// taking choice 0. setup runs before the threads start (un-scheduled).
func Run(prefix []int, names []string, bodies []func()) *Execution {
	s := &Sched{parked: make(chan *thread), prefix: prefix, exec: &Execution{}, chans: map[uintptr]*chanState{}, objs: map[any]*objState{}, races: map[string]bool{}}
	cur = s
	s.active = true
	defer func() { cur = nil }()
	main := vclock{}
	for i, b := range bodies {
		t := &thread{id: i, name: names[i], gate: make(chan struct{}), pend: &pending{kind: opStart, desc: "start"}}
		t.vc = main.copy()
		for len(t.vc) <= i {
			t.vc = append(t.vc, 0)
		}
		t.vc[i] = 1
		s.threads = append(s.threads, t)
		s.spawn(t, b)
	}
	s.loop()
	s.active = false
	for r := range s.races {
		s.exec.Races = append(s.exec.Races, r)
	}
	sort.Strings(s.exec.Races)
	return s.exec
}

func (s *Sched) spawn(t *thread, body func()) {
	go func() {
		<-t.gate
		defer func() {
			if r := recover(); r != nil {
				t.panicked = r
				t.stack = string(debug.Stack())
			}
			t.finished = true
			t.pend = &pending{kind: opExit, desc: "exit"}
			s.parked <- t
		}()
		body()
	}()
}

// enabledAlts returns the number of alternatives thread t offers (0 = not enabled).
func (s *Sched) enabledAlts(t *thread) int {
	if t.finished {
		return 0
	}
	p := t.pend
	switch p.kind {
	case opStart, opYield:
		return 1
	case opMutexLock:
		if !p.mu.locked {
			return 1
		}
	case opRLock:
		if p.granted || (!p.rw.announced && !p.rw.active) {
			return 1
		}
	case opWAnnounce:
		if !p.rw.announced && !p.rw.active {
			return 1
		}
	case opWAcquire:
		if p.rw.readers == 0 {
			return 1
		}
	case opSelect:
		n := 0
		if p.ch.canSend() {
			n++
		}
		if isClosed(p.done) {
			n++
		}
		return n
	case opRecv:
		if p.hasMail || len(p.ch.buf) > 0 || p.ch.closed {
			return 1
		}
		// an unbuffered rendezvous is performed by the sender's transition
	}
	return 0
}

func isClosed(c <-chan struct{}) bool {
	if c == nil {
		return false
	}
	select {
	case <-c:
		return true
	default:
		return false
	}
}

type alt struct {
	t   *thread
	sub int
}

func (s *Sched) loop() {
	running := -1
	started := 0
	// all threads are parked at "start" initially (they wait on their gates)
	for {
		// canonical order of alternatives: running thread first, then ascending ids
		var alts []alt
		order := []*thread{}
		if running >= 0 {
			order = append(order, s.threads[running])
		}
		for _, t := range s.threads {
			if t.id != running {
				order = append(order, t)
			}
		}
		runningEnabled := false
		var enabledIDs []int
		for _, t := range order {
			n := s.enabledAlts(t)
			for k := 0; k < n; k++ {
				alts = append(alts, alt{t, k})
				enabledIDs = append(enabledIDs, t.id)
			}
			if n > 0 && t.id == running {
				runningEnabled = true
			}
		}
		if len(alts) == 0 {
			for _, t := range s.threads {
				if !t.finished {
					s.exec.Deadlock = true
					var sb strings.Builder
					for _, u := range s.threads {
						if !u.finished {
							fmt.Fprintf(&sb, "%s waits at %s; ", u.name, u.pend.desc)
						}
					}
					s.exec.DeadlockAt = sb.String()
					break
				}
			}
			return
		}
		choice := 0
		i := len(s.exec.Points)
		if i < len(s.prefix) {
			choice = s.prefix[i]
			if choice < 0 || choice >= len(alts) {
				s.exec.Diverged = fmt.Sprintf("replay diverged at point %d: choice %d of %d alternatives", i, choice, len(alts))
				return
			}
		}
		s.exec.Points = append(s.exec.Points, Point{Enabled: enabledIDs, Choice: choice, Running: running, RunningEnabled: runningEnabled, Alts: len(alts)})
		s.exec.Choices = append(s.exec.Choices, choice)
		a := alts[choice]
		s.perform(a.t, a.sub)
		s.exec.Steps++
		running = a.t.id
		s.cur = a.t
		_ = started
		a.t.gate <- struct{}{}
		// wait until the running thread parks again or exits
		select {
		case t := <-s.parked:
			if t.finished {
				if t.panicked != nil {
					s.exec.Panics = append(s.exec.Panics, fmt.Sprintf("%s: %v\n%s", t.name, t.panicked, t.stack))
				}
			}
		case <-time.After(watchdog):
			s.exec.Diverged = fmt.Sprintf("watchdog: thread %s did not reach a scheduling point within %v (unhooked blocking operation?)", a.t.name, watchdog)
			return
		}
	}
}

// perform applies the effects of the transition chosen for t.
func (s *Sched) perform(t *thread, sub int) {
	p := t.pend
	switch p.kind {
	case opMutexLock:
		p.mu.locked = true
		t.vc = join(t.vc, p.mu.vc)
	case opRLock:
		if !p.granted {
			p.rw.readers++
		}
		t.vc = join(t.vc, p.rw.wvc)
	case opWAnnounce:
		p.rw.announced = true
	case opWAcquire:
		p.rw.active = true
		t.vc = join(join(t.vc, p.rw.wvc), p.rw.rvc)
	case opSelect:
		// which alternative?
		canSend := p.ch.canSend()
		if canSend && sub == 0 {
			p.selected = 0
			p.ch.send(s, t)
		} else {
			p.selected = 1
		}
	case opRecv:
		if p.hasMail {
			// value already delivered by a rendezvous
		} else if len(p.ch.buf) > 0 {
			m := p.ch.buf[0]
			p.ch.buf = p.ch.buf[1:]
			p.recvVal, p.recvOK = m.val, true
			t.vc = join(t.vc, m.vc)
		} else {
			p.recvVal, p.recvOK = nil, false
			t.vc = join(t.vc, p.ch.closeVC)
		}
		p.ch.receiver = nil
	}
}

// point parks the calling thread until the scheduler runs it again.
func (s *Sched) point(p *pending) *pending {
	t := s.cur
	t.pend = p
	s.parked <- t
	<-t.gate
	return p
}

func (s *Sched) tick(t *thread) {
	for len(t.vc) <= t.id {
		t.vc = append(t.vc, 0)
	}
	t.vc[t.id]++
}

// exploring reports whether the caller runs under the scheduler.
func exploring() *Sched {
	if s := cur; s != nil && s.active && s.cur != nil {
		return s
	}
	return nil
}

// Yield is an explicit scheduling point for harness code (e.g. before cancelling a context).
func Yield(desc string) {
	if s := exploring(); s != nil {
		s.point(&pending{kind: opYield, desc: desc})
	}
}

// Go starts f as a new scheduled thread (rewritten from a go statement).
func Go(f func()) {
	s := exploring()
	if s == nil {
		go f()
		return
	}
	parent := s.cur
	t := &thread{id: len(s.threads), name: fmt.Sprintf("%s/go%d", parent.name, len(s.threads)), gate: make(chan struct{}), pend: &pending{kind: opStart, desc: "start"}}
	t.vc = parent.vc.copy()
	for len(t.vc) <= t.id {
		t.vc = append(t.vc, 0)
	}
	t.vc[t.id] = 1
	s.tick(parent)
	s.threads = append(s.threads, t)
	s.spawn(t, f)
}

// ---------------------------------------------------------------- Mutex / RWMutex shim

type Mutex struct {
	locked bool
	vc     vclock
}

func (m *Mutex) Lock() {
	if s := exploring(); s != nil {
		s.point(&pending{kind: opMutexLock, mu: m, desc: "Mutex.Lock"})
		return
	}
	if m.locked {
		panic("vsync: Mutex.Lock would block outside an exploration")
	}
	m.locked = true
}

func (m *Mutex) Unlock() {
	if !m.locked {
		panic("sync: unlock of unlocked mutex")
	}
	m.locked = false
	if s := exploring(); s != nil {
		m.vc = join(m.vc, s.cur.vc)
		s.tick(s.cur)
	}
}

func (m *Mutex) TryLock() bool {
	if m.locked {
		return false
	}
	m.locked = true
	if s := exploring(); s != nil {
		s.cur.vc = join(s.cur.vc, m.vc)
	}
	return true
}

type RWMutex struct {
	readers   int
	announced bool // a writer holds the writer gate and waits for / has the lock
	active    bool
	wvc, rvc  vclock
}

func (m *RWMutex) RLock() {
	if s := exploring(); s != nil {
		s.point(&pending{kind: opRLock, rw: m, desc: "RWMutex.RLock"})
		return
	}
	if m.active || m.announced {
		panic("vsync: RWMutex.RLock would block outside an exploration")
	}
	m.readers++
}

func (m *RWMutex) RUnlock() {
	if m.readers <= 0 {
		panic("sync: RUnlock of unlocked RWMutex")
	}
	m.readers--
	if s := exploring(); s != nil {
		m.rvc = join(m.rvc, s.cur.vc)
		s.tick(s.cur)
	}
}

func (m *RWMutex) Lock() {
	if s := exploring(); s != nil {
		// Go's writer preference: announcing blocks new readers, then wait for readers to drain
		s.point(&pending{kind: opWAnnounce, rw: m, desc: "RWMutex.Lock(announce)"})
		s.point(&pending{kind: opWAcquire, rw: m, desc: "RWMutex.Lock(wait readers)"})
		return
	}
	if m.active || m.announced || m.readers > 0 {
		panic("vsync: RWMutex.Lock would block outside an exploration")
	}
	m.announced, m.active = true, true
}

func (m *RWMutex) Unlock() {
	if !m.active {
		panic("sync: Unlock of unlocked RWMutex")
	}
	m.active, m.announced = false, false
	if s := exploring(); s != nil {
		m.wvc = join(m.wvc, s.cur.vc)
		s.tick(s.cur)
		// readers already waiting get the lock before any later writer (as in Go)
		for _, t := range s.threads {
			if !t.finished && t.pend != nil && t.pend.kind == opRLock && t.pend.rw == m && !t.pend.granted && t != s.cur {
				t.pend.granted = true
				m.readers++
			}
		}
	}
}

func (m *RWMutex) TryLock() bool {
	if m.active || m.announced || m.readers > 0 {
		return false
	}
	m.announced, m.active = true, true
	return true
}

func (m *RWMutex) TryRLock() bool {
	if m.active || m.announced {
		return false
	}
	m.readers++
	return true
}

// Once, WaitGroup and Pool are re-exported unchanged would need the real package; the
// rewritten files only use Mutex and RWMutex. The rewriter refuses anything else.

// ---------------------------------------------------------------- channels

type msg struct {
	val any
	vc  vclock
}

type chanState struct {
	cap      int
	buf      []msg
	closed   bool
	closeVC  vclock
	receiver *thread // harness thread parked in Recv
	ref      any     // keeps the real channel alive: its address is the key of Sched.chans
}

func (c *chanState) canSend() bool {
	if c.closed {
		return false
	}
	if c.cap > 0 {
		return len(c.buf) < c.cap
	}
	return c.receiver != nil && !c.receiver.pend.hasMail
}

func (c *chanState) send(s *Sched, t *thread) {
	m := msg{val: t.pend.recvVal, vc: t.vc.copy()}
	s.tick(t)
	if c.cap > 0 {
		c.buf = append(c.buf, m)
		return
	}
	r := c.receiver
	r.pend.recvVal, r.pend.recvOK, r.pend.hasMail = m.val, true, true
	r.vc = join(r.vc, m.vc)
}

func (s *Sched) chanOf(ch any) *chanState {
	v := reflect.ValueOf(ch)
	k := v.Pointer()
	c, ok := s.chans[k]
	if !ok {
		c = &chanState{cap: v.Cap(), ref: ch}
		s.chans[k] = c
	}
	return c
}

// SelectSendOrDone replaces
//
//	select { case ch <- v: (0)  case <-done: (1) }
//
// and returns the index of the case taken. Under the scheduler the channel is modelled
// (the real channel is never touched), the choice among several ready cases is a
// scheduler decision, and an unbuffered send is a rendezvous with a parked receiver.
func SelectSendOrDone[T any](ch chan T, v T, done <-chan struct{}) int {
	s := exploring()
	if s == nil {
		select {
		case ch <- v:
			return 0
		case <-done:
			return 1
		}
	}
	p := &pending{kind: opSelect, ch: s.chanOf(ch), done: done, recvVal: v, desc: "select{send,done}"}
	s.point(p)
	return p.selected
}

// PollDone replaces the non-blocking poll
//
//	select { case <-done: (true)  default: (false) }
//
// and reports whether done is closed. Under the scheduler the poll is a scheduling point of
// its own (so that a cancellation by another thread can be ordered before or after it) and
// the answer is then read directly: exactly one thread runs at a time.
func PollDone(done <-chan struct{}) bool {
	if s := exploring(); s != nil {
		s.point(&pending{kind: opYield, desc: "select{done,default}"})
	}
	return isClosed(done)
}

// Recv is the harness side: receive from a channel filled by rewritten code.
func Recv[T any](ch <-chan T) (T, bool) {
	s := exploring()
	if s == nil {
		v, ok := <-ch
		return v, ok
	}
	c := s.chanOf(ch)
	p := &pending{kind: opRecv, ch: c, desc: "recv"}
	c.receiver = s.cur
	s.point(p)
	var zero T
	if !p.recvOK {
		return zero, false
	}
	return p.recvVal.(T), true
}

// Close replaces close(ch) in rewritten code.
func Close[T any](ch chan T) {
	s := exploring()
	if s == nil {
		close(ch)
		return
	}
	c := s.chanOf(ch)
	c.closed = true
	c.closeVC = s.cur.vc.copy()
	s.tick(s.cur)
}

// ---------------------------------------------------------------- happens-before checker

type access struct {
	tid   int
	clock int
	site  string
}

type objState struct {
	lastWrite *access
	wvc       vclock
	reads     map[int]access
	readVCs   map[int]vclock
}

// Access records a read or write of a hooked object and reports a race when a conflicting
// earlier access is not ordered before it by the synchronisation edges, regardless of the
// order in which this particular schedule executed them.
func Access(obj any, write bool, site string) {
	s := exploring()
	if s == nil {
		return
	}
	t := s.cur
	o, ok := s.objs[obj]
	if !ok {
		o = &objState{reads: map[int]access{}, readVCs: map[int]vclock{}}
		s.objs[obj] = o
	}
	me := access{tid: t.id, clock: t.vc.get(t.id), site: site}
	if o.lastWrite != nil && o.lastWrite.tid != t.id && o.lastWrite.clock > t.vc.get(o.lastWrite.tid) {
		s.races[raceKey(o.lastWrite.site, site, true, write)] = true
	}
	if write {
		for tid, r := range o.reads {
			if tid != t.id && r.clock > t.vc.get(tid) {
				s.races[raceKey(r.site, site, false, true)] = true
			}
		}
		o.lastWrite = &me
		o.reads = map[int]access{}
	} else {
		o.reads[t.id] = me
	}
}

func raceKey(a, b string, aw, bw bool) string {
	k := func(w bool) string {
		if w {
			return "write"
		}
		return "read"
	}
	x, y := k(aw)+" "+a, k(bw)+" "+b
	if y < x {
		x, y = y, x
	}
	return x + " || " + y
}
