// Command worker runs one property check: worker <ID> [--tier quick|thorough] [--replay file]
package main

import (
	"fmt"
	"os"
	"time"

	"verif/kit"
	"verif/props"
)

func main() {
	if len(os.Args) < 2 {
		fmt.Fprintf(os.Stderr, "usage: worker <ID> [--tier quick|thorough] [--replay file]\nproperties: %v\n", kit.IDs())
		os.Exit(2)
	}
	id := os.Args[1]
	switch id {
	case "C08-explore", "C08-race", "C09-child":
		// a child whose coordinator was killed (timeout, OOM killer) must not linger
		go func(pp int) {
			for {
				time.Sleep(2 * time.Second)
				if os.Getppid() != pp {
					os.Exit(3)
				}
			}
		}(os.Getppid())
	}
	switch id {
	case "C08-explore":
		os.Exit(props.C08ExploreMain(os.Args[2]))
	case "C08-race":
		os.Exit(props.C08RaceMain(os.Args[2]))
	case "__prebuild":
		os.Exit(props.Prebuild())
	case "C09-child":
		os.Exit(props.C09ChildMain(os.Args[2], os.Args[3]))
	}
	tier := os.Getenv("VERIF_TIER")
	if tier == "" {
		tier = "quick"
	}
	replay := ""
	for i := 2; i < len(os.Args); i++ {
		switch os.Args[i] {
		case "--tier":
			i++
			tier = os.Args[i]
		case "--replay":
			i++
			replay = os.Args[i]
		}
	}
	os.Exit(kit.Main(id, tier, replay))
}
