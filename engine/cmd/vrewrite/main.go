// Command vrewrite derives, from the CURRENT sources under /repo/v2, the overlay used by the
// C08 explorer: sync -> scheduler shim, go statements -> scheduler threads, the
// send-or-done selects -> modelled channel operations, close -> modelled close, and
// happens-before hooks on the index / writer objects. Nothing is written under /repo.
// If the sources contain a concurrency construct it cannot place a hook on, it fails.
package main

import (
	"bytes"
	"encoding/json"
	"flag"
	"fmt"
	"go/ast"
	"go/format"
	"go/parser"
	"go/token"
	"os"
	"path/filepath"
	"strconv"
	"strings"
)

const repoV2 = "/repo/v2"

// srcV2 is where the sources are read from (default: repoV2). The overlay always replaces the
// files of repoV2; -src lets a mutated copy of the tree be explored without touching /repo.
var srcV2 = repoV2

var files = []string{
	"blockstore/readonly.go",
	"blockstore/readwrite.go",
	"storage/storage.go",
	"storage/deferred/deferredcarwriter.go",
	"internal/io/converter.go",
	"internal/io/offset_write_seeker.go",
	"index/insertionindex.go",
}

// receiver type -> set of methods that write (all other methods read)
var hooked = map[string]map[string]bool{
	"InsertionIndex":         {"InsertNoReplace": true, "Load": true, "Unmarshal": true},
	"OffsetWriteSeeker":      {"Write": true, "Seek": true},
	"positionTrackingWriter": {"Write": true},
}

// guarded: the typestate flag `closed` (or whatever bool field the struct declares, see
// structFlags) stands for the whole store state that the mutex guards.
// Before the first statement of a method that mentions <recv>...closed (which, in correct code,
// comes right after the lock is taken) an access of the store object is recorded: a method that
// reaches it without the proper lock is unordered with the writers and is reported as a race.
// A required method that does not mention the flag gets the hook after its first lock call.
// The access of a `writes` method is a read where the hook sits in a section that runs under a
// read lock and assigns no field of the receiver (readOnlyUnderRLock).
type guardCfg struct {
	obj      func(recv string) string // expression identifying the shared store object
	writes   map[string]bool          // methods that modify the store (all others read)
	required []string                 // methods that must contain the hook (refactors are noticed)
	iterInGo bool                     // also record a read before every send in goroutines of this type
}

var guarded = map[string]guardCfg{
	"ReadOnly": {obj: func(r string) string { return r }, writes: map[string]bool{"closeWithoutMutex": true},
		required: []string{"Has", "Get", "GetSize", "AllKeysChan", "closeWithoutMutex"}, iterInGo: true},
	"ReadWrite": {obj: func(r string) string { return "&" + r + ".ronly" }, writes: map[string]bool{"PutMany": true, "finalizeReadOnlyWithoutMutex": true, "closeWithoutMutex": true},
		required: []string{"PutMany", "Has", "AllKeysChan", "finalizeReadOnlyWithoutMutex"}},
	"StorageCar": {obj: func(r string) string { return r }, writes: map[string]bool{"Put": true, "Finalize": true},
		required: []string{"Put", "Has", "GetStream", "Finalize"}},
	"DeferredCarWriter": {obj: func(r string) string { return r }, writes: map[string]bool{"Put": true, "Close": true, "Has": true},
		required: []string{"Put", "Has", "Close"}},
}

// entryHooks: methods that get the store-state hook as their first statement although they
// never mention the closed flag (they take no lock at all). Value = the access is a write.
var entryHooks = map[string]map[string]bool{
	"DeferredCarWriter": {"OnPut": true},
}

// flagNames is the set of typestate flags of the type whose methods are being hooked: "closed"
// (also reached through an embedded store, e.g. b.ronly.closed) plus every bool field the
// struct itself declares (a rename of the flag, e.g. closed -> finalized, is followed).
var flagNames = map[string]bool{"closed": true}

// structFlags returns the flag names for the guarded type tname as declared in file f.
func structFlags(f *ast.File, tname string) map[string]bool {
	names := map[string]bool{"closed": true}
	for _, d := range f.Decls {
		gd, ok := d.(*ast.GenDecl)
		if !ok || gd.Tok != token.TYPE {
			continue
		}
		for _, sp := range gd.Specs {
			ts, ok := sp.(*ast.TypeSpec)
			if !ok || ts.Name.Name != tname {
				continue
			}
			st, ok := ts.Type.(*ast.StructType)
			if !ok {
				continue
			}
			for _, fl := range st.Fields.List {
				if id, ok := fl.Type.(*ast.Ident); ok && id.Name == "bool" {
					for _, n := range fl.Names {
						names[n.Name] = true
					}
				}
			}
		}
	}
	return names
}

// rootedAt reports whether the selector chain e starts at the identifier recv.
func rootedAt(e ast.Expr, recv string) bool {
	for {
		switch v := e.(type) {
		case *ast.Ident:
			return v.Name == recv
		case *ast.SelectorExpr:
			e = v.X
		case *ast.ParenExpr:
			e = v.X
		case *ast.StarExpr:
			e = v.X
		default:
			return false
		}
	}
}

// mentionsIdent reports whether n uses one of the named identifiers (field selectors do not count).
func mentionsIdent(n ast.Node, names map[string]bool) bool {
	found := false
	var walk func(x ast.Node) bool
	walk = func(x ast.Node) bool {
		if found {
			return false
		}
		switch v := x.(type) {
		case *ast.SelectorExpr:
			ast.Inspect(v.X, walk)
			return false
		case *ast.KeyValueExpr:
			ast.Inspect(v.Value, walk)
			return false
		case *ast.Ident:
			if names[v.Name] {
				found = true
			}
		}
		return !found
	}
	ast.Inspect(n, walk)
	return found
}

// derivedFromRecv returns the receiver plus the locals of the method that are assigned directly
// from an expression mentioning the receiver (e.g. rdr := NewOffsetReadSeeker(b.backing, 0)):
// a goroutine that mentions none of them cannot reach the store. Error values are not references.
func derivedFromRecv(fd *ast.FuncDecl, recv string) map[string]bool {
	names := map[string]bool{recv: true}
	base := map[string]bool{recv: true}
	add := func(lhs []ast.Expr, rhs []ast.Expr) {
		m := false
		for _, e := range rhs {
			if mentionsIdent(e, base) {
				m = true
			}
		}
		if !m {
			return
		}
		for _, e := range lhs {
			if id, ok := e.(*ast.Ident); ok && id.Name != "_" && id.Name != "err" {
				names[id.Name] = true
			}
		}
	}
	ast.Inspect(fd.Body, func(x ast.Node) bool {
		switch v := x.(type) {
		case *ast.AssignStmt:
			add(v.Lhs, v.Rhs)
		case *ast.ValueSpec:
			var lhs []ast.Expr
			for _, n := range v.Names {
				lhs = append(lhs, n)
			}
			add(lhs, v.Values)
		case *ast.RangeStmt:
			var lhs []ast.Expr
			if v.Key != nil {
				lhs = append(lhs, v.Key)
			}
			if v.Value != nil {
				lhs = append(lhs, v.Value)
			}
			add(lhs, []ast.Expr{v.X})
		}
		return true
	})
	return names
}

// lockCall returns "Lock", "RLock", "Unlock" or "RUnlock" when e is a call x.y.Lock() etc.
func lockCall(e ast.Expr) string {
	c, ok := e.(*ast.CallExpr)
	if !ok || len(c.Args) != 0 {
		return ""
	}
	se, ok := c.Fun.(*ast.SelectorExpr)
	if !ok {
		return ""
	}
	switch se.Sel.Name {
	case "Lock", "RLock", "Unlock", "RUnlock":
		return se.Sel.Name
	}
	return ""
}

// readOnlyUnderRLock reports whether a hook at position at sits in a section of the method that
// runs under a READ lock and does not assign to a field of the receiver: the section cannot
// modify the store, so its access is a read whatever the method does later under the write lock
// (e.g. a Put that first looks up the key under RLock and re-checks under Lock). The lock calls
// are followed in source order (deferred ones and function literals are skipped); the section
// ends at the next Lock() or at the end of the method.
func readOnlyUnderRLock(fd *ast.FuncDecl, recv string, at token.Pos) bool {
	type ev struct {
		pos  token.Pos
		kind string
	}
	var evs []ev
	var assigns []token.Pos
	ast.Inspect(fd.Body, func(x ast.Node) bool {
		switch v := x.(type) {
		case *ast.FuncLit, *ast.DeferStmt:
			return false
		case *ast.CallExpr:
			if k := lockCall(v); k != "" {
				evs = append(evs, ev{v.Pos(), k})
			}
		case *ast.AssignStmt:
			if v.Tok != token.DEFINE {
				for _, l := range v.Lhs {
					if _, isSel := l.(*ast.SelectorExpr); isSel && rootedAt(l, recv) {
						assigns = append(assigns, v.Pos())
					}
					if ix, isIx := l.(*ast.IndexExpr); isIx && rootedAt(ix.X, recv) {
						assigns = append(assigns, v.Pos())
					}
				}
			}
		case *ast.IncDecStmt:
			if rootedAt(v.X, recv) {
				assigns = append(assigns, v.Pos())
			}
		}
		return true
	})
	state, from := "", token.NoPos
	for _, e := range evs {
		if e.pos >= at {
			break
		}
		switch e.kind {
		case "RLock":
			state, from = "R", e.pos
		case "Lock":
			state = "W"
		default:
			state = ""
		}
	}
	if state != "R" {
		return false
	}
	end := fd.Body.End()
	for _, e := range evs {
		if e.pos >= at && e.kind == "Lock" {
			end = e.pos
			break
		}
	}
	for _, a := range assigns {
		if a > from && a < end {
			return false
		}
	}
	return true
}

func mentionsClosed(n ast.Node, recv string) bool {
	found := false
	ast.Inspect(n, func(x ast.Node) bool {
		if se, ok := x.(*ast.SelectorExpr); ok && flagNames[se.Sel.Name] {
			// rooted at the receiver?
			e := se.X
			for {
				if id, ok := e.(*ast.Ident); ok {
					if id.Name == recv {
						found = true
					}
					break
				}
				if s2, ok := e.(*ast.SelectorExpr); ok {
					e = s2.X
					continue
				}
				break
			}
		}
		return !found
	})
	return found
}

func parseExpr(src string) ast.Expr {
	e, err := parser.ParseExpr(src)
	if err != nil {
		die("internal: cannot parse %q: %v", src, err)
	}
	return e
}

func die(f string, a ...any) {
	fmt.Fprintf(os.Stderr, "vrewrite: "+f+"\n", a...)
	os.Exit(2)
}

func sel(pkg, name string) ast.Expr {
	return &ast.SelectorExpr{X: ast.NewIdent(pkg), Sel: ast.NewIdent(name)}
}

func call(fun ast.Expr, args ...ast.Expr) *ast.CallExpr {
	return &ast.CallExpr{Fun: fun, Args: args}
}

type rewriter struct {
	fset    *token.FileSet
	file    string
	changed bool
}

func (r *rewriter) stmt(s ast.Stmt) ast.Stmt {
	switch v := s.(type) {
	case *ast.GoStmt:
		r.changed = true
		if fl, ok := v.Call.Fun.(*ast.FuncLit); ok && len(v.Call.Args) == 0 && len(fl.Type.Params.List) == 0 {
			return &ast.ExprStmt{X: call(sel("vsync", "Go"), fl)}
		}
		wrap := &ast.FuncLit{Type: &ast.FuncType{Params: &ast.FieldList{}}, Body: &ast.BlockStmt{List: []ast.Stmt{&ast.ExprStmt{X: v.Call}}}}
		return &ast.ExprStmt{X: call(sel("vsync", "Go"), wrap)}
	case *ast.SelectStmt:
		if len(v.Body.List) == 2 {
			// the non-blocking poll  select { case <-done: A  default: B }
			var done ast.Expr
			var doneBody, defBody []ast.Stmt
			hasDefault, other := false, false
			for _, c := range v.Body.List {
				cc := c.(*ast.CommClause)
				if cc.Comm == nil {
					hasDefault, defBody = true, cc.Body
					continue
				}
				es, ok := cc.Comm.(*ast.ExprStmt)
				if !ok {
					other = true
					continue
				}
				u, ok := es.X.(*ast.UnaryExpr)
				if !ok || u.Op != token.ARROW {
					other = true
					continue
				}
				done, doneBody = u.X, cc.Body
			}
			if hasDefault && done != nil && !other {
				r.changed = true
				return &ast.SwitchStmt{
					Tag: call(sel("vsync", "PollDone"), done),
					Body: &ast.BlockStmt{List: []ast.Stmt{
						&ast.CaseClause{List: []ast.Expr{ast.NewIdent("true")}, Body: doneBody},
						&ast.CaseClause{List: []ast.Expr{ast.NewIdent("false")}, Body: defBody},
					}},
				}
			}
		}
		if len(v.Body.List) != 2 {
			die("%s: select with %d clauses is not supported", r.pos(v), len(v.Body.List))
		}
		var send *ast.SendStmt
		var sendBody, doneBody []ast.Stmt
		var done ast.Expr
		for _, c := range v.Body.List {
			cc := c.(*ast.CommClause)
			switch comm := cc.Comm.(type) {
			case *ast.SendStmt:
				send, sendBody = comm, cc.Body
			case *ast.ExprStmt:
				u, ok := comm.X.(*ast.UnaryExpr)
				if !ok || u.Op != token.ARROW {
					die("%s: unsupported select clause", r.pos(cc))
				}
				done, doneBody = u.X, cc.Body
			default:
				die("%s: unsupported select clause (default or assignment receive)", r.pos(cc))
			}
		}
		if send == nil || done == nil {
			die("%s: select is not of the send-or-done shape", r.pos(v))
		}
		r.changed = true
		return &ast.SwitchStmt{
			Tag: call(sel("vsync", "SelectSendOrDone"), send.Chan, send.Value, done),
			Body: &ast.BlockStmt{List: []ast.Stmt{
				&ast.CaseClause{List: []ast.Expr{&ast.BasicLit{Kind: token.INT, Value: "0"}}, Body: sendBody},
				&ast.CaseClause{List: []ast.Expr{&ast.BasicLit{Kind: token.INT, Value: "1"}}, Body: doneBody},
			}},
		}
	case *ast.ExprStmt:
		if c, ok := v.X.(*ast.CallExpr); ok && isClose(c) {
			r.changed = true
			return &ast.ExprStmt{X: call(sel("vsync", "Close"), c.Args...)}
		}
	case *ast.DeferStmt:
		if isClose(v.Call) {
			r.changed = true
			return &ast.DeferStmt{Call: call(sel("vsync", "Close"), v.Call.Args...)}
		}
	}
	return s
}

func isClose(c *ast.CallExpr) bool {
	id, ok := c.Fun.(*ast.Ident)
	return ok && id.Name == "close" && len(c.Args) == 1
}

func (r *rewriter) pos(n ast.Node) string { return r.fset.Position(n.Pos()).String() }

func (r *rewriter) list(l []ast.Stmt) {
	for i, s := range l {
		l[i] = r.stmt(s)
	}
}

func main() {
	out := flag.String("out", "", "output directory")
	flag.StringVar(&srcV2, "src", repoV2, "directory holding the go-car v2 sources to rewrite (the overlay still replaces "+repoV2+")")
	flag.Parse()
	if *out == "" {
		die("missing -out")
	}
	os.RemoveAll(*out)
	if err := os.MkdirAll(*out, 0o755); err != nil {
		die("%v", err)
	}
	overlay := map[string]string{
		"/repo/v2/verifbridge/bridge.go": "/verif/engine/overlay/bridge.go",
	}
	for _, rel := range files {
		src := filepath.Join(srcV2, rel)
		fset := token.NewFileSet()
		f, err := parser.ParseFile(fset, src, nil, parser.ParseComments)
		if err != nil {
			die("cannot parse %s: %v", src, err)
		}
		r := &rewriter{fset: fset, file: rel}
		// 1. "sync" -> shim (keeps the name sync so that sync.Mutex / sync.RWMutex still read the same)
		usesSync := false
		for _, im := range f.Imports {
			p, _ := strconv.Unquote(im.Path.Value)
			if p == "sync" {
				im.Path.Value = strconv.Quote("verif/vsync")
				im.Name = ast.NewIdent("sync")
				usesSync = true
				r.changed = true
			}
		}
		if usesSync {
			ast.Inspect(f, func(n ast.Node) bool {
				if s, ok := n.(*ast.SelectorExpr); ok {
					if id, ok := s.X.(*ast.Ident); ok && id.Name == "sync" && id.Obj == nil {
						if s.Sel.Name != "Mutex" && s.Sel.Name != "RWMutex" {
							die("%s: sync.%s is not modelled by the shim", r.pos(s), s.Sel.Name)
						}
					}
				}
				return true
			})
		}
		// 2. statements
		ast.Inspect(f, func(n ast.Node) bool {
			switch v := n.(type) {
			case *ast.BlockStmt:
				r.list(v.List)
			case *ast.CaseClause:
				r.list(v.Body)
			case *ast.CommClause:
				r.list(v.Body)
			}
			return true
		})
		// 3. happens-before hooks
		for _, d := range f.Decls {
			fd, ok := d.(*ast.FuncDecl)
			if !ok || fd.Recv == nil || len(fd.Recv.List) != 1 || fd.Body == nil {
				continue
			}
			st, ok := fd.Recv.List[0].Type.(*ast.StarExpr)
			if !ok {
				continue
			}
			id, ok := st.X.(*ast.Ident)
			if !ok {
				continue
			}
			writes, ok := hooked[id.Name]
			if !ok {
				continue
			}
			if len(fd.Recv.List[0].Names) == 0 || fd.Recv.List[0].Names[0].Name == "_" {
				fd.Recv.List[0].Names = []*ast.Ident{ast.NewIdent("vrecv")}
			}
			recv := fd.Recv.List[0].Names[0].Name
			w := "false"
			if writes[fd.Name.Name] {
				w = "true"
			}
			hook := &ast.ExprStmt{X: call(sel("vsync", "Access"), ast.NewIdent(recv), ast.NewIdent(w), &ast.BasicLit{Kind: token.STRING, Value: strconv.Quote(id.Name + "." + fd.Name.Name)})}
			fd.Body.List = append([]ast.Stmt{hook}, fd.Body.List...)
			r.changed = true
		}
		// 3b. store-state hooks (see guarded)
		hookedMethods := map[string]bool{}
		for _, d := range f.Decls {
			fd, ok := d.(*ast.FuncDecl)
			if !ok || fd.Recv == nil || len(fd.Recv.List) != 1 || fd.Body == nil || len(fd.Recv.List[0].Names) == 0 {
				continue
			}
			st, ok := fd.Recv.List[0].Type.(*ast.StarExpr)
			if !ok {
				continue
			}
			id, ok := st.X.(*ast.Ident)
			if !ok {
				continue
			}
			cfg, ok := guarded[id.Name]
			if !ok {
				continue
			}
			recv := fd.Recv.List[0].Names[0].Name
			flagNames = structFlags(f, id.Name)
			w := "false"
			if cfg.writes[fd.Name.Name] {
				w = "true"
			}
			// at = position of the statement the hook is placed in front of (or the end of the lock
			// statement it follows): under a read lock, in a section that assigns no field, it is a read
			mk := func(site string, at token.Pos) ast.Stmt {
				kind := w
				if kind == "true" && readOnlyUnderRLock(fd, recv, at) {
					kind = "false"
				}
				return &ast.ExprStmt{X: call(sel("vsync", "Access"), parseExpr(cfg.obj(recv)), ast.NewIdent(kind), &ast.BasicLit{Kind: token.STRING, Value: strconv.Quote(site)})}
			}
			// Insert before the first statement that mentions the flag on every path: a compound
			// statement whose header does not mention it is descended into (the lock may be taken
			// inside the branch), and the scan of the enclosing list continues after it.
			var hookList func(list *[]ast.Stmt)
			hookList = func(list *[]ast.Stmt) {
				for i := 0; i < len(*list); i++ {
					stmt := (*list)[i]
					if !mentionsClosed(stmt, recv) {
						continue
					}
					descend := false
					switch v := stmt.(type) {
					case *ast.IfStmt:
						if !(v.Init != nil && mentionsClosed(v.Init, recv)) && !mentionsClosed(v.Cond, recv) {
							hookList(&v.Body.List)
							if eb, ok := v.Else.(*ast.BlockStmt); ok {
								hookList(&eb.List)
							}
							descend = true
						}
					case *ast.BlockStmt:
						hookList(&v.List)
						descend = true
					case *ast.ForStmt:
						hookList(&v.Body.List)
						descend = true
					case *ast.RangeStmt:
						hookList(&v.Body.List)
						descend = true
					}
					if descend {
						continue
					}
					*list = append((*list)[:i], append([]ast.Stmt{mk(id.Name+"."+fd.Name.Name, stmt.Pos())}, (*list)[i:]...)...)
					hookedMethods[id.Name+"."+fd.Name.Name] = true
					r.changed = true
					return
				}
			}
			// Fallback for a method that never mentions the flag itself (the check moved into a
			// helper, or the method stopped checking): the hook follows the first Lock()/RLock()
			// statement of the method. Without any lock call the refusal below stays.
			var hookAfterLock func(list *[]ast.Stmt) bool
			hookAfterLock = func(list *[]ast.Stmt) bool {
				for i := 0; i < len(*list); i++ {
					switch v := (*list)[i].(type) {
					case *ast.ExprStmt:
						if k := lockCall(v.X); k == "Lock" || k == "RLock" {
							rest := append([]ast.Stmt{mk(id.Name+"."+fd.Name.Name, v.End())}, (*list)[i+1:]...)
							*list = append((*list)[:i+1:i+1], rest...)
							return true
						}
					case *ast.IfStmt:
						if hookAfterLock(&v.Body.List) {
							return true
						}
						if eb, ok := v.Else.(*ast.BlockStmt); ok && hookAfterLock(&eb.List) {
							return true
						}
					case *ast.BlockStmt:
						if hookAfterLock(&v.List) {
							return true
						}
					case *ast.ForStmt:
						if hookAfterLock(&v.Body.List) {
							return true
						}
					case *ast.RangeStmt:
						if hookAfterLock(&v.Body.List) {
							return true
						}
					}
				}
				return false
			}
			if isWrite, ok := entryHooks[id.Name][fd.Name.Name]; ok {
				w = "false"
				if isWrite {
					w = "true"
				}
				fd.Body.List = append([]ast.Stmt{mk(id.Name+"."+fd.Name.Name, token.NoPos)}, fd.Body.List...)
				hookedMethods[id.Name+"."+fd.Name.Name] = true
				r.changed = true
			} else {
				hookList(&fd.Body.List)
				if !hookedMethods[id.Name+"."+fd.Name.Name] {
					required := false
					for _, m := range cfg.required {
						if m == fd.Name.Name {
							required = true
						}
					}
					if required && hookAfterLock(&fd.Body.List) {
						hookedMethods[id.Name+"."+fd.Name.Name] = true
						r.changed = true
					}
				}
			}
			if cfg.iterInGo {
				// inside goroutines started by this method: a read of the store before every send
				derived := derivedFromRecv(fd, recv)
				ast.Inspect(fd.Body, func(n ast.Node) bool {
					ce, ok := n.(*ast.CallExpr)
					if !ok {
						return true
					}
					se, ok := ce.Fun.(*ast.SelectorExpr)
					if !ok || se.Sel.Name != "Go" || len(ce.Args) != 1 {
						return true
					}
					fl, ok := ce.Args[0].(*ast.FuncLit)
					if !ok {
						return true
					}
					if !mentionsIdent(fl.Body, derived) {
						// the goroutine only hands out values computed before it started: it
						// mentions neither the receiver nor a local derived from it
						return true
					}
					ast.Inspect(fl.Body, func(m ast.Node) bool {
						var list *[]ast.Stmt
						switch v := m.(type) {
						case *ast.BlockStmt:
							list = &v.List
						case *ast.CaseClause:
							list = &v.Body
						}
						if list == nil {
							return true
						}
						for i := 0; i < len(*list); i++ {
							if sw, ok := (*list)[i].(*ast.SwitchStmt); ok {
								if c, ok := sw.Tag.(*ast.CallExpr); ok {
									if s2, ok := c.Fun.(*ast.SelectorExpr); ok && s2.Sel.Name == "SelectSendOrDone" {
										hook := &ast.ExprStmt{X: call(sel("vsync", "Access"), parseExpr(cfg.obj(recv)), ast.NewIdent("false"), &ast.BasicLit{Kind: token.STRING, Value: strconv.Quote(id.Name + "." + fd.Name.Name + " goroutine")})}
										*list = append((*list)[:i], append([]ast.Stmt{hook}, (*list)[i:]...)...)
										i++
									}
								}
							}
						}
						return true
					})
					return true
				})
			}
		}
		for tname, cfg := range guarded {
			// only check the file that declares the type's methods
			declares := false
			for _, d := range f.Decls {
				if fd, ok := d.(*ast.FuncDecl); ok && fd.Recv != nil && len(fd.Recv.List) == 1 {
					if st, ok := fd.Recv.List[0].Type.(*ast.StarExpr); ok {
						if id, ok := st.X.(*ast.Ident); ok && id.Name == tname {
							declares = true
						}
					}
				}
			}
			if !declares {
				continue
			}
			for _, m := range cfg.required {
				if !hookedMethods[tname+"."+m] {
					die("%s: cannot place the store-state hook in %s.%s (no statement mentions the closed flag and the method takes no lock)", rel, tname, m)
				}
			}
		}
		// 4. nothing un-hooked may remain
		ast.Inspect(f, func(n ast.Node) bool {
			switch v := n.(type) {
			case *ast.GoStmt:
				die("%s: go statement left un-rewritten", r.pos(v))
			case *ast.SelectStmt:
				die("%s: select left un-rewritten", r.pos(v))
			case *ast.SendStmt:
				die("%s: bare channel send cannot be scheduled", r.pos(v))
			case *ast.UnaryExpr:
				if v.Op == token.ARROW {
					die("%s: bare channel receive cannot be scheduled", r.pos(v))
				}
			case *ast.RangeStmt:
				// ranging over a channel would block in the runtime
			}
			return true
		})
		if !r.changed {
			continue
		}
		// add the vsync import
		addImport(f, "vsync", "verif/vsync")
		var buf bytes.Buffer
		if err := format.Node(&buf, fset, f); err != nil {
			die("cannot print %s: %v", rel, err)
		}
		text := buf.String()
		if !strings.Contains(text, "vsync.") {
			// only the sync import changed: the extra import would be unused
			text = strings.Replace(text, "\tvsync \"verif/vsync\"\n", "", 1)
		}
		dst := filepath.Join(*out, rel)
		os.MkdirAll(filepath.Dir(dst), 0o755)
		if err := os.WriteFile(dst, []byte("// Code generated by vrewrite from "+src+"; DO NOT EDIT.\n"+text), 0o644); err != nil {
			die("%v", err)
		}
		overlay[filepath.Join(repoV2, rel)] = dst
	}
	scanned := refuseUnlistedConcurrency()
	b, _ := json.MarshalIndent(map[string]any{"Replace": overlay}, "", " ")
	if err := os.WriteFile(filepath.Join(*out, "overlay.json"), b, 0o644); err != nil {
		die("%v", err)
	}
	fmt.Printf("vrewrite: %d files rewritten, %d other files scanned for concurrency constructs\n", len(overlay)-1, scanned)
}

// refuseUnlistedConcurrency parses every non-test source file of the go-car v2 module that
// is NOT in the rewrite list and fails if one of them contains a concurrency construct
// (goroutine, channel, select, sync, sync/atomic): the explorer would run it un-scheduled and
// un-hooked, i.e. it would silently not be explored. Such a file has to be added to `files`.
func refuseUnlistedConcurrency() int {
	listed := map[string]bool{}
	for _, rel := range files {
		listed[filepath.Join(srcV2, rel)] = true
	}
	n := 0
	repoV2 := srcV2
	err := filepath.Walk(repoV2, func(path string, info os.FileInfo, err error) error {
		if err != nil {
			return err
		}
		if info.IsDir() {
			if name := info.Name(); path != repoV2 && (name == "testdata" || strings.HasPrefix(name, ".") || strings.HasPrefix(name, "_")) {
				return filepath.SkipDir
			}
			if path != repoV2 {
				if _, err := os.Stat(filepath.Join(path, "go.mod")); err == nil {
					return filepath.SkipDir // another module
				}
			}
			return nil
		}
		if !strings.HasSuffix(path, ".go") || strings.HasSuffix(path, "_test.go") || listed[path] {
			return nil
		}
		fset := token.NewFileSet()
		f, err := parser.ParseFile(fset, path, nil, 0)
		if err != nil {
			die("cannot parse %s: %v", path, err)
		}
		n++
		for _, im := range f.Imports {
			p, _ := strconv.Unquote(im.Path.Value)
			if p == "sync" || p == "sync/atomic" || p == "golang.org/x/sync/errgroup" || p == "golang.org/x/sync/semaphore" {
				die("%s imports %s but is not in the rewrite list: its synchronisation would not be scheduled", fset.Position(im.Pos()), p)
			}
		}
		ast.Inspect(f, func(x ast.Node) bool {
			what := ""
			switch v := x.(type) {
			case *ast.GoStmt:
				what = "go statement"
			case *ast.SelectStmt:
				what = "select"
			case *ast.SendStmt:
				what = "channel send"
			case *ast.ChanType:
				what = "channel type"
			case *ast.UnaryExpr:
				if v.Op == token.ARROW {
					what = "channel receive"
				}
			}
			if what != "" {
				die("%s: %s in a file that is not in the rewrite list: it would run outside the scheduler", fset.Position(x.Pos()), what)
			}
			return true
		})
		return nil
	})
	if err != nil {
		die("scanning %s: %v", repoV2, err)
	}
	return n
}

func addImport(f *ast.File, name, path string) {
	spec := &ast.ImportSpec{Name: ast.NewIdent(name), Path: &ast.BasicLit{Kind: token.STRING, Value: strconv.Quote(path)}}
	for _, d := range f.Decls {
		if gd, ok := d.(*ast.GenDecl); ok && gd.Tok == token.IMPORT {
			gd.Specs = append(gd.Specs, spec)
			if !gd.Lparen.IsValid() {
				gd.Lparen = gd.Pos()
				gd.Rparen = gd.End()
			}
			f.Imports = append(f.Imports, spec)
			return
		}
	}
	gd := &ast.GenDecl{Tok: token.IMPORT, Specs: []ast.Spec{spec}}
	f.Decls = append([]ast.Decl{gd}, f.Decls...)
	f.Imports = append(f.Imports, spec)
}
