// Command vrewrite derives, from the CURRENT sources under /repo/v2, the overlay used by the
// C08 explorer: sync -> scheduler shim, go statements -> scheduler threads, the
// send-or-done selects -> modelled channel operations, close -> modelled close, and
// happens-before hooks on the index / writer objects. Nothing is written under /repo.
// If the sources contain a concurrency construct it cannot place a hook on, it fails.
package main

import (
	"bytes"
	"encoding/json"
	"flag"
	"fmt"
	"go/ast"
	"go/format"
	"go/parser"
	"go/token"
	"os"
	"path/filepath"
	"strconv"
	"strings"
)

const repoV2 = "/repo/v2"

var files = []string{
	"blockstore/readonly.go",
	"blockstore/readwrite.go",
	"storage/storage.go",
	"storage/deferred/deferredcarwriter.go",
	"internal/io/converter.go",
	"internal/io/offset_write_seeker.go",
	"index/insertionindex.go",
}

// receiver type -> set of methods that write (all other methods read)
var hooked = map[string]map[string]bool{
	"InsertionIndex":         {"InsertNoReplace": true, "Load": true, "Unmarshal": true},
	"OffsetWriteSeeker":      {"Write": true, "Seek": true},
	"positionTrackingWriter": {"Write": true},
}

func die(f string, a ...any) {
	fmt.Fprintf(os.Stderr, "vrewrite: "+f+"\n", a...)
	os.Exit(2)
}

func sel(pkg, name string) ast.Expr {
	return &ast.SelectorExpr{X: ast.NewIdent(pkg), Sel: ast.NewIdent(name)}
}

func call(fun ast.Expr, args ...ast.Expr) *ast.CallExpr {
	return &ast.CallExpr{Fun: fun, Args: args}
}

type rewriter struct {
	fset    *token.FileSet
	file    string
	changed bool
}

func (r *rewriter) stmt(s ast.Stmt) ast.Stmt {
	switch v := s.(type) {
	case *ast.GoStmt:
		r.changed = true
		if fl, ok := v.Call.Fun.(*ast.FuncLit); ok && len(v.Call.Args) == 0 && len(fl.Type.Params.List) == 0 {
			return &ast.ExprStmt{X: call(sel("vsync", "Go"), fl)}
		}
		wrap := &ast.FuncLit{Type: &ast.FuncType{Params: &ast.FieldList{}}, Body: &ast.BlockStmt{List: []ast.Stmt{&ast.ExprStmt{X: v.Call}}}}
		return &ast.ExprStmt{X: call(sel("vsync", "Go"), wrap)}
	case *ast.SelectStmt:
		if len(v.Body.List) != 2 {
			die("%s: select with %d clauses is not supported", r.pos(v), len(v.Body.List))
		}
		var send *ast.SendStmt
		var sendBody, doneBody []ast.Stmt
		var done ast.Expr
		for _, c := range v.Body.List {
			cc := c.(*ast.CommClause)
			switch comm := cc.Comm.(type) {
			case *ast.SendStmt:
				send, sendBody = comm, cc.Body
			case *ast.ExprStmt:
				u, ok := comm.X.(*ast.UnaryExpr)
				if !ok || u.Op != token.ARROW {
					die("%s: unsupported select clause", r.pos(cc))
				}
				done, doneBody = u.X, cc.Body
			default:
				die("%s: unsupported select clause (default or assignment receive)", r.pos(cc))
			}
		}
		if send == nil || done == nil {
			die("%s: select is not of the send-or-done shape", r.pos(v))
		}
		r.changed = true
		return &ast.SwitchStmt{
			Tag: call(sel("vsync", "SelectSendOrDone"), send.Chan, send.Value, done),
			Body: &ast.BlockStmt{List: []ast.Stmt{
				&ast.CaseClause{List: []ast.Expr{&ast.BasicLit{Kind: token.INT, Value: "0"}}, Body: sendBody},
				&ast.CaseClause{List: []ast.Expr{&ast.BasicLit{Kind: token.INT, Value: "1"}}, Body: doneBody},
			}},
		}
	case *ast.ExprStmt:
		if c, ok := v.X.(*ast.CallExpr); ok && isClose(c) {
			r.changed = true
			return &ast.ExprStmt{X: call(sel("vsync", "Close"), c.Args...)}
		}
	case *ast.DeferStmt:
		if isClose(v.Call) {
			r.changed = true
			return &ast.DeferStmt{Call: call(sel("vsync", "Close"), v.Call.Args...)}
		}
	}
	return s
}

func isClose(c *ast.CallExpr) bool {
	id, ok := c.Fun.(*ast.Ident)
	return ok && id.Name == "close" && len(c.Args) == 1
}

func (r *rewriter) pos(n ast.Node) string { return r.fset.Position(n.Pos()).String() }

func (r *rewriter) list(l []ast.Stmt) {
	for i, s := range l {
		l[i] = r.stmt(s)
	}
}

func main() {
	out := flag.String("out", "", "output directory")
	flag.Parse()
	if *out == "" {
		die("missing -out")
	}
	os.RemoveAll(*out)
	if err := os.MkdirAll(*out, 0o755); err != nil {
		die("%v", err)
	}
	overlay := map[string]string{
		"/repo/v2/verifbridge/bridge.go": "/verif/engine/overlay/bridge.go",
	}
	for _, rel := range files {
		src := filepath.Join(repoV2, rel)
		fset := token.NewFileSet()
		f, err := parser.ParseFile(fset, src, nil, parser.ParseComments)
		if err != nil {
			die("cannot parse %s: %v", src, err)
		}
		r := &rewriter{fset: fset, file: rel}
		// 1. "sync" -> shim (keeps the name sync so that sync.Mutex / sync.RWMutex still read the same)
		usesSync := false
		for _, im := range f.Imports {
			p, _ := strconv.Unquote(im.Path.Value)
			if p == "sync" {
				im.Path.Value = strconv.Quote("verif/vsync")
				im.Name = ast.NewIdent("sync")
				usesSync = true
				r.changed = true
			}
		}
		if usesSync {
			ast.Inspect(f, func(n ast.Node) bool {
				if s, ok := n.(*ast.SelectorExpr); ok {
					if id, ok := s.X.(*ast.Ident); ok && id.Name == "sync" && id.Obj == nil {
						if s.Sel.Name != "Mutex" && s.Sel.Name != "RWMutex" {
							die("%s: sync.%s is not modelled by the shim", r.pos(s), s.Sel.Name)
						}
					}
				}
				return true
			})
		}
		// 2. statements
		ast.Inspect(f, func(n ast.Node) bool {
			switch v := n.(type) {
			case *ast.BlockStmt:
				r.list(v.List)
			case *ast.CaseClause:
				r.list(v.Body)
			case *ast.CommClause:
				r.list(v.Body)
			}
			return true
		})
		// 3. happens-before hooks
		for _, d := range f.Decls {
			fd, ok := d.(*ast.FuncDecl)
			if !ok || fd.Recv == nil || len(fd.Recv.List) != 1 || fd.Body == nil {
				continue
			}
			st, ok := fd.Recv.List[0].Type.(*ast.StarExpr)
			if !ok {
				continue
			}
			id, ok := st.X.(*ast.Ident)
			if !ok {
				continue
			}
			writes, ok := hooked[id.Name]
			if !ok {
				continue
			}
			if len(fd.Recv.List[0].Names) == 0 || fd.Recv.List[0].Names[0].Name == "_" {
				fd.Recv.List[0].Names = []*ast.Ident{ast.NewIdent("vrecv")}
			}
			recv := fd.Recv.List[0].Names[0].Name
			w := "false"
			if writes[fd.Name.Name] {
				w = "true"
			}
			hook := &ast.ExprStmt{X: call(sel("vsync", "Access"), ast.NewIdent(recv), ast.NewIdent(w), &ast.BasicLit{Kind: token.STRING, Value: strconv.Quote(id.Name + "." + fd.Name.Name)})}
			fd.Body.List = append([]ast.Stmt{hook}, fd.Body.List...)
			r.changed = true
		}
		// 4. nothing un-hooked may remain
		ast.Inspect(f, func(n ast.Node) bool {
			switch v := n.(type) {
			case *ast.GoStmt:
				die("%s: go statement left un-rewritten", r.pos(v))
			case *ast.SelectStmt:
				die("%s: select left un-rewritten", r.pos(v))
			case *ast.SendStmt:
				die("%s: bare channel send cannot be scheduled", r.pos(v))
			case *ast.UnaryExpr:
				if v.Op == token.ARROW {
					die("%s: bare channel receive cannot be scheduled", r.pos(v))
				}
			case *ast.RangeStmt:
				// ranging over a channel would block in the runtime
			}
			return true
		})
		if !r.changed {
			continue
		}
		// add the vsync import
		addImport(f, "vsync", "verif/vsync")
		var buf bytes.Buffer
		if err := format.Node(&buf, fset, f); err != nil {
			die("cannot print %s: %v", rel, err)
		}
		text := buf.String()
		if !strings.Contains(text, "vsync.") {
			// only the sync import changed: the extra import would be unused
			text = strings.Replace(text, "\tvsync \"verif/vsync\"\n", "", 1)
		}
		dst := filepath.Join(*out, rel)
		os.MkdirAll(filepath.Dir(dst), 0o755)
		if err := os.WriteFile(dst, []byte("// Code generated by vrewrite from "+src+"; DO NOT EDIT.\n"+text), 0o644); err != nil {
			die("%v", err)
		}
		overlay[src] = dst
	}
	b, _ := json.MarshalIndent(map[string]any{"Replace": overlay}, "", " ")
	if err := os.WriteFile(filepath.Join(*out, "overlay.json"), b, 0o644); err != nil {
		die("%v", err)
	}
	fmt.Printf("vrewrite: %d files rewritten\n", len(overlay)-1)
}

func addImport(f *ast.File, name, path string) {
	spec := &ast.ImportSpec{Name: ast.NewIdent(name), Path: &ast.BasicLit{Kind: token.STRING, Value: strconv.Quote(path)}}
	for _, d := range f.Decls {
		if gd, ok := d.(*ast.GenDecl); ok && gd.Tok == token.IMPORT {
			gd.Specs = append(gd.Specs, spec)
			if !gd.Lparen.IsValid() {
				gd.Lparen = gd.Pos()
				gd.Rparen = gd.End()
			}
			f.Imports = append(f.Imports, spec)
			return
		}
	}
	gd := &ast.GenDecl{Tok: token.IMPORT, Specs: []ast.Spec{spec}}
	f.Decls = append([]ast.Decl{gd}, f.Decls...)
	f.Imports = append(f.Imports, spec)
}
