package drv

import (
	"bytes"
	"fmt"
	"io"
	"os"
	"path/filepath"
	"strconv"
	"strings"

	blocks "github.com/ipfs/go-block-format"
	"github.com/ipfs/go-cid"
	"github.com/ipld/go-car/v2/blockstore"
	"github.com/ipld/go-car/v2/storage"
	"github.com/ipld/go-car/v2/storage/deferred"

	"verif/kit"
)

// PlanStep is one writing call of a session: Put of the next block (Many=false, N=1) or
// PutMany of the next N blocks (N may be 0: an empty batch).
type PlanStep struct {
	Many bool
	N    int
}

// ParsePlan parses "p,m2,p": p = Put of the next block, m<k> = PutMany of the next k blocks.
// A "|" separates the generations of a resumed session ("p|m2").
func ParsePlan(s string) (steps []PlanStep, split int, err error) {
	split = -1
	if s == "" {
		return nil, -1, nil
	}
	for gi, gen := range strings.Split(s, "|") {
		if gi == 1 {
			split = len(steps)
		}
		if gi > 1 {
			return nil, 0, fmt.Errorf("plan %q: more than two generations", s)
		}
		if gen == "" {
			continue
		}
		for _, t := range strings.Split(gen, ",") {
			switch {
			case t == "p":
				steps = append(steps, PlanStep{N: 1})
			case strings.HasPrefix(t, "m"):
				n, e := strconv.Atoi(t[1:])
				if e != nil || n < 0 {
					return nil, 0, fmt.Errorf("plan %q: bad step %q", s, t)
				}
				steps = append(steps, PlanStep{Many: true, N: n})
			default:
				return nil, 0, fmt.Errorf("plan %q: bad step %q", s, t)
			}
		}
	}
	return steps, split, nil
}

// PlanLen is the number of blocks a plan consumes.
func PlanLen(steps []PlanStep) int {
	n := 0
	for _, s := range steps {
		n += s.N
	}
	return n
}

// CallResult is the outcome of one writing call over blks[From:To].
type CallResult struct {
	Many     bool
	From, To int
	Err      error
}

// SessionResult of WriteSession.
type SessionResult struct {
	Bytes    []byte
	Calls    []CallResult
	FinErr   error
	PreClose []byte // bs-fro: the file after FinalizeReadOnly and before Close
	CloseErr error  // bs-fro: Close; bsf: the caller's own file Close
	Gen1     []byte // resumed kinds: the file after the first generation's Finalize
	Gen1Err  error  // resumed kinds: the first generation's Finalize error
}

// SessionKinds lists the writer kinds WriteSession understands.
var SessionKinds = []string{"bs", "bs-fro", "bsf", "bs-resume", "st-rw", "st-w", "st-stream", "st-resume", "def-path", "def-stream"}

// SessionV1Only reports the session kinds that can only emit CARv1.
func SessionV1Only(kind string) bool { return kind == "st-stream" || kind == "def-stream" }

type sessPutter interface {
	put(b kit.Blk) error
	many(bs []kit.Blk) error
	reads(upTo []kit.Blk)
}

type bsPutter struct{ bs *blockstore.ReadWrite }

func (p bsPutter) put(b kit.Blk) error { return p.bs.Put(Ctx, b.Block()) }
func (p bsPutter) many(bs []kit.Blk) error {
	l := []blocks.Block{}
	for _, b := range bs {
		l = append(l, b.Block())
	}
	return p.bs.PutMany(Ctx, l)
}

// reads issues every read entry point of the open read-write blockstore; the results belong to
// another property, what matters here is that reading must not disturb the writer.
func (p bsPutter) reads(upTo []kit.Blk) {
	for _, b := range upTo {
		p.bs.Has(Ctx, b.Cid)
		p.bs.Get(Ctx, b.Cid)
		p.bs.GetSize(Ctx, b.Cid)
	}
	p.bs.Has(Ctx, kit.Absent.Cid)
	p.bs.Get(Ctx, kit.Absent.Cid)
	if ch, err := p.bs.AllKeysChan(Ctx); err == nil {
		for range ch {
		}
	}
	p.bs.Roots()
}

type stPutter struct {
	w  storage.WritableCar
	rw *storage.StorageCar // nil for write-only kinds
}

func (p stPutter) put(b kit.Blk) error { return p.w.Put(Ctx, b.Cid.KeyString(), b.Data) }
func (p stPutter) many([]kit.Blk) error {
	return fmt.Errorf("drv: the storage front-ends have no PutMany")
}
func (p stPutter) reads(upTo []kit.Blk) {
	for _, b := range append(append([]kit.Blk{}, upTo...), kit.Absent) {
		k := b.Cid.KeyString()
		p.w.Has(Ctx, k)
		if p.rw != nil {
			p.rw.Get(Ctx, k)
			if rc, err := p.rw.GetStream(Ctx, k); err == nil {
				io.Copy(io.Discard, rc)
				rc.Close()
			}
		}
	}
	p.w.Roots()
}

type defPutter struct{ w *deferred.DeferredCarWriter }

func (p defPutter) put(b kit.Blk) error { return p.w.Put(Ctx, b.Cid.KeyString(), b.Data) }
func (p defPutter) many([]kit.Blk) error {
	return fmt.Errorf("drv: the deferred writer has no PutMany")
}
func (p defPutter) reads(upTo []kit.Blk) {
	for _, b := range append(append([]kit.Blk{}, upTo...), kit.Absent) {
		p.w.Has(Ctx, b.Cid.KeyString())
	}
}

func runSteps(p sessPutter, blks []kit.Blk, steps []PlanStep, from int, doReads bool, res *SessionResult) int {
	for _, s := range steps {
		to := from + s.N
		var err error
		if s.Many {
			err = p.many(blks[from:to])
		} else {
			err = p.put(blks[from])
		}
		res.Calls = append(res.Calls, CallResult{Many: s.Many, From: from, To: to, Err: err})
		from = to
		if doReads {
			p.reads(blks[:from])
		}
	}
	return from
}

// WriteSession drives one writing session (or, for the resumed kinds, two generations on the
// same file) call by call. steps == nil means one Put per block; split is the number of steps
// of the first generation of a resumed kind (ignored otherwise). A construction error is
// returned as err; put errors are recorded and the session continues.
func WriteSession(kind, dir string, roots []cid.Cid, blks []kit.Blk, o Opts, steps []PlanStep, split int, doReads bool) (*SessionResult, error) {
	res := &SessionResult{}
	if steps == nil {
		for range blks {
			steps = append(steps, PlanStep{N: 1})
		}
	}
	if PlanLen(steps) != len(blks) {
		return nil, fmt.Errorf("drv: plan consumes %d blocks, history has %d", PlanLen(steps), len(blks))
	}
	path := filepath.Join(dir, "ws-"+kind+".car")
	os.Remove(path)
	defer os.Remove(path)
	opts := o.List()
	switch kind {
	case "bs":
		bs, err := blockstore.OpenReadWrite(path, roots, opts...)
		if err != nil {
			return nil, err
		}
		runSteps(bsPutter{bs}, blks, steps, 0, doReads, res)
		res.FinErr = bs.Finalize()
	case "bs-fro":
		bs, err := blockstore.OpenReadWrite(path, roots, opts...)
		if err != nil {
			return nil, err
		}
		runSteps(bsPutter{bs}, blks, steps, 0, doReads, res)
		res.FinErr = bs.FinalizeReadOnly()
		if res.FinErr != nil {
			bs.Discard()
			return res, nil
		}
		res.PreClose, err = os.ReadFile(path)
		if err != nil {
			bs.Discard()
			return nil, err
		}
		// the store stays readable between FinalizeReadOnly and Close
		bsPutter{bs}.reads(blks)
		res.CloseErr = bs.Close()
	case "bsf":
		f, err := os.OpenFile(path, os.O_RDWR|os.O_CREATE|os.O_TRUNC, 0o644)
		if err != nil {
			return nil, err
		}
		bs, err := blockstore.OpenReadWriteFile(f, roots, opts...)
		if err != nil {
			f.Close()
			return nil, err
		}
		runSteps(bsPutter{bs}, blks, steps, 0, doReads, res)
		res.FinErr = bs.Finalize()
		res.CloseErr = f.Close()
	case "bs-resume":
		if split < 0 || split > len(steps) {
			return nil, fmt.Errorf("drv: bad split %d", split)
		}
		bs, err := blockstore.OpenReadWrite(path, roots, opts...)
		if err != nil {
			return nil, err
		}
		n := runSteps(bsPutter{bs}, blks, steps[:split], 0, doReads, res)
		res.Gen1Err = bs.Finalize()
		if res.Gen1Err != nil {
			return res, nil
		}
		if res.Gen1, err = os.ReadFile(path); err != nil {
			return nil, err
		}
		bs, err = blockstore.OpenReadWrite(path, roots, opts...)
		if err != nil {
			return nil, fmt.Errorf("resume: %w", err)
		}
		runSteps(bsPutter{bs}, blks, steps[split:], n, doReads, res)
		res.FinErr = bs.Finalize()
	case "st-rw", "st-w", "st-resume":
		f, err := os.OpenFile(path, os.O_RDWR|os.O_CREATE|os.O_TRUNC, 0o644)
		if err != nil {
			return nil, err
		}
		defer f.Close()
		var p stPutter
		if kind == "st-w" {
			w, err := storage.NewWritable(f, roots, opts...)
			if err != nil {
				return nil, err
			}
			p = stPutter{w: w}
		} else {
			w, err := storage.NewReadableWritable(f, roots, opts...)
			if err != nil {
				return nil, err
			}
			p = stPutter{w: w, rw: w}
		}
		if kind != "st-resume" {
			runSteps(p, blks, steps, 0, doReads, res)
			res.FinErr = p.w.Finalize()
			break
		}
		if split < 0 || split > len(steps) {
			return nil, fmt.Errorf("drv: bad split %d", split)
		}
		n := runSteps(p, blks, steps[:split], 0, doReads, res)
		res.Gen1Err = p.w.Finalize()
		if res.Gen1Err != nil {
			return res, nil
		}
		if res.Gen1, err = os.ReadFile(path); err != nil {
			return nil, err
		}
		w, err := storage.OpenReadableWritable(f, roots, opts...)
		if err != nil {
			return nil, fmt.Errorf("resume: %w", err)
		}
		p = stPutter{w: w, rw: w}
		runSteps(p, blks, steps[split:], n, doReads, res)
		res.FinErr = w.Finalize()
	case "st-stream":
		var buf bytes.Buffer
		w, err := storage.NewWritable(plainWriter{&buf}, roots, opts...)
		if err != nil {
			return nil, err
		}
		runSteps(stPutter{w: w}, blks, steps, 0, doReads, res)
		res.FinErr = w.Finalize()
		res.Bytes = buf.Bytes()
		return res, nil
	case "def-path":
		// the target path already holds a longer file: the writer must replace it, not write into it
		if err := os.WriteFile(path, bytes.Repeat([]byte{0xEE}, 20000), 0o644); err != nil {
			return nil, err
		}
		w := deferred.NewDeferredCarWriterForPath(path, roots, opts...)
		runSteps(defPutter{w}, blks, steps, 0, doReads, res)
		res.FinErr = w.Close()
	case "def-stream":
		var buf bytes.Buffer
		w := deferred.NewDeferredCarWriterForStream(plainWriter{&buf}, roots, opts...)
		runSteps(defPutter{w}, blks, steps, 0, doReads, res)
		res.FinErr = w.Close()
		res.Bytes = buf.Bytes()
		return res, nil
	default:
		return nil, fmt.Errorf("unknown session kind %s", kind)
	}
	b, err := os.ReadFile(path)
	if err != nil {
		if os.IsNotExist(err) {
			return res, nil // deferred writer without puts
		}
		return nil, err
	}
	res.Bytes = b
	return res, nil
}
