// Package drv drives the real go-car writers and readers in a uniform way.
package drv

import (
	"bytes"
	"context"
	"fmt"
	"io"
	"os"
	"path/filepath"

	blocks "github.com/ipfs/go-block-format"
	"github.com/ipfs/go-cid"
	carv1 "github.com/ipld/go-car"
	v1util "github.com/ipld/go-car/util"
	carv2 "github.com/ipld/go-car/v2"
	"github.com/ipld/go-car/v2/blockstore"
	"github.com/ipld/go-car/v2/index"
	"github.com/ipld/go-car/v2/storage"
	"github.com/ipld/go-car/v2/storage/deferred"
	"github.com/multiformats/go-multicodec"

	"verif/kit"
)

var Ctx = context.Background()

// Opts is the JSON-able option matrix.
type Opts struct {
	DataPad   uint64 `json:"dp,omitempty"`
	IndexPad  uint64 `json:"ip,omitempty"`
	Codec     string `json:"codec,omitempty"` // "" = default (mh sorted), "sorted", "mh"
	StoreID   bool   `json:"storeid,omitempty"`
	Whole     bool   `json:"whole,omitempty"`
	AllowDup  bool   `json:"dup,omitempty"`
	V1        bool   `json:"v1,omitempty"`
	MaxCid    uint64 `json:"maxcid,omitempty"`
	ZeroEOF   bool   `json:"zeroeof,omitempty"`
	NoIndex   bool   `json:"noindex,omitempty"`
	MaxHeader uint64 `json:"maxhdr,omitempty"`
	MaxSect   uint64 `json:"maxsect,omitempty"`
	Trusted   bool   `json:"trusted,omitempty"`
}

func (o Opts) CodecCode() multicodec.Code {
	switch o.Codec {
	case "sorted":
		return multicodec.CarIndexSorted
	}
	return multicodec.CarMultihashIndexSorted
}

func (o Opts) List() []carv2.Option {
	var l []carv2.Option
	if o.DataPad > 0 {
		l = append(l, carv2.UseDataPadding(o.DataPad))
	}
	if o.IndexPad > 0 {
		l = append(l, carv2.UseIndexPadding(o.IndexPad))
	}
	if o.Codec != "" {
		l = append(l, carv2.UseIndexCodec(o.CodecCode()))
	}
	if o.NoIndex {
		l = append(l, carv2.WithoutIndex())
	}
	if o.StoreID {
		l = append(l, carv2.StoreIdentityCIDs(true))
	}
	if o.Whole {
		l = append(l, carv2.UseWholeCIDs(true))
	}
	if o.AllowDup {
		l = append(l, carv2.AllowDuplicatePuts(true))
	}
	if o.V1 {
		l = append(l, carv2.WriteAsCarV1(true))
	}
	if o.MaxCid > 0 {
		l = append(l, carv2.MaxIndexCidSize(o.MaxCid))
	}
	if o.ZeroEOF {
		l = append(l, carv2.ZeroLengthSectionAsEOF(true))
	}
	if o.MaxHeader > 0 {
		l = append(l, carv2.MaxAllowedHeaderSize(o.MaxHeader))
	}
	if o.MaxSect > 0 {
		l = append(l, carv2.MaxAllowedSectionSize(o.MaxSect))
	}
	if o.Trusted {
		l = append(l, carv2.WithTrustedCAR(true))
	}
	return l
}

// WriterKinds, simplest first.
var WriterKinds = []string{"bs", "bsmany", "st-rw", "st-w", "st-stream", "def-path", "def-stream", "root"}

// V1Only reports writer kinds that can only emit CARv1.
func V1Only(kind string) bool {
	return kind == "st-stream" || kind == "def-stream" || kind == "root"
}

// plainWriter hides everything but Write.
type plainWriter struct{ w io.Writer }

func (p plainWriter) Write(b []byte) (int, error) { return p.w.Write(b) }

// PutErr records the error of each put (nil entries for success).
type WriteResult struct {
	Bytes   []byte
	PutErrs []error
	ManyErr error
	FinErr  error
}

// Write produces an archive with the given writer kind. A construction error is returned
// as err; put errors are recorded (the session continues) and Finalize's error is recorded.
func Write(kind string, dir string, roots []cid.Cid, blks []kit.Blk, o Opts) (*WriteResult, error) {
	res := &WriteResult{}
	path := filepath.Join(dir, "w-"+kind+".car")
	os.Remove(path)
	defer os.Remove(path)
	opts := o.List()
	switch kind {
	case "bs", "bsmany":
		bs, err := blockstore.OpenReadWrite(path, roots, opts...)
		if err != nil {
			return nil, err
		}
		if kind == "bs" {
			for _, b := range blks {
				res.PutErrs = append(res.PutErrs, bs.Put(Ctx, b.Block()))
			}
		} else {
			// PutMany stops at the first error; the single error is recorded in ManyErr and
			// the caller's model decides which prefix was stored.
			var l []blocks.Block
			for _, b := range blks {
				l = append(l, b.Block())
			}
			res.ManyErr = bs.PutMany(Ctx, l)
			for range blks {
				res.PutErrs = append(res.PutErrs, nil)
			}
		}
		res.FinErr = bs.Finalize()
	case "st-rw", "st-w":
		f, err := os.OpenFile(path, os.O_RDWR|os.O_CREATE|os.O_TRUNC, 0o644)
		if err != nil {
			return nil, err
		}
		defer f.Close()
		var w storage.WritableCar
		if kind == "st-rw" {
			w, err = storage.NewReadableWritable(f, roots, opts...)
		} else {
			w, err = storage.NewWritable(f, roots, opts...)
		}
		if err != nil {
			return nil, err
		}
		for _, b := range blks {
			res.PutErrs = append(res.PutErrs, w.Put(Ctx, b.Cid.KeyString(), b.Data))
		}
		res.FinErr = w.Finalize()
	case "st-stream":
		var buf bytes.Buffer
		w, err := storage.NewWritable(plainWriter{&buf}, roots, opts...)
		if err != nil {
			return nil, err
		}
		for _, b := range blks {
			res.PutErrs = append(res.PutErrs, w.Put(Ctx, b.Cid.KeyString(), b.Data))
		}
		res.FinErr = w.Finalize()
		res.Bytes = buf.Bytes()
		return res, nil
	case "def-path":
		// the target path already holds a longer file (a repeated export to one file name): the writer must
		// replace it, not write into it
		if err := os.WriteFile(path, bytes.Repeat([]byte{0xEE}, 20000), 0o644); err != nil {
			return nil, err
		}
		w := deferred.NewDeferredCarWriterForPath(path, roots, opts...)
		for _, b := range blks {
			res.PutErrs = append(res.PutErrs, w.Put(Ctx, b.Cid.KeyString(), b.Data))
		}
		res.FinErr = w.Close()
	case "def-stream":
		var buf bytes.Buffer
		w := deferred.NewDeferredCarWriterForStream(plainWriter{&buf}, roots, opts...)
		for _, b := range blks {
			res.PutErrs = append(res.PutErrs, w.Put(Ctx, b.Cid.KeyString(), b.Data))
		}
		res.FinErr = w.Close()
		res.Bytes = buf.Bytes()
		return res, nil
	case "root":
		var buf bytes.Buffer
		if err := carv1.WriteHeader(&carv1.CarHeader{Roots: roots, Version: 1}, &buf); err != nil {
			return nil, err
		}
		for _, b := range blks {
			res.PutErrs = append(res.PutErrs, v1util.LdWrite(&buf, b.Cid.Bytes(), b.Data))
		}
		res.Bytes = buf.Bytes()
		return res, nil
	default:
		return nil, fmt.Errorf("unknown writer kind %s", kind)
	}
	b, err := os.ReadFile(path)
	if err != nil {
		if os.IsNotExist(err) {
			return res, nil // deferred writer without puts
		}
		return nil, err
	}
	res.Bytes = b
	return res, nil
}

// IndexCodecOf maps an index to a short name.
func IndexCodecOf(i index.Index) string {
	switch i.Codec() {
	case multicodec.CarIndexSorted:
		return "sorted"
	case multicodec.CarMultihashIndexSorted:
		return "mh"
	}
	return fmt.Sprintf("0x%x", uint64(i.Codec()))
}
