package drv

import (
	"fmt"
	"io"
	"os"
	"sync"

	"github.com/ipld/go-car/v2/verifbridge"
)

// Rec is one mutation of the file, in the order it was issued.
type Rec struct {
	Kind      string // "write" or "truncate"
	Off       int64  // write offset / truncate size
	Data      []byte
	Call      int  // index of the API call that issued it
	Synthetic bool // recovered by diffing (pragma write, Truncate), not seen by the hook
}

// Fault decides the fate of the k-th hooked write (0-based, counted over the session).
// n < 0 means "no fault".
type Fault struct {
	At int // hooked write index
	N  int // bytes really written before the error (0 = plain error)
}

var ErrInjected = fmt.Errorf("injected write fault")

// Trace observes every mutation of one file.
type Trace struct {
	F      *os.File
	Img    []byte // image implied by the log so far
	Log    []Rec
	Call   int
	Faults []Fault
	hooked int // number of hooked writes so far
	// CallEnd[i] = len(Log) when API call i returned
	CallEnd []int
}

var traces sync.Map // *os.File -> *Trace
var hookOnce sync.Once

func installHook() {
	hookOnce.Do(func() {
		verifbridge.SetWriteHook(func(w io.WriterAt, p []byte, off int64) (int, error, bool) {
			t, ok := traces.Load(w)
			if !ok {
				return 0, nil, false
			}
			return t.(*Trace).onWrite(p, off)
		})
	})
}

// NewTrace starts tracing f (which may already have content).
func NewTrace(f *os.File) *Trace {
	installHook()
	t := &Trace{F: f}
	t.Img = t.actual()
	traces.Store(io.WriterAt(f), t)
	return t
}

func (t *Trace) Stop() { traces.Delete(io.WriterAt(t.F)) }

func (t *Trace) actual() []byte {
	st, err := t.F.Stat()
	if err != nil {
		panic(err)
	}
	b := make([]byte, st.Size())
	if _, err := t.F.ReadAt(b, 0); err != nil && err != io.EOF {
		panic(err)
	}
	return b
}

// Sync recovers untraced mutations by diffing the real file with the implied image.
func (t *Trace) Sync() {
	act := t.actual()
	if len(act) < len(t.Img) {
		t.Log = append(t.Log, Rec{Kind: "truncate", Off: int64(len(act)), Call: t.Call, Synthetic: true})
		t.Img = t.Img[:len(act)]
	}
	// differing range
	lo, hi := -1, -1
	for i := 0; i < len(act); i++ {
		var old byte
		inOld := i < len(t.Img)
		if inOld {
			old = t.Img[i]
		}
		if !inOld || old != act[i] {
			if lo < 0 {
				lo = i
			}
			hi = i + 1
		}
	}
	if lo >= 0 {
		// an untraced extension starts at the old end; a rewrite at the first differing byte
		d := append([]byte{}, act[lo:hi]...)
		t.Log = append(t.Log, Rec{Kind: "write", Off: int64(lo), Data: d, Call: t.Call, Synthetic: true})
		t.Img = append([]byte{}, act...)
	}
}

func (t *Trace) onWrite(p []byte, off int64) (int, error, bool) {
	t.Sync()
	k := t.hooked
	t.hooked++
	for _, f := range t.Faults {
		if f.At == k {
			n := f.N
			if n > len(p) {
				n = len(p)
			}
			if n > 0 {
				if _, err := t.F.WriteAt(p[:n], off); err != nil {
					panic(err)
				}
				t.record(p[:n], off)
			}
			return n, ErrInjected, true
		}
	}
	t.record(p, off)
	return 0, nil, false // forwarded to the real file by the seam
}

func (t *Trace) record(p []byte, off int64) {
	t.Log = append(t.Log, Rec{Kind: "write", Off: off, Data: append([]byte{}, p...), Call: t.Call})
	t.Img = ApplyWrite(t.Img, p, off)
}

// EndCall marks the return of an API call.
func (t *Trace) EndCall() {
	t.Sync()
	t.CallEnd = append(t.CallEnd, len(t.Log))
	t.Call++
}

// Hooked returns the number of hooked writes so far.
func (t *Trace) Hooked() int { return t.hooked }

// ApplyWrite applies a (possibly extending) write to an image.
func ApplyWrite(img, p []byte, off int64) []byte {
	end := int(off) + len(p)
	if end > len(img) {
		img = append(img, make([]byte, end-len(img))...)
	}
	copy(img[off:], p)
	return img
}

// Image builds the crash image: base, then records [0,i) in full, then the first t bytes of
// record i (t = 0: clean boundary). A torn write past EOF extends the file to off+t.
func Image(base []byte, log []Rec, i, t int) []byte {
	img := append([]byte{}, base...)
	for k := 0; k < i; k++ {
		img = applyRec(img, log[k], -1)
	}
	if t > 0 && i < len(log) {
		img = applyRec(img, log[i], t)
	}
	return img
}

func applyRec(img []byte, r Rec, t int) []byte {
	if r.Kind == "truncate" {
		if int(r.Off) < len(img) {
			return img[:r.Off]
		}
		return img
	}
	d := r.Data
	if t >= 0 && t < len(d) {
		d = d[:t]
	}
	return ApplyWrite(img, d, r.Off)
}
