package drv

import (
	"bufio"
	"bytes"
	"io"
	"os"
	"path/filepath"
	"strings"
	"testing/iotest"

	carv1 "github.com/ipld/go-car"
	carv2 "github.com/ipld/go-car/v2"
	"github.com/ipld/go-car/v2/verifbridge"

	"verif/refcar"
)

// EagerEOFReaderAt is an io.ReaderAt that reports io.EOF together with the last bytes of the
// input (n == len(p) at the end of the source, err == io.EOF), which the io.ReaderAt contract
// explicitly allows.
type EagerEOFReaderAt struct{ B []byte }

func (e EagerEOFReaderAt) ReadAt(p []byte, off int64) (int, error) {
	if off < 0 || off >= int64(len(e.B)) {
		return 0, io.EOF
	}
	n := copy(p, e.B[off:])
	if off+int64(n) == int64(len(e.B)) {
		return n, io.EOF
	}
	return n, nil
}

// byteOnlyReader is a Reader+ByteReader without Seek (what a bufio.Reader offers).
type byteOnlyReader struct{ r *bufio.Reader }

func (b byteOnlyReader) Read(p []byte) (int, error) { return b.r.Read(p) }
func (b byteOnlyReader) ReadByte() (byte, error)    { return b.r.ReadByte() }

// ScanSources are the source capability kinds of ReadC02, as kind suffixes:
//
//	bytes    *bytes.Reader: Reader+ByteReader+Seeker+ReaderAt
//	stream   Read only
//	file     *os.File: Reader+Seeker+ReaderAt, no ByteReader
//	bufio    Reader+ByteReader, no Seeker
//	dataerr  Read only; the last bytes arrive together with io.EOF (iotest.DataErrReader)
//	onebyte  Read only; one byte per Read (iotest.OneByteReader)
var ScanSources = []string{"bytes", "stream", "file", "bufio", "dataerr", "onebyte"}

// SplitScanKind splits a ReadC02 kind into the reader and its source ("stream" when the kind has
// no source suffix: the legacy readers of Read all consume a plain stream).
func SplitScanKind(kind string) (reader, src string) {
	for _, s := range ScanSources {
		if strings.HasSuffix(kind, "-"+s) {
			return strings.TrimSuffix(kind, "-"+s), s
		}
	}
	return kind, "stream"
}

// IsSkipKind reports whether the reader only returns metadata (BlockReader.SkipNext).
func IsSkipKind(kind string) bool { return strings.HasPrefix(kind, "br-skip") }

// ReadResultC02 is a ReadResult plus what the reader did when asked again after its clean end.
type ReadResultC02 struct {
	*ReadResult
	PostCalls  int            // Next/SkipNext calls made after the clean io.EOF
	PostBlocks []refcar.Block // blocks handed out by those calls (must be none)
	PostErrs   []error        // their errors (io.EOF expected)
}

func mkSource(src, dir, tag string, data []byte) (io.Reader, func()) {
	switch src {
	case "bytes":
		return bytes.NewReader(data), func() {}
	case "stream":
		return PlainReader{bytes.NewReader(data)}, func() {}
	case "bufio":
		return byteOnlyReader{bufio.NewReaderSize(PlainReader{bytes.NewReader(data)}, 16)}, func() {}
	case "dataerr":
		return iotest.DataErrReader(PlainReader{bytes.NewReader(data)}), func() {}
	case "onebyte":
		return iotest.OneByteReader(PlainReader{bytes.NewReader(data)}), func() {}
	case "file":
		p := filepath.Join(dir, "rx-"+tag+".car")
		if err := os.WriteFile(p, data, 0o644); err != nil {
			panic(err)
		}
		f, err := os.Open(p)
		if err != nil {
			panic(err)
		}
		return f, func() { f.Close(); os.Remove(p) }
	}
	panic("unknown source kind " + src)
}

// ReadC02 runs one verifying scanning reader over file, like Read, with a selectable source
// capability kind (suffix, see ScanSources) and, after a clean end, afterEOF further calls.
//
// readers: br, br-skip (BlockReader.Next / SkipNext), root-reader, root-load, root-load-batch,
// int-reader, int-load, int-load-batch. The v1-only readers get the CARv1 payload of a CARv2.
func ReadC02(kind, dir string, file []byte, o Opts, afterEOF int) *ReadResultC02 {
	res := &ReadResultC02{ReadResult: &ReadResult{}}
	reader, srcKind := SplitScanKind(kind)
	opts := o.List()
	data := file
	if reader != "br" && reader != "br-skip" {
		p, err := payloadOf(file, o)
		if err != nil {
			res.OpenErr = err
			return res
		}
		data = p
	}
	src, done := mkSource(srcKind, dir, strings.ReplaceAll(kind, "/", "_"), data)
	defer done()

	type nexter func() (refcar.Block, error)
	scan := func(next nexter) {
		for {
			b, err := next()
			if err != nil {
				if err != io.EOF {
					res.Err = err
					return
				}
				break
			}
			res.Blocks = append(res.Blocks, b)
		}
		for i := 0; i < afterEOF; i++ {
			b, err := next()
			res.PostCalls++
			res.PostErrs = append(res.PostErrs, err)
			if err == nil {
				res.PostBlocks = append(res.PostBlocks, b)
			}
		}
	}

	switch reader {
	case "br", "br-skip":
		br, err := carv2.NewBlockReader(src, opts...)
		if err != nil {
			res.OpenErr = err
			return res
		}
		res.Roots = rawRoots(br.Roots)
		if reader == "br-skip" {
			scan(func() (refcar.Block, error) {
				md, err := br.SkipNext()
				if err != nil {
					return refcar.Block{}, err
				}
				return refcar.Block{Cid: md.Cid.Bytes()}, nil
			})
		} else {
			scan(func() (refcar.Block, error) {
				b, err := br.Next()
				if err != nil {
					return refcar.Block{}, err
				}
				return refcar.Block{Cid: b.Cid().Bytes(), Data: b.RawData()}, nil
			})
		}
		return res
	case "root-reader":
		cr, err := carv1.NewCarReader(src)
		if err != nil {
			res.OpenErr = err
			return res
		}
		res.Roots = rawRoots(cr.Header.Roots)
		scan(func() (refcar.Block, error) {
			b, err := cr.Next()
			if err != nil {
				return refcar.Block{}, err
			}
			return refcar.Block{Cid: b.Cid().Bytes(), Data: b.RawData()}, nil
		})
		return res
	case "int-reader":
		cr, err := verifbridge.NewCarV1ReaderWithoutDefaults(src, o.ZeroEOF, defU(o.MaxHeader, carv2.DefaultMaxAllowedHeaderSize), defU(o.MaxSect, carv2.DefaultMaxAllowedSectionSize))
		if err != nil {
			res.OpenErr = err
			return res
		}
		res.Roots = rawRoots(cr.Header.Roots)
		scan(func() (refcar.Block, error) {
			b, err := cr.Next()
			if err != nil {
				return refcar.Block{}, err
			}
			return refcar.Block{Cid: b.Cid().Bytes(), Data: b.RawData()}, nil
		})
		return res
	case "root-load", "root-load-batch":
		var h *carv1.CarHeader
		var err error
		if reader == "root-load" {
			ms := &mapStore{}
			h, err = carv1.LoadCar(Ctx, ms, src)
			res.Blocks = ms.got
		} else {
			ms := &batchMapStore{}
			h, err = carv1.LoadCar(Ctx, ms, src)
			res.Blocks = ms.got
		}
		if err != nil {
			res.Err = err
			return res
		}
		res.Roots = rawRoots(h.Roots)
		return res
	case "int-load", "int-load-batch":
		var h *verifbridge.CarV1Header
		var err error
		if reader == "int-load" {
			ms := &mapStore{}
			h, err = verifbridge.LoadCarV1(ms, src)
			res.Blocks = ms.got
		} else {
			ms := &batchMapStore{}
			h, err = verifbridge.LoadCarV1(ms, src)
			res.Blocks = ms.got
		}
		if err != nil {
			res.Err = err
			return res
		}
		res.Roots = rawRoots(h.Roots)
		return res
	}
	panic("unknown reader kind " + kind)
}

// InspectSources are the io.ReaderAt kinds Inspect is built from.
var InspectSources = []string{"inspect", "inspect-at", "inspect-eager"}

// InspectFull runs Reader.Inspect(true) over file from the given io.ReaderAt kind:
//
//	inspect        *bytes.Reader (also a Reader/Seeker)
//	inspect-at     ReadAt only
//	inspect-eager  ReadAt only, io.EOF delivered together with the last bytes
func InspectFull(kind string, file []byte, o Opts) (blocks uint64, openErr, err error) {
	var src io.ReaderAt
	switch kind {
	case "inspect":
		src = bytes.NewReader(file)
	case "inspect-at":
		src = OnlyReaderAt{bytes.NewReader(file)}
	case "inspect-eager":
		src = EagerEOFReaderAt{file}
	default:
		panic("unknown inspect kind " + kind)
	}
	rd, oerr := carv2.NewReader(src, o.List()...)
	if oerr != nil {
		return 0, oerr, nil
	}
	st, err := rd.Inspect(true)
	return st.BlockCount, nil, err
}

// RootInterleaveResult is what two overlapping root-module readers saw.
type RootInterleaveResult struct {
	A, B      *ReadResult
	APost     []refcar.Block // blocks A handed out after its clean end, while B was open
	APostErrs []error
}

// RootInterleave drives two root-module CarReaders whose lifetimes overlap: A is scanned to its
// clean end, B is opened (and may be given A's recycled buffered reader), A.Next is called twice
// more, then B is scanned.
func RootInterleave(a, b []byte) *RootInterleaveResult {
	out := &RootInterleaveResult{A: &ReadResult{}, B: &ReadResult{}}
	ca, err := carv1.NewCarReader(PlainReader{bytes.NewReader(a)})
	if err != nil {
		out.A.OpenErr = err
		return out
	}
	for {
		blk, err := ca.Next()
		if err != nil {
			if err != io.EOF {
				out.A.Err = err
			}
			break
		}
		out.A.Blocks = append(out.A.Blocks, refcar.Block{Cid: blk.Cid().Bytes(), Data: blk.RawData()})
	}
	cb, err := carv1.NewCarReader(PlainReader{bytes.NewReader(b)})
	if err != nil {
		out.B.OpenErr = err
		return out
	}
	if out.A.Err == nil {
		for i := 0; i < 2; i++ {
			blk, err := ca.Next()
			out.APostErrs = append(out.APostErrs, err)
			if err == nil {
				out.APost = append(out.APost, refcar.Block{Cid: blk.Cid().Bytes(), Data: blk.RawData()})
			}
		}
	}
	for {
		blk, err := cb.Next()
		if err != nil {
			if err != io.EOF {
				out.B.Err = err
			}
			break
		}
		out.B.Blocks = append(out.B.Blocks, refcar.Block{Cid: blk.Cid().Bytes(), Data: blk.RawData()})
	}
	return out
}
