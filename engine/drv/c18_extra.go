package drv

import (
	"bytes"
	"context"
	"crypto/sha256"
	"errors"
	"fmt"
	"io/fs"
	"os"
	"os/exec"
	"path/filepath"
	"time"
)

// CarRun describes one invocation of the car binary with more control than Car: a deadline
// (a hung process is killed and reported instead of hanging the run) and the choice of what
// standard input is (nothing, a pipe fed with bytes, or a regular file opened for reading,
// i.e. what a shell's `< file` redirection gives the process: a seekable *os.File).
type CarRun struct {
	Dir       string
	Stdin     []byte        // fed through a pipe when non-nil (and StdinFile is empty)
	StdinFile string        // path of a regular file to use as fd 0
	Timeout   time.Duration // 0 = 5 minutes
	Args      []string
}

// Run executes the invocation. hung reports that the deadline expired and the process was killed.
func (c CarRun) Run() (r RunResult, hung bool) {
	to := c.Timeout
	if to <= 0 {
		to = 5 * time.Minute
	}
	ctx, cancel := context.WithTimeout(context.Background(), to)
	defer cancel()
	cmd := exec.CommandContext(ctx, CarBin, c.Args...)
	cmd.Dir = c.Dir
	// WaitDelay only bounds the wait for the output pipes after the process is gone (or was killed at
	// the deadline). It is not an oracle: on a heavily loaded machine the copying goroutines have been
	// seen to need more than 5 s after a normal exit ("exec: WaitDelay expired before I/O complete"),
	// which turned a successful run into a spurious failure. Two minutes is far above that.
	cmd.WaitDelay = 2 * time.Minute
	switch {
	case c.StdinFile != "":
		f, err := os.Open(c.StdinFile)
		if err != nil {
			return RunResult{Exit: -1, Stderr: []byte(err.Error())}, false
		}
		defer f.Close()
		cmd.Stdin = f
	case c.Stdin != nil:
		cmd.Stdin = bytes.NewReader(c.Stdin)
	}
	var so, se bytes.Buffer
	cmd.Stdout, cmd.Stderr = &so, &se
	err := cmd.Run()
	r = RunResult{Stdout: so.Bytes(), Stderr: se.Bytes()}
	if ctx.Err() == context.DeadlineExceeded {
		r.Exit = -2
		return r, true
	}
	if err != nil {
		if ee, ok := err.(*exec.ExitError); ok {
			r.Exit = ee.ExitCode()
		} else if errors.Is(err, exec.ErrWaitDelay) && cmd.ProcessState != nil && cmd.ProcessState.Exited() {
			// the process itself exited; only the pipes were slow: its own exit code stands
			r.Exit = cmd.ProcessState.ExitCode()
		} else {
			r.Exit = -1
			r.Stderr = append(r.Stderr, []byte(err.Error())...)
		}
	}
	return r, false
}

// SnapshotStrict renders a directory tree like Snapshot (same value format: "dir",
// "symlink:<target>", "file:<len>:<sha256>", keyed by the path relative to root, the root
// itself being "."), but reports every entry it could not stat, read or resolve instead of
// silently rendering it as empty. Entries that are neither regular files, directories nor
// symbolic links are rendered as "other:<mode>".
func SnapshotStrict(root string) (map[string]string, []string) {
	out := map[string]string{}
	var errs []string
	filepath.WalkDir(root, func(p string, d fs.DirEntry, err error) error {
		rel, rerr := filepath.Rel(root, p)
		if rerr != nil {
			rel = p
		}
		if err != nil {
			errs = append(errs, fmt.Sprintf("%s: %v", rel, err))
			return nil
		}
		fi, err := os.Lstat(p)
		if err != nil {
			errs = append(errs, fmt.Sprintf("%s: %v", rel, err))
			return nil
		}
		switch {
		case fi.Mode()&os.ModeSymlink != 0:
			t, err := os.Readlink(p)
			if err != nil {
				errs = append(errs, fmt.Sprintf("%s: %v", rel, err))
				return nil
			}
			out[rel] = "symlink:" + t
		case fi.IsDir():
			out[rel] = "dir"
		case fi.Mode().IsRegular():
			b, err := os.ReadFile(p)
			if err != nil {
				errs = append(errs, fmt.Sprintf("%s: %v", rel, err))
				return nil
			}
			out[rel] = FileDigest(b)
		default:
			out[rel] = "other:" + fi.Mode().String()
		}
		return nil
	})
	return out, errs
}

// FileDigest is the rendering of a regular file's contents used by Snapshot and SnapshotStrict.
func FileDigest(b []byte) string {
	return fmt.Sprintf("file:%d:%x", len(b), sha256.Sum256(b))
}
