package drv

import (
	"bytes"
	"context"
	"errors"
	"io"
	"os"
	"path/filepath"

	"github.com/ipld/go-car/v2/blockstore"
	"github.com/ipld/go-car/v2/index"
	"github.com/ipld/go-car/v2/storage"
)

// EOFAt is a ReaderAt over a byte slice that reports io.EOF together with the last bytes
// (n == len(p), err == io.EOF when the read ends exactly at the end of the source). The
// io.ReaderAt contract allows either answer there.
type EOFAt struct{ B []byte }

func (e EOFAt) ReadAt(p []byte, off int64) (int, error) {
	if off < 0 {
		return 0, errors.New("EOFAt: negative offset")
	}
	if off >= int64(len(e.B)) {
		return 0, io.EOF
	}
	n := copy(p, e.B[off:])
	if off+int64(n) == int64(len(e.B)) {
		return n, io.EOF
	}
	return n, nil
}

// RAKindsX are the additional random-access front-ends (see OpenRAX).
//
//	*-file : the backing is an *os.File (Reader + Seeker + ReaderAt with an OS file position)
//	*-eofat: ReaderAt-only backing that returns io.EOF together with the final bytes
//	*-pos  : bytes.Reader whose Read position is not 0 when it is handed over (a ReaderAt has no position)
var RAKindsX = []string{"ro-new-file", "ro-new-eofat", "ro-new-pos", "st-open-file", "st-open-eofat", "st-open-pos"}

// IsBlockstoreKind reports whether the front-end kind is a blockstore.ReadOnly.
func IsBlockstoreKind(kind string) bool { return len(kind) >= 2 && kind[:2] == "ro" }

type raClose struct {
	RA
	closer func()
}

func (r raClose) Close() {
	r.RA.Close()
	if r.closer != nil {
		r.closer()
	}
}

func (r raClose) Unwrap() RA { return r.RA }

func unwrapRA(ra RA) RA {
	for {
		u, ok := ra.(interface{ Unwrap() RA })
		if !ok {
			return ra
		}
		ra = u.Unwrap()
	}
}

// backingFor builds the io.ReaderAt of a front-end kind.
func backingFor(kind, dir string, file []byte) (io.ReaderAt, func(), error) {
	switch kind {
	case "ro-new", "st-open":
		return bytes.NewReader(file), nil, nil
	case "ro-new-at", "st-open-at":
		return OnlyReaderAt{bytes.NewReader(file)}, nil, nil
	case "ro-new-eofat", "st-open-eofat":
		return EOFAt{file}, nil, nil
	case "ro-new-pos", "st-open-pos":
		r := bytes.NewReader(file)
		var three [3]byte
		if _, err := io.ReadFull(r, three[:]); err != nil {
			return nil, nil, err
		}
		return r, nil, nil
	case "ro-new-file", "st-open-file":
		p := filepath.Join(dir, "ra-"+kind+".car")
		if err := os.WriteFile(p, file, 0o644); err != nil {
			panic(err)
		}
		f, err := os.Open(p)
		if err != nil {
			panic(err)
		}
		os.Remove(p) // the open descriptor keeps the content
		return f, func() { f.Close() }, nil
	}
	panic("unknown RA backing kind " + kind)
}

// OpenRAX opens file with any front-end kind of RAKinds or RAKindsX. A non-nil idx is handed to
// blockstore.NewReadOnly as the caller-supplied index (blockstore kinds other than ro-open only).
func OpenRAX(kind, dir string, file []byte, o Opts, idx index.Index) (RA, error) {
	if kind == "ro-open" {
		if idx != nil {
			panic("ro-open takes no index")
		}
		return OpenRA(kind, dir, file, o)
	}
	back, closer, err := backingFor(kind, dir, file)
	if err != nil {
		return nil, err
	}
	fail := func(err error) (RA, error) {
		if closer != nil {
			closer()
		}
		return nil, err
	}
	if IsBlockstoreKind(kind) {
		bs, err := blockstore.NewReadOnly(back, idx, o.List()...)
		if err != nil {
			return fail(err)
		}
		return raClose{raBS{bs}, closer}, nil
	}
	if idx != nil {
		panic("storage.OpenReadable takes no index")
	}
	st, err := storage.OpenReadable(back, o.List()...)
	if err != nil {
		return fail(err)
	}
	return raClose{raST{st}, closer}, nil
}

// IndexOf returns what the store's Index() accessor returns.
func IndexOf(ra RA) index.Index {
	switch r := unwrapRA(ra).(type) {
	case raBS:
		return r.bs.Index()
	case raST:
		return r.st.Index()
	}
	panic("IndexOf: unknown RA")
}

// KeysCancel starts a listing, receives take keys, cancels the context and drains the channel
// until it is closed. ok is false when the front-end has no listing. All keys received (before and
// after the cancellation) are returned in order; asyncErr is the last error handed to the async
// error handler.
func KeysCancel(ra RA, take int) (keys [][]byte, asyncErr error, ok bool, err error) {
	r, isBS := unwrapRA(ra).(raBS)
	if !isBS {
		return nil, nil, false, nil
	}
	cctx, cancel := context.WithCancel(Ctx)
	defer cancel()
	var handlerErr error
	ctx := blockstore.WithAsyncErrorHandler(cctx, func(e error) { handlerErr = e })
	ch, err := r.bs.AllKeysChan(ctx)
	if err != nil {
		return nil, nil, true, err
	}
	keys = [][]byte{}
	for c := range ch {
		keys = append(keys, c.Bytes())
		if len(keys) == take {
			cancel()
		}
	}
	// the channel is closed by the listing goroutine after its last handler call
	return keys, handlerErr, true, nil
}
