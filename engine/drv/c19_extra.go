package drv

import (
	"bytes"
	"os"
	"os/exec"
	"path/filepath"
)

// CarStdinFile runs the car binary in dir with its standard input redirected from a regular
// (seekable) file, as a shell's `car ... < file` does. Car, by contrast, feeds stdin through a pipe.
func CarStdinFile(dir, stdinPath string, args ...string) RunResult {
	if !filepath.IsAbs(stdinPath) {
		stdinPath = filepath.Join(dir, stdinPath)
	}
	f, err := os.Open(stdinPath)
	if err != nil {
		return RunResult{Exit: -1, Stderr: []byte(err.Error())}
	}
	defer f.Close()
	cmd := exec.Command(CarBin, args...)
	cmd.Dir = dir
	cmd.Stdin = f
	var so, se bytes.Buffer
	cmd.Stdout, cmd.Stderr = &so, &se
	err = cmd.Run()
	r := RunResult{Stdout: so.Bytes(), Stderr: se.Bytes()}
	if err != nil {
		if ee, ok := err.(*exec.ExitError); ok {
			r.Exit = ee.ExitCode()
		} else {
			r.Exit = -1
			r.Stderr = append(r.Stderr, []byte(err.Error())...)
		}
	}
	return r
}
