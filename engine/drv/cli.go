package drv

import (
	"bytes"
	"crypto/sha256"
	"fmt"
	"io/fs"
	"os"
	"os/exec"
	"path/filepath"
	"sort"
	"strings"
	"sync"
)

var VerifDir = func() string {
	if d := os.Getenv("VERIF_DIR"); d != "" {
		return d
	}
	return "/verif"
}()

var CarBin = filepath.Join(VerifDir, "bin", "car")

var buildOnce sync.Once
var buildErr error

// BuildCar builds the car CLI from /repo/cmd against /repo and /repo/v2 (the cmd module has
// no replace directives of its own, so an out-of-tree modfile adds them).
func BuildCar() error {
	buildOnce.Do(func() {
		mod, err := os.ReadFile("/repo/cmd/go.mod")
		if err != nil {
			buildErr = err
			return
		}
		modfile := filepath.Join(VerifDir, "bin", "cmd.mod")
		os.MkdirAll(filepath.Dir(modfile), 0o755)
		text := string(mod) + "\nreplace github.com/ipld/go-car => /repo\n\nreplace github.com/ipld/go-car/v2 => /repo/v2\n"
		if err := os.WriteFile(modfile, []byte(text), 0o644); err != nil {
			buildErr = err
			return
		}
		var sum []byte
		for _, p := range []string{"/repo/go.sum", "/repo/v2/go.sum", "/repo/cmd/go.sum"} {
			b, _ := os.ReadFile(p)
			sum = append(sum, b...)
		}
		lines := strings.Split(string(sum), "\n")
		sort.Strings(lines)
		var uniq []string
		for i, l := range lines {
			if l != "" && (i == 0 || lines[i-1] != l) {
				uniq = append(uniq, l)
			}
		}
		if err := os.WriteFile(filepath.Join(VerifDir, "bin", "cmd.sum"), []byte(strings.Join(uniq, "\n")+"\n"), 0o644); err != nil {
			buildErr = err
			return
		}
		args := []string{"build", "-modfile=" + modfile, "-o", CarBin}
		if ov := os.Getenv("VCHECK_OVERLAY"); ov != "" {
			args = append(args, "-overlay", ov) // development only, see vcheck
		}
		cmd := exec.Command("go", append(args, "./car")...)
		cmd.Dir = "/repo/cmd"
		cmd.Env = append(os.Environ(), "GOFLAGS=-mod=mod", "GOPROXY=off", "GOSUMDB=off", "GOTOOLCHAIN=local", "CGO_ENABLED=0")
		if out, err := cmd.CombinedOutput(); err != nil {
			buildErr = fmt.Errorf("building car failed: %v\n%s", err, out)
		}
	})
	return buildErr
}

// RunResult of one CLI invocation.
type RunResult struct {
	Stdout, Stderr []byte
	Exit           int
}

// Car runs the car binary in dir with the given stdin.
func Car(dir string, stdin []byte, args ...string) RunResult {
	cmd := exec.Command(CarBin, args...)
	cmd.Dir = dir
	if stdin != nil {
		cmd.Stdin = bytes.NewReader(stdin)
	}
	var so, se bytes.Buffer
	cmd.Stdout, cmd.Stderr = &so, &se
	err := cmd.Run()
	r := RunResult{Stdout: so.Bytes(), Stderr: se.Bytes()}
	if err != nil {
		if ee, ok := err.(*exec.ExitError); ok {
			r.Exit = ee.ExitCode()
		} else {
			r.Exit = -1
			r.Stderr = append(r.Stderr, []byte(err.Error())...)
		}
	}
	return r
}

// Snapshot renders a directory tree (names, types, contents, link targets), skipping
// the subtrees in skip (paths relative to root).
func Snapshot(root string, skip ...string) map[string]string {
	out := map[string]string{}
	filepath.WalkDir(root, func(p string, d fs.DirEntry, err error) error {
		if err != nil {
			return nil
		}
		rel, _ := filepath.Rel(root, p)
		for _, s := range skip {
			if rel == s {
				if d.IsDir() {
					return filepath.SkipDir
				}
				return nil
			}
		}
		fi, err := os.Lstat(p)
		if err != nil {
			return nil
		}
		switch {
		case fi.Mode()&os.ModeSymlink != 0:
			t, _ := os.Readlink(p)
			out[rel] = "symlink:" + t
		case fi.IsDir():
			out[rel] = "dir"
		default:
			b, _ := os.ReadFile(p)
			out[rel] = fmt.Sprintf("file:%d:%x", len(b), sha256.Sum256(b))
		}
		return nil
	})
	return out
}

// DiffSnapshots lists the differences.
func DiffSnapshots(a, b map[string]string) []string {
	var d []string
	for k, v := range a {
		if w, ok := b[k]; !ok {
			d = append(d, "deleted "+k)
		} else if w != v {
			d = append(d, fmt.Sprintf("changed %s: %s -> %s", k, v, w))
		}
	}
	for k, v := range b {
		if _, ok := a[k]; !ok {
			d = append(d, fmt.Sprintf("created %s (%s)", k, v))
		}
	}
	sort.Strings(d)
	return d
}
