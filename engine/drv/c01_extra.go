package drv

// Extended reader/writer front-ends for C01 (additive; the functions of readers.go and
// writers.go are unchanged).

import (
	"bytes"
	"fmt"
	"io"
	"os"
	"path/filepath"
	"strings"
	"syscall"
	"testing/iotest"

	blocks "github.com/ipfs/go-block-format"
	"github.com/ipfs/go-cid"
	carv1 "github.com/ipld/go-car"
	v1util "github.com/ipld/go-car/util"
	carv2 "github.com/ipld/go-car/v2"
	"github.com/ipld/go-car/v2/blockstore"
	"github.com/ipld/go-car/v2/storage"
	"github.com/ipld/go-car/v2/verifbridge"

	"verif/kit"
	"verif/refcar"
)

// ---------------------------------------------------------------- sources

// SourceKinds: how the same bytes are presented to a streaming reader.
//
//	bytes    *bytes.Reader (Reader+ByteReader+Seeker+ReaderAt)
//	stream   only Read, always fills the buffer
//	file     *os.File on a regular file (Reader+Seeker+ReaderAt, no ByteReader)
//	onebyte  only Read, one byte per call
//	half     only Read, half of the requested length per call
//	dataerr  only Read, the final bytes are returned together with io.EOF
//	pipe     *os.File over a pipe (has a Seek method that always fails)
var SourceKinds = []string{"bytes", "stream", "file", "onebyte", "half", "dataerr", "pipe"}

// OpenSource builds a source of the given kind; path must hold the same bytes as data for
// the kind "file". The cleanup must be called.
func OpenSource(kind, path string, data []byte) (io.Reader, func()) {
	switch kind {
	case "bytes":
		return bytes.NewReader(data), func() {}
	case "stream":
		return PlainReader{bytes.NewReader(data)}, func() {}
	case "onebyte":
		return iotest.OneByteReader(bytes.NewReader(data)), func() {}
	case "half":
		return iotest.HalfReader(bytes.NewReader(data)), func() {}
	case "dataerr":
		return iotest.DataErrReader(bytes.NewReader(data)), func() {}
	case "file":
		f, err := os.Open(path)
		if err != nil {
			panic(err)
		}
		return f, func() { f.Close() }
	case "pipe":
		pr, pw, err := os.Pipe()
		if err != nil {
			panic(err)
		}
		// Deterministic chunking: when the data fits the pipe buffer (enlarged if needed) it
		// is written completely before the reader starts, so every Read returns
		// min(len(p), remaining). Otherwise a goroutine feeds the pipe.
		fits := len(data) <= 65536
		if !fits && len(data) <= 1<<20 {
			if _, _, e := syscall.Syscall(syscall.SYS_FCNTL, pw.Fd(), 1031 /* F_SETPIPE_SZ */, uintptr(len(data))); e == 0 {
				fits = true
			}
		}
		if fits {
			if _, err := pw.Write(data); err != nil {
				panic(err)
			}
			pw.Close()
			return pr, func() { pr.Close() }
		}
		done := make(chan struct{})
		go func() {
			defer close(done)
			pw.Write(data) // fails with EPIPE once the read end is closed
			pw.Close()
		}()
		return pr, func() { pr.Close(); <-done }
	}
	panic("unknown source kind " + kind)
}

// ---------------------------------------------------------------- scanning readers

// ReadResultX extends ReadResult with the outputs that Read does not record.
type ReadResultX struct {
	ReadResult
	Version uint64   // BlockReader.Version (0 for the other families)
	HasData []bool   // per block: the data was delivered (false for SkipNext)
	Sizes   []uint64 // per block: BlockMetadata.Size for SkipNext, len(data) otherwise
	// PostEOF describes what the calls made after the clean end returned: "EOF" for
	// (nil, io.EOF), otherwise a description. Empty when the scan ended with an error.
	PostEOF []string
	// Second is the sequence seen by the second of two simultaneously open readers
	// (family root-reader-pair only), Third the one opened together with it.
	Second, Third []refcar.Block
}

var c01Families = []string{"br-skip-", "br-alt-", "br-", "root-reader-lenient", "root-reader-pair", "root-reader", "root-load-batch", "root-load", "int-reader", "int-load-batch", "int-load"}

func splitKind(kind string) (family, src string) {
	for _, f := range c01Families {
		if strings.HasPrefix(kind, f) {
			rest := strings.TrimPrefix(kind, f)
			if strings.HasSuffix(f, "-") {
				return strings.TrimSuffix(f, "-"), rest
			}
			if rest == "" {
				return f, "stream"
			}
			if strings.HasPrefix(rest, "-") {
				return f, rest[1:]
			}
		}
	}
	panic("unknown reader kind " + kind)
}

const postEOFCalls = 2

func describePost(b blocks.Block, err error) string {
	if b == nil && err == io.EOF {
		return "EOF"
	}
	if b != nil {
		return fmt.Sprintf("block %s (err %v)", b.Cid(), err)
	}
	return fmt.Sprintf("error %v", err)
}

// ReadX runs one scanning reader. kind is <family>[-<source>]:
//
//	br-<src>        BlockReader.Next to the end
//	br-skip-<src>   BlockReader.SkipNext to the end
//	br-alt-<src>    SkipNext and Next alternating (SkipNext first)
//	root-reader[-<src>], root-reader-lenient[-<src>]   root-module CarReader
//	root-reader-pair[-<src>]  root-module CarReader: one reader drained and called again after
//	                the end, then two readers opened together and advanced in lockstep
//	root-load[-<src>], root-load-batch[-<src>]          root-module LoadCar (Put / PutMany store)
//	int-reader[-<src>], int-load[-<src>], int-load-batch[-<src>]  the v2 module's internal carv1 copy
//
// The BlockReader families read file (path holds the same bytes); the other families read
// payload, the CARv1 payload of file as determined by the caller (not by go-car). The
// default source of the legacy families is "stream".
func ReadX(kind, path string, file, payload []byte, o Opts) *ReadResultX {
	res := &ReadResultX{}
	family, srcKind := splitKind(kind)
	opts := o.List()
	add := func(c cid.Cid, data []byte, has bool, size uint64) {
		res.Blocks = append(res.Blocks, refcar.Block{Cid: c.Bytes(), Data: data})
		res.HasData = append(res.HasData, has)
		res.Sizes = append(res.Sizes, size)
	}
	switch family {
	case "br", "br-skip", "br-alt":
		src, done := OpenSource(srcKind, path, file)
		defer done()
		br, err := carv2.NewBlockReader(src, opts...)
		if err != nil {
			res.OpenErr = err
			return res
		}
		res.Version = br.Version
		res.Roots = rawRoots(br.Roots)
		for i := 0; ; i++ {
			skip := family == "br-skip" || (family == "br-alt" && i%2 == 0)
			if skip {
				md, err := br.SkipNext()
				if err != nil {
					if err != io.EOF {
						res.Err = err
						return res
					}
					break
				}
				add(md.Cid, nil, false, md.Size)
				continue
			}
			b, err := br.Next()
			if err != nil {
				if err != io.EOF {
					res.Err = err
					return res
				}
				break
			}
			add(b.Cid(), b.RawData(), true, uint64(len(b.RawData())))
		}
		for i := 0; i < postEOFCalls; i++ {
			// once via each method: the end is a property of the reader, not of the method
			if (i%2 == 0) == (family == "br-skip") {
				md, err := br.SkipNext()
				if md == nil && err == io.EOF {
					res.PostEOF = append(res.PostEOF, "EOF")
				} else if md != nil {
					res.PostEOF = append(res.PostEOF, fmt.Sprintf("SkipNext: block %s (err %v)", md.Cid, err))
				} else {
					res.PostEOF = append(res.PostEOF, fmt.Sprintf("SkipNext: error %v", err))
				}
			} else {
				b, err := br.Next()
				res.PostEOF = append(res.PostEOF, describePost(b, err))
			}
		}
		return res
	case "root-reader", "root-reader-lenient":
		src, done := OpenSource(srcKind, path, payload)
		defer done()
		cr, err := openRootReader(src, family == "root-reader-lenient")
		if err != nil {
			res.OpenErr = err
			return res
		}
		res.Roots = rawRoots(cr.Header.Roots)
		for {
			b, err := cr.Next()
			if err != nil {
				if err != io.EOF {
					res.Err = err
					return res
				}
				break
			}
			add(b.Cid(), b.RawData(), true, uint64(len(b.RawData())))
		}
		for i := 0; i < postEOFCalls; i++ {
			b, err := cr.Next()
			res.PostEOF = append(res.PostEOF, describePost(b, err))
		}
		return res
	case "root-reader-pair":
		// reader 1 alone, called again after its end (this is where a reader hands its
		// buffer back to the shared pool); then readers 2 and 3 open at the same time
		src1, done1 := OpenSource(srcKind, path, payload)
		defer done1()
		cr1, err := openRootReader(src1, true)
		if err != nil {
			res.OpenErr = err
			return res
		}
		res.Roots = rawRoots(cr1.Header.Roots)
		for {
			b, err := cr1.Next()
			if err != nil {
				if err != io.EOF {
					res.Err = err
					return res
				}
				break
			}
			add(b.Cid(), b.RawData(), true, uint64(len(b.RawData())))
		}
		for i := 0; i < postEOFCalls; i++ {
			b, err := cr1.Next()
			res.PostEOF = append(res.PostEOF, describePost(b, err))
		}
		src2, done2 := OpenSource(srcKind, path, payload)
		defer done2()
		src3, done3 := OpenSource(srcKind, path, payload)
		defer done3()
		cr2, err := openRootReader(src2, true)
		if err != nil {
			res.Err = fmt.Errorf("second reader: %w", err)
			return res
		}
		cr3, err := openRootReader(src3, true)
		if err != nil {
			res.Err = fmt.Errorf("third reader: %w", err)
			return res
		}
		res.Second, res.Third = []refcar.Block{}, []refcar.Block{}
		end2, end3 := false, false
		for !end2 || !end3 {
			if !end2 {
				b, err := cr2.Next()
				if err == io.EOF {
					end2 = true
				} else if err != nil {
					res.Err = fmt.Errorf("second reader: %w", err)
					return res
				} else {
					res.Second = append(res.Second, refcar.Block{Cid: b.Cid().Bytes(), Data: b.RawData()})
				}
			}
			if !end3 {
				b, err := cr3.Next()
				if err == io.EOF {
					end3 = true
				} else if err != nil {
					res.Err = fmt.Errorf("third reader: %w", err)
					return res
				} else {
					res.Third = append(res.Third, refcar.Block{Cid: b.Cid().Bytes(), Data: b.RawData()})
				}
			}
		}
		return res
	case "root-load", "root-load-batch":
		src, done := OpenSource(srcKind, path, payload)
		defer done()
		var h *carv1.CarHeader
		var err error
		var got []refcar.Block
		if family == "root-load" {
			ms := &mapStore{}
			h, err = carv1.LoadCar(Ctx, ms, src)
			got = ms.got
		} else {
			ms := &batchMapStore{}
			h, err = carv1.LoadCar(Ctx, ms, src)
			got = ms.got
		}
		res.Blocks = got
		if err != nil {
			res.Err = err
			return res
		}
		res.Roots = rawRoots(h.Roots)
		return res
	case "int-reader":
		src, done := OpenSource(srcKind, path, payload)
		defer done()
		cr, err := verifbridge.NewCarV1ReaderWithoutDefaults(src, o.ZeroEOF, defU(o.MaxHeader, carv2.DefaultMaxAllowedHeaderSize), defU(o.MaxSect, carv2.DefaultMaxAllowedSectionSize))
		if err != nil {
			res.OpenErr = err
			return res
		}
		res.Roots = rawRoots(cr.Header.Roots)
		for {
			b, err := cr.Next()
			if err != nil {
				if err != io.EOF {
					res.Err = err
					return res
				}
				break
			}
			add(b.Cid(), b.RawData(), true, uint64(len(b.RawData())))
		}
		for i := 0; i < postEOFCalls; i++ {
			b, err := cr.Next()
			res.PostEOF = append(res.PostEOF, describePost(b, err))
		}
		return res
	case "int-load", "int-load-batch":
		src, done := OpenSource(srcKind, path, payload)
		defer done()
		var h *verifbridge.CarV1Header
		var err error
		var got []refcar.Block
		if family == "int-load" {
			ms := &mapStore{}
			h, err = verifbridge.LoadCarV1(ms, src)
			got = ms.got
		} else {
			ms := &batchMapStore{}
			h, err = verifbridge.LoadCarV1(ms, src)
			got = ms.got
		}
		res.Blocks = got
		if err != nil {
			res.Err = err
			return res
		}
		res.Roots = rawRoots(h.Roots)
		return res
	}
	panic("unknown reader family " + family)
}

func openRootReader(src io.Reader, lenient bool) (*carv1.CarReader, error) {
	if lenient {
		return carv1.NewCarReaderWithOptions(src, carv1.WithErrorOnEmptyRoots(false))
	}
	return carv1.NewCarReader(src)
}

// ReadPayloadX returns Reader.Roots and the bytes of Reader.DataReader:
//
//	data-reader       NewReader over *bytes.Reader
//	data-reader-at    NewReader over a ReaderAt-only source
//	data-reader-file  OpenReader(path) (memory mapped)
//	data-reader-seek  NewReader over *bytes.Reader; the payload is read through the
//	                  SectionReader's Seek/ReadAt side: the second half first (ReadAt), then
//	                  Seek(0) and the whole of it sequentially with one-byte reads
func ReadPayloadX(kind, path string, file []byte, o Opts) *ReadResult {
	res := &ReadResult{}
	var rd *carv2.Reader
	var err error
	switch kind {
	case "data-reader", "data-reader-seek":
		rd, err = carv2.NewReader(bytes.NewReader(file), o.List()...)
	case "data-reader-at":
		rd, err = carv2.NewReader(OnlyReaderAt{bytes.NewReader(file)}, o.List()...)
	case "data-reader-file":
		rd, err = carv2.OpenReader(path, o.List()...)
	default:
		panic("unknown payload reader kind " + kind)
	}
	if err != nil {
		res.OpenErr = err
		return res
	}
	defer rd.Close()
	rs, err := rd.Roots()
	if err != nil {
		res.OpenErr = err
		return res
	}
	res.Roots = rawRoots(rs)
	// a second call must give the same answer (the roots are cached lazily)
	rs2, err := rd.Roots()
	if err != nil {
		res.OpenErr = fmt.Errorf("second Roots call: %w", err)
		return res
	}
	if !sameRaw(rawRoots(rs2), res.Roots) {
		res.OpenErr = fmt.Errorf("second Roots call returned %x, the first %x", rawRoots(rs2), res.Roots)
		return res
	}
	dr, err := rd.DataReader()
	if err != nil {
		res.OpenErr = err
		return res
	}
	if kind != "data-reader-seek" {
		res.Payload, res.Err = io.ReadAll(dr)
		return res
	}
	all, err := io.ReadAll(iotest.OneByteReader(dr))
	if err != nil {
		res.Err = err
		return res
	}
	half := len(all) / 2
	tail := make([]byte, len(all)-half)
	if len(tail) > 0 {
		if n, err := dr.ReadAt(tail, int64(half)); n != len(tail) || (err != nil && err != io.EOF) {
			res.Err = fmt.Errorf("DataReader.ReadAt(%d bytes at %d) = %d, %v", len(tail), half, n, err)
			return res
		}
	}
	if pos, err := dr.Seek(0, io.SeekStart); err != nil || pos != 0 {
		res.Err = fmt.Errorf("DataReader.Seek(0, SeekStart) = %d, %v", pos, err)
		return res
	}
	again, err := io.ReadAll(dr)
	if err != nil {
		res.Err = err
		return res
	}
	if !bytes.Equal(again, all) || !bytes.Equal(all[half:], tail) {
		res.Err = fmt.Errorf("DataReader: sequential read, ReadAt and read after Seek(0) disagree (%d, %d, %d bytes)", len(all), len(tail), len(again))
		return res
	}
	res.Payload = all
	return res
}

func clipB(b []byte) []byte {
	if len(b) > 64 {
		return b[:64]
	}
	return b
}

func sameRaw(a, b [][]byte) bool {
	if len(a) != len(b) {
		return false
	}
	for i := range a {
		if !bytes.Equal(a[i], b[i]) {
			return false
		}
	}
	return true
}

// ---------------------------------------------------------------- random-access readers

// RAKindsC01 lists the random-access front-ends of OpenRAC01 (a superset of RAKinds):
//
//	ro-file   blockstore.NewReadOnly over an *os.File (ReaderAt+ReadSeeker, no ByteReader)
//	st-file   storage.OpenReadable over an *os.File
var RAKindsC01 = []string{"ro-new", "ro-new-at", "ro-open", "ro-file", "st-open", "st-open-at", "st-file"}

type raWithCloser struct {
	RA
	c func()
}

func (r raWithCloser) Close() { r.RA.Close(); r.c() }

// OpenRAC01 opens the file at path (same bytes as file) with one random-access front-end.
func OpenRAC01(kind, dir, path string, file []byte, o Opts) (RA, error) {
	switch kind {
	case "ro-file":
		f, err := os.Open(path)
		if err != nil {
			panic(err)
		}
		bs, err := blockstore.NewReadOnly(f, nil, o.List()...)
		if err != nil {
			f.Close()
			return nil, err
		}
		return raWithCloser{raBS{bs}, func() { f.Close() }}, nil
	case "st-file":
		f, err := os.Open(path)
		if err != nil {
			panic(err)
		}
		st, err := storage.OpenReadable(f, o.List()...)
		if err != nil {
			f.Close()
			return nil, err
		}
		return raWithCloser{raST{st}, func() { f.Close() }}, nil
	case "ro-open":
		bs, err := blockstore.OpenReadOnly(path, o.List()...)
		if err != nil {
			return nil, err
		}
		return raBS{bs}, nil
	}
	return OpenRA(kind, dir, file, o)
}

// ---------------------------------------------------------------- writers

// WriterKindsX are the additional writer call patterns of WriteX:
//
//	bs-split       blockstore: PutMany(first half), PutMany(second half)
//	bs-mixed       blockstore: Put(first), PutMany(middle), Put(last)
//	bs-readback    blockstore: Put one by one; after every Put, Has+Get+GetSize of the blocks put so far (see readbackSet)
//	st-rw-readback storage NewReadableWritable: Put one by one; after every Put, Has+Get of the blocks put so far
//	st-w-scribble  storage NewWritable on a file: every Put receives a private copy of the data
//	               which is overwritten as soon as Put has returned
var WriterKindsX = []string{"bs-split", "bs-mixed", "bs-readback", "st-rw-readback", "st-w-scribble"}

// WriteResultX adds the discrepancies seen by the read-back patterns.
type WriteResultX struct {
	WriteResult
	Readback []string
}

// readbackSet: the blocks read back after put #i: all blocks put so far for the first
// eight puts, afterwards the first, the previous and the current one (keeps the
// 1100-block archive linear).
func readbackSet(blks []kit.Blk, i int) []kit.Blk {
	if i < 8 {
		return blks[:i+1]
	}
	return []kit.Blk{blks[0], blks[i-1], blks[i]}
}

// WriteX produces an archive with one of WriterKindsX.
func WriteX(kind, dir string, roots []cid.Cid, blks []kit.Blk, o Opts) (*WriteResultX, error) {
	res := &WriteResultX{}
	path := filepath.Join(dir, "wx-"+kind+".car")
	os.Remove(path)
	defer os.Remove(path)
	opts := o.List()
	note := func(format string, args ...any) {
		if len(res.Readback) < 4 {
			res.Readback = append(res.Readback, fmt.Sprintf(format, args...))
		}
	}
	switch kind {
	case "bs-split", "bs-mixed", "bs-readback":
		bs, err := blockstore.OpenReadWrite(path, roots, opts...)
		if err != nil {
			return nil, err
		}
		var l []blocks.Block
		for _, b := range blks {
			l = append(l, b.Block())
		}
		switch kind {
		case "bs-split":
			h := len(l) / 2
			res.PutErrs = append(res.PutErrs, bs.PutMany(Ctx, l[:h]))
			res.PutErrs = append(res.PutErrs, bs.PutMany(Ctx, l[h:]))
		case "bs-mixed":
			if len(l) > 0 {
				res.PutErrs = append(res.PutErrs, bs.Put(Ctx, l[0]))
			}
			if len(l) > 2 {
				res.PutErrs = append(res.PutErrs, bs.PutMany(Ctx, l[1:len(l)-1]))
			}
			if len(l) > 1 {
				res.PutErrs = append(res.PutErrs, bs.Put(Ctx, l[len(l)-1]))
			}
		case "bs-readback":
			for i, b := range l {
				err := bs.Put(Ctx, b)
				res.PutErrs = append(res.PutErrs, err)
				if err != nil {
					continue
				}
				for _, p := range readbackSet(blks, i) {
					has, err := bs.Has(Ctx, p.Cid)
					if err != nil || !has {
						note("after Put #%d: Has(%s)=%v,%v", i, p.Name, has, err)
					}
					g, err := bs.Get(Ctx, p.Cid)
					if err != nil || g == nil {
						note("after Put #%d: Get(%s) err=%v", i, p.Name, err)
					} else if !bytes.Equal(g.RawData(), p.Data) || !g.Cid().Equals(p.Cid) {
						note("after Put #%d: Get(%s) returned CID %s data %x", i, p.Name, g.Cid(), clipB(g.RawData()))
					}
					n, err := bs.GetSize(Ctx, p.Cid)
					if err != nil || n != len(p.Data) {
						note("after Put #%d: GetSize(%s)=%d,%v want %d", i, p.Name, n, err, len(p.Data))
					}
				}
			}
		}
		res.FinErr = bs.Finalize()
	case "st-rw-readback", "st-w-scribble":
		f, err := os.OpenFile(path, os.O_RDWR|os.O_CREATE|os.O_TRUNC, 0o644)
		if err != nil {
			return nil, err
		}
		defer f.Close()
		if kind == "st-w-scribble" {
			w, err := storage.NewWritable(f, roots, opts...)
			if err != nil {
				return nil, err
			}
			for _, b := range blks {
				d := append([]byte{}, b.Data...)
				res.PutErrs = append(res.PutErrs, w.Put(Ctx, b.Cid.KeyString(), d))
				for i := range d {
					d[i] = ^d[i]
				}
			}
			res.FinErr = w.Finalize()
			break
		}
		w, err := storage.NewReadableWritable(f, roots, opts...)
		if err != nil {
			return nil, err
		}
		for i, b := range blks {
			err := w.Put(Ctx, b.Cid.KeyString(), b.Data)
			res.PutErrs = append(res.PutErrs, err)
			if err != nil {
				continue
			}
			for _, p := range readbackSet(blks, i) {
				has, err := w.Has(Ctx, p.Cid.KeyString())
				if err != nil || !has {
					note("after Put #%d: Has(%s)=%v,%v", i, p.Name, has, err)
				}
				g, err := w.Get(Ctx, p.Cid.KeyString())
				if err != nil || !bytes.Equal(g, p.Data) {
					note("after Put #%d: Get(%s)=%x,%v", i, p.Name, clipB(g), err)
				}
			}
		}
		res.FinErr = w.Finalize()
	default:
		return nil, fmt.Errorf("unknown writer kind %s", kind)
	}
	b, err := os.ReadFile(path)
	if err != nil {
		return nil, err
	}
	res.Bytes = b
	return res, nil
}

// ---------------------------------------------------------------- root-module size functions

// RootHeaderSize is the root module's HeaderSize for a version-1 header with these roots.
func RootHeaderSize(roots []cid.Cid) (uint64, error) {
	return carv1.HeaderSize(&carv1.CarHeader{Roots: roots, Version: 1})
}

// RootLdSize is the root module's LdSize of one section.
func RootLdSize(cidBytes, data []byte) uint64 { return v1util.LdSize(cidBytes, data) }
