package drv

import (
	"io"
	"os"
	"sync"

	"github.com/ipld/go-car/v2/verifbridge"
)

// Additional fault injectors for C16 (purely additive; the hook installed here behaves exactly
// like the one of installHook for files registered with NewTrace).

// PathInjector counts and faults the seam writes (OffsetWriteSeeker) that go to ANY *os.File
// whose name is Path. It is meant for writers that create their file themselves
// (DeferredCarWriter for a path), possibly more than once in a session.
type PathInjector struct {
	Path   string
	Faults []Fault
	mu     sync.Mutex
	hooked int
	lens   []int
	files  []*os.File // every file a seam write was seen on
}

// MemSink swallows every seam write to one *os.File (reports it as complete without touching
// the file). It isolates the writes that do NOT go through the seam (e.g. the CARv2 pragma).
type MemSink struct {
	mu sync.Mutex
	n  int
}

var pathInjectors sync.Map // path -> *PathInjector
var sinks sync.Map         // *os.File -> *MemSink
var extraHookOnce sync.Once

// InstallC16Hook installs the seam hook that also serves PathInjector and MemSink.
func InstallC16Hook() {
	installHook()
	extraHookOnce.Do(func() {
		verifbridge.SetWriteHook(func(w io.WriterAt, p []byte, off int64) (int, error, bool) {
			if t, ok := traces.Load(w); ok {
				if r, ok := lenRecorders.Load(w); ok {
					r.(*LenRecorder).add(len(p))
				}
				return t.(*Trace).onWrite(p, off)
			}
			if f, ok := w.(*os.File); ok {
				if s, ok := sinks.Load(f); ok {
					sk := s.(*MemSink)
					sk.mu.Lock()
					sk.n++
					sk.mu.Unlock()
					return len(p), nil, true
				}
				if pi, ok := pathInjectors.Load(f.Name()); ok {
					return pi.(*PathInjector).onWrite(f, p, off)
				}
			}
			return 0, nil, false
		})
	})
}

// LenRecorder records the REQUESTED length of every seam write to a traced file, in the order
// issued (index = Trace's hooked write index). Trace.Log cannot serve for that: a faulted write
// of which no byte reached the file has no record there, and a short one is recorded with the
// length that was written.
type LenRecorder struct {
	mu   sync.Mutex
	lens []int
}

var lenRecorders sync.Map // io.WriterAt(*os.File) -> *LenRecorder

// NewLenRecorder starts recording for f (which must be traced with NewTrace to be seen).
func NewLenRecorder(f *os.File) *LenRecorder {
	InstallC16Hook()
	r := &LenRecorder{}
	lenRecorders.Store(io.WriterAt(f), r)
	return r
}

func (r *LenRecorder) Stop(f *os.File) { lenRecorders.Delete(io.WriterAt(f)) }

func (r *LenRecorder) add(n int) {
	r.mu.Lock()
	r.lens = append(r.lens, n)
	r.mu.Unlock()
}

// Lens returns the requested lengths of the seam writes seen so far.
func (r *LenRecorder) Lens() []int {
	r.mu.Lock()
	defer r.mu.Unlock()
	return append([]int{}, r.lens...)
}

// NewPathInjector starts faulting the seam writes to files named path.
func NewPathInjector(path string, faults []Fault) *PathInjector {
	InstallC16Hook()
	pi := &PathInjector{Path: path, Faults: faults}
	pathInjectors.Store(path, pi)
	return pi
}

// Stop ends the injection and closes every file it saw. (DeferredCarWriter re-creates its file
// after a failed header write and drops the previous *os.File without closing it; left to the
// garbage collector these descriptors pile up over thousands of cases and make os.OpenFile
// fail with EMFILE. Closing a file twice is harmless.)
func (pi *PathInjector) Stop() {
	pathInjectors.Delete(pi.Path)
	pi.mu.Lock()
	defer pi.mu.Unlock()
	for _, f := range pi.files {
		f.Close()
	}
	pi.files = nil
}

func (pi *PathInjector) onWrite(f *os.File, p []byte, off int64) (int, error, bool) {
	pi.mu.Lock()
	defer pi.mu.Unlock()
	k := pi.hooked
	pi.hooked++
	pi.lens = append(pi.lens, len(p))
	if len(pi.files) == 0 || pi.files[len(pi.files)-1] != f {
		pi.files = append(pi.files, f)
	}
	for _, ft := range pi.Faults {
		if ft.At == k {
			n := ft.N
			if n > len(p) {
				n = len(p)
			}
			if n > 0 {
				if _, err := f.WriteAt(p[:n], off); err != nil {
					panic(err)
				}
			}
			return n, ErrInjected, true
		}
	}
	return 0, nil, false // forwarded to the real file by the seam
}

// Hooked returns the number of seam writes seen so far.
func (pi *PathInjector) Hooked() int {
	pi.mu.Lock()
	defer pi.mu.Unlock()
	return pi.hooked
}

// Lens returns the lengths of the seam writes seen so far.
func (pi *PathInjector) Lens() []int {
	pi.mu.Lock()
	defer pi.mu.Unlock()
	return append([]int{}, pi.lens...)
}

// NewMemSink makes every seam write to f a no-op that reports success.
func NewMemSink(f *os.File) *MemSink {
	InstallC16Hook()
	s := &MemSink{}
	sinks.Store(f, s)
	return s
}

func (s *MemSink) Stop(f *os.File) { sinks.Delete(f) }

// Swallowed returns the number of seam writes swallowed.
func (s *MemSink) Swallowed() int {
	s.mu.Lock()
	defer s.mu.Unlock()
	return s.n
}

// MemDev is an in-memory io.Writer + io.WriterAt (os.File semantics: Write appends at its own
// file position, WriteAt does not move it and zero-extends) whose k-th write call (Write and
// WriteAt counted together, in the order issued) can be faulted.
type MemDev struct {
	Buf    []byte
	pos    int64
	Faults []Fault
	Calls  int
	Lens   []int
}

func (m *MemDev) fate(p []byte) (n int, hit bool) {
	k := m.Calls
	m.Calls++
	m.Lens = append(m.Lens, len(p))
	for _, ft := range m.Faults {
		if ft.At == k {
			n = ft.N
			if n > len(p) {
				n = len(p)
			}
			return n, true
		}
	}
	return len(p), false
}

func (m *MemDev) Write(p []byte) (int, error) {
	n, hit := m.fate(p)
	m.Buf = ApplyWrite(m.Buf, p[:n], m.pos)
	m.pos += int64(n)
	if hit {
		return n, ErrInjected
	}
	return n, nil
}

func (m *MemDev) WriteAt(p []byte, off int64) (int, error) {
	n, hit := m.fate(p)
	if n > 0 {
		m.Buf = ApplyWrite(m.Buf, p[:n], off)
	}
	if hit {
		return n, ErrInjected
	}
	return n, nil
}

// MemDevRW adds io.ReaderAt to MemDev.
type MemDevRW struct{ *MemDev }

func (m MemDevRW) ReadAt(p []byte, off int64) (int, error) {
	if off >= int64(len(m.Buf)) {
		return 0, io.EOF
	}
	n := copy(p, m.Buf[off:])
	if n < len(p) {
		return n, io.EOF
	}
	return n, nil
}
