package drv

import (
	"bytes"
	"errors"
	"fmt"
	"io"
	"os"
	"path/filepath"
	"sync/atomic"

	blocks "github.com/ipfs/go-block-format"
	"github.com/ipfs/go-cid"
	carv1 "github.com/ipld/go-car"
	carv2 "github.com/ipld/go-car/v2"
	"github.com/ipld/go-car/v2/blockstore"
	"github.com/ipld/go-car/v2/storage"
	"github.com/ipld/go-car/v2/verifbridge"

	"context"

	"verif/refcar"
)

// ReadResult is what one reader saw.
type ReadResult struct {
	OpenErr error          // constructor error
	Roots   [][]byte       // raw CID bytes
	Blocks  []refcar.Block // in the order returned
	Err     error          // first non-EOF iteration error (nil = clean end)
	Payload []byte         // only for "data-reader"
}

// PlainReader hides everything but Read.
type PlainReader struct{ R io.Reader }

func (p PlainReader) Read(b []byte) (int, error) { return p.R.Read(b) }

// OnlyReaderAt exposes only ReadAt.
type OnlyReaderAt struct{ R io.ReaderAt }

func (o OnlyReaderAt) ReadAt(p []byte, off int64) (int, error) { return o.R.ReadAt(p, off) }

func rawRoots(cs []cid.Cid) [][]byte {
	out := [][]byte{}
	for _, c := range cs {
		out = append(out, c.Bytes())
	}
	return out
}

// mapStore is a trivial Store for the loaders (ordered).
type mapStore struct{ got []refcar.Block }

func (m *mapStore) Put(_ context.Context, b blocks.Block) error {
	m.got = append(m.got, refcar.Block{Cid: b.Cid().Bytes(), Data: b.RawData()})
	return nil
}

type batchMapStore struct{ mapStore }

func (m *batchMapStore) PutMany(c context.Context, bs []blocks.Block) error {
	for _, b := range bs {
		m.Put(c, b)
	}
	return nil
}

// ScanReaderKinds are readers that iterate the whole archive and verify hashes.
var ScanReaderKinds = []string{"br-bytes", "br-stream", "br-file", "root-reader", "root-reader-lenient", "root-load", "root-load-batch", "int-reader", "int-load"}

// payloadOf returns the CARv1 payload window of file using go-car's own Reader
// (for feeding the v1-only readers), or file itself for a CARv1.
func payloadOf(file []byte, o Opts) ([]byte, error) {
	if !bytes.HasPrefix(file, carv2.Pragma) {
		return file, nil
	}
	rd, err := carv2.NewReader(bytes.NewReader(file), o.List()...)
	if err != nil {
		return nil, err
	}
	dr, err := rd.DataReader()
	if err != nil {
		return nil, err
	}
	return io.ReadAll(dr)
}

// Read runs one scanning reader kind over file.
func Read(kind string, dir string, file []byte, o Opts) *ReadResult {
	res := &ReadResult{}
	opts := o.List()
	switch kind {
	case "br-bytes", "br-stream", "br-file", "br-skip-bytes", "br-skip-stream":
		var src io.Reader
		switch kind {
		case "br-bytes", "br-skip-bytes":
			src = bytes.NewReader(file)
		case "br-stream", "br-skip-stream":
			src = PlainReader{bytes.NewReader(file)}
		default:
			p := filepath.Join(dir, "r-"+kind+".car")
			if err := os.WriteFile(p, file, 0o644); err != nil {
				panic(err)
			}
			defer os.Remove(p)
			f, err := os.Open(p)
			if err != nil {
				panic(err)
			}
			defer f.Close()
			src = f
		}
		br, err := carv2.NewBlockReader(src, opts...)
		if err != nil {
			res.OpenErr = err
			return res
		}
		res.Roots = rawRoots(br.Roots)
		for {
			if kind == "br-skip-bytes" || kind == "br-skip-stream" {
				md, err := br.SkipNext()
				if err != nil {
					if err != io.EOF {
						res.Err = err
					}
					return res
				}
				res.Blocks = append(res.Blocks, refcar.Block{Cid: md.Cid.Bytes()})
				continue
			}
			b, err := br.Next()
			if err != nil {
				if err != io.EOF {
					res.Err = err
				}
				return res
			}
			res.Blocks = append(res.Blocks, refcar.Block{Cid: b.Cid().Bytes(), Data: b.RawData()})
		}
	case "data-reader":
		rd, err := carv2.NewReader(bytes.NewReader(file), opts...)
		if err != nil {
			res.OpenErr = err
			return res
		}
		rs, err := rd.Roots()
		if err != nil {
			res.OpenErr = err
			return res
		}
		res.Roots = rawRoots(rs)
		dr, err := rd.DataReader()
		if err != nil {
			res.OpenErr = err
			return res
		}
		res.Payload, res.Err = io.ReadAll(dr)
		return res
	case "root-reader", "root-reader-lenient", "root-load", "root-load-batch", "int-reader", "int-load":
		payload, err := payloadOf(file, o)
		if err != nil {
			res.OpenErr = err
			return res
		}
		src := PlainReader{bytes.NewReader(payload)}
		switch kind {
		case "root-reader", "root-reader-lenient":
			var cr *carv1.CarReader
			var err error
			if kind == "root-reader-lenient" {
				cr, err = carv1.NewCarReaderWithOptions(src, carv1.WithErrorOnEmptyRoots(false))
			} else {
				cr, err = carv1.NewCarReader(src)
			}
			if err != nil {
				res.OpenErr = err
				return res
			}
			res.Roots = rawRoots(cr.Header.Roots)
			for {
				b, err := cr.Next()
				if err != nil {
					if err != io.EOF {
						res.Err = err
					}
					return res
				}
				res.Blocks = append(res.Blocks, refcar.Block{Cid: b.Cid().Bytes(), Data: b.RawData()})
			}
		case "root-load", "root-load-batch":
			var h *carv1.CarHeader
			var err error
			var got []refcar.Block
			if kind == "root-load" {
				ms := &mapStore{}
				h, err = carv1.LoadCar(Ctx, ms, src)
				got = ms.got
			} else {
				ms := &batchMapStore{}
				h, err = carv1.LoadCar(Ctx, ms, src)
				got = ms.got
			}
			res.Blocks = got
			if err != nil {
				res.Err = err
				return res
			}
			res.Roots = rawRoots(h.Roots)
			return res
		case "int-reader":
			cr, err := verifbridge.NewCarV1ReaderWithoutDefaults(src, o.ZeroEOF, defU(o.MaxHeader, carv2.DefaultMaxAllowedHeaderSize), defU(o.MaxSect, carv2.DefaultMaxAllowedSectionSize))
			if err != nil {
				res.OpenErr = err
				return res
			}
			res.Roots = rawRoots(cr.Header.Roots)
			for {
				b, err := cr.Next()
				if err != nil {
					if err != io.EOF {
						res.Err = err
					}
					return res
				}
				res.Blocks = append(res.Blocks, refcar.Block{Cid: b.Cid().Bytes(), Data: b.RawData()})
			}
		case "int-load":
			ms := &mapStore{}
			h, err := verifbridge.LoadCarV1(ms, src)
			res.Blocks = ms.got
			if err != nil {
				res.Err = err
				return res
			}
			res.Roots = rawRoots(h.Roots)
			return res
		}
	}
	panic("unknown reader kind " + kind)
}

func defU(v, d uint64) uint64 {
	if v == 0 {
		return d
	}
	return v
}

// ErrEmptyRootsRefusal recognises the documented refusal of the legacy readers.
func IsEmptyRootsRefusal(err error) bool {
	return err != nil && err.Error() == "empty car, no roots"
}

// ---------------------------------------------------------------- random-access readers

// RA is a uniform view over blockstore.ReadOnly and storage.ReadableCar.
type RA interface {
	Has(c cid.Cid) (bool, error)
	Get(c cid.Cid) ([]byte, error)
	Size(c cid.Cid) (int, error)
	Keys() ([][]byte, error) // nil, errNoListing when unsupported
	Roots() ([][]byte, error)
	Close()
}

var ErrNoListing = errors.New("no listing")

var raOpenSeq atomic.Int64

// raBSPath is a blockstore opened from a path that the harness removes when the store is closed.
type raBSPath struct {
	raBS
	path string
}

func (r raBSPath) Close()     { r.raBS.Close(); os.Remove(r.path) }
func (r raBSPath) Unwrap() RA { return r.raBS }

type raBS struct {
	bs *blockstore.ReadOnly
}

func (r raBS) Has(c cid.Cid) (bool, error) { return r.bs.Has(Ctx, c) }
func (r raBS) Get(c cid.Cid) ([]byte, error) {
	b, err := r.bs.Get(Ctx, c)
	if err != nil {
		return nil, err
	}
	if !b.Cid().Equals(c) {
		return nil, fmt.Errorf("Get(%s) returned block with CID %s", c, b.Cid())
	}
	return b.RawData(), nil
}
func (r raBS) Size(c cid.Cid) (int, error) { return r.bs.GetSize(Ctx, c) }
func (r raBS) Keys() ([][]byte, error) {
	var asyncErr error
	ctx := blockstore.WithAsyncErrorHandler(Ctx, func(e error) { asyncErr = e })
	ch, err := r.bs.AllKeysChan(ctx)
	if err != nil {
		return nil, err
	}
	out := [][]byte{}
	for c := range ch {
		out = append(out, c.Bytes())
	}
	return out, asyncErr
}
func (r raBS) Roots() ([][]byte, error) {
	rs, err := r.bs.Roots()
	if err != nil {
		return nil, err
	}
	return rawRoots(rs), nil
}
func (r raBS) Close() { r.bs.Close() }

type raST struct {
	st storage.ReadableCar
}

func (r raST) Has(c cid.Cid) (bool, error) { return r.st.Has(Ctx, c.KeyString()) }
func (r raST) Get(c cid.Cid) ([]byte, error) {
	a, err := r.st.Get(Ctx, c.KeyString())
	if err != nil {
		return nil, err
	}
	rc, err := r.st.GetStream(Ctx, c.KeyString())
	if err != nil {
		return nil, fmt.Errorf("Get ok but GetStream: %w", err)
	}
	b, err := io.ReadAll(rc)
	if err != nil {
		return nil, err
	}
	if !bytes.Equal(a, b) {
		return nil, fmt.Errorf("Get and GetStream disagree: %x vs %x", a, b)
	}
	return a, nil
}
func (r raST) Size(c cid.Cid) (int, error) {
	a, err := r.st.Get(Ctx, c.KeyString())
	return len(a), err
}
func (r raST) Keys() ([][]byte, error)  { return nil, ErrNoListing }
func (r raST) Roots() ([][]byte, error) { return rawRoots(r.st.Roots()), nil }
func (r raST) Close()                   {}

// RAKinds lists the random-access front-ends.
var RAKinds = []string{"ro-new", "ro-new-at", "ro-open", "st-open", "st-open-at"}

// OpenRA opens file with one random-access front-end. The returned cleanup must be called.
func OpenRA(kind, dir string, file []byte, o Opts) (RA, error) {
	opts := o.List()
	switch kind {
	case "ro-new":
		bs, err := blockstore.NewReadOnly(bytes.NewReader(file), nil, opts...)
		if err != nil {
			return nil, err
		}
		return raBS{bs}, nil
	case "ro-new-at":
		bs, err := blockstore.NewReadOnly(OnlyReaderAt{bytes.NewReader(file)}, nil, opts...)
		if err != nil {
			return nil, err
		}
		return raBS{bs}, nil
	case "ro-open":
		p := filepath.Join(dir, fmt.Sprintf("ra-open-%d.car", raOpenSeq.Add(1)))
		if err := os.WriteFile(p, file, 0o644); err != nil {
			panic(err)
		}
		bs, err := blockstore.OpenReadOnly(p, opts...)
		if err != nil {
			os.Remove(p)
			return nil, err
		}
		// the archive stays in place while the store is open (a store is free to open its path again);
		// it is removed when the store is closed
		return raBSPath{raBS{bs}, p}, nil
	case "st-open":
		st, err := storage.OpenReadable(bytes.NewReader(file), opts...)
		if err != nil {
			return nil, err
		}
		return raST{st}, nil
	case "st-open-at":
		st, err := storage.OpenReadable(OnlyReaderAt{bytes.NewReader(file)}, opts...)
		if err != nil {
			return nil, err
		}
		return raST{st}, nil
	}
	panic("unknown RA kind " + kind)
}

// WrapBS wraps an already opened read-only blockstore.
func WrapBS(bs *blockstore.ReadOnly) RA { return raBS{bs} }

// WrapST wraps an already opened readable storage.
func WrapST(st storage.ReadableCar) RA { return raST{st} }
