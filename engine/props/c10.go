package props

import (
	"bytes"
	"fmt"
	"os"
	"path/filepath"

	carv2 "github.com/ipld/go-car/v2"

	"verif/drv"
	"verif/kit"
	"verif/refcar"
)

type C10Case struct {
	Kind  string   `json:"kind"` // wrap, extract, replace
	Roots string   `json:"roots"`
	Seq   []string `json:"seq"`
	// wrap
	Codec string `json:"codec,omitempty"`
	SID   bool   `json:"storeid,omitempty"`
	// extract
	DataPad  uint64 `json:"dp,omitempty"`
	IndexPad uint64 `json:"ip,omitempty"`
	NoIndex  bool   `json:"noindex,omitempty"`
	Dest     string `json:"dest,omitempty"` // absent, larger, smaller, same
	// replace
	V2       bool   `json:"v2,omitempty"`
	NewRoots string `json:"newroots,omitempty"`
}

var c10RootSets = map[string][]string{
	"nil": nil, "empty": {}, "a": {"a"}, "b": {"b"}, "a'": {"a'"}, "a0": {"a0"}, "s": {"s"}, "i": {"i"},
	"ab": {"a", "b"}, "ba": {"b", "a"}, "aa": {"a", "a"}, "a0b": {"a0", "b"}, "abc": {"a", "b", "c"},
}
var c10RootOrder = []string{"a", "b", "a'", "a0", "s", "i", "ab", "ba", "aa", "a0b", "abc", "empty", "nil"}

func c10Roots(name string) ([][]byte, bool) {
	if name == "nil" {
		return nil, true
	}
	out := [][]byte{}
	for _, n := range c10RootSets[name] {
		out = append(out, kit.B(n).Raw)
	}
	return out, false
}

func runC10(c any, x *kit.Ctx) {
	cs := c.(C10Case)
	rootRaws, nilRoots := c10Roots(cs.Roots)
	var rb []refcar.Block
	for _, b := range kit.Bs(cs.Seq) {
		rb = append(rb, b.Ref())
	}
	payload := refcar.EncodeV1(rootRaws, nilRoots, rb)
	pl, err := refcar.DecodePayload(payload, false, true)
	if err != nil {
		panic(err)
	}
	x.Eval(1)
	x.Transition(2)
	switch cs.Kind {
	case "wrap":
		o := drv.Opts{Codec: cs.Codec, StoreID: cs.SID}
		codec := codecNum(o)
		wantIdx := refcar.EncodeIndex(codec, refcar.RecordsOf(pl, cs.SID))
		want := refcar.EncodeV2(payload, 0, 0, wantIdx, false)
		check := func(got []byte, via string) {
			f, err := refcar.DecodeFile(got, false)
			if err != nil {
				x.Fail("c10:wrap-malformed:"+via, "%s output malformed: %v", via, err)
				return
			}
			if !bytes.Equal(f.PayloadRaw, payload) {
				x.Fail("c10:wrap-payload:"+via, "%s modified the source bytes", via)
			}
			if f.V2.DataOffset != 51 || f.V2.DataSize != uint64(len(payload)) || f.V2.IndexOffset != 51+uint64(len(payload)) {
				x.Fail("c10:wrap-header:"+via, "%s header %+v does not describe the layout (payload %d bytes)", via, f.V2, len(payload))
			}
			norm, _, err := normaliseIndexBytes(f.IndexRaw)
			if err != nil || !bytes.Equal(norm, wantIdx) {
				x.Fail("c10:wrap-index:"+via, "%s index differs from the reference index of the payload (err %v): %x want %x", via, err, f.IndexRaw, wantIdx)
			}
			if len(got) != len(want) {
				x.Fail("c10:wrap-length:"+via, "%s output is %d bytes want %d", via, len(got), len(want))
			}
		}
		var buf bytes.Buffer
		if err := carv2.WrapV1(bytes.NewReader(payload), &buf, o.List()...); err != nil {
			x.Fail("c10:wrap-error", "WrapV1 fails on a valid CARv1: %v", err)
		} else {
			check(buf.Bytes(), "WrapV1")
		}
		// a source with trailing null padding, wrapped with ZeroLengthSectionAsEOF: the source bytes
		// are still carried unmodified and the header must describe all of them
		if len(cs.Seq) <= 2 {
			padded := append(append([]byte{}, payload...), 0, 0, 0, 0, 0)
			oz := o
			oz.ZeroEOF = true
			var zb bytes.Buffer
			if err := carv2.WrapV1(bytes.NewReader(padded), &zb, oz.List()...); err != nil {
				x.Fail("c10:wrap-null-padded-error", "WrapV1 with ZeroLengthSectionAsEOF fails on a null-padded CARv1: %v", err)
			} else {
				got := zb.Bytes()
				if len(got) < 51+len(padded) || !bytes.Equal(got[51:51+len(padded)], padded) {
					x.Fail("c10:wrap-null-padded-payload", "WrapV1 of a null-padded source does not carry the source bytes unmodified")
				} else {
					h := refcar.ParseV2Header(got[11:51])
					if h.DataOffset != 51 || h.DataSize != uint64(len(padded)) || h.IndexOffset != 51+uint64(len(padded)) {
						x.Fail("c10:wrap-null-padded-header", "WrapV1 of a null-padded source: header %+v does not describe the %d source bytes", h, len(padded))
					} else if norm, _, err := normaliseIndexBytes(got[h.IndexOffset:]); err != nil || !bytes.Equal(norm, wantIdx) {
						x.Fail("c10:wrap-null-padded-index", "WrapV1 of a null-padded source: index differs from the index of the sections (err %v)", err)
					}
				}
			}
		}
		if cs.Codec == "" && !cs.SID {
			src := filepath.Join(x.Dir, "c10-src.car")
			dst := filepath.Join(x.Dir, "c10-dst.car")
			os.WriteFile(src, payload, 0o644)
			os.WriteFile(dst, bytes.Repeat([]byte{0xEE}, len(want)+50), 0o644) // pre-existing larger destination
			defer os.Remove(src)
			defer os.Remove(dst)
			if err := carv2.WrapV1File(src, dst); err != nil {
				x.Fail("c10:wrapfile-error", "WrapV1File fails on a valid CARv1: %v", err)
			} else {
				got, _ := os.ReadFile(dst)
				check(got, "WrapV1File")
				// extract(wrap(x)) = x
				back := filepath.Join(x.Dir, "c10-back.car")
				defer os.Remove(back)
				if err := carv2.ExtractV1File(dst, back); err != nil {
					x.Fail("c10:extract-wrap-error", "ExtractV1File(WrapV1File(x)) failed: %v", err)
				} else if b, _ := os.ReadFile(back); !bytes.Equal(b, payload) {
					x.Fail("c10:extract-wrap", "extract(wrap(x)) != x")
				}
			}
		}
		x.State(fmt.Sprintf("wrap|%s|%x", cs.Codec, payload))
	case "extract":
		var idx []byte
		if !cs.NoIndex {
			idx = refcar.EncodeIndex(refcar.CodecMhIndexSorted, refcar.RecordsOf(pl, false))
		}
		file := refcar.EncodeV2(payload, cs.DataPad, cs.IndexPad, idx, false)
		src := filepath.Join(x.Dir, "c10-x-src.car")
		dst := filepath.Join(x.Dir, "c10-x-dst.car")
		os.WriteFile(src, file, 0o644)
		defer os.Remove(src)
		os.Remove(dst)
		defer os.Remove(dst)
		switch cs.Dest {
		case "larger":
			os.WriteFile(dst, bytes.Repeat([]byte{0xEE}, len(payload)+100), 0o644)
		case "smaller":
			os.WriteFile(dst, []byte{0xEE, 0xEE, 0xEE}, 0o644)
		case "same":
			dst = src
		}
		if err := carv2.ExtractV1File(src, dst); err != nil {
			x.Fail("c10:extract-error:"+cs.Dest, "ExtractV1File fails on a valid CARv2: %v", err)
			return
		}
		got, _ := os.ReadFile(dst)
		if !bytes.Equal(got, payload) {
			x.Fail("c10:extract-bytes:"+cs.Dest, "extracted %d bytes, payload is %d bytes; equal prefix=%v", len(got), len(payload), bytes.HasPrefix(got, payload))
		}
		if cs.Dest != "same" {
			if after, _ := os.ReadFile(src); !bytes.Equal(after, file) {
				x.Fail("c10:extract-touches-source", "ExtractV1File modified its source")
			}
		}
		x.State(fmt.Sprintf("extract|%d|%d|%v|%s|%x", cs.DataPad, cs.IndexPad, cs.NoIndex, cs.Dest, payload))
	case "replace":
		file := payload
		base := 0
		if cs.V2 {
			idx := refcar.EncodeIndex(refcar.CodecMhIndexSorted, refcar.RecordsOf(pl, false))
			if cs.NoIndex {
				idx = nil
			}
			file = refcar.EncodeV2(payload, cs.DataPad, cs.IndexPad, idx, false)
			base = 51 + int(cs.DataPad)
		}
		newRaws, newNil := c10Roots(cs.NewRoots)
		var newCids = drvCids(newRaws, newNil)
		oldHdr := refcar.EncodeHeader(rootRaws, nilRoots)
		newHdr := refcar.EncodeHeader(newRaws, newNil)
		p := filepath.Join(x.Dir, "c10-r.car")
		os.WriteFile(p, file, 0o644)
		defer os.Remove(p)
		err := carv2.ReplaceRootsInFile(p, newCids)
		after, _ := os.ReadFile(p)
		if len(oldHdr) == len(newHdr) {
			want := append([]byte{}, file...)
			copy(want[base:], newHdr)
			if err != nil {
				x.Fail("c10:replace-refused", "replacement header has the same length (%d) but ReplaceRootsInFile failed: %v", len(newHdr), err)
			} else if !bytes.Equal(after, want) {
				x.Fail("c10:replace-bytes", "after replacement the file differs from 'only the header bytes changed'")
			}
			x.Outcome("replaced")
		} else {
			if err == nil {
				x.Fail("c10:replace-accepted", "replacement header length %d != current %d but ReplaceRootsInFile succeeded", len(newHdr), len(oldHdr))
			}
			if !bytes.Equal(after, file) {
				x.Fail("c10:replace-touched", "ReplaceRootsInFile failed (%v) but modified the file", err)
			}
			x.Outcome("refused")
		}
		x.Nontrivial(fmt.Sprintf("%+v", cs))
		x.State(fmt.Sprintf("replace|%v|%s|%x", cs.V2, cs.NewRoots, file))
	}
	if len(cs.Seq) >= 1 {
		x.Nontrivial(fmt.Sprintf("%+v", cs))
	}
}

func genC10(tier string, emit func(any)) {
	names := []string{"a", "b", "e", "a'", "a0", "i", "ia", "s", "t"}
	maxLen := 2
	if tier == "thorough" {
		names = append(names, "k", "i0", "L127", "L128")
		maxLen = 3
	}
	var seqs [][]string
	kit.Seqs(names, maxLen, func(s []string) { seqs = append(seqs, s) })
	seqs = append(seqs, []string{"L16383"}, []string{"L16384", "a"})
	for _, sq := range seqs {
		for _, rs := range []string{"a", "empty", "nil", "ab", "a0"} {
			for _, codec := range []string{"", "sorted"} {
				for _, sid := range []bool{false, true} {
					emit(C10Case{Kind: "wrap", Roots: rs, Seq: sq, Codec: codec, SID: sid})
				}
			}
			if rs != "a" && rs != "nil" && len(sq) > 1 {
				continue
			}
			for _, dp := range []uint64{0, 1, 7} {
				for _, ip := range []uint64{0, 3} {
					for _, noidx := range []bool{false, true} {
						for _, dest := range []string{"absent", "larger", "smaller", "same"} {
							emit(C10Case{Kind: "extract", Roots: rs, Seq: sq, DataPad: dp, IndexPad: ip, NoIndex: noidx, Dest: dest})
						}
					}
				}
			}
		}
	}
	// root replacement: every (old, new) pair of root lists
	rseqs := [][]string{{}, {"a"}, {"a", "b"}}
	for _, sq := range rseqs {
		for _, old := range c10RootOrder {
			for _, nw := range c10RootOrder {
				emit(C10Case{Kind: "replace", Roots: old, NewRoots: nw, Seq: sq})
				for _, dp := range []uint64{0, 7} {
					for _, noidx := range []bool{false, true} {
						emit(C10Case{Kind: "replace", Roots: old, NewRoots: nw, Seq: sq, V2: true, DataPad: dp, IndexPad: 3, NoIndex: noidx})
					}
				}
			}
		}
	}
}

func init() {
	kit.Register(&kit.Prop{
		ID:     "C10",
		Gen:    genC10,
		Run:    runC10,
		Decode: kit.DecodeAs[C10Case],
		Rule: "every CARv1 up to the bound -> WrapV1/WrapV1File (both codecs, identity option) and extract(wrap(x)); every CARv2 (data padding 0/1/7, index padding 0/3, with/without index) -> ExtractV1File into absent/larger/smaller/same destination; " +
			"ReplaceRootsInFile for every ordered pair of 13 root lists (equal and different encoded sizes, nil vs empty, CIDv0 vs v1) on CARv1 and CARv2; non-trivial = non-empty payload or any replacement",
		Bound: func(tier string) map[string]any {
			if tier == "thorough" {
				return map[string]any{"seq_len": 3, "alphabet": 13, "root_lists": 13}
			}
			return map[string]any{"seq_len": 2, "alphabet": 9, "root_lists": 13}
		},
		Assumptions: []string{"refcar layout is correct"},
	})
}
