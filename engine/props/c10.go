package props

import (
	"bytes"
	"fmt"
	"io"
	"os"
	"path/filepath"
	"strings"

	carv2 "github.com/ipld/go-car/v2"

	"verif/drv"
	"verif/kit"
	"verif/refcar"
)

type C10Case struct {
	Kind  string   `json:"kind"` // wrap, extract, replace, replace-seq, foreign
	Roots string   `json:"roots"`
	Seq   []string `json:"seq"`
	Many  int      `json:"many,omitempty"` // Seq = kit.ManyNames(Many)
	// wrap
	Codec   string `json:"codec,omitempty"`
	SID     bool   `json:"storeid,omitempty"`
	Src     string `json:"src,omitempty"`     // "" = *bytes.Reader, file = *os.File, plain1/plain1000/plaineof = bare io.ReadSeeker, path = WrapV1File
	Dst     string `json:"dst,omitempty"`     // "" = *bytes.Buffer, plain = bare io.Writer, file = *os.File
	ZeroEOF bool   `json:"zeroeof,omitempty"` // ZeroLengthSectionAsEOF passed
	PadOpts bool   `json:"padopts,omitempty"` // UseDataPadding(7), UseIndexPadding(3) passed (WrapV1 documents "no padding")
	Tail    string `json:"tail,omitempty"`    // bytes after the last section: z1, z5 (zeros), zsec (0x00 then a section)
	// extract
	DataPad  uint64 `json:"dp,omitempty"`
	DPBig    bool   `json:"dpbig,omitempty"` // data padding = len(payload)+200 (source and destination ranges of an in-place copy are disjoint)
	IndexPad uint64 `json:"ip,omitempty"`
	NoIndex  bool   `json:"noindex,omitempty"`
	Dest     string `json:"dest,omitempty"`     // absent, larger, smaller, same, hardlink, dotpath, symlink
	IdxCodec string `json:"idxcodec,omitempty"` // "" = multihash-sorted, sorted
	Full     bool   `json:"full,omitempty"`     // FullyIndexed characteristic set (index then covers identity CIDs)
	// replace
	V2       bool     `json:"v2,omitempty"`
	NewRoots string   `json:"newroots,omitempty"`
	MaxHdr   string   `json:"maxhdr,omitempty"` // "", below (current header body length - 1), total (length prefix + body)
	Steps    []string `json:"steps,omitempty"`  // replace-seq: root lists applied one after the other to the same file
	// foreign (inputs outside "valid": only "an error must leave the file untouched")
	What string `json:"what,omitempty"`
}

var c10RootSets = map[string][]string{
	"nil": nil, "empty": {}, "a": {"a"}, "b": {"b"}, "a'": {"a'"}, "a0": {"a0"}, "s": {"s"}, "i": {"i"},
	"ab": {"a", "b"}, "ba": {"b", "a"}, "aa": {"a", "a"}, "a0b": {"a0", "b"}, "abc": {"a", "b", "c"},
	// identity-CID root lists whose headers have the same total length although the number of
	// roots or the per-root lengths differ (I<n><c> = identity CID with an n-byte digest of c)
	"I3I3": {"I3x", "I3y"}, "I14": {"I14x"}, // 22 bytes of roots: two roots vs one
	"I3I5": {"I3x", "I5y"}, "I4I4": {"I4x", "I4y"}, // same count, different per-root lengths
	"I19": {"I19x"}, "I3I9": {"I3x", "I9y"}, // one root with a two-byte CBOR length head vs two short ones
}
var c10RootOrder = []string{"a", "b", "a'", "a0", "s", "i", "ab", "ba", "aa", "a0b", "abc", "empty", "nil",
	"I3I3", "I14", "I3I5", "I4I4", "I19", "I3I9"}

func c10RootRaw(n string) []byte {
	if strings.HasPrefix(n, "I") {
		var l int
		var ch byte
		if _, err := fmt.Sscanf(n[1:], "%d%c", &l, &ch); err != nil {
			panic("bad identity root name " + n)
		}
		return refcar.CIDv1(refcar.CodecRaw, refcar.MhIdentity, bytes.Repeat([]byte{ch}, l))
	}
	return kit.B(n).Raw
}

func c10Roots(name string) ([][]byte, bool) {
	if name == "nil" {
		return nil, true
	}
	names, ok := c10RootSets[name]
	if !ok {
		panic("unknown root list " + name)
	}
	out := [][]byte{}
	for _, n := range names {
		out = append(out, c10RootRaw(n))
	}
	return out, false
}

func c10Tail(name string) []byte {
	switch name {
	case "":
		return nil
	case "z1":
		return []byte{0}
	case "z5":
		return []byte{0, 0, 0, 0, 0}
	case "zsec":
		return append([]byte{0}, refcar.EncodeSection(kit.B("b").Ref())...)
	}
	panic("unknown tail " + name)
}

// c10DupDigest reports whether two records fall into the same bucket with the same digest: the
// order inside such a run is not fixed by the format, so index bytes are compared normalised.
func c10DupDigest(recs []refcar.IndexRecord, codec uint64) bool {
	seen := map[string]bool{}
	for _, r := range recs {
		k := string(r.Digest)
		if codec == refcar.CodecMhIndexSorted {
			k = fmt.Sprintf("%d|%s", r.MhCode, k)
		}
		if seen[k] {
			return true
		}
		seen[k] = true
	}
	return false
}

// c10IdxEqual compares serialized index bytes: exactly when the canonical form is unique,
// after normalising the order of equal-digest runs otherwise.
func c10IdxEqual(got, want []byte, dup bool) (bool, error) {
	if bytes.Equal(got, want) {
		return true, nil
	}
	if !dup {
		return false, nil
	}
	norm, _, err := normaliseIndexBytes(got)
	if err != nil {
		return false, err
	}
	return bytes.Equal(norm, want), nil
}

func c10ReadFile(x *kit.Ctx, p, sig string) ([]byte, bool) {
	b, err := os.ReadFile(p)
	if err != nil {
		x.Fail(sig, "cannot read %s back: %v", filepath.Base(p), err)
		return nil, false
	}
	return b, true
}

func c10MustWrite(p string, b []byte) {
	if err := os.WriteFile(p, b, 0o644); err != nil {
		panic(fmt.Sprintf("harness: cannot write %s: %v", p, err))
	}
}

// c10Windows checks Reader.DataReader / Reader.IndexReader of a CARv2 (file bytes `file`, also on
// disk at path when path != "") against the expected payload and index bytes.
func c10Windows(x *kit.Ctx, tag string, file []byte, path string, payload []byte, dataOff uint64, idxRaw []byte) {
	type opened struct {
		name string
		r    *carv2.Reader
		done func()
	}
	var rs []opened
	if r, err := carv2.NewReader(bytes.NewReader(file)); err != nil {
		x.Fail("c10:window-open:"+tag, "NewReader(bytes.Reader) fails on a valid CARv2: %v", err)
	} else {
		rs = append(rs, opened{"NewReader(bytes.Reader)", r, func() {}})
	}
	if path != "" {
		if r, err := carv2.OpenReader(path); err != nil {
			x.Fail("c10:window-open:"+tag, "OpenReader fails on a valid CARv2: %v", err)
		} else {
			rs = append(rs, opened{"OpenReader", r, func() { r.Close() }})
		}
		if f, err := os.Open(path); err != nil {
			panic(err)
		} else if r, err := carv2.NewReader(f); err != nil {
			f.Close()
			x.Fail("c10:window-open:"+tag, "NewReader(*os.File) fails on a valid CARv2: %v", err)
		} else {
			rs = append(rs, opened{"NewReader(*os.File)", r, func() { f.Close() }})
		}
	}
	for _, o := range rs {
		func() {
			defer o.done()
			x.Count("window_checks", 1)
			r := o.r
			wantIdxOff := uint64(0)
			if idxRaw != nil {
				wantIdxOff = uint64(len(file) - len(idxRaw))
			}
			if r.Version != 2 || r.Header.DataOffset != dataOff || r.Header.DataSize != uint64(len(payload)) || r.Header.IndexOffset != wantIdxOff || r.Header.HasIndex() != (idxRaw != nil) {
				x.Fail("c10:window-header:"+tag, "%s: version %d header %+v, want data [%d,+%d) index at %d", o.name, r.Version, r.Header, dataOff, len(payload), wantIdxOff)
				return
			}
			dr, err := r.DataReader()
			if err != nil || dr == nil {
				x.Fail("c10:window-data-error:"+tag, "%s: DataReader: %v", o.name, err)
				return
			}
			all, err := io.ReadAll(dr)
			if err != nil || !bytes.Equal(all, payload) {
				x.Fail("c10:window-data:"+tag, "%s: ReadAll(DataReader) = %d bytes, err %v; payload is %d bytes, equal prefix=%v", o.name, len(all), err, len(payload), bytes.HasPrefix(all, payload))
			}
			// The statement fixes the window's extent, not that it can seek relative to its end
			// (SectionReader "is not guaranteed to be an io.SectionReader"): a refusal is recorded,
			// an answer must be the payload length.
			if end, err := dr.Seek(0, io.SeekEnd); err != nil {
				x.Outcome("beyond-statement:window-seekend-unsupported")
			} else if end != int64(len(payload)) {
				x.Fail("c10:window-data-seekend:"+tag, "%s: DataReader.Seek(0, SeekEnd) = %d, %v; payload is %d bytes", o.name, end, err, len(payload))
			}
			buf := make([]byte, 10)
			// io.ReaderAt: n < len(p) comes with a non-nil error; which error is not stated anywhere
			if n, err := dr.ReadAt(buf, int64(len(payload))); n != 0 || err == nil {
				x.Fail("c10:window-data-readat-end:"+tag, "%s: DataReader.ReadAt at the payload end = %d, %v; want 0 bytes and an error (bytes %x)", o.name, n, err, buf[:n])
			} else if err != io.EOF {
				x.Outcome("beyond-statement:window-readat-end-error-not-EOF")
			}
			if len(payload) >= 5 {
				n, err := dr.ReadAt(buf, int64(len(payload)-5))
				if n != 5 || err == nil || !bytes.Equal(buf[:5], payload[len(payload)-5:]) {
					x.Fail("c10:window-data-readat-cross:"+tag, "%s: DataReader.ReadAt(10 bytes, end-5) = %d, %v, %x; want the last 5 payload bytes and an error", o.name, n, err, buf[:n])
				}
			}
			// a second window of the same Reader is independent of the first one's position
			if dr2, err := r.DataReader(); err != nil {
				x.Fail("c10:window-data-error:"+tag, "%s: second DataReader: %v", o.name, err)
			} else {
				if _, err := dr.Seek(3, io.SeekStart); err != nil {
					x.Fail("c10:window-data-error:"+tag, "%s: DataReader.Seek(3, SeekStart): %v", o.name, err)
				}
				if all2, err := io.ReadAll(dr2); err != nil || !bytes.Equal(all2, payload) {
					x.Fail("c10:window-data-second:"+tag, "%s: a second DataReader yields %d bytes, err %v; payload is %d bytes", o.name, len(all2), err, len(payload))
				}
				if rest, err := io.ReadAll(dr); err != nil || !bytes.Equal(rest, payload[3:]) {
					x.Fail("c10:window-data-seek:"+tag, "%s: DataReader after Seek(3) yields %d bytes, err %v; want payload[3:] (%d bytes)", o.name, len(rest), err, len(payload)-3)
				}
			}
			ir, err := r.IndexReader()
			if err != nil {
				x.Fail("c10:window-index-error:"+tag, "%s: IndexReader: %v", o.name, err)
				return
			}
			if idxRaw == nil {
				if ir != nil {
					x.Fail("c10:window-index-not-nil:"+tag, "%s: IndexReader is not nil although the CARv2 has no index", o.name)
				}
				return
			}
			if ir == nil {
				x.Fail("c10:window-index-nil:"+tag, "%s: IndexReader is nil although the CARv2 has an index", o.name)
				return
			}
			ib, err := io.ReadAll(ir)
			if err != nil {
				x.Fail("c10:window-index:"+tag, "%s: ReadAll(IndexReader): %v", o.name, err)
			} else if !bytes.Equal(ib, idxRaw) {
				x.Fail("c10:window-index:"+tag, "%s: IndexReader yields %d bytes %x; the index is %d bytes %x", o.name, len(ib), clip(ib), len(idxRaw), clip(idxRaw))
			}
		}()
	}
}

// c10CheckWrap is the oracle for one wrapped output: pragma ++ header(51, len(source), 51+len(source))
// ++ source ++ index(source sections). When the caller passed UseDataPadding(7)/UseIndexPadding(3)
// (outside the statement's quantifier; WrapV1 documents "no padding") each of the two paddings may
// be ignored or honoured: the layout is then read from the header, it must be one of the legal ones,
// and everything but the content of the padding bytes is compared. It returns the data and index
// offsets of the output (ok=false: the output is too malformed to look at further).
func c10CheckWrap(x *kit.Ctx, cs C10Case, via string, got, source, wantIdx []byte, dup, mayBeFull bool) (dOff, iOff uint64, ok bool) {
	sig := func(what string) string {
		if cs.Tail != "" {
			return "c10:wrap-null-padded-" + what
		}
		return "c10:wrap-" + what + ":" + via
	}
	n := uint64(len(source))
	if uint64(len(got)) < 51+n || !bytes.Equal(got[:11], refcar.Pragma) {
		x.Fail(sig("malformed"), "%s output (%d bytes) is shorter than pragma+header+source (%d) or lacks the pragma", via, len(got), 51+n)
		return 0, 0, false
	}
	h := refcar.ParseV2Header(got[11:51])
	var dp, ip uint64
	if cs.PadOpts {
		if h.DataOffset == 51+7 {
			dp = 7
		}
		if h.IndexOffset == 51+dp+n+3 {
			ip = 3
		}
		if dp != 0 || ip != 0 {
			x.Outcome("beyond-statement:wrap-padding-options-honoured")
		}
	}
	dOff, iOff = 51+dp, 51+dp+n+ip
	if uint64(len(got)) < iOff {
		x.Fail(sig("malformed"), "%s output (%d bytes) is shorter than pragma+header+padding+source (%d)", via, len(got), iOff)
		return 0, 0, false
	}
	if !bytes.Equal(got[dOff:dOff+n], source) {
		x.Fail(sig("payload"), "%s does not carry the %d source bytes unmodified at offset %d", via, n, dOff)
	}
	if h.DataOffset != dOff || h.DataSize != n || h.IndexOffset != iOff {
		x.Fail(sig("header"), "%s header %+v does not describe the layout (source %d bytes, data padding %d, index padding %d)", via, h, n, dp, ip)
	}
	if h.CharLo != 0 || h.CharHi&^(1<<7) != 0 || (h.FullyIndexed() && !mayBeFull) {
		x.Fail(sig("characteristics"), "%s characteristics %016x %016x: reserved bits set, or fully-indexed claimed although identity sections are not indexed", via, h.CharHi, h.CharLo)
	}
	gotIdx := got[iOff:]
	ok, err := c10IdxEqual(gotIdx, wantIdx, dup)
	if !ok {
		x.Fail(sig("index"), "%s index differs from the reference index of the source's sections (err %v): %x want %x", via, err, clip(gotIdx), clip(wantIdx))
	}
	// whole-file comparison (the field checks above are diagnostics of this one)
	want := refcar.EncodeV2(source, dp, ip, wantIdx, h.FullyIndexed() && mayBeFull)
	if len(got) == len(want) {
		// the content of padding is not defined by the format
		copy(want[51:dOff], got[51:dOff])
		copy(want[dOff+n:iOff], got[dOff+n:iOff])
	}
	if len(got) != len(want) {
		x.Fail(sig("length"), "%s output is %d bytes want %d", via, len(got), len(want))
	} else if !dup && !bytes.Equal(got, want) {
		x.Fail(sig("bytes"), "%s output differs from pragma ++ header ++ source ++ index", via)
	} else if dup && !bytes.Equal(got[:iOff], want[:iOff]) {
		x.Fail(sig("bytes"), "%s output differs from pragma ++ header ++ source before the index", via)
	}
	// and the strict decoder agrees (padding bytes, index well-formed, nothing trailing)
	if _, err := refcar.DecodeFile(got, cs.Tail != ""); err != nil {
		x.Fail(sig("malformed"), "%s output malformed: %v", via, err)
	}
	return dOff, iOff, true
}

func c10Wrap(cs C10Case, x *kit.Ctx, payload []byte, pl *refcar.Payload) {
	source := append(append([]byte{}, payload...), c10Tail(cs.Tail)...)
	o := drv.Opts{Codec: cs.Codec, StoreID: cs.SID, ZeroEOF: cs.ZeroEOF}
	if cs.PadOpts {
		o.DataPad, o.IndexPad = 7, 3
	}
	codec := codecNum(o)
	recs := refcar.RecordsOf(pl, cs.SID)
	wantIdx := refcar.EncodeIndex(codec, recs)
	dup := c10DupDigest(recs, codec)
	mayBeFull := cs.SID || len(recs) == len(pl.Sections)

	srcPath := filepath.Join(x.Dir, "c10-src.car")
	dstPath := filepath.Join(x.Dir, "c10-dst.car")
	backPath := filepath.Join(x.Dir, "c10-back.car")
	os.Remove(dstPath)
	os.Remove(backPath)
	defer os.Remove(srcPath)
	defer os.Remove(dstPath)
	defer os.Remove(backPath)

	via := "WrapV1"
	var got []byte
	onDisk := false
	if cs.Src == "path" {
		via = "WrapV1File"
		c10MustWrite(srcPath, source)
		if cs.Dest == "larger" {
			c10MustWrite(dstPath, bytes.Repeat([]byte{0xEE}, len(source)+51+len(wantIdx)+50))
		}
		if err := carv2.WrapV1File(srcPath, dstPath); err != nil {
			x.Fail("c10:wrapfile-error", "WrapV1File fails on a valid CARv1: %v", err)
			return
		}
		var ok bool
		if got, ok = c10ReadFile(x, dstPath, "c10:wrapfile-no-output"); !ok {
			return
		}
		onDisk = true
		if after, ok := c10ReadFile(x, srcPath, "c10:wrap-touches-source"); ok && !bytes.Equal(after, source) {
			x.Fail("c10:wrap-touches-source", "WrapV1File modified its source")
		}
	} else {
		var src io.ReadSeeker
		switch cs.Src {
		case "":
			src = bytes.NewReader(source)
		case "plain1":
			src = &c10PlainRS{r: bytes.NewReader(source), chunk: 1}
		case "plain1000":
			src = &c10PlainRS{r: bytes.NewReader(source), chunk: 1000}
		case "plaineof":
			src = &c10PlainRS{r: bytes.NewReader(source), eofWithData: true}
		case "file":
			c10MustWrite(srcPath, source)
			f, err := os.Open(srcPath)
			if err != nil {
				panic(err)
			}
			defer f.Close()
			src = f
		default:
			panic("unknown source kind " + cs.Src)
		}
		var dst io.Writer
		var buf bytes.Buffer
		var pw c10PlainW
		var df *os.File
		switch cs.Dst {
		case "":
			dst = &buf
		case "plain":
			dst = &pw
		case "file":
			f, err := os.Create(dstPath)
			if err != nil {
				panic(err)
			}
			df = f
			dst = f
		default:
			panic("unknown destination kind " + cs.Dst)
		}
		err := carv2.WrapV1(src, dst, o.List()...)
		if df != nil {
			df.Close()
		}
		if err != nil {
			if cs.Tail == "zsec" {
				// payload ++ 0x00 ++ a further section is neither a valid CARv1 nor a null-padded
				// one: refusing it is outside the statement (accepting it is judged as before)
				x.Outcome("beyond-statement:wrap-refuses-section-after-null-padding")
			} else if cs.Tail != "" {
				x.Fail("c10:wrap-null-padded-error", "WrapV1 with ZeroLengthSectionAsEOF fails on a null-padded CARv1: %v", err)
			} else {
				x.Fail("c10:wrap-error", "WrapV1 fails on a valid CARv1: %v", err)
			}
			return
		}
		switch cs.Dst {
		case "":
			got = buf.Bytes()
		case "plain":
			got = pw.b.Bytes()
		case "file":
			var ok bool
			if got, ok = c10ReadFile(x, dstPath, "c10:wrap-no-output"); !ok {
				return
			}
			onDisk = true
		}
		if cs.Src == "file" {
			if after, ok := c10ReadFile(x, srcPath, "c10:wrap-touches-source"); ok && !bytes.Equal(after, source) {
				x.Fail("c10:wrap-touches-source", "WrapV1 modified its source file")
			}
		}
	}
	// the windows of the wrapped archive
	if dOff, iOff, ok := c10CheckWrap(x, cs, via, got, source, wantIdx, dup, mayBeFull); ok {
		c10Windows(x, "wrapped", got, "", source, dOff, got[iOff:])
	}
	// extract(wrap(x)) = x
	if !onDisk {
		c10MustWrite(dstPath, got)
	}
	if err := carv2.ExtractV1File(dstPath, backPath); err != nil {
		x.Fail("c10:extract-wrap-error", "ExtractV1File(%s(x)) failed: %v", via, err)
	} else if b, ok := c10ReadFile(x, backPath, "c10:extract-wrap"); ok && !bytes.Equal(b, source) {
		x.Fail("c10:extract-wrap", "extract(wrap(x)) != x (%d bytes, x is %d bytes)", len(b), len(source))
	}

	// windows of the plain CARv1 itself (once per payload)
	if cs.Src == "" && cs.Dst == "" && !cs.ZeroEOF && !cs.PadOpts && cs.Tail == "" && cs.Codec == "" && !cs.SID {
		r, err := carv2.NewReader(bytes.NewReader(payload))
		if err != nil {
			x.Fail("c10:window-open:v1", "NewReader fails on a valid CARv1: %v", err)
		} else {
			if r.Version != 1 {
				x.Fail("c10:window-header:v1", "NewReader reports version %d for a CARv1", r.Version)
			}
			if dr, err := r.DataReader(); err != nil || dr == nil {
				x.Fail("c10:window-data-error:v1", "DataReader on a CARv1: %v", err)
			} else if all, err := io.ReadAll(dr); err != nil || !bytes.Equal(all, payload) {
				x.Fail("c10:window-data:v1", "ReadAll(DataReader) of a CARv1 = %d bytes, err %v; the file is %d bytes", len(all), err, len(payload))
			}
			if ir, err := r.IndexReader(); err != nil || ir != nil {
				x.Fail("c10:window-index-not-nil:v1", "IndexReader of a CARv1 is (%v, %v), want nil", ir, err)
			}
		}
	}
}

func c10Extract(cs C10Case, x *kit.Ctx, payload []byte, pl *refcar.Payload) {
	var idx []byte
	if !cs.NoIndex {
		codec := uint64(refcar.CodecMhIndexSorted)
		if cs.IdxCodec == "sorted" {
			codec = refcar.CodecIndexSorted
		}
		recs := refcar.RecordsOf(pl, cs.Full)
		idx = refcar.EncodeIndex(codec, recs)
	}
	dp := cs.DataPad
	if cs.DPBig {
		dp = uint64(len(payload)) + 200
	}
	file := refcar.EncodeV2(payload, dp, cs.IndexPad, idx, cs.Full)
	src := filepath.Join(x.Dir, "c10-x-src.car")
	dst := filepath.Join(x.Dir, "c10-x-dst.car")
	c10MustWrite(src, file)
	defer os.Remove(src)
	os.Remove(dst)
	defer os.Remove(dst)
	shared := false // destination names the source file
	switch cs.Dest {
	case "absent":
		// DataReader/IndexReader windows of this very file (once per file: Dest only varies the extraction)
		c10Windows(x, "v2", file, src, payload, 51+dp, idx)
	case "larger":
		c10MustWrite(dst, bytes.Repeat([]byte{0xEE}, len(payload)+100))
	case "smaller":
		c10MustWrite(dst, []byte{0xEE, 0xEE, 0xEE})
	case "same":
		dst = src
		shared = true
	case "hardlink":
		if err := os.Link(src, dst); err != nil {
			panic(err)
		}
		shared = true
	case "symlink":
		if err := os.Symlink(src, dst); err != nil {
			panic(err)
		}
		shared = true
	case "dotpath":
		dst = filepath.Dir(src) + string(filepath.Separator) + "." + string(filepath.Separator) + filepath.Base(src)
		shared = true
	default:
		panic("unknown destination state " + cs.Dest)
	}
	if err := carv2.ExtractV1File(src, dst); err != nil {
		x.Fail("c10:extract-error:"+cs.Dest, "ExtractV1File fails on a valid CARv2: %v", err)
		if !shared {
			if after, ok := c10ReadFile(x, src, "c10:extract-touches-source"); ok && !bytes.Equal(after, file) {
				x.Fail("c10:extract-touches-source", "ExtractV1File failed and modified its source")
			}
		}
		return
	}
	if got, ok := c10ReadFile(x, dst, "c10:extract-no-output:"+cs.Dest); ok && !bytes.Equal(got, payload) {
		x.Fail("c10:extract-bytes:"+cs.Dest, "extracted %d bytes, payload is %d bytes; equal prefix=%v", len(got), len(payload), bytes.HasPrefix(got, payload))
	}
	if after, ok := c10ReadFile(x, src, "c10:extract-touches-source"); ok {
		if !shared && !bytes.Equal(after, file) {
			x.Fail("c10:extract-touches-source", "ExtractV1File modified its source")
		}
		if shared && !bytes.Equal(after, payload) {
			// The destination is another name of the source. Through the same directory entry
			// (same path, ./ spelling) the source path must now hold the payload. Through a hard
			// link or a symlink the statement fixes only what the destination name yields (checked
			// above): the library may convert the shared file in place, or put a new file under the
			// destination name, which leaves the source exactly as it was.
			if (cs.Dest == "hardlink" || cs.Dest == "symlink") && bytes.Equal(after, file) {
				x.Outcome("beyond-statement:extract-replaces-destination-name")
			} else {
				x.Fail("c10:extract-bytes:"+cs.Dest, "in-place extraction through another name of the source left %d bytes, payload is %d bytes (and not the untouched source)", len(after), len(payload))
			}
		}
	}
	if cs.Dest == "symlink" {
		if fi, err := os.Lstat(dst); err != nil || fi.Mode()&os.ModeSymlink == 0 {
			x.Count("symlink_replaced", 1) // not a violation: only the bytes are specified
		}
	}
}

// c10Replace runs one ReplaceRootsInFile call on the file at p (expected content *cur, CARv1 header
// of root list curName at offset base) and applies the oracle; it returns the root list now in place.
func c10Replace(x *kit.Ctx, p string, cur *[]byte, base int, curName, newName, maxHdr, step string) string {
	curRaws, curNil := c10Roots(curName)
	newRaws, newNil := c10Roots(newName)
	oldHdr := refcar.EncodeHeader(curRaws, curNil)
	newHdr := refcar.EncodeHeader(newRaws, newNil)
	var opts []carv2.Option
	tooLarge := false
	switch maxHdr {
	case "":
	case "below":
		body := len(refcar.EncodeHeaderBody(curRaws, curNil, 1))
		opts = append(opts, carv2.MaxAllowedHeaderSize(uint64(body-1)))
		tooLarge = true
	case "total":
		opts = append(opts, carv2.MaxAllowedHeaderSize(uint64(len(oldHdr))))
	default:
		panic("unknown maxhdr " + maxHdr)
	}
	err := carv2.ReplaceRootsInFile(p, drvCids(newRaws, newNil), opts...)
	after, ok := c10ReadFile(x, p, "c10:replace-file-gone")
	if !ok {
		return curName
	}
	if (err != nil || len(oldHdr) != len(newHdr)) && !bytes.Equal(after, *cur) {
		x.Fail("c10:replace-touched", "%sReplaceRootsInFile(%s -> %s) must not / did not replace (err %v) but modified the file", step, curName, newName, err)
	}
	if tooLarge && err == nil {
		// The statement does not mention MaxAllowedHeaderSize (a version that measures the current
		// header without decoding it has nothing to limit): recorded, and the call is judged like
		// one without the option.
		x.Outcome("beyond-statement:maxhdr-ignored")
		tooLarge = false
	}
	switch {
	case tooLarge:
		x.Outcome("refused-maxhdr")
	case len(oldHdr) == len(newHdr):
		// the header bytes of the new root list; a nil list may be written as null or as an empty
		// list (same length, both decode to "no roots")
		hdrs := [][]byte{newHdr}
		if newNil {
			hdrs = append(hdrs, refcar.EncodeHeader([][]byte{}, false))
		}
		want := append([]byte{}, (*cur)...)
		matched := false
		for _, hb := range hdrs {
			copy(want[base:], hb)
			if bytes.Equal(after, want) {
				matched = true
				break
			}
		}
		if err != nil {
			x.Fail("c10:replace-refused", "%sreplacement header (%s -> %s) has the same length (%d) but ReplaceRootsInFile failed: %v", step, curName, newName, len(newHdr), err)
		} else if !matched {
			x.Fail("c10:replace-bytes", "%safter replacement (%s -> %s) the file differs from 'only the header bytes changed'", step, curName, newName)
			copy(want[base:], newHdr)
		}
		x.Outcome("replaced")
		if err == nil {
			*cur = want
			return newName
		}
	default:
		if err == nil {
			x.Fail("c10:replace-accepted", "%sreplacement header (%s -> %s) length %d != current %d but ReplaceRootsInFile succeeded", step, curName, newName, len(newHdr), len(oldHdr))
		}
		x.Outcome("refused")
	}
	if err == nil {
		// go-car accepted against the model: continue from what is on disk
		*cur = after
	}
	return curName
}

func c10ReplaceFile(cs C10Case, payload []byte, pl *refcar.Payload) ([]byte, int) {
	if !cs.V2 {
		return payload, 0
	}
	idx := refcar.EncodeIndex(refcar.CodecMhIndexSorted, refcar.RecordsOf(pl, false))
	if cs.NoIndex {
		idx = nil
	}
	dp := cs.DataPad
	if cs.DPBig {
		dp = uint64(len(payload)) + 200
	}
	return refcar.EncodeV2(payload, dp, cs.IndexPad, idx, false), 51 + int(dp)
}

func c10Foreign(cs C10Case, x *kit.Ctx, payload []byte, rootRaws [][]byte, nilRoots bool, rb []refcar.Block) {
	p := filepath.Join(x.Dir, "c10-f.car")
	q := filepath.Join(x.Dir, "c10-f-dst.car")
	os.Remove(q)
	defer os.Remove(p)
	defer os.Remove(q)
	var file []byte
	var err error
	switch cs.What {
	case "extract-v1-same", "extract-v1-absent":
		// ExtractV1File on a CARv1: outside "any CARv2"; only "unless it returns nil the source stays as it was"
		file = payload
		c10MustWrite(p, file)
		if cs.What == "extract-v1-same" {
			err = carv2.ExtractV1File(p, p)
		} else {
			err = carv2.ExtractV1File(p, q)
		}
	case "replace-inner-v2":
		// CARv2 whose inner header claims version 2: not a valid archive
		body := refcar.EncodeHeaderBody(rootRaws, nilRoots, 2)
		inner := append(refcar.PutUvarint(uint64(len(body))), body...)
		for _, b := range rb {
			inner = append(inner, refcar.EncodeSection(b)...)
		}
		file = refcar.EncodeV2(inner, cs.DataPad, 0, nil, false)
		c10MustWrite(p, file)
		newRaws, newNil := c10Roots(cs.NewRoots)
		err = carv2.ReplaceRootsInFile(p, drvCids(newRaws, newNil))
	default:
		panic("unknown foreign case " + cs.What)
	}
	after, ok := c10ReadFile(x, p, "c10:foreign-file-gone:"+cs.What)
	if !ok {
		return
	}
	if err != nil {
		x.Outcome("foreign:" + cs.What + ":error")
		if !bytes.Equal(after, file) {
			x.Fail("c10:foreign-touched:"+cs.What, "the call failed (%v) but modified the file", err)
		}
	} else {
		x.Outcome("foreign:" + cs.What + ":nil")
	}
}

func runC10(c any, x *kit.Ctx) {
	cs := c.(C10Case)
	if cs.Many > 0 {
		cs.Seq = kit.ManyNames(cs.Many)
	}
	rootRaws, nilRoots := c10Roots(cs.Roots)
	var rb []refcar.Block
	for _, b := range kit.Bs(cs.Seq) {
		rb = append(rb, b.Ref())
	}
	payload := refcar.EncodeV1(rootRaws, nilRoots, rb)
	pl, err := refcar.DecodePayload(payload, false, true)
	if err != nil {
		panic(err)
	}
	x.Eval(1)
	x.Transition(2)
	key := fmt.Sprintf("%s|%d|%s", cs.Roots, cs.Many, strings.Join(cs.Seq[:min(len(cs.Seq), 8)], ","))
	switch cs.Kind {
	case "wrap":
		c10Wrap(cs, x, payload, pl)
		x.State(fmt.Sprintf("wrap|%s|%v|%s|%s|%v|%v|%s|%s|%s", cs.Codec, cs.SID, cs.Src, cs.Dst, cs.ZeroEOF, cs.PadOpts, cs.Tail, cs.Dest, key))
	case "extract":
		c10Extract(cs, x, payload, pl)
		x.State(fmt.Sprintf("extract|%d|%v|%d|%v|%s|%s|%v|%s", cs.DataPad, cs.DPBig, cs.IndexPad, cs.NoIndex, cs.Dest, cs.IdxCodec, cs.Full, key))
	case "replace":
		file, base := c10ReplaceFile(cs, payload, pl)
		p := filepath.Join(x.Dir, "c10-r.car")
		c10MustWrite(p, file)
		defer os.Remove(p)
		cur := append([]byte{}, file...)
		c10Replace(x, p, &cur, base, cs.Roots, cs.NewRoots, cs.MaxHdr, "")
		x.Nontrivial(fmt.Sprintf("%+v", cs))
		x.State(fmt.Sprintf("replace|%v|%d|%v|%v|%s|%s|%s", cs.V2, cs.DataPad, cs.DPBig, cs.NoIndex, cs.NewRoots, cs.MaxHdr, key))
	case "replace-seq":
		file, base := c10ReplaceFile(cs, payload, pl)
		p := filepath.Join(x.Dir, "c10-rs.car")
		c10MustWrite(p, file)
		defer os.Remove(p)
		cur := append([]byte{}, file...)
		curName := cs.Roots
		for i, nw := range cs.Steps {
			curName = c10Replace(x, p, &cur, base, curName, nw, "", fmt.Sprintf("step %d of %v: ", i+1, cs.Steps))
			x.Transition(1)
		}
		x.Nontrivial(fmt.Sprintf("%+v", cs))
		x.State(fmt.Sprintf("replace-seq|%v|%d|%v|%v|%s", cs.V2, cs.DataPad, cs.NoIndex, cs.Steps, key))
	case "foreign":
		c10Foreign(cs, x, payload, rootRaws, nilRoots, rb)
		x.State(fmt.Sprintf("foreign|%s|%s|%d|%s", cs.What, cs.NewRoots, cs.DataPad, key))
	default:
		panic("unknown kind " + cs.Kind)
	}
	if len(cs.Seq) >= 1 {
		x.Nontrivial(fmt.Sprintf("%+v", c))
	}
}

var (
	c10Srcs     = []string{"", "file", "plain1", "plain1000", "plaineof"}
	c10Dsts     = []string{"", "plain", "file"}
	c10Tails    = []string{"z1", "z5", "zsec"}
	c10Dests    = []string{"absent", "larger", "smaller", "same", "hardlink", "dotpath", "symlink"}
	c10Codecs   = []string{"", "sorted"}
	c10Bools    = []bool{false, true}
	c10WrapRed  = [][2]string{{"", ""}, {"file", "file"}, {"plain1", "plain"}, {"plaineof", ""}, {"plain1000", "file"}}
	c10IdxKinds = []struct {
		codec string
		full  bool
	}{{"sorted", false}, {"", true}, {"sorted", true}}
)

// c10WrapFull: the whole product of the wrap dimensions for one (payload, root list).
func c10WrapFull(emit func(any), base C10Case) {
	base.Kind = "wrap"
	for _, codec := range c10Codecs {
		for _, sid := range c10Bools {
			c := base
			c.Codec, c.SID = codec, sid
			for _, src := range c10Srcs {
				for _, dst := range c10Dsts {
					for _, z := range c10Bools {
						for _, po := range c10Bools {
							d := c
							d.Src, d.Dst, d.ZeroEOF, d.PadOpts = src, dst, z, po
							emit(d)
						}
					}
				}
				for _, tail := range c10Tails {
					d := c
					d.Src, d.ZeroEOF, d.Tail = src, true, tail
					emit(d)
				}
			}
		}
	}
	for _, dest := range []string{"absent", "larger"} {
		c := base
		c.Src, c.Dest = "path", dest
		emit(c)
	}
}

// c10WrapReduced: both codecs x identity option x 5 (source kind, destination kind) pairs x
// ZeroLengthSectionAsEOF, padding options and two tails on one pair each, WrapV1File x 2 destination states.
func c10WrapReduced(emit func(any), base C10Case) {
	base.Kind = "wrap"
	for _, codec := range c10Codecs {
		for _, sid := range c10Bools {
			c := base
			c.Codec, c.SID = codec, sid
			for _, sd := range c10WrapRed {
				for _, z := range c10Bools {
					d := c
					d.Src, d.Dst, d.ZeroEOF = sd[0], sd[1], z
					emit(d)
				}
			}
			d := c
			d.PadOpts = true
			emit(d)
			d = c
			d.ZeroEOF, d.Tail = true, "z5"
			emit(d)
			d = c
			d.Src, d.ZeroEOF, d.Tail = "plain1", true, "zsec"
			emit(d)
		}
	}
	for _, dest := range []string{"absent", "larger"} {
		c := base
		c.Src, c.Dest = "path", dest
		emit(c)
	}
}

type c10Pad struct {
	dp  uint64
	big bool
}

func c10ExtractFull(emit func(any), base C10Case) {
	base.Kind = "extract"
	for _, p := range []c10Pad{{0, false}, {1, false}, {7, false}, {4096, false}, {0, true}} {
		for _, in := range []struct {
			ip    uint64
			noidx bool
		}{{0, false}, {3, false}, {4096, false}, {0, true}} {
			for _, dest := range c10Dests {
				c := base
				c.DataPad, c.DPBig, c.IndexPad, c.NoIndex, c.Dest = p.dp, p.big, in.ip, in.noidx, dest
				emit(c)
			}
		}
	}
	for _, dp := range []uint64{0, 7} {
		for _, ip := range []uint64{0, 3} {
			for _, k := range c10IdxKinds {
				for _, dest := range c10Dests {
					c := base
					c.DataPad, c.IndexPad, c.IdxCodec, c.Full, c.Dest = dp, ip, k.codec, k.full, dest
					emit(c)
				}
			}
		}
	}
}

// c10ExtractReduced: data padding {0,1,7,len+200} x {index, index after 3 bytes of padding, no index}
// x all destination states; 4096/4096 padding and the sorted+fully-indexed flavour on {absent, same}.
func c10ExtractReduced(emit func(any), base C10Case) {
	base.Kind = "extract"
	for _, p := range []c10Pad{{0, false}, {1, false}, {7, false}, {0, true}} {
		for _, in := range []struct {
			ip    uint64
			noidx bool
		}{{0, false}, {3, false}, {0, true}} {
			for _, dest := range c10Dests {
				c := base
				c.DataPad, c.DPBig, c.IndexPad, c.NoIndex, c.Dest = p.dp, p.big, in.ip, in.noidx, dest
				emit(c)
			}
		}
	}
	for _, dest := range []string{"absent", "same"} {
		c := base
		c.DataPad, c.IndexPad, c.Dest = 4096, 4096, dest
		emit(c)
		c = base
		c.IndexPad, c.IdxCodec, c.Full, c.Dest = 3, "sorted", true, dest
		emit(c)
	}
}

func genC10(tier string, emit func(any)) {
	thorough := tier == "thorough"
	// the equal-length root lists really are of equal length (and differ)
	for _, g := range [][]string{{"I3I3", "I14"}, {"I3I5", "I4I4"}, {"I19", "I3I9"}, {"a", "b"}, {"ab", "ba"}} {
		r0, n0 := c10Roots(g[0])
		for _, o := range g[1:] {
			r1, n1 := c10Roots(o)
			h0, h1 := refcar.EncodeHeader(r0, n0), refcar.EncodeHeader(r1, n1)
			if len(h0) != len(h1) || bytes.Equal(h0, h1) {
				panic(fmt.Sprintf("root lists %s and %s: header lengths %d, %d", g[0], o, len(h0), len(h1)))
			}
		}
	}
	names := []string{"a", "b", "e", "a'", "a0", "i", "ia", "s", "t"}
	maxLen := 2
	if thorough {
		names = append(names, "k", "i0", "L127", "L128")
		maxLen = 3
	}
	var seqs [][]string
	kit.Seqs(names, maxLen, func(s []string) { seqs = append(seqs, s) })
	rootLists := []string{"a", "empty", "nil", "ab", "a0"}
	fullLen := 1 // sequences up to this length get the full wrap/extract products
	if thorough {
		fullLen = 2
	}
	for _, sq := range seqs {
		for _, rs := range rootLists {
			base := C10Case{Roots: rs, Seq: sq}
			if len(sq) <= fullLen {
				c10WrapFull(emit, base)
			} else {
				c10WrapReduced(emit, base)
			}
			if rs != "a" && rs != "nil" && len(sq) > 1 {
				continue
			}
			if len(sq) <= fullLen {
				c10ExtractFull(emit, base)
			} else {
				c10ExtractReduced(emit, base)
			}
		}
	}
	// payloads around the varint boundary of a section length, larger than one 32 KiB copy buffer,
	// larger than two, and an archive of 1100 sections (about 650 KB)
	bigs := []C10Case{{Seq: []string{"L16383"}}, {Seq: []string{"L16384", "a"}}, {Seq: []string{"L40000"}}, {Seq: []string{"L70000", "a"}}, {Many: 1100}}
	for i, b := range bigs {
		for _, rs := range []string{"a", "nil"} {
			b.Roots = rs
			if thorough || i == 2 {
				c10WrapFull(emit, b)
				c10ExtractFull(emit, b)
			} else {
				c10WrapReduced(emit, b)
				c10ExtractReduced(emit, b)
			}
		}
	}
	// root replacement: every (old, new) pair of root lists
	rseqs := [][]string{{}, {"a"}, {"a", "b"}}
	for _, sq := range rseqs {
		for _, old := range c10RootOrder {
			for _, nw := range c10RootOrder {
				for _, mh := range []string{"", "below", "total"} {
					emit(C10Case{Kind: "replace", Roots: old, NewRoots: nw, Seq: sq, MaxHdr: mh})
				}
				for _, p := range []c10Pad{{0, false}, {7, false}, {4096, false}, {0, true}} {
					for _, noidx := range c10Bools {
						emit(C10Case{Kind: "replace", Roots: old, NewRoots: nw, Seq: sq, V2: true, DataPad: p.dp, DPBig: p.big, IndexPad: 3, NoIndex: noidx})
					}
				}
				for _, dp := range []uint64{0, 7} {
					for _, mh := range []string{"below", "total"} {
						emit(C10Case{Kind: "replace", Roots: old, NewRoots: nw, Seq: sq, V2: true, DataPad: dp, IndexPad: 3, MaxHdr: mh})
					}
				}
			}
		}
	}
	// a replacement on a large archive (the rewrite must not reach past the header)
	for _, pair := range [][2]string{{"a", "b"}, {"a", "ab"}, {"I3I3", "I14"}} {
		emit(C10Case{Kind: "replace", Roots: pair[0], NewRoots: pair[1], Many: 1100})
		emit(C10Case{Kind: "replace", Roots: pair[0], NewRoots: pair[1], Many: 1100, V2: true, DataPad: 7, IndexPad: 3})
	}
	// state across calls: every sequence of three replacements applied to one file
	stepLists := []string{"a", "b", "a0", "ab", "ba", "empty", "nil", "I3I3", "I14", "I3I9"}
	sseqs := [][]string{{"a"}}
	if thorough {
		stepLists = c10RootOrder
		sseqs = [][]string{{}, {"a"}}
	}
	for _, sq := range sseqs {
		for _, old := range []string{"a", "ab", "I3I3", "I19", "nil"} {
			for _, s1 := range stepLists {
				for _, s2 := range stepLists {
					for _, s3 := range stepLists {
						st := []string{s1, s2, s3}
						emit(C10Case{Kind: "replace-seq", Roots: old, Seq: sq, Steps: st})
						emit(C10Case{Kind: "replace-seq", Roots: old, Seq: sq, Steps: st, V2: true, DataPad: 7, IndexPad: 3})
						if thorough {
							emit(C10Case{Kind: "replace-seq", Roots: old, Seq: sq, Steps: st, V2: true, NoIndex: true})
						}
					}
				}
			}
		}
	}
	// inputs outside "valid" (weak oracle only)
	for _, sq := range [][]string{{}, {"a"}, {"a", "b"}} {
		for _, rs := range []string{"a", "nil", "ab"} {
			emit(C10Case{Kind: "foreign", What: "extract-v1-same", Roots: rs, Seq: sq})
			emit(C10Case{Kind: "foreign", What: "extract-v1-absent", Roots: rs, Seq: sq})
			for _, nw := range []string{"a", "b", "ab", "empty"} {
				for _, dp := range []uint64{0, 7} {
					emit(C10Case{Kind: "foreign", What: "replace-inner-v2", Roots: rs, NewRoots: nw, Seq: sq, DataPad: dp})
				}
			}
		}
	}
}

func init() {
	kit.Register(&kit.Prop{
		ID:     "C10",
		Gen:    genC10,
		Run:    runC10,
		Decode: kit.DecodeAs[C10Case],
		Rule: "WRAP: every CARv1 up to the bound -> WrapV1 over {both index codecs} x {StoreIdentityCIDs} x source {bytes.Reader, *os.File, bare ReadSeeker with 1-byte reads / 1000-byte reads / data+EOF on the last read} x destination {bytes.Buffer, bare Writer, *os.File} x {ZeroLengthSectionAsEOF} x {UseDataPadding(7)+UseIndexPadding(3): ignored or honoured, layout then read from the header}, " +
			"sources followed by {1 zero, 5 zeros, zero + a further section} under ZeroLengthSectionAsEOF (zero + section may be refused), WrapV1File into {absent, larger pre-existing} destination; oracle: output == pragma ++ header(51, len, 51+len, no reserved bits) ++ source ++ canonical index of the sections (byte-exact; equal-digest runs normalised), strict re-decode, source file untouched, DataReader/IndexReader of the output, ExtractV1File(output) == source. " +
			"EXTRACT: every CARv2 (data padding {0,1,7,4096,len(payload)+200}, index {none, at +0, +3, +4096}, index codec x FullyIndexed flavours) -> DataReader/IndexReader windows via OpenReader (mmap), NewReader(*os.File), NewReader(bytes.Reader) (content, SeekEnd when supported, ReadAt at/across the end, independence, nil index reader) and ExtractV1File into {absent, larger, smaller, same path, hard link to source, ./ spelling of source, symlink to source}: exactly the payload under the destination name, source untouched unless it is the destination (through a hard link or symlink: converted in place or left untouched). " +
			"REPLACE: ReplaceRootsInFile for every ordered pair of 19 root lists (equal/different encoded size, nil vs empty, CIDv0 vs v1, identity-CID lists of equal total size but different count / per-root size) on CARv1 and CARv2 (data padding {0,7,4096,len+200}, with/without index), with MaxAllowedHeaderSize {unset, below the current header: refusal or, recorded as beyond-statement, judged as without the option; = header}, a nil root list may be written as null or as an empty list; every sequence of 3 replacements on one file (state across calls); any error leaves the file byte-identical. " +
			"Sequences longer than the full-product length use the reduced matrices c10WrapReduced/c10ExtractReduced (quick: len 2; thorough: len 3). Non-trivial = non-empty payload or any replacement",
		Bound: func(tier string) map[string]any {
			big := []string{"L16383", "L16384+a", "L40000", "L70000+a", "1100 sections"}
			if tier == "thorough" {
				return map[string]any{"seq_len": 3, "alphabet": 13, "full_product_seq_len": 2, "root_lists": 19, "replace_steps": 3, "step_lists": 19, "big_payloads": big, "big_payload_matrix": "full"}
			}
			return map[string]any{"seq_len": 2, "alphabet": 9, "full_product_seq_len": 1, "root_lists": 19, "replace_steps": 3, "step_lists": 10, "big_payloads": big, "big_payload_matrix": "full for L40000, reduced otherwise"}
		},
		Assumptions: []string{
			"refcar layout and canonical index encoding are correct",
			"scratch directory (tmpfs) supports hard links, symlinks and mmap",
			"inputs outside 'valid' (ExtractV1File on a CARv1, CARv2 with inner header version 2) are only checked for 'an error leaves the file untouched'",
			"the order of index records with equal digests in one bucket is not specified: such indexes are compared after normalisation",
			"FullyIndexed may be set by WrapV1 only when every section is indexed; all other characteristics bits must be zero",
			"beyond the statement, recorded as beyond-statement:* outcomes and never violations: WrapV1 honouring padding options, WrapV1 refusing payload++0x00++section, MaxAllowedHeaderSize not enforced by ReplaceRootsInFile, ExtractV1File putting a new file under a destination name that is a hard link/symlink of the source, DataReader windows that refuse SeekEnd or report the end with an error other than io.EOF",
			"the content of padding bytes is not compared",
		},
	})
}
