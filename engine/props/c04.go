package props

import (
	"bytes"
	"crypto/sha256"
	"encoding/hex"
	"errors"
	"fmt"
	"os"
	"path/filepath"
	"sort"
	"strings"

	blocks "github.com/ipfs/go-block-format"
	"github.com/ipfs/go-cid"
	carv2 "github.com/ipld/go-car/v2"
	"github.com/ipld/go-car/v2/blockstore"
	"github.com/ipld/go-car/v2/storage"

	"verif/drv"
	"verif/kit"
	"verif/model"
	"verif/refcar"
)

type C04Case struct {
	Front string   `json:"front"` // bs, st, bsf
	Opts  drv.Opts `json:"opts"`
	First string   `json:"first"` // first mutator of the subtree explored by this case
	Depth int      `json:"depth"`
	Path  []string `json:"path,omitempty"`  // replay / script: exactly this path
	Roots string   `json:"roots,omitempty"` // kit root-set name ("" = "ab")
	Alpha string   `json:"alpha,omitempty"` // mutator alphabet ("" = core, "ext", "extL", "slim")
}

func (c C04Case) rootSet() string {
	if c.Roots == "" {
		return "ab"
	}
	return c.Roots
}

// ---------------------------------------------------------------- alphabet

// Blocks that only C04 uses (kept out of kit.Alpha so that the enumerations of the other
// properties do not change). The stores never verify that data hashes to the CID, so blocks
// sharing digest bytes can carry distinguishable data.
var c04Local = map[string]kit.Blk{}

func c04mk(name string, raw, data []byte) {
	c, err := cid.Cast(raw)
	if err != nil {
		panic(fmt.Sprintf("c04 block %s: %v", name, err))
	}
	if !bytes.Equal(c.Bytes(), raw) {
		panic("c04 block " + name + ": go-cid re-encodes differently")
	}
	c04Local[name] = kit.Blk{Name: name, Raw: raw, Cid: c, Data: data}
}

func init() {
	da, err := refcar.Digest(refcar.MhSha256, []byte("aaa"))
	if err != nil {
		panic(err)
	}
	// digest bytes of a under another hash code (equal digest / different hash function), own data
	c04mk("ak", refcar.CIDv1(refcar.CodecRaw, refcar.MhBlake2b256, da), []byte("akakk"))
	// digest that is a proper prefix of a's digest (neighbour in the digest-ordered index tree)
	c04mk("at", refcar.CIDv1(refcar.CodecRaw, refcar.MhSha256, da[:20]), []byte("at-data"))
	// the CID of a' (multihash of a, codec dag-cbor) with data that differs from a's in content and length
	c04mk("ac", refcar.CIDv1(refcar.CodecDagCBOR, refcar.MhSha256, da), []byte("AAAA"))
	// identity CIDs of exactly 2048 bytes (the default MaxIndexCidSize) and 2049 bytes
	for _, n := range []int{2043, 2044} {
		d := make([]byte, n)
		for i := range d {
			d[i] = byte('A' + i%23)
		}
		name := "XLok"
		if n == 2044 {
			name = "XLbig"
		}
		c04mk(name, refcar.CIDv1(refcar.CodecRaw, refcar.MhIdentity, d), d)
	}
	if len(c04Local["XLok"].Raw) != 2048 || len(c04Local["XLbig"].Raw) != 2049 {
		panic("c04: XL blocks do not have the intended CID length")
	}
}

func c04B(name string) kit.Blk {
	if b, ok := c04Local[name]; ok {
		return b
	}
	return kit.B(name)
}

func c04Names(arg string) []string {
	if arg == "" {
		return nil
	}
	return strings.Split(arg, ",")
}

func c04Bs(arg string) []kit.Blk {
	var out []kit.Blk
	for _, n := range c04Names(arg) {
		out = append(out, c04B(n))
	}
	return out
}

// mutators, simplest first
var c04Puts = []string{"put:a", "put:b", "put:a'", "put:i", "put:ia", "put:X"}
var c04Many = []string{"many:a,b", "many:a,a'", "many:b,X"}
var c04LifeBS = []string{"finalize", "discard", "finalize-ro", "close"}
var c04LifeST = []string{"finalize"}

// extended alphabet: non-identity over-long CID (s), empty data (e), two-byte section length
// (L128), digest collisions (ak, at), CIDv0 (a0), same whole CID with other data (ac), error not
// last in a batch, empty batch, in-batch duplicate, resume from the file (reopen)
var c04PutsExt = []string{"put:s", "put:e", "put:L128", "put:ak", "put:at", "put:a0", "put:ac"}
var c04ManyExt = []string{"many:X,b", "many:", "many:a,a"}

func c04Mutators(front string) []string {
	var out []string
	out = append(out, c04Puts...)
	if front == "bs" || front == "bsf" {
		out = append(out, c04Many...)
		out = append(out, c04LifeBS...)
	} else {
		out = append(out, c04LifeST...)
	}
	return out
}

// c04Alphabet returns the mutators of an alphabet family for a front-end.
func c04Alphabet(alpha, front string) []string {
	isBS := front == "bs" || front == "bsf"
	switch alpha {
	case "":
		return c04Mutators(front)
	case "ext", "extL":
		out := c04Mutators(front)
		out = append(out, c04PutsExt...)
		if alpha == "extL" {
			out = append(out, "put:L16384")
		}
		if isBS {
			out = append(out, c04ManyExt...)
		}
		return append(out, "reopen")
	case "slim":
		// the blocks that share digest bytes with a, one small and one 2-byte-length block, resume and finalize
		return []string{"put:a", "put:a'", "put:ia", "put:ak", "put:at", "put:a0", "put:ac", "put:b", "put:L128", "put:e", "reopen", "finalize"}
	}
	panic("unknown C04 alphabet " + alpha)
}

// c04FilterFront drops the operations a front-end does not have (storage: no PutMany, only Finalize).
func c04FilterFront(front string, path []string) []string {
	if front == "bs" || front == "bsf" {
		return path
	}
	var out []string
	for _, op := range path {
		kind, _, _ := strings.Cut(op, ":")
		if kind == "put" || kind == "finalize" || kind == "reopen" {
			out = append(out, op)
		}
	}
	return out
}

// c04BlocksOf lists the distinct blocks named by put/many mutators.
func c04BlocksOf(muts []string) []kit.Blk {
	var out []kit.Blk
	seen := map[string]bool{}
	for _, m := range muts {
		kind, arg, _ := strings.Cut(m, ":")
		if kind != "put" && kind != "many" {
			continue
		}
		for _, n := range c04Names(arg) {
			if !seen[n] {
				seen[n] = true
				out = append(out, c04B(n))
			}
		}
	}
	return out
}

func c04MaxSection(muts []string) uint64 {
	var mx uint64
	for _, b := range c04BlocksOf(muts) {
		if n := uint64(len(b.Raw) + len(b.Data)); n > mx {
			mx = n
		}
	}
	return mx
}

// c04QueriesFor: the fixed query set plus every block the mutators can put, plus a CID never stored.
func c04QueriesFor(muts []string) []kit.Blk {
	var q []kit.Blk
	seen := map[string]bool{}
	addq := func(b kit.Blk) {
		if !seen[string(b.Raw)] {
			seen[string(b.Raw)] = true
			q = append(q, b)
		}
	}
	for _, n := range []string{"a", "b", "a'", "a0", "i", "ia", "X", "s", "e", "i0", "ak", "at"} {
		addq(c04B(n))
	}
	for _, b := range c04BlocksOf(muts) {
		addq(b)
	}
	addq(kit.Absent)
	return q
}

// ---------------------------------------------------------------- front-ends

// rwStore abstracts the writable front-ends.
type rwStore interface {
	Put(b kit.Blk) error
	PutMany(bs []kit.Blk) error
	Has(c cid.Cid) (bool, error)
	Get(c cid.Cid) ([]byte, error)
	Size(c cid.Cid) (int, error)
	Keys() ([][]byte, error)
	Roots() ([][]byte, error)
	Life(op string) error
	// Reopen abandons the instance (Discard for the blockstore; the storage front-end has no
	// close call) and opens the same file again with the same roots and options (resumption).
	Reopen() error
	File() []byte
	Cleanup()
}

type bsStore struct {
	bs    *blockstore.ReadWrite
	path  string
	f     *os.File // caller-owned file (front "bsf"): stays open after Finalize/Discard
	owned bool
	roots []cid.Cid
	o     drv.Opts
}

func (s *bsStore) Put(b kit.Blk) error { return s.bs.Put(drv.Ctx, b.Block()) }
func (s *bsStore) PutMany(bs []kit.Blk) error {
	var l []blocks.Block
	for _, b := range bs {
		l = append(l, b.Block())
	}
	return s.bs.PutMany(drv.Ctx, l)
}
func (s *bsStore) Has(c cid.Cid) (bool, error) { return s.bs.Has(drv.Ctx, c) }
func (s *bsStore) Get(c cid.Cid) ([]byte, error) {
	b, err := s.bs.Get(drv.Ctx, c)
	if err != nil {
		return nil, err
	}
	if !b.Cid().Equals(c) {
		return nil, fmt.Errorf("Get(%s) returned a block with CID %s", c, b.Cid())
	}
	return b.RawData(), nil
}
func (s *bsStore) Size(c cid.Cid) (int, error) { return s.bs.GetSize(drv.Ctx, c) }
func (s *bsStore) Keys() ([][]byte, error) {
	ch, err := s.bs.AllKeysChan(drv.Ctx)
	if err != nil {
		return nil, err
	}
	out := [][]byte{}
	for c := range ch {
		out = append(out, c.Bytes())
	}
	return out, nil
}
func (s *bsStore) Roots() ([][]byte, error) {
	rs, err := s.bs.Roots()
	if err != nil {
		return nil, err
	}
	out := [][]byte{}
	for _, r := range rs {
		out = append(out, r.Bytes())
	}
	return out, nil
}
func (s *bsStore) Life(op string) error {
	switch op {
	case "finalize":
		return s.bs.Finalize()
	case "finalize-ro":
		return s.bs.FinalizeReadOnly()
	case "close":
		return s.bs.Close()
	case "discard":
		s.bs.Discard()
		return nil
	}
	panic(op)
}
func (s *bsStore) Reopen() error {
	s.bs.Discard()
	if !s.owned {
		bs, err := blockstore.OpenReadWrite(s.path, s.roots, s.o.List()...)
		if err != nil {
			return err
		}
		s.bs = bs
		return nil
	}
	if s.f != nil {
		s.f.Close()
		s.f = nil
	}
	f, err := os.OpenFile(s.path, os.O_RDWR, 0o644)
	if err != nil {
		return err
	}
	bs, err := blockstore.OpenReadWriteFile(f, s.roots, s.o.List()...)
	if err != nil {
		f.Close()
		return err
	}
	s.bs, s.f = bs, f
	return nil
}
func (s *bsStore) File() []byte { b, _ := os.ReadFile(s.path); return b }
func (s *bsStore) Cleanup() {
	s.bs.Discard()
	if s.f != nil {
		s.f.Close()
	}
	os.Remove(s.path)
}

type stStore struct {
	st    *storage.StorageCar
	f     *os.File
	path  string
	roots []cid.Cid
	o     drv.Opts
}

func (s *stStore) Put(b kit.Blk) error { return s.st.Put(drv.Ctx, b.Cid.KeyString(), b.Data) }
func (s *stStore) PutMany(bs []kit.Blk) error {
	for _, b := range bs {
		if err := s.Put(b); err != nil {
			return err
		}
	}
	return nil
}
func (s *stStore) Has(c cid.Cid) (bool, error)   { return s.st.Has(drv.Ctx, c.KeyString()) }
func (s *stStore) Get(c cid.Cid) ([]byte, error) { return s.st.Get(drv.Ctx, c.KeyString()) }
func (s *stStore) Size(c cid.Cid) (int, error) {
	b, err := s.st.Get(drv.Ctx, c.KeyString())
	return len(b), err
}
func (s *stStore) Keys() ([][]byte, error) { return nil, drv.ErrNoListing }
func (s *stStore) Roots() ([][]byte, error) {
	out := [][]byte{}
	for _, r := range s.st.Roots() {
		out = append(out, r.Bytes())
	}
	return out, nil
}
func (s *stStore) Life(op string) error {
	if op == "finalize" {
		return s.st.Finalize()
	}
	panic(op)
}
func (s *stStore) Reopen() error {
	if s.f != nil {
		s.f.Close()
		s.f = nil
	}
	f, err := os.OpenFile(s.path, os.O_RDWR, 0o644)
	if err != nil {
		return err
	}
	st, err := storage.OpenReadableWritable(f, s.roots, s.o.List()...)
	if err != nil {
		f.Close()
		return err
	}
	s.st, s.f = st, f
	return nil
}
func (s *stStore) File() []byte { b, _ := os.ReadFile(s.path); return b }
func (s *stStore) Cleanup() {
	if s.f != nil {
		s.f.Close()
	}
	os.Remove(s.path)
}

func openRW(front, dir string, roots []cid.Cid, o drv.Opts, name string) (rwStore, error) {
	path := filepath.Join(dir, name)
	os.Remove(path)
	if front == "bs" {
		bs, err := blockstore.OpenReadWrite(path, roots, o.List()...)
		if err != nil {
			return nil, err
		}
		return &bsStore{bs: bs, path: path, roots: roots, o: o}, nil
	}
	if front == "bsf" {
		// the caller owns the file: it stays open (and writable) after Finalize/Discard, so a
		// stray write after closing is observable in the file bytes
		f, err := os.OpenFile(path, os.O_RDWR|os.O_CREATE|os.O_TRUNC, 0o644)
		if err != nil {
			return nil, err
		}
		bs, err := blockstore.OpenReadWriteFile(f, roots, o.List()...)
		if err != nil {
			f.Close()
			return nil, err
		}
		return &bsStore{bs: bs, path: path, f: f, owned: true, roots: roots, o: o}, nil
	}
	f, err := os.OpenFile(path, os.O_RDWR|os.O_CREATE|os.O_TRUNC, 0o644)
	if err != nil {
		return nil, err
	}
	st, err := storage.NewReadableWritable(f, roots, o.List()...)
	if err != nil {
		f.Close()
		return nil, err
	}
	return &stStore{st: st, f: f, path: path, roots: roots, o: o}, nil
}

// ---------------------------------------------------------------- model

// c04Model is the reference: map + lifecycle.
type c04Model struct {
	m       model.Map
	life    string // open, finro, closed
	frozen  []byte // file bytes at the moment the file must stop changing (nil = not frozen)
	v1      bool
	front   string
	resumed bool      // the current instance was opened on the existing file
	stored  []kit.Blk // blocks the last put/many step stored (per the model)
	results [3]int    // last step: stored / skipped / rejected blocks
	// preBatch is the model's content before the last put/many step: a batch that is rejected
	// for an over-long CID may have stored the blocks in front of it or nothing at all.
	preBatch []kit.Blk
	// probeClose: the last step was Close on an open, unfinalized CARv2 store; the statement does
	// not say whether that closes the store, so the driver asks the implementation.
	probeClose bool
	notes      []string // beyond-statement observations of the last step
}

func (md *c04Model) maxCid() uint64 {
	if md.m.Cfg.MaxCid == 0 {
		return 2048
	}
	return md.m.Cfg.MaxCid
}

func (md *c04Model) key() string {
	var n []string
	for _, s := range md.m.Stored {
		n = append(n, s.Name)
	}
	r := ""
	if md.resumed {
		r = "R;"
	}
	return r + strings.Join(n, ",") + "|" + md.life
}

// apply advances the model and returns what the call must return: "nil", "error", "toolarge",
// or "" (not compared). It runs after the call: got is the error the implementation returned,
// consulted ONLY where the statement allows two behaviours (an over-long identity CID while
// identity CIDs are not stored is either skipped silently or rejected as over-long).
func (md *c04Model) apply(op string, got error) (wantErr string) {
	kind, arg, _ := strings.Cut(op, ":")
	md.stored = nil
	md.results = [3]int{}
	md.preBatch = nil
	md.probeClose = false
	md.notes = nil
	switch kind {
	case "put", "many":
		names := c04Names(arg)
		if md.life != "open" {
			if len(names) == 0 {
				return "" // an empty batch writes nothing: whether it reports the closed store is not specified
			}
			return "error"
		}
		md.preBatch = append([]kit.Blk{}, md.m.Stored...)
		var gotTL *carv2.ErrCidTooLarge
		errors.As(got, &gotTL)
		for _, n := range names {
			b := c04B(n)
			if model.IsIdentity(b.Raw) && !md.m.Cfg.StoreID && uint64(len(b.Raw)) > md.maxCid() {
				// the IdStore rule (skip) and the over-long rule (reject) both apply; never stored
				if gotTL != nil && gotTL.CurrentSize == uint64(len(b.Raw)) {
					md.results[2]++
					md.notes = append(md.notes, "overlong-unstored-identity-cid-rejected")
					return "toolarge"
				}
				md.notes = append(md.notes, "overlong-unstored-identity-cid-skipped")
				md.results[1]++
				continue
			}
			switch md.m.Put(b) {
			case model.PutTooLarge:
				md.results[2]++
				return "toolarge"
			case model.PutStored:
				md.results[0]++
				md.stored = append(md.stored, b)
			default:
				md.results[1]++
			}
		}
		return "nil"
	case "finalize":
		was := md.life
		md.life = "closed"
		if was == "open" {
			return "nil"
		}
		return ""
	case "finalize-ro":
		if md.life == "open" {
			md.life = "finro"
			return "nil"
		}
		return ""
	case "close":
		switch md.life {
		case "open":
			if md.v1 {
				md.life = "closed"
			} else {
				// Close without FinalizeReadOnly first: the statement speaks of Finalize and
				// Discard only; whether the store is closed now is probed by the caller
				md.probeClose = true
			}
		case "finro":
			md.life = "closed"
		}
		return ""
	case "discard":
		md.life = "closed"
		return ""
	case "reopen":
		// a new instance resumed from the file: every block a Put acknowledged is still there
		md.life = "open"
		md.frozen = nil
		md.resumed = true
		return "nil"
	}
	panic(op)
}

// ---------------------------------------------------------------- one execution

// c04Exec is the per-case constant context of executions.
type c04Exec struct {
	cs       C04Case
	roots    []cid.Cid
	rootRaws [][]byte
	queries  []kit.Blk
	dataOff  int
}

func newC04Exec(cs C04Case, muts []string) *c04Exec {
	e := &c04Exec{cs: cs}
	e.roots, e.rootRaws, _ = kit.Roots(cs.rootSet())
	e.queries = c04QueriesFor(muts)
	if !cs.Opts.V1 {
		e.dataOff = refcar.PragmaSize + refcar.V2HeaderSize + int(cs.Opts.DataPad)
	}
	return e
}

// c04Refusal decides whether err is an acceptable answer of a read whose configured limit
// (MaxAllowedSectionSize / MaxAllowedHeaderSize) is below what the session wrote. go-car's
// sentinel errors live in an internal package and their wording is not part of any contract, so
// the decision is structural: any error that does not claim "not found" is a refusal. Whether it
// carries the current wording is recorded as an outcome only.
func c04Refusal(x *kit.Ctx, refusable bool, err error) bool {
	if !refusable || err == nil || isNotFound(err) {
		return false
	}
	x.Count("limit_refusals", 1)
	if !strings.Contains(err.Error(), "length of read beyond allowable maximum") {
		x.Outcome("beyond-statement:limit-refusal-with-other-error-text")
	}
	return true
}

// fileHeader decodes the CARv1 header found at the data offset of the file.
func (e *c04Exec) fileHeader(file []byte) (refcar.Header, uint64, error) {
	if len(file) < e.dataOff {
		return refcar.Header{}, 0, fmt.Errorf("file of %d bytes ends before the data offset %d", len(file), e.dataOff)
	}
	p := file[e.dataOff:]
	hl, n, err := refcar.Uvarint(p)
	if err != nil {
		return refcar.Header{}, 0, err
	}
	if hl > uint64(len(p)-n) {
		return refcar.Header{}, hl, errors.New("header truncated")
	}
	h, err := refcar.DecodeHeaderBody(p[n : n+int(hl)])
	return h, hl, err
}

// observe compares every observer with the model; returns a fingerprint of what the
// implementation shows (for state de-duplication).
func c04Observe(x *kit.Ctx, e *c04Exec, rc C04Case, s rwStore, md *c04Model, file []byte) string {
	fp := sha256.New()
	tag := rc.Front
	fail := func(sig, f string, a ...any) {
		x.FailCase(rc, "c04:"+sig+":"+tag, "after %v: "+f, append([]any{rc.Path}, a...)...)
	}
	// read limits configured below what the session wrote are the caller's choice to refuse that
	// data on read: a limit error is allowed iff something exceeds the limit, nothing else may change
	fh, hdrLen, fherr := e.fileHeader(file)
	var maxSect uint64
	for _, st := range md.m.Stored {
		if n := uint64(len(st.Raw) + len(st.Data)); n > maxSect {
			maxSect = n
		}
	}
	sectRefusable := rc.Opts.MaxSect > 0 && maxSect > rc.Opts.MaxSect
	hdrRefusable := rc.Opts.MaxHeader > 0 && (fherr != nil || hdrLen > rc.Opts.MaxHeader)
	refused := func(err error) bool { return c04Refusal(x, sectRefusable, err) }
	for _, q := range e.queries {
		x.Transition(3)
		has, herr := s.Has(q.Cid)
		data, gerr := s.Get(q.Cid)
		size, serr := s.Size(q.Cid)
		fmt.Fprintf(fp, "%v/%v/%x/%v/%d/%v;", has, herr != nil, data, gerr != nil, size, serr != nil)
		ident := model.IsIdentity(q.Raw)
		if md.life == "closed" {
			if ident {
				// the statement demands an error of every NON-identity lookup
				if herr == nil || gerr == nil {
					x.Outcome("beyond-statement:identity-lookup-answered-on-closed-store")
				}
				continue
			}
			if herr == nil {
				fail("closed-has", "Has(%s)=%v without error on a closed store", q.Name, has)
			}
			if gerr == nil {
				fail("closed-get", "Get(%s) returned data on a closed store", q.Name)
			}
			if serr == nil {
				fail("closed-size", "GetSize(%s)=%d without error on a closed store", q.Name, size)
			}
			continue
		}
		if ident && !md.m.Cfg.StoreID {
			qi, _ := refcar.ParseCID(q.Raw)
			if herr != nil || !has {
				fail("identity-has", "Has(%s)=%v,%v want true (IdStore rule)", q.Name, has, herr)
			}
			if gerr != nil || !bytes.Equal(data, qi.Digest) {
				fail("identity-get", "Get(%s)=%x,%v want the digest (IdStore rule)", q.Name, clip(data), gerr)
			}
			if serr != nil || size != len(qi.Digest) {
				fail("identity-size", "GetSize(%s)=%d,%v want %d", q.Name, size, serr, len(qi.Digest))
			}
			continue
		}
		cands := md.m.Find(q.Raw)
		if len(cands) == 0 {
			if !refused(herr) && (herr != nil || has) {
				fail("has-absent", "Has(%s)=%v,%v but the model holds no block with that key (stored %s)", q.Name, has, herr, md.key())
			}
			if !refused(gerr) && (gerr == nil || !isNotFound(gerr)) {
				fail("get-absent", "Get(%s)=%x,%v want not-found (stored %s)", q.Name, clip(data), gerr, md.key())
			}
			if !ident && !refused(serr) && (serr == nil || !isNotFound(serr)) {
				fail("size-absent", "GetSize(%s)=%d,%v want not-found (stored %s)", q.Name, size, serr, md.key())
			}
			continue
		}
		if !refused(herr) && (herr != nil || !has) {
			fail("has-present", "Has(%s)=%v,%v but the model holds it (stored %s)", q.Name, has, herr, md.key())
		}
		okD, okS := false, false
		for _, c := range cands {
			if bytes.Equal(c.Data, data) {
				okD = true
			}
			if len(c.Data) == size {
				okS = true
			}
		}
		if !refused(gerr) && (gerr != nil || !okD) {
			fail("get-present", "Get(%s)=%x,%v want the stored bytes (stored %s)", q.Name, clip(data), gerr, md.key())
		}
		if !refused(serr) && (serr != nil || !okS) {
			fail("size-present", "GetSize(%s)=%d,%v want the stored size (stored %s)", q.Name, size, serr, md.key())
		}
	}
	keys, kerr := s.Keys()
	if kerr != drv.ErrNoListing {
		fmt.Fprintf(fp, "keys=%x/%v;", keys, kerr != nil)
		if md.life == "closed" {
			if kerr == nil {
				fail("closed-keys", "AllKeysChan works on a closed store")
			}
		} else {
			var want, got []string
			for _, st := range md.m.Stored {
				if md.m.Cfg.Whole {
					want = append(want, fmt.Sprintf("%x", st.Raw))
				} else {
					want = append(want, fmt.Sprintf("%x", rawV1Key(st.Raw)))
				}
			}
			for _, k := range keys {
				got = append(got, fmt.Sprintf("%x", k))
			}
			sort.Strings(want)
			sort.Strings(got)
			if kerr != nil || strings.Join(got, ",") != strings.Join(want, ",") {
				fail("keys", "AllKeysChan multiset {%s} err %v want {%s}", clipS(strings.Join(got, ","), 400), kerr, clipS(strings.Join(want, ","), 400))
			}
		}
	}
	if md.life != "closed" {
		rs, err := s.Roots()
		if c04Refusal(x, hdrRefusable, err) {
			// the caller's own MaxAllowedHeaderSize refuses the header this session wrote
		} else if err != nil || !sameRoots(rs, e.rootRaws) {
			fail("roots", "Roots()=%x,%v want %x", rs, err, e.rootRaws)
		}
	}
	// the roots as the file carries them (the storage front-end's Roots() only echoes the constructor argument)
	if fherr != nil || !fh.HasRoots || fh.Version != 1 || !sameRoots(fh.Roots, e.rootRaws) {
		fail("file-roots", "the CARv1 header in the file (at offset %d) carries roots %x version %d (decode error %v); want roots %x version 1", e.dataOff, fh.Roots, fh.Version, fherr, e.rootRaws)
	}
	fp.Write([]byte("file="))
	fp.Write(file)
	if md.frozen != nil && !bytes.Equal(md.frozen, file) {
		fail("file-changed-after-"+md.life, "file bytes changed after Finalize/Discard (was %d bytes, now %d)", len(md.frozen), len(file))
	}
	if md.life != "open" && md.frozen == nil {
		md.frozen = file
	}
	return hex.EncodeToString(fp.Sum(nil))
}

const c04Refused = "!refused"

// runPath replays path on a fresh instance, checking every step; returns the final
// state key (model key + implementation fingerprint), "" if a violation was found, or a key
// starting with c04Refused when the path ended in a permitted read-limit refusal of reopen.
func c04RunPath(x *kit.Ctx, e *c04Exec, path []string) string {
	cs := e.cs
	s, err := openRW(cs.Front, x.Dir, e.roots, cs.Opts, "c04.car")
	rc := cs
	rc.Path = path
	if err != nil {
		x.FailCase(rc, "c04:open:"+cs.Front, "cannot open store: %v", err)
		return ""
	}
	defer s.Cleanup()
	md := &c04Model{m: model.Map{Cfg: modelCfg(cs.Opts)}, life: "open", v1: cs.Opts.V1, front: cs.Front}
	x.Eval(1)
	file := s.File()
	fp := ""
	for i, op := range path {
		rc.Path = path[:i+1]
		wasLife := md.life
		kind, arg, _ := strings.Cut(op, ":")
		before := file
		var err error
		switch kind {
		case "put":
			err = s.Put(c04B(arg))
		case "many":
			err = s.PutMany(c04Bs(arg))
		case "reopen":
			err = s.Reopen()
		default:
			err = s.Life(op)
		}
		x.Transition(1)
		file = s.File()
		want := md.apply(op, err)
		for _, n := range md.notes {
			x.Outcome("beyond-statement:" + n)
		}
		if md.probeClose {
			// a closed store answers no non-identity lookup; an open one answers all of them (the
			// observers below check whichever state the probe finds, in full)
			if _, perr := s.Has(kit.Absent.Cid); perr != nil {
				md.life = "closed"
				x.Outcome("beyond-statement:close-before-finalize-closes-the-store")
			} else {
				x.Outcome("beyond-statement:close-before-finalize-leaves-the-store-open")
			}
		}
		if kind == "many" && want == "toolarge" && len(md.stored) > 0 && bytes.Equal(file, before) {
			// the batch was rejected as a whole (validated before anything was written): the
			// statement promises nothing about the other blocks of a failed PutMany
			md.m.Stored = md.preBatch
			md.stored = nil
			md.results[0] = 0
			x.Outcome("beyond-statement:rejected-batch-stored-nothing")
		}
		if kind == "reopen" && err != nil {
			_, hl, herr := e.fileHeader(before)
			if c04Refusal(x, cs.Opts.MaxHeader > 0 && (herr != nil || hl > cs.Opts.MaxHeader), err) {
				// the caller's own MaxAllowedHeaderSize refuses the header this session wrote
				if !bytes.Equal(before, file) {
					x.FailCase(rc, "c04:refused-reopen-changed-file:"+cs.Front, "reopen was refused (%v) but changed the file (%d -> %d bytes)", err, len(before), len(file))
					return ""
				}
				return c04Refused + "|" + md.key() + "#" + hex.EncodeToString(file)
			}
			x.FailCase(rc, "c04:reopen:"+cs.Front, "opening the file written by this session again (same roots and options, store was %s) failed: %v", wasLife, err)
			return ""
		}
		switch want {
		case "nil":
			if err != nil {
				x.FailCase(rc, "c04:unexpected-error:"+kind+":"+cs.Front, "%s returned %v; the model expects success", op, err)
			}
		case "error":
			if err == nil {
				x.FailCase(rc, "c04:missing-error:"+kind+":"+md.life+":"+cs.Front, "%s succeeded on a store in state %s; the model expects an error", op, md.life)
			}
		case "toolarge":
			var tl *carv2.ErrCidTooLarge
			if !errors.As(err, &tl) {
				x.FailCase(rc, "c04:missing-toolarge:"+cs.Front, "%s returned %v; expected ErrCidTooLarge", op, err)
			}
		}
		switch kind {
		case "put", "many":
			// the file is append-only: a call that stores nothing (over-long CID, skipped
			// duplicate or identity CID, closed store) leaves every byte as it was, and a call that
			// stores blocks appends exactly their sections
			x.Count("blocks_stored", md.results[0])
			x.Count("blocks_skipped", md.results[1])
			x.Count("blocks_rejected_toolarge", md.results[2])
			exp := before
			if len(md.stored) > 0 {
				exp = append([]byte{}, before...)
				for _, b := range md.stored {
					exp = append(exp, refcar.EncodeSection(b.Ref())...)
				}
			}
			if !c04SameWhileOpen(x, e, wasLife, file, exp) {
				if len(md.stored) == 0 {
					x.FailCase(rc, "c04:noop-put-changed-file:"+cs.Front, "%s stores nothing per the model (store %s, returned %v) but the file changed: %d -> %d bytes", op, wasLife, err, len(before), len(file))
				} else {
					x.FailCase(rc, "c04:file-append:"+cs.Front, "%s stores %d block(s) per the model; the file must be the old %d bytes plus their %d section bytes, got %d bytes (first difference at %d)", op, len(md.stored), len(before), len(exp)-len(before), len(file), firstDiff(file, exp))
				}
			}
		case "discard":
			if !bytes.Equal(file, before) {
				x.FailCase(rc, "c04:discard-changed-file:"+cs.Front, "Discard (closes without finalizing) changed the file: %d -> %d bytes", len(before), len(file))
			}
		case "reopen":
			x.Count("reopens", 1)
		}
		// observers are evaluated in every reached state
		fp = c04Observe(x, e, rc, s, md, file)
		if x.Failed() {
			return ""
		}
	}
	if len(path) == 0 {
		fp = c04Observe(x, e, rc, s, md, file)
	}
	return md.key() + "#" + fp
}

// c04SameWhileOpen compares the file after a put with the expected bytes. On a store that is not
// open every byte counts. While a CARv2 store is open the statement fixes nothing about the 40
// header bytes and the data padding between the pragma and the payload (they are only defined by
// Finalize), so the pragma and the payload region are compared.
func c04SameWhileOpen(x *kit.Ctx, e *c04Exec, wasLife string, file, exp []byte) bool {
	if bytes.Equal(file, exp) {
		return true
	}
	if wasLife != "open" || e.dataOff == 0 || len(file) < e.dataOff || len(exp) < e.dataOff {
		return false
	}
	if bytes.Equal(file[:refcar.PragmaSize], exp[:refcar.PragmaSize]) && bytes.Equal(file[e.dataOff:], exp[e.dataOff:]) {
		x.Outcome("beyond-statement:v2-header-region-changed-while-open")
		return true
	}
	return false
}

func firstDiff(a, b []byte) int {
	n := len(a)
	if len(b) < n {
		n = len(b)
	}
	for i := 0; i < n; i++ {
		if a[i] != b[i] {
			return i
		}
	}
	return n
}

func runC04(c any, x *kit.Ctx) {
	cs := c.(C04Case)
	if cs.Path != nil {
		e := newC04Exec(cs, append(append([]string{}, c04Alphabet(cs.Alpha, cs.Front)...), cs.Path...))
		k := c04RunPath(x, e, cs.Path)
		if k != "" && cs.Depth == 0 && cs.First == "" {
			x.State(fmt.Sprintf("%s|%+v|%s|script|%v|%s", cs.Front, cs.Opts, cs.rootSet(), cs.Path, k))
		}
		return
	}
	muts := c04Alphabet(cs.Alpha, cs.Front)
	e := newC04Exec(cs, muts)
	seen := map[string]bool{}
	frontier := [][]string{{}}
	if cs.First != "" {
		frontier = [][]string{{cs.First}}
	}
	cfgKey := fmt.Sprintf("%s|%+v|%s|", cs.Front, cs.Opts, cs.rootSet())
	for depth := len(frontier[0]); depth <= cs.Depth && len(frontier) > 0; depth++ {
		var next [][]string
		for _, p := range frontier {
			k := c04RunPath(x, e, p)
			if k == "" {
				return
			}
			if seen[k] {
				continue
			}
			seen[k] = true
			x.State(cfgKey + k)
			if strings.HasPrefix(k, c04Refused) {
				x.Outcome("reopen-refused")
				continue // no instance left to continue with
			}
			if i := strings.Index(k, "#"); i > 0 {
				x.Outcome(k[strings.LastIndex(k[:i], "|")+1 : i])
				if strings.Count(k[:i], ",") >= 1 {
					x.Nontrivial(cfgKey + k[:i])
				}
			}
			if depth < cs.Depth {
				for _, m := range muts {
					next = append(next, append(append([]string{}, p...), m))
				}
			}
		}
		frontier = next
	}
}

// ---------------------------------------------------------------- enumeration

func c04Mask(mask int, mc uint64) drv.Opts {
	return drv.Opts{Whole: mask&1 != 0, AllowDup: mask&2 != 0, StoreID: mask&4 != 0, V1: mask&8 != 0, MaxCid: mc}
}

func c04HeaderBodyLen(roots string) uint64 {
	_, raws, isNil := kit.Roots(roots)
	return uint64(len(refcar.EncodeHeaderBody(raws, isNil, 1)))
}

// c04Variant is one non-default value of one extra configuration dimension.
type c04Variant struct {
	name  string
	apply func(o *drv.Opts, roots *string, muts []string)
}

// one-factor-at-a-time variants around each of the 16 option masks (default: MaxIndexCidSize
// 2048, roots "ab", no padding, default index codec, default read limits)
var c04Variants = []c04Variant{
	{"default", func(o *drv.Opts, r *string, _ []string) {}},
	// MaxIndexCidSize exactly the length of a/a'/b/ia (36), between (40), exactly the length of X (64)
	{"maxcid36", func(o *drv.Opts, r *string, _ []string) { o.MaxCid = 36 }},
	{"maxcid40", func(o *drv.Opts, r *string, _ []string) { o.MaxCid = 40 }},
	{"maxcid64", func(o *drv.Opts, r *string, _ []string) { o.MaxCid = 64 }},
	{"roots-nil", func(o *drv.Opts, r *string, _ []string) { *r = "nil" }},
	{"roots-empty", func(o *drv.Opts, r *string, _ []string) { *r = "empty" }},
	{"roots-aa", func(o *drv.Opts, r *string, _ []string) { *r = "aa" }},
	{"roots-a0", func(o *drv.Opts, r *string, _ []string) { *r = "a0" }},
	{"roots-s", func(o *drv.Opts, r *string, _ []string) { *r = "s" }},
	{"pad-small-sorted", func(o *drv.Opts, r *string, _ []string) { o.DataPad, o.IndexPad, o.Codec = 3, 2, "sorted" }},
	{"pad-1413-mh", func(o *drv.Opts, r *string, _ []string) { o.DataPad, o.IndexPad, o.Codec = 1413, 7, "mh" }},
	// read limits exactly at the largest section / header the session can write, and null padding
	// accepted as end: none of them may be visible
	{"limits-exact", func(o *drv.Opts, r *string, muts []string) {
		o.MaxSect, o.MaxHeader, o.ZeroEOF = c04MaxSection(muts), c04HeaderBodyLen(*r), true
	}},
	// read limits below what is written: refusals are modelled (allowed iff size > limit)
	{"limits-low", func(o *drv.Opts, r *string, _ []string) { o.MaxSect, o.MaxHeader = 40, 20 }},
}

// scripted histories (non-BFS): executed once per configuration of the FULL cross product
var c04Scripts = [][]string{
	// section lengths on both sides of each varint width, empty data, puts following them, resume
	{"put:e", "put:L127", "put:L128", "put:b", "put:L16383", "put:L16384", "put:a", "reopen", "put:a'", "put:c", "put:e", "finalize", "reopen", "put:L129", "put:a", "finalize"},
	// over-long CIDs at every limit incl. the default 2048, error first / in the middle of a batch,
	// digest collisions, in-batch duplicates, empty batches on open and closed stores
	{"put:XLok", "put:XLbig", "put:s", "many:X,b", "many:a,XLbig,c", "put:X", "reopen", "put:ia", "put:ak", "put:at", "put:a0", "put:ac", "many:a,a", "many:", "discard", "many:", "put:s", "reopen", "put:b", "put:XLbig"},
	// lifecycle interleaved with resumption
	{"put:a", "finalize-ro", "reopen", "put:b", "close", "many:ac,a'", "finalize", "put:a", "reopen", "put:a'", "discard", "reopen", "put:at", "finalize-ro", "close", "reopen", "put:ak"},
}

func emitC04BFS(emit func(any), front string, o drv.Opts, roots, alpha string, depth int) {
	emit(C04Case{Front: front, Opts: o, Roots: roots, Alpha: alpha, First: "", Depth: 0})
	for _, m := range c04Alphabet(alpha, front) {
		emit(C04Case{Front: front, Opts: o, Roots: roots, Alpha: alpha, First: m, Depth: depth})
	}
}

func genC04(tier string, emit func(any)) {
	thorough := tier == "thorough"
	fronts := []string{"bs", "st", "bsf"}

	// family 1: core alphabet, deep
	depth := 4
	if thorough {
		depth = 5
	}
	for _, front := range fronts {
		for _, mc := range []uint64{0, 40} {
			for mask := 0; mask < 16; mask++ {
				o := c04Mask(mask, mc)
				if mask%5 == 1 {
					o.DataPad, o.IndexPad, o.Codec = 3, 2, "sorted"
				}
				emitC04BFS(emit, front, o, "", "", depth)
			}
		}
	}

	// family 2: extended alphabet x one-factor variants x 16 masks x 3 front-ends.
	// Depth 2 everywhere; depth 3 on a stated reduced matrix:
	//   quick:    the default variant x 16 masks x {bs, st}
	//   thorough: every variant x 16 masks x {bs, st}; the default variant x 16 masks x bsf
	extAlpha := "ext"
	if thorough {
		extAlpha = "extL"
	}
	for _, v := range c04Variants {
		isDefault := v.name == "default"
		for _, front := range fronts {
			muts := c04Alphabet(extAlpha, front)
			for mask := 0; mask < 16; mask++ {
				o, roots := c04Mask(mask, 0), ""
				rs := "ab"
				v.apply(&o, &rs, muts)
				if rs != "ab" {
					roots = rs
				}
				d := 2
				switch {
				case !thorough:
					if isDefault && front != "bsf" {
						d = 3
					}
				case front == "bsf":
					if isDefault {
						d = 3
					}
				default:
					d = 3
				}
				emitC04BFS(emit, front, o, roots, extAlpha, d)
			}
		}
	}
	// thorough: the blocks that collide with a, resume and finalize, one level deeper
	if thorough {
		for _, front := range []string{"bs", "st"} {
			for mask := 0; mask < 16; mask++ {
				emitC04BFS(emit, front, c04Mask(mask, 0), "", "slim", 4)
			}
		}
	}

	// family 3: scripted histories on the full cross product of the configuration dimensions
	rootSets := []string{"ab", "nil", "s"}
	if thorough {
		rootSets = []string{"ab", "nil", "empty", "aa", "a0", "s"}
	}
	type padT struct {
		dp, ip uint64
		codec  string
	}
	pads := []padT{{0, 0, ""}, {3, 2, "sorted"}, {1413, 7, "mh"}}
	for _, front := range fronts {
		for _, sc := range c04Scripts {
			path := c04FilterFront(front, sc)
			for mask := 0; mask < 16; mask++ {
				for _, mc := range []uint64{0, 36, 40, 64} {
					for _, rs := range rootSets {
						for _, pd := range pads {
							for lim := 0; lim < 3; lim++ {
								o := c04Mask(mask, mc)
								o.DataPad, o.IndexPad, o.Codec = pd.dp, pd.ip, pd.codec
								switch lim {
								case 1:
									o.MaxSect, o.MaxHeader, o.ZeroEOF = c04MaxSection(path), c04HeaderBodyLen(rs), true
								case 2:
									o.MaxSect, o.MaxHeader = 40, 20
								}
								roots := rs
								if roots == "ab" {
									roots = ""
								}
								emit(C04Case{Front: front, Opts: o, Roots: roots, Path: path})
							}
						}
					}
				}
			}
		}
	}
}

func c04Bound(tier string) map[string]any {
	cfgs := map[string]bool{}
	fam := map[string]int{}
	genC04(tier, func(c any) {
		cs := c.(C04Case)
		cfgs[fmt.Sprintf("%s|%+v|%s", cs.Front, cs.Opts, cs.rootSet())] = true
		switch {
		case cs.Path != nil:
			fam["script_cases"]++
		case cs.First == "": // one per (configuration, alphabet)
			a := cs.Alpha
			if a == "" {
				a = "core"
			}
			fam[a+"_bfs_configurations"]++
		default:
			a := cs.Alpha
			if a == "" {
				a = "core"
			}
			if cs.First == "put:a" {
				fam[fmt.Sprintf("%s_bfs_configurations_depth%d", a, cs.Depth)]++
			}
		}
	})
	out := map[string]any{"configurations": len(cfgs), "scripts": len(c04Scripts)}
	for k, v := range fam {
		out[k] = v
	}
	for _, a := range []string{"", "ext", "extL", "slim"} {
		n := a
		if n == "" {
			n = "core"
		}
		if fam[n+"_bfs_configurations"] > 0 {
			out["mutators_"+n+"_bs"], out["mutators_"+n+"_st"] = len(c04Alphabet(a, "bs")), len(c04Alphabet(a, "st"))
		}
	}
	return out
}

func init() {
	kit.Register(&kit.Prop{
		ID:     "C04",
		Gen:    genC04,
		Run:    runC04,
		Decode: kit.DecodeAs[C04Case],
		Rule: "explicit-state breadth-first search over mutator sequences up to the depth bound; each successor replays the path on a fresh real instance; in EVERY reached state every observer (Has/Get/GetSize of the fixed CIDs + every CID the alphabet can put + an absent one, AllKeysChan, Roots, CARv1 header decoded from the file, file bytes) is compared with the map model, and after every Put/PutMany the file must equal the previous bytes plus exactly the sections of the blocks the model stored (unchanged when the model stores nothing: over-long, skipped, closed; while a CARv2 store is open the comparison covers the pragma and the payload region, the header/padding bytes in between are only fixed from Finalize/Discard on, when every byte is frozen); states are de-duplicated on (model state incl. resumed flag, sha256 of the implementation's observations incl. file bytes); non-trivial = state with >=2 stored blocks. " +
			"Family 1 (core): Put of 6 colliding blocks, 3 PutMany batches, Finalize, Discard, FinalizeReadOnly, Close; 16 option sets (UseWholeCIDs x AllowDuplicatePuts x StoreIdentityCIDs x WriteAsCarV1) x MaxIndexCidSize {default,40} x {blockstore.OpenReadWrite, blockstore.OpenReadWriteFile (caller-owned file), storage.NewReadableWritable}. " +
			"Family 2 (extended): core + Put of s (68-byte sha2-512 CID), e (empty data), L128 (two-byte section length; thorough also L16384), ak (digest of a under blake2b-256), at (20-byte prefix of a's digest), a0 (CIDv0), ac (CID of a' with other data), PutMany [X,b] / [] / [a,a], and reopen (abandon the instance, resume from the file with the same roots and options); 16 option sets x 3 front-ends x 13 one-factor variants (default; MaxIndexCidSize 36/40/64; roots nil/empty/aa/a0/s; small and 1413-byte padding with both index codecs; read limits exactly at the largest written section/header + ZeroLengthSectionAsEOF; read limits 40/20 below what is written with refusals modelled) at depth 2, and depth 3 on a reduced matrix (quick: default variant x 16 option sets x {bs,st}; thorough: every variant x 16 option sets x {bs,st}, default variant x 16 option sets x bsf); thorough adds a 12-mutator collision/resume alphabet at depth 4 (16 option sets x {bs,st}). " +
			"Family 3 (scripts): 3 fixed histories (varint-width sweep e/L127/L128/L16383/L16384 with resume; over-long CIDs at 36/40/64/2048 incl. 2048- and 2049-byte identity CIDs, error first and mid-batch; lifecycle interleaved with resume) on the FULL product 16 option sets x MaxIndexCidSize {default,36,40,64} x root sets x 3 paddings x 3 read-limit settings x 3 front-ends",
		Bound:       c04Bound,
		Assumptions: []string{"map model = documented rules only (DESIGN A.4)", "identity lookups after close and lifecycle-call return values other than first success are not compared; the return value of an empty PutMany on a closed store is not compared", "where the statement leaves the behaviour open the model follows the implementation and records a beyond-statement outcome, then checks that state in full: Close on an open unfinalized CARv2 store (closed or still open, decided by a Has probe of an absent key); a PutMany rejected for an over-long CID (blocks in front of it stored, or nothing stored when the file is byte-identical); an over-long identity CID while identity CIDs are not stored (skipped silently or rejected with ErrCidTooLarge, never stored)", "state merging assumes the future of a store is determined by its observable state incl. file bytes and whether the instance was resumed", "extra configuration dimensions of family 2 are varied one at a time around each of the 16 option sets (their cross product is only covered by the scripted histories of family 3)", "read limits below the sizes the session itself wrote are the caller's choice: an error other than not-found is accepted iff a stored section / the header exceeds the limit (its wording is not compared), every other observation must be unaffected", "reopen = a new instance on the same file with identical roots and options; it restarts the lifecycle (the file may change again)", "blocks whose data does not hash to their CID are valid inputs (the stores do not verify hashes)"},
	})
}
