package props

import (
	"bytes"
	"errors"
	"fmt"
	"os"
	"path/filepath"
	"sort"
	"strings"

	blocks "github.com/ipfs/go-block-format"
	"github.com/ipfs/go-cid"
	carv2 "github.com/ipld/go-car/v2"
	"github.com/ipld/go-car/v2/blockstore"
	"github.com/ipld/go-car/v2/storage"

	"verif/drv"
	"verif/kit"
	"verif/model"
	"verif/refcar"
)

type C04Case struct {
	Front string   `json:"front"` // bs, st
	Opts  drv.Opts `json:"opts"`
	First string   `json:"first"` // first mutator of the subtree explored by this case
	Depth int      `json:"depth"`
	Path  []string `json:"path,omitempty"` // replay: exactly this path
}

// mutators, simplest first
var c04Puts = []string{"put:a", "put:b", "put:a'", "put:i", "put:ia", "put:X"}
var c04Many = []string{"many:a,b", "many:a,a'", "many:b,X"}
var c04LifeBS = []string{"finalize", "discard", "finalize-ro", "close"}
var c04LifeST = []string{"finalize"}

func c04Mutators(front string) []string {
	var out []string
	out = append(out, c04Puts...)
	if front == "bs" || front == "bsf" {
		out = append(out, c04Many...)
		out = append(out, c04LifeBS...)
	} else {
		out = append(out, c04LifeST...)
	}
	return out
}

// rwStore abstracts the two writable front-ends.
type rwStore interface {
	Put(b kit.Blk) error
	PutMany(bs []kit.Blk) error
	Has(c cid.Cid) (bool, error)
	Get(c cid.Cid) ([]byte, error)
	Size(c cid.Cid) (int, error)
	Keys() ([][]byte, error)
	Roots() ([][]byte, error)
	Life(op string) error
	File() []byte
	Cleanup()
}

type bsStore struct {
	bs   *blockstore.ReadWrite
	path string
	f    *os.File // caller-owned file (front "bsf"): stays open after Finalize/Discard
}

func (s *bsStore) Put(b kit.Blk) error { return s.bs.Put(drv.Ctx, b.Block()) }
func (s *bsStore) PutMany(bs []kit.Blk) error {
	var l []blocks.Block
	for _, b := range bs {
		l = append(l, b.Block())
	}
	return s.bs.PutMany(drv.Ctx, l)
}
func (s *bsStore) Has(c cid.Cid) (bool, error) { return s.bs.Has(drv.Ctx, c) }
func (s *bsStore) Get(c cid.Cid) ([]byte, error) {
	b, err := s.bs.Get(drv.Ctx, c)
	if err != nil {
		return nil, err
	}
	if !b.Cid().Equals(c) {
		return nil, fmt.Errorf("Get(%s) returned a block with CID %s", c, b.Cid())
	}
	return b.RawData(), nil
}
func (s *bsStore) Size(c cid.Cid) (int, error) { return s.bs.GetSize(drv.Ctx, c) }
func (s *bsStore) Keys() ([][]byte, error) {
	ch, err := s.bs.AllKeysChan(drv.Ctx)
	if err != nil {
		return nil, err
	}
	out := [][]byte{}
	for c := range ch {
		out = append(out, c.Bytes())
	}
	return out, nil
}
func (s *bsStore) Roots() ([][]byte, error) {
	rs, err := s.bs.Roots()
	if err != nil {
		return nil, err
	}
	out := [][]byte{}
	for _, r := range rs {
		out = append(out, r.Bytes())
	}
	return out, nil
}
func (s *bsStore) Life(op string) error {
	switch op {
	case "finalize":
		return s.bs.Finalize()
	case "finalize-ro":
		return s.bs.FinalizeReadOnly()
	case "close":
		return s.bs.Close()
	case "discard":
		s.bs.Discard()
		return nil
	}
	panic(op)
}
func (s *bsStore) File() []byte { b, _ := os.ReadFile(s.path); return b }
func (s *bsStore) Cleanup() {
	s.bs.Discard()
	if s.f != nil {
		s.f.Close()
	}
	os.Remove(s.path)
}

type stStore struct {
	st   *storage.StorageCar
	f    *os.File
	path string
}

func (s *stStore) Put(b kit.Blk) error { return s.st.Put(drv.Ctx, b.Cid.KeyString(), b.Data) }
func (s *stStore) PutMany(bs []kit.Blk) error {
	for _, b := range bs {
		if err := s.Put(b); err != nil {
			return err
		}
	}
	return nil
}
func (s *stStore) Has(c cid.Cid) (bool, error)   { return s.st.Has(drv.Ctx, c.KeyString()) }
func (s *stStore) Get(c cid.Cid) ([]byte, error) { return s.st.Get(drv.Ctx, c.KeyString()) }
func (s *stStore) Size(c cid.Cid) (int, error) {
	b, err := s.st.Get(drv.Ctx, c.KeyString())
	return len(b), err
}
func (s *stStore) Keys() ([][]byte, error) { return nil, drv.ErrNoListing }
func (s *stStore) Roots() ([][]byte, error) {
	out := [][]byte{}
	for _, r := range s.st.Roots() {
		out = append(out, r.Bytes())
	}
	return out, nil
}
func (s *stStore) Life(op string) error {
	if op == "finalize" {
		return s.st.Finalize()
	}
	panic(op)
}
func (s *stStore) File() []byte { b, _ := os.ReadFile(s.path); return b }
func (s *stStore) Cleanup()     { s.f.Close(); os.Remove(s.path) }

func openRW(front, dir string, roots []cid.Cid, o drv.Opts, name string) (rwStore, error) {
	path := filepath.Join(dir, name)
	os.Remove(path)
	if front == "bs" {
		bs, err := blockstore.OpenReadWrite(path, roots, o.List()...)
		if err != nil {
			return nil, err
		}
		return &bsStore{bs: bs, path: path}, nil
	}
	if front == "bsf" {
		// the caller owns the file: it stays open (and writable) after Finalize/Discard, so a
		// stray write after closing is observable in the file bytes
		f, err := os.OpenFile(path, os.O_RDWR|os.O_CREATE|os.O_TRUNC, 0o644)
		if err != nil {
			return nil, err
		}
		bs, err := blockstore.OpenReadWriteFile(f, roots, o.List()...)
		if err != nil {
			f.Close()
			return nil, err
		}
		return &bsStore{bs: bs, path: path, f: f}, nil
	}
	f, err := os.OpenFile(path, os.O_RDWR|os.O_CREATE|os.O_TRUNC, 0o644)
	if err != nil {
		return nil, err
	}
	st, err := storage.NewReadableWritable(f, roots, o.List()...)
	if err != nil {
		f.Close()
		return nil, err
	}
	return &stStore{st, f, path}, nil
}

// c04Model is the reference: map + lifecycle.
type c04Model struct {
	m      model.Map
	life   string // open, finro, closed
	frozen []byte // file bytes at the moment the file must stop changing (nil = not frozen)
	v1     bool
	front  string
}

func (md *c04Model) key() string {
	var n []string
	for _, s := range md.m.Stored {
		n = append(n, s.Name)
	}
	return strings.Join(n, ",") + "|" + md.life
}

// applyModel returns whether the mutator must fail (for puts) — "" means not compared.
func (md *c04Model) apply(op string) (wantErr string) {
	kind, arg, _ := strings.Cut(op, ":")
	switch kind {
	case "put", "many":
		if md.life != "open" {
			return "error"
		}
		for _, n := range strings.Split(arg, ",") {
			if md.m.Put(kit.B(n)) == model.PutTooLarge {
				return "toolarge"
			}
		}
		return "nil"
	case "finalize":
		was := md.life
		md.life = "closed"
		if was == "open" {
			return "nil"
		}
		return ""
	case "finalize-ro":
		if md.life == "open" {
			md.life = "finro"
			return "nil"
		}
		return ""
	case "close":
		switch md.life {
		case "open":
			if md.v1 {
				md.life = "closed"
			} else {
				return "error" // Close without FinalizeReadOnly first: refused, store stays open
			}
		case "finro":
			md.life = "closed"
		}
		return ""
	case "discard":
		md.life = "closed"
		return ""
	}
	panic(op)
}

func c04Queries() []kit.Blk {
	var q []kit.Blk
	for _, n := range []string{"a", "b", "a'", "a0", "i", "ia", "X", "s", "e", "i0"} {
		q = append(q, kit.B(n))
	}
	return append(q, kit.Absent)
}

// observe compares every observer with the model; returns a fingerprint of what the
// implementation shows (for state de-duplication).
func c04Observe(x *kit.Ctx, rc C04Case, s rwStore, md *c04Model, rootRaws [][]byte) string {
	var fp strings.Builder
	tag := rc.Front
	fail := func(sig, f string, a ...any) {
		x.FailCase(rc, "c04:"+sig+":"+tag, "after %v: "+f, append([]any{rc.Path}, a...)...)
	}
	for _, q := range c04Queries() {
		x.Transition(3)
		has, herr := s.Has(q.Cid)
		data, gerr := s.Get(q.Cid)
		size, serr := s.Size(q.Cid)
		fmt.Fprintf(&fp, "%v/%v/%x/%v/%d/%v;", has, herr != nil, data, gerr != nil, size, serr != nil)
		ident := model.IsIdentity(q.Raw)
		if md.life == "closed" {
			if ident && !md.m.Cfg.StoreID {
				continue // identity lookups after close: not specified
			}
			if herr == nil {
				fail("closed-has", "Has(%s)=%v without error on a closed store", q.Name, has)
			}
			if gerr == nil {
				fail("closed-get", "Get(%s) returned data on a closed store", q.Name)
			}
			if serr == nil && !ident {
				fail("closed-size", "GetSize(%s)=%d without error on a closed store", q.Name, size)
			}
			continue
		}
		if ident && !md.m.Cfg.StoreID {
			qi, _ := refcar.ParseCID(q.Raw)
			if herr != nil || !has {
				fail("identity-has", "Has(%s)=%v,%v want true (IdStore rule)", q.Name, has, herr)
			}
			if gerr != nil || !bytes.Equal(data, qi.Digest) {
				fail("identity-get", "Get(%s)=%x,%v want the digest (IdStore rule)", q.Name, data, gerr)
			}
			if serr != nil || size != len(qi.Digest) {
				fail("identity-size", "GetSize(%s)=%d,%v want %d", q.Name, size, serr, len(qi.Digest))
			}
			continue
		}
		cands := md.m.Find(q.Raw)
		if len(cands) == 0 {
			if herr != nil || has {
				fail("has-absent", "Has(%s)=%v,%v but the model holds no block with that key (stored %s)", q.Name, has, herr, md.key())
			}
			if gerr == nil || !isNotFound(gerr) {
				fail("get-absent", "Get(%s)=%x,%v want not-found (stored %s)", q.Name, clip(data), gerr, md.key())
			}
			if !ident && (serr == nil || !isNotFound(serr)) {
				fail("size-absent", "GetSize(%s)=%d,%v want not-found (stored %s)", q.Name, size, serr, md.key())
			}
			continue
		}
		if herr != nil || !has {
			fail("has-present", "Has(%s)=%v,%v but the model holds it (stored %s)", q.Name, has, herr, md.key())
		}
		okD, okS := false, false
		for _, c := range cands {
			if bytes.Equal(c.Data, data) {
				okD = true
			}
			if len(c.Data) == size {
				okS = true
			}
		}
		if gerr != nil || !okD {
			fail("get-present", "Get(%s)=%x,%v want the stored bytes (stored %s)", q.Name, clip(data), gerr, md.key())
		}
		if serr != nil || !okS {
			fail("size-present", "GetSize(%s)=%d,%v want the stored size (stored %s)", q.Name, size, serr, md.key())
		}
	}
	keys, kerr := s.Keys()
	if kerr != drv.ErrNoListing {
		fmt.Fprintf(&fp, "keys=%x/%v;", keys, kerr != nil)
		if md.life == "closed" {
			if kerr == nil {
				fail("closed-keys", "AllKeysChan works on a closed store")
			}
		} else {
			var want, got []string
			for _, st := range md.m.Stored {
				if md.m.Cfg.Whole {
					want = append(want, fmt.Sprintf("%x", st.Raw))
				} else {
					want = append(want, fmt.Sprintf("%x", rawV1Key(st.Raw)))
				}
			}
			for _, k := range keys {
				got = append(got, fmt.Sprintf("%x", k))
			}
			sort.Strings(want)
			sort.Strings(got)
			if kerr != nil || strings.Join(got, ",") != strings.Join(want, ",") {
				fail("keys", "AllKeysChan multiset {%s} err %v want {%s}", strings.Join(got, ","), kerr, strings.Join(want, ","))
			}
		}
	}
	if md.life != "closed" {
		rs, err := s.Roots()
		if err != nil || !sameRoots(rs, rootRaws) {
			fail("roots", "Roots()=%x,%v want %x", rs, err, rootRaws)
		}
	}
	file := s.File()
	fmt.Fprintf(&fp, "file=%x", file)
	if md.frozen != nil && !bytes.Equal(md.frozen, file) {
		fail("file-changed-after-"+md.life, "file bytes changed after Finalize/Discard (was %d bytes, now %d)", len(md.frozen), len(file))
	}
	if md.life != "open" && md.frozen == nil {
		md.frozen = file
	}
	return fp.String()
}

var errC04Stop = errors.New("stop")

// runPath replays path on a fresh instance, checking every step; returns the final
// state key (model key + implementation fingerprint) or "" if a violation was found.
func c04RunPath(x *kit.Ctx, cs C04Case, path []string) string {
	roots, rootRaws, _ := kit.Roots("ab")
	s, err := openRW(cs.Front, x.Dir, roots, cs.Opts, "c04.car")
	rc := C04Case{Front: cs.Front, Opts: cs.Opts, First: cs.First, Depth: cs.Depth, Path: path}
	if err != nil {
		x.FailCase(rc, "c04:open:"+cs.Front, "cannot open store: %v", err)
		return ""
	}
	defer s.Cleanup()
	md := &c04Model{m: model.Map{Cfg: modelCfg(cs.Opts)}, life: "open", v1: cs.Opts.V1, front: cs.Front}
	x.Eval(1)
	fp := ""
	for i, op := range path {
		rc.Path = path[:i+1]
		want := md.apply(op)
		kind, arg, _ := strings.Cut(op, ":")
		var err error
		switch kind {
		case "put":
			err = s.Put(kit.B(arg))
		case "many":
			err = s.PutMany(kit.Bs(strings.Split(arg, ",")))
		default:
			err = s.Life(op)
		}
		x.Transition(1)
		switch want {
		case "nil":
			if err != nil {
				x.FailCase(rc, "c04:unexpected-error:"+kind+":"+cs.Front, "%s returned %v; the model expects success", op, err)
			}
		case "error":
			if err == nil {
				x.FailCase(rc, "c04:missing-error:"+kind+":"+md.life+":"+cs.Front, "%s succeeded on a store in state %s; the model expects an error", op, md.life)
			}
		case "toolarge":
			var tl *carv2.ErrCidTooLarge
			if !errors.As(err, &tl) {
				x.FailCase(rc, "c04:missing-toolarge:"+cs.Front, "%s returned %v; expected ErrCidTooLarge", op, err)
			}
		}
		// observers are evaluated in every reached state
		fp = c04Observe(x, rc, s, md, rootRaws)
		if x.Failed() {
			return ""
		}
	}
	if len(path) == 0 {
		fp = c04Observe(x, rc, s, md, rootRaws)
	}
	return md.key() + "#" + fp
}

func runC04(c any, x *kit.Ctx) {
	cs := c.(C04Case)
	if cs.Path != nil {
		c04RunPath(x, cs, cs.Path)
		return
	}
	muts := c04Mutators(cs.Front)
	seen := map[string]bool{}
	frontier := [][]string{{}}
	if cs.First != "" {
		frontier = [][]string{{cs.First}}
	}
	cfgKey := fmt.Sprintf("%s|%+v|", cs.Front, cs.Opts)
	for depth := len(frontier[0]); depth <= cs.Depth && len(frontier) > 0; depth++ {
		var next [][]string
		for _, p := range frontier {
			k := c04RunPath(x, cs, p)
			if k == "" {
				return
			}
			if seen[k] {
				continue
			}
			seen[k] = true
			x.State(cfgKey + k)
			if i := strings.Index(k, "#"); i > 0 {
				x.Outcome(k[strings.LastIndex(k[:i], "|")+1 : i])
				if strings.Count(k[:i], ",") >= 1 {
					x.Nontrivial(cfgKey + k[:i])
				}
			}
			if depth < cs.Depth {
				for _, m := range muts {
					next = append(next, append(append([]string{}, p...), m))
				}
			}
		}
		frontier = next
	}
}

func genC04(tier string, emit func(any)) {
	depth := 4
	if tier == "thorough" {
		depth = 5
	}
	for _, front := range []string{"bs", "st", "bsf"} {
		for _, mc := range []uint64{0, 40} {
			if front == "bsf" && mc != 0 {
				continue
			}
			for mask := 0; mask < 16; mask++ {
				o := drv.Opts{Whole: mask&1 != 0, AllowDup: mask&2 != 0, StoreID: mask&4 != 0, V1: mask&8 != 0, MaxCid: mc}
				if mask%5 == 1 {
					o.DataPad, o.IndexPad, o.Codec = 3, 2, "sorted"
				}
				emit(C04Case{Front: front, Opts: o, First: "", Depth: 0})
				for _, m := range c04Mutators(front) {
					emit(C04Case{Front: front, Opts: o, First: m, Depth: depth})
				}
			}
		}
	}
}

func init() {
	kit.Register(&kit.Prop{
		ID:     "C04",
		Gen:    genC04,
		Run:    runC04,
		Decode: kit.DecodeAs[C04Case],
		Rule: "explicit-state breadth-first search over mutator sequences (Put of 6 colliding blocks, 3 PutMany batches, Finalize, Discard, FinalizeReadOnly, Close) up to the depth bound, for 16 option sets x MaxIndexCidSize {default,40} x {blockstore.OpenReadWrite, blockstore.OpenReadWriteFile (caller-owned file), storage.NewReadableWritable}; " +
			"each successor replays the path on a fresh real instance; in EVERY reached state every observer (Has/Get/GetSize of 11 CIDs, AllKeysChan, Roots, file bytes) is compared with the map model; states are de-duplicated on (model state, implementation observation fingerprint incl. file bytes); non-trivial = state with >=2 stored blocks",
		Bound: func(tier string) map[string]any {
			if tier == "thorough" {
				return map[string]any{"depth": 5, "mutators_bs": 13, "mutators_st": 7, "configurations": 64}
			}
			return map[string]any{"depth": 4, "mutators_bs": 13, "mutators_st": 7, "configurations": 64}
		},
		Assumptions: []string{"map model = documented rules only (DESIGN A.4)", "identity lookups after close and lifecycle-call return values other than first success are not compared", "state merging assumes the future of a store is determined by its observable state incl. file bytes"},
	})
}
