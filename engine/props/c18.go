package props

import (
	"bytes"
	"fmt"
	"os"
	"path/filepath"
	"sort"
	"strings"

	"github.com/ipfs/go-cid"

	"verif/drv"
	"verif/kit"
	"verif/refcar"
)

type C18Node struct {
	Name   string    `json:"n"`
	Kind   string    `json:"k"` // f, d, l
	Size   int       `json:"s,omitempty"`
	Target string    `json:"t,omitempty"`
	Kids   []C18Node `json:"c,omitempty"`
}

type C18Case struct {
	Kids    []C18Node `json:"kids"` // children of the source directory "src"
	Version int       `json:"version"`
	NoWrap  bool      `json:"nowrap,omitempty"`
	Stdin   bool      `json:"stdin,omitempty"`
	Single  bool      `json:"single,omitempty"` // source is the single entry Kids[0] instead of the directory
	Many    int       `json:"many,omitempty"`   // additionally N generated sibling files (sharding)
	Multi   bool      `json:"multi,omitempty"`  // every top-level entry is passed to car create as its own source
}

const c18Chunk = 256 * 1024

func c18Content(name string, size int) []byte {
	b := make([]byte, size)
	seed := byte(len(name)*7 + 3)
	for i := range b {
		b[i] = seed + byte(i%251) + byte(i/251)
	}
	return b
}

func c18Materialise(dir string, kids []C18Node) {
	for _, n := range kids {
		p := filepath.Join(dir, n.Name)
		switch n.Kind {
		case "f":
			if err := os.WriteFile(p, c18Content(n.Name, n.Size), 0o644); err != nil {
				panic(err)
			}
		case "d":
			if err := os.Mkdir(p, 0o755); err != nil {
				panic(err)
			}
			c18Materialise(p, n.Kids)
		case "l":
			if err := os.Symlink(n.Target, p); err != nil {
				panic(err)
			}
		}
	}
}

func c18Entries(n int, kids []C18Node) int {
	for _, k := range kids {
		n++
		n = c18Entries(n, k.Kids)
	}
	return n
}

func runC18(c any, x *kit.Ctx) {
	cs := c.(C18Case)
	work := filepath.Join(x.Dir, "c18")
	os.RemoveAll(work)
	src := filepath.Join(work, "src")
	if err := os.MkdirAll(src, 0o755); err != nil {
		panic(err)
	}
	defer os.RemoveAll(work)
	c18Materialise(src, cs.Kids)
	for i := 0; i < cs.Many; i++ {
		os.WriteFile(filepath.Join(src, fmt.Sprintf("many-%04d", i)), []byte(fmt.Sprintf("%d", i)), 0o644)
	}
	source := "src"
	if cs.Single {
		source = filepath.Join("src", cs.Kids[0].Name)
	}
	args := []string{"create", "--version", fmt.Sprint(cs.Version), "-f", "out.car"}
	if cs.NoWrap {
		args = append(args, "--no-wrap")
	}
	if cs.Multi {
		for _, k := range cs.Kids {
			args = append(args, filepath.Join("src", k.Name))
		}
	} else {
		args = append(args, source)
	}
	r := drv.Car(work, nil, args...)
	x.Eval(1)
	x.Transition(2)
	tag := fmt.Sprintf("v%d:nowrap=%v:stdin=%v:single=%v", cs.Version, cs.NoWrap, cs.Stdin, cs.Single)
	if cs.Multi {
		tag += ":multi"
	}
	if r.Exit != 0 {
		x.Fail("c18:create-failed:"+tag, "car create failed (exit %d): %s", r.Exit, clipS(string(r.Stderr), 600))
		return
	}
	archive, err := os.ReadFile(filepath.Join(work, "out.car"))
	if err != nil {
		x.Fail("c18:create-no-output:"+tag, "car create wrote no archive: %v", err)
		return
	}
	// the archive: one root, equal to `car root`, and a stored block
	fl, err := refcar.DecodeFile(archive, false)
	if err != nil {
		x.Fail("c18:archive-malformed:"+tag, "created archive is not well-formed: %v", err)
		return
	}
	if fl.Version != cs.Version {
		x.Fail("c18:archive-version:"+tag, "created archive has version %d", fl.Version)
	}
	if len(fl.Payload.Header.Roots) != 1 {
		x.Fail("c18:roots:"+tag, "created archive has %d roots", len(fl.Payload.Header.Roots))
		return
	}
	root := fl.Payload.Header.Roots[0]
	rr := drv.Car(work, nil, "root", "out.car")
	rc, cerr := cid.Cast(root)
	if rr.Exit != 0 || cerr != nil || strings.TrimSpace(string(rr.Stdout)) != rc.String() {
		x.Fail("c18:car-root:"+tag, "car root prints %q (exit %d), header root is %v", strings.TrimSpace(string(rr.Stdout)), rr.Exit, rc)
	}
	stored := false
	for _, s := range fl.Payload.Sections {
		if bytes.Equal(s.Cid, root) {
			stored = true
		}
	}
	if !stored {
		x.Fail("c18:root-not-stored:"+tag, "the archive's root %v is not among its blocks (placeholder root left in place?)", rc)
	}
	// extract
	out := filepath.Join(work, "out")
	os.MkdirAll(out, 0o755) // car extract requires an existing output directory
	var er drv.RunResult
	if cs.Stdin {
		er = drv.Car(work, archive, "extract", "out")
	} else {
		er = drv.Car(work, nil, "extract", "-f", "out.car", "out")
	}
	x.Eval(1)
	total := c18Entries(0, cs.Kids) + cs.Many
	if cs.Single {
		total = 1 + c18Entries(0, cs.Kids[0].Kids)
	}
	if cs.Single && cs.NoWrap && cs.Kids[0].Kind != "d" {
		x.Outcome("nowrap-non-directory-root")
		return
	}
	if er.Exit != 0 && !(total == 0 || (cs.Single && cs.Kids[0].Kind == "d" && len(cs.Kids[0].Kids) == 0)) {
		// "no files extracted" (exit 1) is legitimate only for a tree without files
		if !(strings.Contains(string(er.Stderr), "no files extracted") && c18CountFiles(cs) == 0) {
			x.Fail("c18:extract-failed:"+tag, "car extract failed (exit %d): %s", er.Exit, clipS(string(er.Stderr), 600))
			return
		}
	}
	// expected location of the tree under out (documented mapping)
	want := map[string]string{}
	var gotRoot, wantRoot string
	switch {
	case cs.Single && cs.Kids[0].Kind != "d":
		// a single file or symlink
		if cs.NoWrap {
			// a bare file or symlink root has no name to extract to (car extract skips raw
			// roots on purpose): outside the property's domain of directory trees
			x.Outcome("nowrap-non-directory-root")
			return
		} else {
			wantRoot = filepath.Join(src, cs.Kids[0].Name)
			gotRoot = filepath.Join(out, cs.Kids[0].Name)
		}
		a := drv.Snapshot(wantRoot)
		b := drv.Snapshot(gotRoot)
		if d := drv.DiffSnapshots(a, b); len(d) > 0 {
			x.Fail("c18:tree-differs:"+tag, "extracted entry differs from the source: %v", clipList(d))
		}
		x.State(fmt.Sprintf("%+v", cs))
		return
	case cs.Single:
		wantRoot = filepath.Join(src, cs.Kids[0].Name)
		if cs.NoWrap {
			gotRoot = out
		} else {
			gotRoot = filepath.Join(out, cs.Kids[0].Name)
		}
	case cs.Multi:
		// several sources are wrapped in one directory: each appears under its base name
		wantRoot = src
		gotRoot = out
	default:
		wantRoot = src
		if cs.NoWrap {
			gotRoot = out
		} else {
			gotRoot = filepath.Join(out, "src")
		}
	}
	_ = want
	a := drv.Snapshot(wantRoot)
	b := drv.Snapshot(gotRoot)
	if len(b) == 0 && len(a) <= 1 {
		// an empty directory extracts to an empty (possibly absent) directory
		b = a
	}
	if d := drv.DiffSnapshots(a, b); len(d) > 0 {
		x.Fail("c18:tree-differs:"+tag, "extracted tree differs from the source: %v", clipList(d))
	}
	x.State(fmt.Sprintf("%+v", cs))
	x.Outcome(fmt.Sprintf("entries=%d", total))
	if total >= 2 {
		x.Nontrivial(fmt.Sprintf("%+v", cs))
	}
}

func c18CountFiles(cs C18Case) int {
	var cnt func(k []C18Node) int
	cnt = func(k []C18Node) int {
		n := 0
		for _, e := range k {
			if e.Kind != "d" {
				n++
			}
			n += cnt(e.Kids)
		}
		return n
	}
	return cnt(cs.Kids) + cs.Many
}

func clipList(d []string) []string {
	if len(d) > 8 {
		return append(d[:8], fmt.Sprintf("... %d more", len(d)-8))
	}
	return d
}

// c18Trees enumerates all lists of children with exactly `budget` entries in total.
func c18Trees(names []string, kinds []C18Node, budget int, emit func([]C18Node)) {
	// choose an ordered-by-name subset of names for this level and distribute the budget
	var rec func(idx int, left int, cur []C18Node)
	rec = func(idx int, left int, cur []C18Node) {
		if left == 0 {
			emit(append([]C18Node{}, cur...))
			return
		}
		if idx == len(names) {
			return
		}
		// skip this name
		rec(idx+1, left, cur)
		// use this name with each kind
		for _, k := range kinds {
			n := k
			n.Name = names[idx]
			if k.Kind != "d" {
				rec(idx+1, left-1, append(cur, n))
				continue
			}
			// a directory with 0..left-1 entries below it
			for sub := 0; sub <= left-1; sub++ {
				c18Trees(names, kinds, sub, func(kids []C18Node) {
					d := n
					d.Kids = kids
					rec(idx+1, left-1-sub, append(cur, d))
				})
			}
		}
	}
	rec(0, budget, nil)
}

func genC18(tier string, emit func(any)) {
	names := []string{"a", "b", "ü", "a b"}
	kinds := []C18Node{{Kind: "f", Size: 0}, {Kind: "f", Size: 1}, {Kind: "d"}, {Kind: "l", Target: "a"}, {Kind: "l", Target: "../x/y"}, {Kind: "l", Target: "./b/../a/"}}
	maxN := 2
	if tier == "thorough" {
		maxN = 3
	}
	modes := func(kids []C18Node, single bool) {
		for _, v := range []int{1, 2} {
			for _, nw := range []bool{false, true} {
				for _, stdin := range []bool{false, true} {
					emit(C18Case{Kids: kids, Version: v, NoWrap: nw, Stdin: stdin, Single: single})
				}
			}
		}
	}
	for n := 0; n <= maxN; n++ {
		c18Trees(names, kinds, n, func(kids []C18Node) {
			modes(kids, false)
			if len(kids) == 1 {
				modes(kids, true)
			}
			if len(kids) >= 2 {
				for _, v := range []int{1, 2} {
					for _, stdin := range []bool{false, true} {
						emit(C18Case{Kids: kids, Version: v, Stdin: stdin, Multi: true})
					}
				}
			}
		})
	}
	// file sizes around the chunk size
	for _, sz := range []int{c18Chunk - 1, c18Chunk, c18Chunk + 1, 3*c18Chunk + 5} {
		kids := []C18Node{{Name: "big", Kind: "f", Size: sz}, {Name: "e", Kind: "f", Size: 0}}
		modes(kids, false)
		modes(kids[:1], true)
	}
	// nesting chain to depth 6
	chain := []C18Node{{Name: "leaf", Kind: "f", Size: 3}}
	for d := 0; d < 6; d++ {
		chain = []C18Node{{Name: fmt.Sprintf("d%d", d), Kind: "d", Kids: chain}, {Name: "s", Kind: "l", Target: "d0"}}
	}
	modes(chain, false)
	if tier == "thorough" {
		// a directory large enough to be sharded (HAMT)
		emit(C18Case{Kids: []C18Node{{Name: "a", Kind: "f", Size: 1}}, Version: 2, Many: 1200})
		emit(C18Case{Kids: []C18Node{{Name: "a", Kind: "f", Size: 1}}, Version: 1, NoWrap: true, Stdin: true, Many: 1200})
		// 4 entries at the top level only (wider)
		c18Trees(names, kinds[:4], 4, func(kids []C18Node) {
			if len(kids) == 4 {
				emit(C18Case{Kids: kids, Version: 2})
				emit(C18Case{Kids: kids, Version: 1, NoWrap: true, Stdin: true})
			}
		})
	}
	_ = sort.Strings
}

func init() {
	kit.Register(&kit.Prop{
		ID:     "C18",
		Gen:    genC18,
		Run:    runC18,
		Setup:  func(string) error { return drv.BuildCar() },
		Decode: kit.DecodeAs[C18Case],
		Rule: "every directory tree with up to N entries over names {a, b, ü, 'a b'} x kinds {empty file, 1-byte file, directory, symlink to a sibling, dangling symlink, symlink with a non-canonical target (./b/../a/)}, plus files of chunk-1/chunk/chunk+1/3*chunk+5 bytes, a nesting chain of depth 6 (thorough: a 1200-entry sharded directory, all 4-wide top levels) " +
			"x --version {1,2} x --no-wrap x extraction from file / stdin x source {directory, single entry, several entries as separate sources}, packed and extracted by the REAL car binary; oracle: tree equality (names, contents, link targets) under the documented mapping, exactly one root equal to `car root` and stored; non-trivial = tree with >= 2 entries",
		Bound: func(tier string) map[string]any {
			if tier == "thorough" {
				return map[string]any{"entries": 3, "names": 4, "kinds": 6}
			}
			return map[string]any{"entries": 2, "names": 4, "kinds": 6}
		},
		Assumptions: []string{"permissions, ownership and timestamps are not compared (the property states names, contents and link targets)", "a bare symlink packed with --no-wrap has no name to extract to and is not compared"},
	})
}
