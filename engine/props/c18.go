package props

import (
	"bytes"
	"encoding/binary"
	"encoding/hex"
	"fmt"
	"hash/fnv"
	"os"
	"path/filepath"
	"sort"
	"strings"
	"time"

	"github.com/ipfs/go-cid"

	"verif/drv"
	"verif/kit"
	"verif/refcar"
)

type C18Node struct {
	Name   string    `json:"n"`
	Kind   string    `json:"k"` // f, d, l
	Size   int       `json:"s,omitempty"`
	Target string    `json:"t,omitempty"`
	Kids   []C18Node `json:"c,omitempty"`
	Zero   bool      `json:"z,omitempty"`    // file of zero bytes only (every chunk is the same block)
	Like   string    `json:"like,omitempty"` // file content generated for this name instead of Name (equal files under different names)
	Hex    string    `json:"hex,omitempty"`  // file content given literally (bytes that equal the encoding of another node of the tree)
}

type C18Case struct {
	Kids    []C18Node `json:"kids"`    // children of the source directory "src"
	Version int       `json:"version"` // 0 = --version omitted (documented default: 2)
	NoWrap  bool      `json:"nowrap,omitempty"`
	Stdin   bool      `json:"stdin,omitempty"`  // extract reads the archive from a pipe on stdin
	Single  bool      `json:"single,omitempty"` // source is the single entry Kids[0] instead of the directory
	Many    int       `json:"many,omitempty"`   // additionally N generated sibling files (sharding)
	Multi   bool      `json:"multi,omitempty"`  // every top-level entry is passed to car create as its own source
	// ManyLen is the length of the generated sibling names (0 = 9, "many-0000").
	ManyLen int `json:"manylen,omitempty"`
	// Nest puts the generated siblings into src/sub instead of src (the sharded directory is not the root/top entry).
	Nest bool `json:"nest,omitempty"`
	// In = "stdinfile": extract reads the archive from stdin redirected from the regular file (seekable fd 0).
	In string `json:"in,omitempty"`
	// Cwd: extract is run inside the output directory without an output directory argument.
	Cwd bool `json:"cwd,omitempty"`
	// Spell is how the source path is written: "" (src), "slash" (src/), "dot" (./src), "abs" (absolute).
	Spell string `json:"spell,omitempty"`
}

const c18Chunk = 256 * 1024

// c18Timeout bounds one car invocation; it only turns a hang into a report and is far above
// the run time of the largest case on a loaded machine (not a performance oracle).
const c18Timeout = 10 * time.Minute

// c18Content is the content of the file called name: a pattern that differs between any two
// names and sizes (so swapped contents are visible) and between the chunks of one file.
func c18Content(n C18Node) []byte {
	if n.Hex != "" {
		b, err := hex.DecodeString(n.Hex)
		if err != nil {
			panic(err)
		}
		return b
	}
	b := make([]byte, n.Size)
	if n.Zero {
		return b
	}
	name := n.Name
	if n.Like != "" {
		name = n.Like
	}
	h := fnv.New64a()
	h.Write([]byte(name))
	var sz [8]byte
	binary.LittleEndian.PutUint64(sz[:], uint64(n.Size))
	h.Write(sz[:])
	var seed [8]byte
	binary.LittleEndian.PutUint64(seed[:], h.Sum64())
	for i := range b {
		b[i] = seed[i&7] + byte(i%251) + byte(i/251)
	}
	return b
}

func c18ManyName(i, l int) string {
	s := fmt.Sprintf("many-%04d", i)
	if l > len(s) {
		s += "-" + strings.Repeat("n", l-len(s)-1)
	}
	return s
}

func c18ManyContent(i int) []byte { return []byte(fmt.Sprintf("%d", i)) }

func c18Materialise(dir string, kids []C18Node) {
	for _, n := range kids {
		p := filepath.Join(dir, n.Name)
		switch n.Kind {
		case "f":
			if err := os.WriteFile(p, c18Content(n), 0o644); err != nil {
				panic(err)
			}
		case "d":
			if err := os.Mkdir(p, 0o755); err != nil {
				panic(err)
			}
			c18Materialise(p, n.Kids)
		case "l":
			if err := os.Symlink(n.Target, p); err != nil {
				panic(err)
			}
		}
	}
}

// c18Expect renders the tree the model describes in the format of drv.SnapshotStrict, under prefix.
func c18Expect(m map[string]string, prefix string, kids []C18Node) {
	for _, n := range kids {
		p := filepath.Join(prefix, n.Name)
		switch n.Kind {
		case "f":
			m[p] = drv.FileDigest(c18Content(n))
		case "d":
			m[p] = "dir"
			c18Expect(m, p, n.Kids)
		case "l":
			m[p] = "symlink:" + n.Target
		}
	}
}

func c18ExpectMany(m map[string]string, prefix string, cs C18Case) {
	if cs.Many == 0 {
		return
	}
	if cs.Nest {
		prefix = filepath.Join(prefix, "sub")
		m[prefix] = "dir"
	}
	for i := 0; i < cs.Many; i++ {
		m[filepath.Join(prefix, c18ManyName(i, cs.ManyLen))] = drv.FileDigest(c18ManyContent(i))
	}
}

func c18Entries(n int, kids []C18Node) int {
	for _, k := range kids {
		n++
		n = c18Entries(n, k.Kids)
	}
	return n
}

func c18NonDirs(kids []C18Node) int {
	n := 0
	for _, e := range kids {
		if e.Kind != "d" {
			n++
		}
		n += c18NonDirs(e.Kids)
	}
	return n
}

// pbFields walks the top-level fields of a protobuf message; ok=false on malformed input.
func pbFields(b []byte, visit func(field int, wire int, varint uint64, data []byte)) bool {
	for len(b) > 0 {
		tag, n := binary.Uvarint(b)
		if n <= 0 {
			return false
		}
		b = b[n:]
		field, wire := int(tag>>3), int(tag&7)
		switch wire {
		case 0:
			v, n := binary.Uvarint(b)
			if n <= 0 {
				return false
			}
			b = b[n:]
			visit(field, wire, v, nil)
		case 2:
			l, n := binary.Uvarint(b)
			if n <= 0 || uint64(len(b)-n) < l {
				return false
			}
			visit(field, wire, 0, b[n:n+int(l)])
			b = b[n+int(l):]
		case 1:
			if len(b) < 8 {
				return false
			}
			b = b[8:]
		case 5:
			if len(b) < 4 {
				return false
			}
			b = b[4:]
		default:
			return false
		}
	}
	return true
}

// c18UnixFSType is the UnixFS DataType of a dag-pb block (PBNode.Data = field 1, unixfs Data.Type = field 1),
// -1 when the block carries none. 1 = directory, 2 = file, 4 = symlink, 5 = HAMT shard.
func c18UnixFSType(block []byte) int {
	typ := -1
	pbFields(block, func(field, wire int, _ uint64, data []byte) {
		if field == 1 && wire == 2 {
			pbFields(data, func(f, w int, v uint64, _ []byte) {
				if f == 1 && w == 0 {
					typ = int(v)
				}
			})
		}
	})
	return typ
}

func c18Tag(cs C18Case) string {
	tag := fmt.Sprintf("v%d:nowrap=%v:stdin=%v:single=%v", cs.Version, cs.NoWrap, cs.Stdin, cs.Single)
	if cs.Multi {
		tag += ":multi"
	}
	if cs.In != "" {
		tag += ":in=" + cs.In
	}
	if cs.Cwd {
		tag += ":cwd"
	}
	if cs.Spell != "" {
		tag += ":spell=" + cs.Spell
	}
	if cs.Many > 0 {
		tag += ":many"
		if cs.Nest {
			tag += "-nested"
		}
	}
	return tag
}

func runC18(c any, x *kit.Ctx) {
	cs := c.(C18Case)
	work := filepath.Join(x.Dir, "c18")
	os.RemoveAll(work)
	src := filepath.Join(work, "src")
	if err := os.MkdirAll(src, 0o755); err != nil {
		panic(err)
	}
	defer os.RemoveAll(work)
	c18Materialise(src, cs.Kids)
	if cs.Many > 0 {
		dir := src
		if cs.Nest {
			dir = filepath.Join(src, "sub")
			if err := os.Mkdir(dir, 0o755); err != nil {
				panic(err)
			}
		}
		for i := 0; i < cs.Many; i++ {
			if err := os.WriteFile(filepath.Join(dir, c18ManyName(i, cs.ManyLen)), c18ManyContent(i), 0o644); err != nil {
				panic(err)
			}
		}
	}
	// the source as the model describes it; what the harness materialised must be exactly that
	srcModel := map[string]string{".": "dir"}
	c18Expect(srcModel, "", cs.Kids)
	c18ExpectMany(srcModel, "", cs)
	if got, errs := drv.SnapshotStrict(src); len(errs) > 0 || len(drv.DiffSnapshots(srcModel, got)) > 0 {
		panic(fmt.Sprintf("harness: materialised source differs from the model: %v %v", errs, clipList(drv.DiffSnapshots(srcModel, got))))
	}

	// a trailing slash is only a spelling of the same entry for a directory
	spell := func(rel string, isDir bool) string {
		switch cs.Spell {
		case "slash":
			if !isDir {
				return rel
			}
			return rel + "/"
		case "dot":
			return "./" + rel
		case "abs":
			return filepath.Join(work, rel)
		}
		return rel
	}
	source := spell("src", true)
	if cs.Single {
		source = spell(filepath.Join("src", cs.Kids[0].Name), cs.Kids[0].Kind == "d")
	}
	args := []string{"create"}
	if cs.Version != 0 {
		args = append(args, "--version", fmt.Sprint(cs.Version))
	}
	args = append(args, "-f", "out.car")
	if cs.NoWrap {
		args = append(args, "--no-wrap")
	}
	if cs.Multi {
		for _, k := range cs.Kids {
			args = append(args, spell(filepath.Join("src", k.Name), k.Kind == "d"))
		}
	} else {
		args = append(args, source)
	}
	tag := c18Tag(cs)
	r, hung := drv.CarRun{Dir: work, Args: args, Timeout: c18Timeout}.Run()
	x.Eval(1)
	x.Transition(2)
	if hung {
		x.Fail("c18:create-hang:"+tag, "car create did not finish within %v: %s", c18Timeout, clipS(string(r.Stderr), 600))
		return
	}
	if r.Exit != 0 {
		x.Fail("c18:create-failed:"+tag, "car create failed (exit %d): %s", r.Exit, clipS(string(r.Stderr), 600))
		return
	}
	archive, err := os.ReadFile(filepath.Join(work, "out.car"))
	if err != nil {
		x.Fail("c18:create-no-output:"+tag, "car create wrote no archive: %v", err)
		return
	}
	// Whether packing/extracting leaves the source as it was is not part of the property statement
	// (the extracted tree is compared with the tree the model describes, i.e. the source as packed):
	// a change of the source is recorded, not judged.
	checkSource := func(when string) {
		got, errs := drv.SnapshotStrict(src)
		if d := drv.DiffSnapshots(srcModel, got); len(d) > 0 || len(errs) > 0 {
			x.Outcome("beyond-statement:source-mutated:" + strings.ReplaceAll(when, " ", "-"))
			x.Note("c18 source changed during "+when, fmt.Sprintf("%v %v", clipList(d), clipList(errs)))
		}
	}
	checkSource("car create")
	// the archive: one root, equal to `car root`, and a stored block
	fl, err := refcar.DecodeFile(archive, false)
	if err != nil {
		x.Fail("c18:archive-malformed:"+tag, "created archive is not well-formed: %v", err)
		return
	}
	// The format is asserted when it was requested; which format the tool picks when --version is
	// omitted is help-text documentation, not part of the property statement: recorded only.
	if cs.Version != 0 {
		if fl.Version != cs.Version {
			x.Fail("c18:archive-version:"+tag, "created archive has version %d, want %d", fl.Version, cs.Version)
		}
	} else {
		x.Outcome(fmt.Sprintf("beyond-statement:default-version=%d", fl.Version))
	}
	if len(fl.Payload.Header.Roots) != 1 {
		x.Fail("c18:roots:"+tag, "created archive has %d roots", len(fl.Payload.Header.Roots))
		return
	}
	root := fl.Payload.Header.Roots[0]
	rr, hung := drv.CarRun{Dir: work, Args: []string{"root", "out.car"}, Timeout: c18Timeout}.Run()
	rc, cerr := cid.Cast(root)
	// the printed CID is compared as a CID (first token of the output, any multibase spelling), not as text
	printedOK := false
	if toks := strings.Fields(string(rr.Stdout)); len(toks) > 0 && cerr == nil {
		if pc, derr := cid.Decode(toks[0]); derr == nil && pc.Equals(rc) {
			printedOK = true
			if toks[0] != rc.String() || len(toks) > 1 {
				x.Outcome("beyond-statement:car-root-output-not-canonical-text")
			}
		}
	}
	if hung || rr.Exit != 0 || cerr != nil || !printedOK {
		x.Fail("c18:car-root:"+tag, "car root prints %q (exit %d), header root is %v", strings.TrimSpace(string(rr.Stdout)), rr.Exit, rc)
	}
	if cerr != nil {
		return
	}
	stored := false
	sharded := false
	for _, s := range fl.Payload.Sections {
		if bytes.Equal(s.Cid, root) {
			stored = true
		}
		if sc, err := cid.Cast(s.Cid); err == nil && sc.Prefix().Codec == cid.DagProtobuf && c18UnixFSType(s.Data) == 5 {
			sharded = true
		}
	}
	if !stored {
		x.Fail("c18:root-not-stored:"+tag, "the archive's root %v is not among its blocks (placeholder root left in place?)", rc)
	}
	if sharded {
		x.Outcome("sharded")
		x.Count("sharded_archives", 1)
		if cs.Nest {
			x.Count("sharded_nested_archives", 1)
		}
	} else if nl := max(cs.ManyLen, 9); cs.Many*(nl+36) > 262144 {
		// the case was sized to cross the UnixFS builder's sharding threshold
		x.NotExhaustive("a many-sibling case produced no HAMT-sharded directory (sharding threshold of the UnixFS builder not reached)")
	}
	// extract
	out := filepath.Join(work, "out")
	os.MkdirAll(out, 0o755) // car extract requires an existing output directory
	ex := drv.CarRun{Dir: work, Timeout: c18Timeout, Args: []string{"extract"}}
	carPath := "out.car"
	if cs.Cwd {
		ex.Dir = out
		carPath = filepath.Join("..", "out.car")
	}
	switch {
	case cs.In == "stdinfile":
		ex.StdinFile = filepath.Join(work, "out.car")
	case cs.Stdin:
		ex.Stdin = archive
	default:
		ex.Args = append(ex.Args, "-f", carPath)
	}
	if !cs.Cwd {
		ex.Args = append(ex.Args, "out")
	}
	er, hung := ex.Run()
	x.Eval(1)
	if hung {
		x.Fail("c18:extract-hang:"+tag, "car extract did not finish within %v: %s", c18Timeout, clipS(string(er.Stderr), 600))
		return
	}
	checkSource("car extract")
	// whether anything but the archive and the output directory appears next to the source is not
	// part of the property statement: recorded, not judged
	if ents, err := os.ReadDir(work); err == nil {
		var stray []string
		for _, e := range ents {
			if n := e.Name(); n != "src" && n != "out" && n != "out.car" {
				stray = append(stray, n)
			}
		}
		if len(stray) > 0 {
			x.Outcome("beyond-statement:stray-output")
			x.Note("c18 entries left next to the source", fmt.Sprintf("%q", clipList(stray)))
		}
	}
	got, gerrs := drv.SnapshotStrict(out)
	if len(gerrs) > 0 {
		x.Fail("c18:tree-unreadable:"+tag, "extracted tree cannot be read back: %v", clipList(gerrs))
	}

	// entries the extraction has to reproduce, and the number of files/symlinks among them
	entries := cs.Kids
	switch {
	case cs.Single:
		entries = cs.Kids[:1]
	}
	total := c18Entries(0, entries) + cs.Many
	files := c18NonDirs(entries) + cs.Many
	if cs.Nest && cs.Many > 0 {
		total++
	}

	if cs.Single && cs.NoWrap && cs.Kids[0].Kind != "d" {
		// A bare file or symlink packed with --no-wrap has no name to extract to. A single-block file
		// is a raw root, which car extract skips on purpose, and a symlink needs a name: both are
		// outside the property's domain of directory trees. A file of several chunks is written
		// under a name of the tool's choosing: its content (only) must be the source's.
		if cs.Kids[0].Kind != "f" || rc.Prefix().Codec == cid.Raw {
			x.Outcome("nowrap-non-directory-root")
			return
		}
		// Like the raw root, it is not a directory tree: a tool that declines to extract it (nothing
		// written) is recorded, not judged. Whatever IS written must be the source's content.
		want := drv.FileDigest(c18Content(cs.Kids[0]))
		var names []string
		for k := range got {
			if k != "." {
				names = append(names, k)
			}
		}
		if len(names) == 0 {
			x.Outcome("beyond-statement:nowrap-bare-file-not-extracted")
			return
		}
		if len(names) != 1 || got[names[0]] != want {
			x.Fail("c18:bare-file-differs:"+tag, "a bare file packed with --no-wrap extracts to %v (exit %d), want exactly one file with %s", clipMap(got), er.Exit, want)
			return
		}
		if er.Exit != 0 {
			x.Outcome("beyond-statement:nowrap-bare-file-extract-exit-nonzero")
		}
		x.State(fmt.Sprintf("%+v", cs))
		x.Outcome("nowrap-bare-file-content")
		return
	}
	if er.Exit != 0 {
		// A failure report is legitimate only for a tree without files and symlinks ("no files
		// extracted"); the exit code and the wording of that report are not part of the property
		// statement. The tree comparison below decides (the directories must still be there).
		// A process that did not exit by itself (killed, not started) is never legitimate.
		if files != 0 || er.Exit < 0 {
			x.Fail("c18:extract-failed:"+tag, "car extract failed (exit %d) on a tree with %d files/symlinks: %s", er.Exit, files, clipS(string(er.Stderr), 600))
			return
		}
		x.Outcome("no-files-extracted")
		if !(er.Exit == 1 && strings.Contains(string(er.Stderr), "no files extracted")) {
			x.Outcome(fmt.Sprintf("beyond-statement:no-files-report-exit=%d", er.Exit))
		}
	}
	// expected content of the whole output directory (documented mapping)
	want := map[string]string{".": "dir"}
	switch {
	case cs.Single && cs.NoWrap:
		// a directory packed without wrapping: its entries directly under out
		c18Expect(want, "", cs.Kids[0].Kids)
	case cs.Single:
		// wrapped: under its base name
		c18Expect(want, "", cs.Kids[:1])
	case cs.Multi:
		// several sources are wrapped in one directory: each appears under its base name
		c18Expect(want, "", cs.Kids)
	case cs.NoWrap:
		c18Expect(want, "", cs.Kids)
		c18ExpectMany(want, "", cs)
	default:
		want["src"] = "dir"
		c18Expect(want, "src", cs.Kids)
		c18ExpectMany(want, "src", cs)
	}
	if d := drv.DiffSnapshots(want, got); len(d) > 0 {
		x.Fail("c18:tree-differs:"+tag, "extracted tree differs from the source: %v", clipList(d))
	}
	x.State(fmt.Sprintf("%+v", cs))
	if total > 50 {
		x.Outcome("entries>50")
	} else {
		x.Outcome(fmt.Sprintf("entries=%d", total))
	}
	if total >= 2 {
		x.Nontrivial(fmt.Sprintf("%+v", cs))
	}
}

func clipMap(m map[string]string) []string {
	var l []string
	for k, v := range m {
		l = append(l, clipS(k, 40)+"="+v)
	}
	sort.Strings(l)
	return clipList(l)
}

func clipList(d []string) []string {
	if len(d) > 8 {
		return append(d[:8:8], fmt.Sprintf("... %d more", len(d)-8))
	}
	return d
}

// c18Trees enumerates all lists of children with exactly `budget` entries in total.
func c18Trees(names []string, kinds []C18Node, budget int, emit func([]C18Node)) {
	// choose an ordered-by-name subset of names for this level and distribute the budget
	var rec func(idx int, left int, cur []C18Node)
	rec = func(idx int, left int, cur []C18Node) {
		if left == 0 {
			emit(append([]C18Node{}, cur...))
			return
		}
		if idx == len(names) {
			return
		}
		// skip this name
		rec(idx+1, left, cur)
		// use this name with each kind
		for _, k := range kinds {
			n := k
			n.Name = names[idx]
			if k.Kind != "d" {
				rec(idx+1, left-1, append(cur, n))
				continue
			}
			// a directory with 0..left-1 entries below it
			for sub := 0; sub <= left-1; sub++ {
				c18Trees(names, kinds, sub, func(kids []C18Node) {
					d := n
					d.Kids = kids
					rec(idx+1, left-1-sub, append(cur, d))
				})
			}
		}
	}
	rec(0, budget, nil)
}

// c18OddNames: hidden, maximal-length (255 bytes, ASCII and multibyte), backslash, leading dash, newline.
func c18OddNames() []string {
	return []string{
		".h",
		strings.Repeat("x", 255),
		strings.Repeat("ü", 127) + "y",
		`a\b`,
		"-x",
		"n\nl",
	}
}

// c18ShardMany/c18ShardLong: sibling counts that push the UnixFS builder's directory size estimate
// (sum of name length + 36-byte CID) over its 262144 sharding threshold.
const (
	c18ShardMany    = 6000 // 6000*(9+36) = 270000
	c18ShardLong    = 1000 // 1000*(230+36) = 266000
	c18ShardLongLen = 230
)

func genC18(tier string, emit func(any)) {
	thorough := tier == "thorough"
	names := []string{"a", "b", "ü", "a b"}
	kinds := []C18Node{{Kind: "f", Size: 0}, {Kind: "f", Size: 1}, {Kind: "d"}, {Kind: "l", Target: "a"}, {Kind: "l", Target: "../x/y"}, {Kind: "l", Target: "./b/../a/"}}
	maxN := 2
	if thorough {
		maxN = 3
	}
	modesOf := func(base C18Case) {
		for _, v := range []int{1, 2} {
			for _, nw := range []bool{false, true} {
				for _, stdin := range []bool{false, true} {
					cs := base
					cs.Version, cs.NoWrap, cs.Stdin = v, nw, stdin
					emit(cs)
				}
			}
		}
	}
	modes := func(kids []C18Node, single bool) { modesOf(C18Case{Kids: kids, Single: single}) }
	multi := func(kids []C18Node) {
		for _, v := range []int{1, 2} {
			for _, stdin := range []bool{false, true} {
				emit(C18Case{Kids: kids, Version: v, Stdin: stdin, Multi: true})
			}
		}
	}
	for n := 0; n <= maxN; n++ {
		c18Trees(names, kinds, n, func(kids []C18Node) {
			modes(kids, false)
			if len(kids) == 1 {
				modes(kids, true)
			}
			if len(kids) >= 2 {
				multi(kids)
			}
		})
	}
	// file sizes: around the chunk size, an exactly full last chunk, and data sizes that put the
	// section length (36-byte CID + data) on both sides of the 1->2 and 2->3 byte varint widths
	for _, sz := range []int{c18Chunk - 1, c18Chunk, c18Chunk + 1, 3*c18Chunk + 5, 2 * c18Chunk, 91, 92, 16347, 16348} {
		kids := []C18Node{{Name: "big", Kind: "f", Size: sz}, {Name: "e", Kind: "f", Size: 0}}
		modes(kids, false)
		modes(kids[:1], true)
	}
	// an all-zero file of three chunks: the same leaf block is linked three times by one file
	{
		kids := []C18Node{{Name: "zero", Kind: "f", Size: 3 * c18Chunk, Zero: true}, {Name: "e", Kind: "f", Size: 0}}
		modes(kids, false)
		modes(kids[:1], true)
	}
	// equal multi-chunk and equal 1-byte files under different names and in different directories
	modes([]C18Node{
		{Name: "p", Kind: "f", Size: c18Chunk + 1},
		{Name: "q", Kind: "f", Size: c18Chunk + 1, Like: "p"},
		{Name: "r", Kind: "d", Kids: []C18Node{{Name: "p", Kind: "f", Size: c18Chunk + 1, Like: "p"}, {Name: "s", Kind: "f", Size: 1}, {Name: "t", Kind: "f", Size: 1, Like: "s"}}},
	}, false)
	// a file whose bytes are the dag-pb encoding of another node of the same tree (an empty directory; an empty
	// file node): the raw leaf and that node share a multihash under different codecs, and car create stores the
	// bytes once; in both name orders (which of the two is written first)
	for _, names := range [][2]string{{"a_dir", "b_file"}, {"z_dir", "b_file"}} {
		kids := []C18Node{{Name: names[0], Kind: "d"}, {Name: names[1], Kind: "f", Size: 4, Hex: "0a020801"}}
		modes(kids, false)
		multi(kids)
	}
	// nesting chain to depth 6
	chain := []C18Node{{Name: "leaf", Kind: "f", Size: 3}}
	for d := 0; d < 6; d++ {
		chain = []C18Node{{Name: fmt.Sprintf("d%d", d), Kind: "d", Kids: chain}, {Name: "s", Kind: "l", Target: "d0"}}
	}
	modes(chain, false)

	// odd names, each at depth 1 (file), 2 (directory) and 3 (symlink to itself by name), as the
	// directory source, as the single source (file; directory) and as separate sources
	for _, o := range c18OddNames() {
		kids := []C18Node{
			{Name: o, Kind: "f", Size: 1},
			{Name: "m", Kind: "d", Kids: []C18Node{{Name: o, Kind: "d", Kids: []C18Node{{Name: o, Kind: "l", Target: o}, {Name: "f", Kind: "f", Size: 2}}}}},
		}
		modes(kids, false)
		modes(kids[:1], true)
		modes([]C18Node{{Name: o, Kind: "d", Kids: []C18Node{{Name: o, Kind: "f", Size: 2}}}}, true)
		multi(kids)
	}
	// all odd names side by side (sort order of the directory's links), with the plain ones
	{
		var kids []C18Node
		for i, o := range append(c18OddNames(), "a", "ü") {
			kids = append(kids, C18Node{Name: o, Kind: "f", Size: i})
		}
		modes(kids, false)
		multi(kids)
	}

	// reduced matrix for the remaining CLI dimensions, over five representative trees
	// (empty source, one empty directory, a directory source, a mixed tree, the nesting chain):
	//   stdin redirected from the regular file x version x wrap
	//   extraction into the current directory x version x wrap x {file, pipe, redirected file}
	//   --version omitted x wrap x {file, pipe}
	//   source spelled src/, ./src, absolute x version x wrap
	mixed := []C18Node{
		{Name: "d", Kind: "d", Kids: []C18Node{{Name: "x", Kind: "f", Size: 1}, {Name: "l", Kind: "l", Target: "../m"}, {Name: "ed", Kind: "d"}}},
		{Name: "dang", Kind: "l", Target: "no/where"},
		{Name: "e", Kind: "f", Size: 0},
		{Name: "m", Kind: "f", Size: c18Chunk + 7},
	}
	type rep struct {
		kids   []C18Node
		single bool
	}
	for _, t := range []rep{{nil, false}, {[]C18Node{{Name: "ed", Kind: "d"}}, true}, {mixed[:1], true}, {mixed, false}, {chain, false}} {
		base := C18Case{Kids: t.kids, Single: t.single}
		for _, v := range []int{1, 2} {
			for _, nw := range []bool{false, true} {
				cs := base
				cs.Version, cs.NoWrap = v, nw
				cs.In = "stdinfile"
				emit(cs)
				for _, in := range []string{"file", "pipe", "stdinfile"} {
					cw := base
					cw.Version, cw.NoWrap, cw.Cwd = v, nw, true
					switch in {
					case "pipe":
						cw.Stdin = true
					case "stdinfile":
						cw.In = in
					}
					emit(cw)
				}
				for _, sp := range []string{"slash", "dot", "abs"} {
					cp := base
					cp.Version, cp.NoWrap, cp.Spell = v, nw, sp
					emit(cp)
				}
			}
		}
		for _, nw := range []bool{false, true} {
			for _, stdin := range []bool{false, true} {
				cd := base
				cd.NoWrap, cd.Stdin = nw, stdin // Version 0: flag omitted
				emit(cd)
			}
		}
	}
	// separate sources with spelled paths
	for _, sp := range []string{"slash", "dot", "abs"} {
		emit(C18Case{Kids: mixed, Version: 2, Multi: true, Spell: sp})
		emit(C18Case{Kids: mixed, Version: 1, Multi: true, Spell: sp, Stdin: true})
	}

	// directories large enough to be sharded (HAMT); the archive is checked to contain a shard node
	one := []C18Node{{Name: "a", Kind: "f", Size: 1}}
	if thorough {
		// many short names / fewer long names, as the source directory itself and nested one level
		// below it, under all 8 modes (no-wrap: the HAMT node is the root; wrap: the top entry; nested: an inner directory)
		for _, nest := range []bool{false, true} {
			modesOf(C18Case{Kids: one, Many: c18ShardMany, Nest: nest})
			modesOf(C18Case{Kids: one, Many: c18ShardLong, ManyLen: c18ShardLongLen, Nest: nest})
		}
		emit(C18Case{Kids: one, Version: 2, Many: c18ShardMany, In: "stdinfile", Cwd: true})
		emit(C18Case{Kids: one, Version: 1, NoWrap: true, Many: c18ShardMany, In: "stdinfile"})
	} else {
		// reduced: the long-name variant (1000 files) under 4 of the 16 mode x nesting combinations
		emit(C18Case{Kids: one, Version: 2, Many: c18ShardLong, ManyLen: c18ShardLongLen})
		emit(C18Case{Kids: one, Version: 1, NoWrap: true, Stdin: true, Many: c18ShardLong, ManyLen: c18ShardLongLen})
		emit(C18Case{Kids: one, Version: 2, NoWrap: true, Stdin: true, Many: c18ShardLong, ManyLen: c18ShardLongLen, Nest: true})
		emit(C18Case{Kids: one, Version: 1, Many: c18ShardLong, ManyLen: c18ShardLongLen, Nest: true})
	}
	if thorough {
		// the former below-threshold sibling count stays (a wide unsharded directory)
		emit(C18Case{Kids: one, Version: 2, Many: 1200})
		emit(C18Case{Kids: one, Version: 1, NoWrap: true, Stdin: true, Many: 1200})
		// a file of 176 chunks: more links than fit one interior node (174), i.e. a file DAG of depth 3
		huge := []C18Node{{Name: "huge", Kind: "f", Size: 175*c18Chunk + 1}}
		emit(C18Case{Kids: huge, Version: 1, Stdin: true})
		emit(C18Case{Kids: huge, Version: 2})
		emit(C18Case{Kids: huge, Version: 2, NoWrap: true, Single: true})
		emit(C18Case{Kids: huge, Version: 1, NoWrap: true, Single: true, Stdin: true})
		// 4 entries at the top level only (wider)
		c18Trees(names, kinds[:4], 4, func(kids []C18Node) {
			if len(kids) == 4 {
				emit(C18Case{Kids: kids, Version: 2})
				emit(C18Case{Kids: kids, Version: 1, NoWrap: true, Stdin: true})
			}
		})
	}
}

func init() {
	kit.Register(&kit.Prop{
		ID:     "C18",
		Gen:    genC18,
		Run:    runC18,
		Setup:  func(string) error { return drv.BuildCar() },
		Decode: kit.DecodeAs[C18Case],
		Rule: "every directory tree with up to N entries over names {a, b, ü, 'a b'} x kinds {empty file, 1-byte file, directory, symlink to a sibling, dangling symlink, symlink with a non-canonical target (./b/../a/)} " +
			"x --version {1,2} x --no-wrap x extraction from file / stdin pipe x source {directory, single entry, several entries as separate sources}; " +
			"plus, each under all 8 modes (and as single source where it is one entry): files of 91/92/16347/16348 bytes (section length varint widths), chunk-1/chunk/chunk+1/2*chunk/3*chunk+5 bytes, an all-zero 3-chunk file, equal files under different names, a file whose bytes are the dag-pb encoding of an empty directory of the same tree (same multihash under two codecs; both name orders), a nesting chain of depth 6, " +
			"odd names {.h, 255-byte ASCII, 255-byte multibyte, a\\b, -x, n<newline>l} at depth 1-3 as file/directory/symlink (also as single and separate sources) and all side by side; " +
			"reduced matrix over 5 representative trees (empty source, single empty directory, single directory, mixed tree, chain): stdin redirected from a regular file, extraction into the cwd without an output argument x {file, pipe, redirected file}, --version omitted, source spelled src/ ./src absolute (also for separate sources); " +
			"HAMT-sharded directories (witnessed by a shard node in the archive): quick 1000 siblings with 230-byte names under 4 mode/nesting combinations; thorough 6000 short-named and 1000 long-named siblings x all 8 modes x {source directory, nested directory}, a 1200-entry unsharded directory, a 176-chunk file (file DAG of depth 3, also as bare --no-wrap file), all 4-wide top levels; " +
			"packed and extracted by the REAL car binary (each invocation under a 10 min hang guard); oracle: the whole output directory equals the tree the model describes (names, contents, link targets, empty directories; nothing else in it) under the documented mapping, extract exits 0, or non-zero (any code, any wording) only for a tree without files/symlinks, " +
			"a bare multi-chunk file packed --no-wrap, when extracted at all, extracts to exactly one file with the source's content, archive well-formed, of the version requested with --version, with exactly one root that is stored and equal (as a CID) to the first token `car root` prints; " +
			"recorded as beyond-statement outcomes, not judged: a changed source, entries left next to the source, the version chosen when --version is omitted, exit code/wording of the empty-tree report, a bare file that is not extracted; non-trivial = tree with >= 2 entries",
		Bound: func(tier string) map[string]any {
			b := map[string]any{"entries": 2, "names": 4, "kinds": 6, "odd_names": 6, "file_sizes": 12, "max_file_bytes": 3*c18Chunk + 5, "shard_siblings": c18ShardLong, "shard_modes": 4, "cli_variant_trees": 5}
			if tier == "thorough" {
				b["entries"] = 3
				b["max_file_bytes"] = 175*c18Chunk + 1
				b["shard_siblings"] = c18ShardMany
				b["shard_modes"] = 32
			}
			return b
		},
		Assumptions: []string{
			"permissions, ownership and timestamps are not compared (the property states names, contents and link targets)",
			"a bare symlink or single-block file (raw root) packed with --no-wrap has no name to extract to and is not compared; a bare multi-chunk file is compared by content only when car extract writes it (the name it gets is not asserted; declining to extract it is recorded as an outcome)",
			"the output directory exists before car extract runs and the archive path does not exist before car create runs",
			"source paths are spelled so that their base name is the entry's name (src, src/, ./src, absolute); '.', '..' and non-UTF-8 names are not enumerated",
			"the number in car extract's 'extracted N file(s)' message is not asserted (not part of the property statement)",
			"exit codes and message texts are not asserted beyond: create exits 0, car root exits 0, extract exits 0 for a tree with files or symlinks",
			"--version omitted: the version of the archive is recorded, not asserted (the statement quantifies over --version {1,2})",
			"side effects outside the output directory (source tree, entries next to it) are recorded as beyond-statement outcomes",
		},
	})
}
