package props

import (
	"bytes"
	"fmt"
	"io"
	"sort"
	"strings"

	carv2 "github.com/ipld/go-car/v2"

	"verif/drv"
	"verif/kit"
	"verif/refcar"
)

type C13Mut struct {
	Kind string `json:"kind"` // set, trunc
	Pos  int    `json:"pos"`
	Val  int    `json:"val,omitempty"`
}

type C13Case struct {
	Roots   string   `json:"roots"`
	Seq     []string `json:"seq"`
	Cont    string   `json:"cont"` // v1 v1null v2 v2idx v2idxpad
	ZeroEOF bool     `json:"zeroeof,omitempty"`
	MaxSect uint64   `json:"maxsect,omitempty"`
	Mut     *C13Mut  `json:"mut,omitempty"`
}

// scanStats is what a verifying scan yields, rendered canonically.
type scanStats struct {
	ok          bool
	roots       [][]byte
	cidLens     []int
	blkLens     []int
	codecs      map[uint64]uint64
	mhs         map[uint64]uint64
	rootPresent bool
}

func statsOf(roots [][]byte, blocks []refcar.Block) scanStats {
	s := scanStats{ok: true, roots: roots, codecs: map[uint64]uint64{}, mhs: map[uint64]uint64{}}
	present := map[string]bool{}
	for _, b := range blocks {
		ci, err := refcar.ParseCID(b.Cid)
		if err != nil {
			// a CID go-cid accepts but the reference parser does not: ambiguous
			s.ok = false
			return s
		}
		s.cidLens = append(s.cidLens, len(b.Cid))
		s.blkLens = append(s.blkLens, len(b.Data))
		s.codecs[ci.Codec]++
		s.mhs[ci.MhCode]++
		present[string(b.Cid)] = true
	}
	s.rootPresent = true
	for _, r := range roots {
		if !present[string(r)] {
			s.rootPresent = false
		}
	}
	return s
}

func minAvgMax(l []int) (uint64, uint64, uint64) {
	if len(l) == 0 {
		return 0, 0, 0
	}
	mn, mx, sum := l[0], l[0], 0
	for _, v := range l {
		if v < mn {
			mn = v
		}
		if v > mx {
			mx = v
		}
		sum += v
	}
	return uint64(mn), uint64(sum / len(l)), uint64(mx)
}

func countsStr(m map[uint64]uint64) string {
	var ks []uint64
	for k := range m {
		ks = append(ks, k)
	}
	sort.Slice(ks, func(i, j int) bool { return ks[i] < ks[j] })
	var sb strings.Builder
	for _, k := range ks {
		fmt.Fprintf(&sb, "%x:%d,", k, m[k])
	}
	return sb.String()
}

func c13Check(x *kit.Ctx, cs C13Case, input []byte, mut *C13Mut) {
	o := drv.Opts{ZeroEOF: cs.ZeroEOF, MaxSect: cs.MaxSect}
	rc := C13Case{cs.Roots, cs.Seq, cs.Cont, cs.ZeroEOF, cs.MaxSect, mut}
	rd, err := carv2.NewReader(bytes.NewReader(input), o.List()...)
	x.Eval(1)
	if err != nil {
		x.Outcome("not-a-container")
		return
	}
	st, ierr := rd.Inspect(true)
	// The payload window as the Reader defines it (fixed-offset v2 header), computed here
	// from the bytes; both scans below run over exactly this window.
	window := input
	if rd.Version == 2 {
		h := refcar.ParseV2Header(input[11:51])
		if h.DataOffset > uint64(len(input)) {
			window = nil
		} else {
			window = input[h.DataOffset:]
			if h.DataSize < uint64(len(window)) {
				window = window[:h.DataSize]
			}
		}
	}
	// the hash-verifying scan of all blocks (library's BlockReader over the window)
	sr := drv.Read("br-bytes", x.Dir, window, o)
	x.Transition(len(sr.Blocks) + 2)
	scanOK := sr.OpenErr == nil && sr.Err == nil
	// independent scan of the same payload window
	refOK, refSame := c13RefScan(window, cs.ZeroEOF, cs.MaxSect, sr)
	if refOK != scanOK || (scanOK && !refSame) {
		x.Outcome("oracle-ambiguous")
		x.Count("oracle_ambiguous", 1)
		return
	}
	// index codec readable when the header claims an index
	idxOK := true
	var idxCodec uint64
	if rd.Version == 2 && rd.Header.IndexOffset != 0 {
		off := rd.Header.IndexOffset
		if off > uint64(len(input)) {
			idxOK = false
		} else if c, _, err := refcar.Uvarint(input[off:]); err != nil {
			idxOK = false
		} else {
			idxCodec = c
		}
	}
	want := scanOK && idxOK
	if (ierr == nil) != want {
		x.FailCase(rc, fmt.Sprintf("c13:verdict:inspect=%v:scan=%v:index=%v", ierr == nil, scanOK, idxOK), "Inspect(true) err=%v but verifying scan ok=%v (open=%v err=%v) index codec readable=%v", ierr, scanOK, sr.OpenErr, sr.Err, idxOK)
		return
	}
	if !want {
		x.Outcome("both-reject")
		return
	}
	x.Outcome("both-accept")
	x.Nontrivial(fmt.Sprintf("%x", input))
	ss := statsOf(sr.Roots, sr.Blocks)
	if !ss.ok {
		x.Count("oracle_ambiguous", 1)
		return
	}
	bad := func(what string, got, w any) {
		x.FailCase(rc, "c13:stat:"+what, "Inspect reports %s=%v, the scan gives %v", what, got, w)
	}
	if st.Version != rd.Version {
		bad("version", st.Version, rd.Version)
	}
	if rd.Version == 2 {
		h := refcar.ParseV2Header(input[11:51])
		if st.Header.DataOffset != h.DataOffset || st.Header.DataSize != h.DataSize || st.Header.IndexOffset != h.IndexOffset || st.Header.Characteristics.Hi != h.CharHi || st.Header.Characteristics.Lo != h.CharLo {
			bad("header", st.Header, h)
		}
	}
	if !sameRoots(rawRootsOf(st), ss.roots) {
		bad("roots", rawRootsOf(st), ss.roots)
	}
	if st.RootsPresent != ss.rootPresent {
		bad("roots-present", st.RootsPresent, ss.rootPresent)
	}
	if st.BlockCount != uint64(len(ss.cidLens)) {
		bad("block-count", st.BlockCount, len(ss.cidLens))
	}
	mn, av, mx := minAvgMax(ss.cidLens)
	if st.MinCidLength != mn || st.AvgCidLength != av || st.MaxCidLength != mx {
		bad("cid-lengths", []uint64{st.MinCidLength, st.AvgCidLength, st.MaxCidLength}, []uint64{mn, av, mx})
	}
	mn, av, mx = minAvgMax(ss.blkLens)
	if st.MinBlockLength != mn || st.AvgBlockLength != av || st.MaxBlockLength != mx {
		bad("block-lengths", []uint64{st.MinBlockLength, st.AvgBlockLength, st.MaxBlockLength}, []uint64{mn, av, mx})
	}
	gc := map[uint64]uint64{}
	for k, v := range st.CodecCounts {
		gc[uint64(k)] = v
	}
	if countsStr(gc) != countsStr(ss.codecs) {
		bad("codec-counts", countsStr(gc), countsStr(ss.codecs))
	}
	gm := map[uint64]uint64{}
	for k, v := range st.MhTypeCounts {
		gm[uint64(k)] = v
	}
	if countsStr(gm) != countsStr(ss.mhs) {
		bad("mh-counts", countsStr(gm), countsStr(ss.mhs))
	}
	if uint64(st.IndexCodec) != idxCodec {
		bad("index-codec", uint64(st.IndexCodec), idxCodec)
	}
}

func rawRootsOf(st carv2.Stats) [][]byte {
	out := [][]byte{}
	for _, c := range st.Roots {
		out = append(out, c.Bytes())
	}
	return out
}

// c13RefScan scans the payload window with the reference codec (lenient about the inner
// header's version, as the format's section scan is) and compares with the library scan.
func c13RefScan(window []byte, zeroEOF bool, maxSect uint64, lib *drv.ReadResult) (ok bool, same bool) {
	pl, err := refcar.ScanPayload(window, zeroEOF, true)
	if err != nil {
		return false, false
	}
	if maxSect == 0 {
		maxSect = 8 << 20
	}
	for _, s := range pl.Sections {
		if uint64(len(s.Cid)+len(s.Data)) > maxSect {
			return false, false
		}
	}
	if len(pl.Sections) != len(lib.Blocks) || pl.HeaderOK && !sameRoots(pl.Header.Roots, lib.Roots) && !(len(pl.Header.Roots) == 0 && len(lib.Roots) == 0) {
		return true, false
	}
	for i, s := range pl.Sections {
		if !bytes.Equal(s.Cid, lib.Blocks[i].Cid) || !bytes.Equal(s.Data, lib.Blocks[i].Data) {
			return true, false
		}
	}
	return true, true
}

var c13Vals = []int{0x00, 0x01, 0x7f, 0x80, 0xff, -1, -2} // -1: +1, -2: -1

func runC13(c any, x *kit.Ctx) {
	cs := c.(C13Case)
	_, rootRaws, nilRoots := kit.Roots(cs.Roots)
	var rb []refcar.Block
	for _, b := range kit.Bs(cs.Seq) {
		rb = append(rb, b.Ref())
	}
	payload := refcar.EncodeV1(rootRaws, nilRoots, rb)
	pl, err := refcar.DecodePayload(payload, false, true)
	if err != nil {
		panic(err)
	}
	var file []byte
	switch cs.Cont {
	case "v1":
		file = payload
	case "v1null":
		file = append(append([]byte{}, payload...), 0, 0, 0)
	case "v2":
		file = refcar.EncodeV2(payload, 0, 0, nil, false)
	case "v2idx":
		file = refcar.EncodeV2(payload, 0, 0, refcar.EncodeIndex(refcar.CodecMhIndexSorted, refcar.RecordsOf(pl, false)), false)
	case "v2idxpad":
		file = refcar.EncodeV2(payload, 2, 1, refcar.EncodeIndex(refcar.CodecIndexSorted, refcar.RecordsOf(pl, false)), false)
	}
	apply := func(m C13Mut) []byte {
		if m.Kind == "trunc" {
			return file[:m.Pos]
		}
		out := append([]byte{}, file...)
		switch m.Val {
		case -1:
			out[m.Pos]++
		case -2:
			out[m.Pos]--
		default:
			out[m.Pos] = byte(m.Val)
		}
		return out
	}
	if cs.Mut != nil {
		c13Check(x, cs, apply(*cs.Mut), cs.Mut)
		return
	}
	c13Check(x, cs, file, nil)
	n := 0
	for p := 0; p < len(file); p++ {
		for _, v := range c13Vals {
			if v >= 0 && int(file[p]) == v {
				continue
			}
			m := C13Mut{Kind: "set", Pos: p, Val: v}
			c13Check(x, cs, apply(m), &m)
			n++
		}
		m := C13Mut{Kind: "trunc", Pos: p}
		c13Check(x, cs, apply(m), &m)
		n++
	}
	x.Count("mutants", n)
	x.State(fmt.Sprintf("%s|%v|%d|%x", cs.Cont, cs.ZeroEOF, cs.MaxSect, file))
	_ = io.EOF
}

func genC13(tier string, emit func(any)) {
	names := []string{"a", "e", "a0", "i", "s", "t"}
	maxLen := 2
	if tier == "thorough" {
		names = append(names, "b", "a'", "t", "k", "ia")
		maxLen = 2
	}
	var seqs [][]string
	kit.Seqs(names, maxLen, func(s []string) { seqs = append(seqs, s) })
	seqs = append(seqs, []string{"L128"}, []string{"a", "b", "a"})
	if tier == "thorough" {
		seqs = append(seqs, []string{"a", "s", "e", "a0"}, []string{"L127", "L128"})
	}
	for _, sq := range seqs {
		for _, rs := range []string{"a", "aa", "ab", "empty", "absent"} {
			if tier != "thorough" && rs != "a" && len(sq) > 1 {
				continue
			}
			for _, cont := range []string{"v1", "v2", "v2idx", "v2idxpad", "v1null"} {
				for _, z := range []bool{false, true} {
					// section size limits: default, exactly the largest section, one below
					largest := uint64(0)
					for _, n := range sq {
						b := kit.B(n)
						if l := uint64(len(b.Raw) + len(b.Data)); l > largest {
							largest = l
						}
					}
					limits := []uint64{0}
					if largest > 1 {
						limits = append(limits, largest, largest-1)
					}
					for _, ms := range limits {
						emit(C13Case{Roots: rs, Seq: sq, Cont: cont, ZeroEOF: z, MaxSect: ms})
					}
				}
			}
		}
	}
}

func init() {
	kit.Register(&kit.Prop{
		ID:     "C13",
		Gen:    genC13,
		Run:    runC13,
		Decode: kit.DecodeAs[C13Case],
		Rule: "every seed archive up to the bound (CARv1, null-padded, CARv2 with/without index, padded; root lists incl. duplicate and absent roots) with 0 deviations and EVERY 1-deviation neighbour (each byte set to 00/01/7f/80/ff/+1/-1, every truncation) x ZeroLengthSectionAsEOF x section-size limit {default, exact, exact-1}; " +
			"for each input NewReader accepts, Inspect(true) is compared with the hash-verifying scan (library BlockReader, cross-checked by the reference scan; disagreements between the two scans are counted as oracle-ambiguous and excluded); non-trivial = distinct input accepted by both",
		Bound: func(tier string) map[string]any {
			return map[string]any{"deviations": 1, "byte_values": 7, "truncations": "all offsets"}
		},
		Assumptions: []string{"the corruption half is a coverage statement over the 1-deviation neighbourhood of the seeds, not over all byte strings", "inputs on which the two scans disagree (e.g. inner header version != 1) are excluded as oracle-ambiguous and counted in coverage.oracle_ambiguous"},
	})
}
