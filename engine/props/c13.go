package props

import (
	"bytes"
	"crypto/sha256"
	"fmt"
	"io"
	"os"
	"path/filepath"
	"sort"
	"strings"
	"sync"

	"github.com/ipfs/go-cid"
	"github.com/ipld/go-car/cmd/car/lib"
	carv2 "github.com/ipld/go-car/v2"
	"github.com/multiformats/go-multicodec"

	"verif/drv"
	"verif/kit"
	"verif/refcar"
)

type C13Mut struct {
	Kind string `json:"kind"` // set, trunc
	Pos  int    `json:"pos"`
	Val  int    `json:"val,omitempty"`
}

type C13Case struct {
	Roots   string   `json:"roots"`
	Seq     []string `json:"seq"`
	Cont    string   `json:"cont"` // v1 v1null v2 v2idx v2idxpad v2null v2trail
	ZeroEOF bool     `json:"zeroeof,omitempty"`
	MaxSect uint64   `json:"maxsect,omitempty"`
	MaxHdr  uint64   `json:"maxhdr,omitempty"`
	// Files: 0 = in-memory sources only; 1 = the file-backed entry points also run: NewReader over
	// *os.File and OpenReader (mmap) on the seed and on every truncation, *os.File and
	// cmd/car/lib.InspectCar also on every mutant the scan accepts (in the cases whose ZeroEOF equals the
	// one InspectCar itself reads with, see c13LibZeroEOF); 2 = all three on every input NewReader accepts.
	Files int `json:"files,omitempty"`
	// Vars: also observe every judged input through the in-memory source kinds and call orders.
	Vars bool `json:"vars,omitempty"`
	// MutSet: "" = every byte position is mutated/truncated; "struct" = only structural positions
	// (everything except the interior of block data; see c13Positions).
	MutSet string  `json:"mutset,omitempty"`
	Mut    *C13Mut `json:"mut,omitempty"`
}

// scanStats is what a verifying scan yields, rendered canonically.
type scanStats struct {
	ok          bool
	roots       [][]byte
	cidLens     []int
	blkLens     []int
	codecs      map[uint64]uint64
	mhs         map[uint64]uint64
	rootPresent bool
}

func statsOf(roots [][]byte, blocks []refcar.Block) scanStats {
	s := scanStats{ok: true, roots: roots, codecs: map[uint64]uint64{}, mhs: map[uint64]uint64{}}
	present := map[string]bool{}
	for _, b := range blocks {
		ci, err := refcar.ParseCID(b.Cid)
		if err != nil {
			// a CID go-cid accepts but the reference parser does not: ambiguous
			s.ok = false
			return s
		}
		s.cidLens = append(s.cidLens, len(b.Cid))
		s.blkLens = append(s.blkLens, len(b.Data))
		s.codecs[ci.Codec]++
		s.mhs[ci.MhCode]++
		present[string(b.Cid)] = true
	}
	s.rootPresent = true
	for _, r := range roots {
		if !present[string(r)] {
			s.rootPresent = false
		}
	}
	return s
}

func minAvgMax(l []int) (uint64, uint64, uint64) {
	if len(l) == 0 {
		return 0, 0, 0
	}
	mn, mx, sum := l[0], l[0], 0
	for _, v := range l {
		if v < mn {
			mn = v
		}
		if v > mx {
			mx = v
		}
		sum += v
	}
	return uint64(mn), uint64(sum / len(l)), uint64(mx)
}

func countsStr(m map[uint64]uint64) string {
	var ks []uint64
	for k := range m {
		ks = append(ks, k)
	}
	sort.Slice(ks, func(i, j int) bool { return ks[i] < ks[j] })
	var sb strings.Builder
	for _, k := range ks {
		fmt.Fprintf(&sb, "%x:%d,", k, m[k])
	}
	return sb.String()
}

func codeCounts(m map[multicodec.Code]uint64) map[uint64]uint64 {
	g := map[uint64]uint64{}
	for k, v := range m {
		g[uint64(k)] = v
	}
	return g
}

// c13Oracle is everything the verifying scan (and the bytes of the input) say about one input.
type c13Oracle struct {
	input    []byte
	version  uint64 // from the bytes (reference header decode) when verOK, else the Reader's
	verOK    bool
	hdr      refcar.V2Header // version 2 only, from the bytes
	scanOK   bool
	idxOK    bool
	idxCodec uint64
	want     bool // scanOK && idxOK
	ss       scanStats
	sr       *drv.ReadResult
}

// c13RefVersion decodes the first length-prefixed header of the input (CARv1 header or CARv2
// pragma) with the reference codec and returns its version.
func c13RefVersion(input []byte) (uint64, bool) {
	hl, n, err := refcar.Uvarint(input)
	if err != nil || hl > uint64(len(input)-n) {
		return 0, false
	}
	h, err := refcar.DecodeHeaderBody(input[n : n+int(hl)])
	if err != nil {
		return 0, false
	}
	return h.Version, true
}

// c13Judge compares one observation of Inspect (primary or a source/call-order variant) with
// the oracle. tag "" is the primary observation (bytes.Reader, one call on a fresh Reader).
func c13Judge(x *kit.Ctx, rc C13Case, tag string, o *c13Oracle, st carv2.Stats, ierr error) (ok bool) {
	ok = true
	prefix := "c13:"
	if tag != "" {
		prefix = "c13:" + tag + ":"
	}
	if (ierr == nil) != o.want {
		x.FailCase(rc, fmt.Sprintf("%sverdict:inspect=%v:scan=%v:index=%v", prefix, ierr == nil, o.scanOK, o.idxOK), "[%s] Inspect err=%v but verifying scan ok=%v (open=%v err=%v) index codec readable=%v", tag, ierr, o.scanOK, o.sr.OpenErr, o.sr.Err, o.idxOK)
		return false
	}
	if !o.want || !o.ss.ok {
		return
	}
	ss := o.ss
	bad := func(what string, got, w any) {
		ok = false
		x.FailCase(rc, prefix+"stat:"+what, "[%s] Inspect reports %s=%v, the scan gives %v", tag, what, got, w)
	}
	if st.Version != o.version {
		bad("version", st.Version, o.version)
	}
	if o.version == 2 {
		h := o.hdr
		if st.Header.DataOffset != h.DataOffset || st.Header.DataSize != h.DataSize || st.Header.IndexOffset != h.IndexOffset || st.Header.Characteristics.Hi != h.CharHi || st.Header.Characteristics.Lo != h.CharLo {
			bad("header", st.Header, h)
		}
	} else if st.Header != (carv2.Header{}) {
		// documented: "A CARv1 will return an uninitialized Header value"
		bad("header", st.Header, "zero Header for a CARv1")
	}
	if !sameRoots(rawRootsOf(st), ss.roots) {
		bad("roots", rawRootsOf(st), ss.roots)
	}
	if st.RootsPresent != ss.rootPresent {
		bad("roots-present", st.RootsPresent, ss.rootPresent)
	}
	if st.BlockCount != uint64(len(ss.cidLens)) {
		bad("block-count", st.BlockCount, len(ss.cidLens))
	}
	mn, av, mx := minAvgMax(ss.cidLens)
	if st.MinCidLength != mn || st.AvgCidLength != av || st.MaxCidLength != mx {
		bad("cid-lengths", []uint64{st.MinCidLength, st.AvgCidLength, st.MaxCidLength}, []uint64{mn, av, mx})
	}
	mn, av, mx = minAvgMax(ss.blkLens)
	if st.MinBlockLength != mn || st.AvgBlockLength != av || st.MaxBlockLength != mx {
		bad("block-lengths", []uint64{st.MinBlockLength, st.AvgBlockLength, st.MaxBlockLength}, []uint64{mn, av, mx})
	}
	if g := countsStr(codeCounts(st.CodecCounts)); g != countsStr(ss.codecs) {
		bad("codec-counts", g, countsStr(ss.codecs))
	}
	if g := countsStr(codeCounts(st.MhTypeCounts)); g != countsStr(ss.mhs) {
		bad("mh-counts", g, countsStr(ss.mhs))
	}
	if uint64(st.IndexCodec) != o.idxCodec {
		bad("index-codec", uint64(st.IndexCodec), o.idxCodec)
	}
	return
}

// c13JudgeReport compares the Report of cmd/car/lib.InspectCar (full validation) with the oracle.
func c13JudgeReport(x *kit.Ctx, rc C13Case, o *c13Oracle, rep *lib.Report, err error) {
	const prefix = "c13:report:"
	if (err == nil) != o.want {
		x.FailCase(rc, fmt.Sprintf("%sverdict:inspect=%v:scan=%v:index=%v", prefix, err == nil, o.scanOK, o.idxOK), "lib.InspectCar(full) err=%v but verifying scan ok=%v (open=%v err=%v) index codec readable=%v", err, o.scanOK, o.sr.OpenErr, o.sr.Err, o.idxOK)
		return
	}
	if !o.want || !o.ss.ok {
		return
	}
	ss := o.ss
	bad := func(what string, got, w any) {
		x.FailCase(rc, prefix+what, "lib.InspectCar reports %s=%v, the scan gives %v", what, got, w)
	}
	if rep.Version != int(o.version) {
		bad("version", rep.Version, o.version)
	}
	// The report names the roots as strings. The statement fixes which CIDs they are, not the
	// multibase they are printed in: every entry must decode to the scan's root at that position.
	var wantRoots []string
	for _, r := range ss.roots {
		c, cerr := cid.Cast(r)
		if cerr != nil {
			return
		}
		wantRoots = append(wantRoots, c.String())
	}
	rootsOK := len(rep.Roots) == len(ss.roots)
	for i := 0; rootsOK && i < len(rep.Roots); i++ {
		c, derr := cid.Decode(rep.Roots[i])
		rootsOK = derr == nil && bytes.Equal(c.Bytes(), ss.roots[i])
	}
	if !rootsOK {
		bad("roots", []string(rep.Roots), wantRoots)
	} else if strings.Join(rep.Roots, ",") != strings.Join(wantRoots, ",") {
		x.Outcome("beyond-statement:report-roots-text")
	}
	if rep.RootsPresent != ss.rootPresent {
		bad("roots-present", rep.RootsPresent, ss.rootPresent)
	}
	if rep.BlockCount != uint64(len(ss.cidLens)) {
		bad("block-count", rep.BlockCount, len(ss.cidLens))
	}
	mn, av, mx := minAvgMax(ss.cidLens)
	if rep.CidLength != (lib.Stat{Min: mn, Mean: av, Max: mx}) {
		bad("cid-lengths", rep.CidLength, []uint64{mn, av, mx})
	}
	mn, av, mx = minAvgMax(ss.blkLens)
	if rep.BlkLength != (lib.Stat{Min: mn, Mean: av, Max: mx}) {
		bad("block-lengths", rep.BlkLength, []uint64{mn, av, mx})
	}
	if g := countsStr(codeCounts(rep.Codecs)); g != countsStr(ss.codecs) {
		bad("codec-counts", g, countsStr(ss.codecs))
	}
	if g := countsStr(codeCounts(rep.Hashes)); g != countsStr(ss.mhs) {
		bad("mh-counts", g, countsStr(ss.mhs))
	}
	if o.version == 2 {
		if !bytes.Equal(rep.Characteristics, o.input[11:27]) {
			bad("characteristics", fmt.Sprintf("%x", rep.Characteristics), fmt.Sprintf("%x", o.input[11:27]))
		}
		if rep.DataOffset != o.hdr.DataOffset {
			bad("data-offset", rep.DataOffset, o.hdr.DataOffset)
		}
		if rep.DataLength != o.hdr.DataSize {
			bad("data-length", rep.DataLength, o.hdr.DataSize)
		}
		if rep.IndexOffset != o.hdr.IndexOffset {
			bad("index-offset", rep.IndexOffset, o.hdr.IndexOffset)
		}
		// Report.IndexType is a rendering of the index codec. The statement fixes the codec (judged
		// as a number through Stats.IndexCodec in the osfile observation of this same file), not
		// its text: the rendering only has to tell the codecs apart, consistently over the run.
		if other, clash := c13IdxText.note(o.idxCodec, rep.IndexType); clash != "" {
			bad("index-type", fmt.Sprintf("%q for codec %#x", rep.IndexType, o.idxCodec), clash+" "+other)
		}
		wantIdx := "(none)"
		if o.idxCodec != 0 {
			wantIdx = multicodec.Code(o.idxCodec).String()
		}
		if rep.IndexType != wantIdx {
			x.Outcome("beyond-statement:report-index-type-text")
		}
	}
	// the rendered report names every root (as the report spells it) as often as the header lists it
	txt := rep.String()
	mult := map[string]int{}
	for _, r := range rep.Roots {
		mult[r]++
	}
	for r, n := range mult {
		if strings.Count(txt, r) < n {
			bad("roots-string", fmt.Sprintf("%q", rep.Roots.String()), wantRoots)
		}
	}
}

// c13IdxText records, over the whole run, how lib.InspectCar's Report spells each index codec
// (0 = no index). A codec spelled in two ways, or two codecs spelled alike, is a report that does
// not state the index codec; the exact spelling is not part of the statement.
var c13IdxText = &c13IdxTexts{byCodec: map[uint64]string{}, byText: map[string]uint64{}}

type c13IdxTexts struct {
	mu      sync.Mutex
	byCodec map[uint64]string
	byText  map[string]uint64
}

func (t *c13IdxTexts) note(codec uint64, text string) (other, clash string) {
	t.mu.Lock()
	defer t.mu.Unlock()
	if prev, ok := t.byCodec[codec]; ok && prev != text {
		return fmt.Sprintf("%q", prev), "the same codec was reported earlier as"
	}
	if c, ok := t.byText[text]; ok && c != codec {
		return fmt.Sprintf("%#x", c), "the same text was reported earlier for codec"
	}
	t.byCodec[codec], t.byText[text] = text, codec
	return "", ""
}

// c13LibZeroEOF tells whether cmd/car/lib.InspectCar reads with ZeroLengthSectionAsEOF: which
// options InspectCar hard-codes is not part of the statement, only that its verdict and report
// agree with the scan made under the same options. Probed once per process, per CAR version, on a fixed
// valid null-padded archive (handle positioned at the end of the file, see the C19 note in c13Files).
var c13LibZeroEOF = func() func(dir string, version int) bool {
	var once sync.Once
	zero := map[int]bool{}
	return func(dir string, version int) bool {
		once.Do(func() {
			for v, cont := range map[int]string{1: "v1null", 2: "v2null"} {
				file, _, _, _, _ := c13Build(C13Case{Roots: "a", Seq: []string{"a"}, Cont: cont})
				f, err := os.CreateTemp(dir, "c13-libprobe-*.car")
				if err != nil {
					panic(err)
				}
				if _, err := f.Write(file); err != nil {
					panic(err)
				}
				_, ierr := lib.InspectCar(f, true)
				zero[v] = ierr == nil
				f.Close()
				os.Remove(f.Name())
			}
		})
		return zero[version]
	}
}()

// c13Check judges one input. It returns the outcome class of the primary observation.
func c13Check(x *kit.Ctx, cs C13Case, cf *c13File, input []byte, mut *C13Mut) string {
	o := drv.Opts{ZeroEOF: cs.ZeroEOF, MaxSect: cs.MaxSect, MaxHeader: cs.MaxHdr}
	opts := o.List()
	rc := cs
	rc.Mut = mut
	rd, err := carv2.NewReader(bytes.NewReader(input), opts...)
	x.Eval(1)
	if err != nil {
		x.Outcome("not-a-container")
		return "not-a-container"
	}
	st, ierr := rd.Inspect(true)

	or := &c13Oracle{input: input}
	// Version and CARv2 header from the bytes, not from the Reader under test. When the reference
	// decoder cannot read a first header that go-car accepted (go-car's CBOR decoding is laxer),
	// the Reader's version is used and the version statistic is only checked for consistency.
	or.version, or.verOK = c13RefVersion(input)
	if !or.verOK {
		or.version = rd.Version
		x.Count("version_not_reference_decodable", 1)
	} else if or.version != rd.Version {
		x.FailCase(rc, "c13:stat:version", "Reader.Version=%d but the first header of the input says version %d", rd.Version, or.version)
		return "fail"
	}
	// The payload window as the format defines it (fixed-offset v2 header), computed here
	// from the bytes; both scans below run over exactly this window.
	window := input
	if or.version == 2 {
		or.hdr = refcar.ParseV2Header(input[11:51])
		h := or.hdr
		if h.DataOffset > uint64(len(input)) {
			window = nil
		} else {
			window = input[h.DataOffset:]
			if h.DataSize < uint64(len(window)) {
				window = window[:h.DataSize]
			}
		}
	}
	// the hash-verifying scan of all blocks (library's BlockReader over the window)
	sr := drv.Read("br-bytes", x.Dir, window, o)
	or.sr = sr
	x.Transition(len(sr.Blocks) + 2)
	or.scanOK = sr.OpenErr == nil && sr.Err == nil
	// independent scan of the same payload window
	refOK, refSame := c13RefScan(window, cs.ZeroEOF, cs.MaxSect, cs.MaxHdr, sr)
	if refOK != or.scanOK || (or.scanOK && !refSame) {
		x.Outcome("oracle-ambiguous")
		x.Count("oracle_ambiguous", 1)
		return "oracle-ambiguous"
	}
	// index codec readable when the header claims an index
	or.idxOK = true
	if or.version == 2 && or.hdr.IndexOffset != 0 {
		off := or.hdr.IndexOffset
		if off > uint64(len(input)) {
			or.idxOK = false
		} else if c, _, err := refcar.Uvarint(input[off:]); err != nil {
			or.idxOK = false
		} else {
			or.idxCodec = c
		}
	}
	or.want = or.scanOK && or.idxOK
	if or.want {
		or.ss = statsOf(sr.Roots, sr.Blocks)
		if !or.ss.ok {
			x.Count("oracle_ambiguous", 1)
		}
	}

	// ---- further observations, all made before anything is judged (so that a later call that
	// corrupts an earlier result through shared state is seen)
	type obs struct {
		tag string
		st  carv2.Stats
		err error
	}
	var more []obs
	if cs.Vars {
		// call order / state across calls, on the bytes.Reader source
		st2, ierr2 := rd.Inspect(true) // second call on the same Reader
		more = append(more, obs{"twice", st2, ierr2})
		if or.want {
			// skip mode (Seek instead of SumStream): when full validation succeeds, skipping the
			// block data must succeed with the same statistics (third call on the same Reader)
			st3, ierr3 := rd.Inspect(false)
			more = append(more, obs{"nohash", st3, ierr3})
		}
		if r2, err := carv2.NewReader(bytes.NewReader(input), opts...); err == nil {
			r2.Roots() // caches the roots; Inspect must still start at the first section
			s, e := r2.Inspect(true)
			more = append(more, obs{"roots-first", s, e})
		}
		if r3, err := carv2.NewReader(bytes.NewReader(input), opts...); err == nil {
			if dr, err := r3.DataReader(); err == nil {
				var five [5]byte
				dr.Read(five[:])
			}
			s, e := r3.Inspect(true)
			more = append(more, obs{"dr-partial", s, e})
		}
		// source capability kinds (in memory)
		for _, k := range [...]string{"at", "eofat"} {
			var src io.ReaderAt
			if k == "at" {
				src = drv.OnlyReaderAt{R: bytes.NewReader(input)}
			} else {
				src = drv.EOFAt{B: input}
			}
			rk, err := carv2.NewReader(src, opts...)
			if err != nil {
				// not accepted as a container through this source: outside the property (C07's
				// domain), unless it is an unmutated seed
				x.Count("src_open_rejects:"+k, 1)
				if mut == nil {
					x.FailCase(rc, "c13:seed:open:"+k, "NewReader over the %s source rejects the unmutated seed that it accepts over bytes.Reader: %v", k, err)
				}
				continue
			}
			s, e := rk.Inspect(true)
			more = append(more, obs{k, s, e})
		}
	}
	x.Count("inspect_calls", 1+len(more))

	// the other observations are judged only when the primary one is right (a defect of the scan
	// itself would otherwise be reported once per observation)
	if !c13Judge(x, rc, "", or, st, ierr) {
		return "fail"
	}
	for _, m := range more {
		c13Judge(x, rc, m.tag, or, m.st, m.err)
	}
	out := "both-reject"
	if or.want {
		out = "both-accept"
		x.Nontrivial(fmt.Sprintf("%x", input))
	}
	x.Outcome(out)

	// ---- file-backed entry points
	if cs.Files == 2 || (cs.Files == 1 && (mut == nil || mut.Kind == "trunc" || (or.want && cs.ZeroEOF == c13LibZeroEOF(x.Dir, int(or.version))))) {
		c13Files(x, cs, rc, cf, or, opts, cs.Files == 2 || mut == nil || mut.Kind == "trunc")
	}
	return out
}

// c13File is the scratch file of one case, rewritten in place for every input that goes to the
// file-backed entry points.
type c13File struct {
	path string
	f    *os.File
}

func (cf *c13File) set(b []byte) *os.File {
	if cf.f == nil {
		f, err := os.OpenFile(cf.path, os.O_RDWR|os.O_CREATE|os.O_TRUNC, 0o644)
		if err != nil {
			panic(err)
		}
		cf.f = f
	}
	if _, err := cf.f.WriteAt(b, 0); err != nil {
		panic(err)
	}
	if err := cf.f.Truncate(int64(len(b))); err != nil {
		panic(err)
	}
	if _, err := cf.f.Seek(0, io.SeekStart); err != nil {
		panic(err)
	}
	return cf.f
}

func (cf *c13File) close() {
	if cf.f != nil {
		cf.f.Close()
		os.Remove(cf.path)
		cf.f = nil
	}
}

// c13Files drives the entry points that need a file: NewReader over an *os.File, OpenReader
// (mmap; only when withMmap) and cmd/car/lib.InspectCar (which fixes its own options: ZeroLengthSectionAsEOF as probed by c13LibZeroEOF
// and default limits, so it only runs in cases with exactly those options).
func c13Files(x *kit.Ctx, cs, rc C13Case, cf *c13File, or *c13Oracle, opts []carv2.Option, withMmap bool) {
	f := cf.set(or.input) // positioned at offset 0, as a freshly opened file is
	x.Count("file_inputs", 1)
	if rd, err := carv2.NewReader(f, opts...); err != nil {
		x.Count("src_open_rejects:osfile", 1)
		if rc.Mut == nil {
			x.FailCase(rc, "c13:seed:open:osfile", "NewReader over *os.File rejects the unmutated seed: %v", err)
		}
	} else {
		s, e := rd.Inspect(true)
		c13Judge(x, rc, "osfile", or, s, e)
	}
	if withMmap {
		x.Count("mmap_inputs", 1)
		if rd, err := carv2.OpenReader(cf.path, opts...); err != nil {
			x.Count("src_open_rejects:mmap", 1)
			if rc.Mut == nil {
				x.FailCase(rc, "c13:seed:open:mmap", "OpenReader rejects the unmutated seed: %v", err)
			}
		} else {
			s, e := rd.Inspect(true)
			rd.Close()
			c13Judge(x, rc, "mmap", or, s, e)
		}
	}
	if cs.ZeroEOF == c13LibZeroEOF(x.Dir, int(or.version)) && cs.MaxSect == 0 && cs.MaxHdr == 0 {
		rep, err := lib.InspectCar(f, true)
		if or.version == 1 && or.want && err != nil {
			// C19's known finding c19:inspect-full-v1:trailing-data-probe: the probe Reads from the
			// handle's position, which is still 0 because Inspect used ReadAt. Out of C13's scope;
			// hand the file over positioned at its end, where the probe is correct. The error is not
			// recognised by its text: any refusal of a CARv1 the scan accepts is retried this way, and
			// only a refusal that persists is judged.
			if _, serr := f.Seek(0, io.SeekEnd); serr != nil {
				panic(serr)
			}
			if rep2, err2 := lib.InspectCar(f, true); err2 == nil {
				x.Count("c19_trailing_probe_seen", 1)
				rep, err = rep2, nil
			}
		}
		x.Count("report_inputs", 1)
		c13JudgeReport(x, rc, or, rep, err)
	}
}

func rawRootsOf(st carv2.Stats) [][]byte {
	out := [][]byte{}
	for _, c := range st.Roots {
		out = append(out, c.Bytes())
	}
	return out
}

// c13RefScan scans the payload window with the reference codec (lenient about the inner
// header's version, as the format's section scan is) and compares with the library scan.
func c13RefScan(window []byte, zeroEOF bool, maxSect, maxHdr uint64, lib *drv.ReadResult) (ok bool, same bool) {
	pl, err := refcar.ScanPayload(window, zeroEOF, true)
	if err != nil {
		return false, false
	}
	if maxSect == 0 {
		maxSect = 8 << 20
	}
	if maxHdr == 0 {
		maxHdr = 32 << 20
	}
	// the header limit bounds the header body (the length its varint announces)
	if hl, _, err := refcar.Uvarint(window); err != nil || hl > maxHdr {
		return false, false
	}
	for _, s := range pl.Sections {
		if uint64(len(s.Cid)+len(s.Data)) > maxSect {
			return false, false
		}
	}
	if len(pl.Sections) != len(lib.Blocks) || pl.HeaderOK && !sameRoots(pl.Header.Roots, lib.Roots) && !(len(pl.Header.Roots) == 0 && len(lib.Roots) == 0) {
		return true, false
	}
	for i, s := range pl.Sections {
		if !bytes.Equal(s.Cid, lib.Blocks[i].Cid) || !bytes.Equal(s.Data, lib.Blocks[i].Data) {
			return true, false
		}
	}
	return true, true
}

var c13Vals = []int{0x00, 0x01, 0x7f, 0x80, 0xff, -1, -2} // -1: +1, -2: -1

// c13Blk resolves a block name: the shared alphabet plus C13's own additions.
//
//	j : dag-json (codec 0x0129, a two-byte codec varint) sha2-256 block
func c13Blk(name string) refcar.Block {
	if name == "j" {
		data := []byte(`{"j":1}`)
		d := sha256.Sum256(data)
		return refcar.Block{Cid: refcar.CIDv1(0x0129, refcar.MhSha256, d[:]), Data: data}
	}
	return kit.B(name).Ref()
}

// c13Roots resolves a root-set name: the shared root sets plus "i" (one identity-CID root).
func c13Roots(name string) ([][]byte, bool) {
	if name == "i" {
		return [][]byte{kit.B("i").Raw}, false
	}
	_, raws, nilRoots := kit.Roots(name)
	return raws, nilRoots
}

// c13Build lays the seed out. It returns the file, the offset of the payload in it and the
// decoded payload (for the structural positions).
func c13Build(cs C13Case) (file []byte, base int, pl *refcar.Payload, hdrBody uint64, largest uint64) {
	rootRaws, nilRoots := c13Roots(cs.Roots)
	var rb []refcar.Block
	for _, n := range cs.Seq {
		b := c13Blk(n)
		rb = append(rb, b)
		if l := uint64(len(b.Cid) + len(b.Data)); l > largest {
			largest = l
		}
	}
	payload := refcar.EncodeV1(rootRaws, nilRoots, rb)
	pl, err := refcar.DecodePayload(payload, false, true)
	if err != nil {
		panic(err)
	}
	hl, _, _ := refcar.Uvarint(payload)
	hdrBody = hl
	nulled := append(append([]byte{}, payload...), 0, 0, 0)
	switch cs.Cont {
	case "v1":
		file = payload
	case "v1null":
		file = nulled
	case "v2":
		file, base = refcar.EncodeV2(payload, 0, 0, nil, false), 51
	case "v2idx":
		file, base = refcar.EncodeV2(payload, 0, 0, refcar.EncodeIndex(refcar.CodecMhIndexSorted, refcar.RecordsOf(pl, false)), false), 51
	case "v2idxpad":
		file, base = refcar.EncodeV2(payload, 2, 1, refcar.EncodeIndex(refcar.CodecIndexSorted, refcar.RecordsOf(pl, false)), false), 53
	case "v2null":
		// genuine null padding inside DataSize, no index
		file, base = refcar.EncodeV2(nulled, 0, 0, nil, false), 51
	case "v2trail":
		// no index, bytes after the payload window that belong to nothing
		file, base = append(refcar.EncodeV2(payload, 0, 0, nil, false), 0x00, 0x01, 0xff), 51
	default:
		panic("unknown container " + cs.Cont)
	}
	return
}

// c13Positions lists the byte positions that are mutated / truncated at. For MutSet "struct"
// the interior of every block's data is left out: kept are the container framing, the header,
// every section's length varint and CID, the first and last data byte and the data bytes on
// either side of the 32 KiB copy-chunk boundary and of the 64 KiB (16-bit) boundary.
func c13Positions(cs C13Case, file []byte, base int, pl *refcar.Payload) []int {
	skip := map[int]bool{}
	if cs.MutSet == "struct" {
		for _, s := range pl.Sections {
			d0 := base + int(s.Offset+s.Len) - len(s.Data) // first data byte
			for i := 1; i < len(s.Data)-1; i++ {
				if i == 32767 || i == 32768 || i == 65535 || i == 65536 {
					continue
				}
				skip[d0+i] = true
			}
		}
	}
	var out []int
	for p := 0; p < len(file); p++ {
		if !skip[p] {
			out = append(out, p)
		}
	}
	return out
}

// c13SeedClass lists the classes an unmutated seed may fall into, the one current go-car gives
// first (vacuity guard: a regression that makes NewReader reject every seed, or the two scans
// disagree on every seed, must not pass).
func c13SeedClass(cs C13Case, hdrBody, largest uint64) []string {
	v2 := strings.HasPrefix(cs.Cont, "v2")
	switch {
	case cs.MaxHdr != 0 && cs.MaxHdr < hdrBody:
		// The header does not fit the limit, so the seed must be refused; the statement does not say
		// at which stage. Today a CARv1 is not even opened, a CARv2 is (its pragma is 10 bytes) and
		// Inspect refuses; refusing at the other stage is as good.
		if v2 {
			return []string{"both-reject", "not-a-container"}
		}
		return []string{"not-a-container", "both-reject"}
	case cs.MaxSect != 0 && cs.MaxSect < largest:
		return []string{"both-reject"}
	case (cs.Cont == "v1null" || cs.Cont == "v2null") && !cs.ZeroEOF:
		return []string{"both-reject"}
	}
	return []string{"both-accept"}
}

func runC13(c any, x *kit.Ctx) {
	cs := c.(C13Case)
	file, base, pl, hdrBody, largest := c13Build(cs)
	apply := func(m C13Mut) []byte {
		if m.Kind == "trunc" {
			return file[:m.Pos]
		}
		out := append([]byte{}, file...)
		switch m.Val {
		case -1:
			out[m.Pos]++
		case -2:
			out[m.Pos]--
		default:
			out[m.Pos] = byte(m.Val)
		}
		return out
	}
	cf := &c13File{path: filepath.Join(x.Dir, "c13.car")}
	defer cf.close()
	if cs.Mut != nil {
		c13Check(x, cs, cf, apply(*cs.Mut), cs.Mut)
		return
	}
	got := c13Check(x, cs, cf, file, nil)
	if exp := c13SeedClass(cs, hdrBody, largest); got != "fail" {
		legal := false
		for _, e := range exp {
			legal = legal || got == e
		}
		if !legal {
			x.Fail("c13:seed:class:"+exp[0]+":"+got, "the unmutated seed is classified %s, expected %s: the comparison would be vacuous", got, strings.Join(exp, " or "))
		}
	}
	n, amb := 0, 0
	one := func(m C13Mut) {
		if c13Check(x, cs, cf, apply(m), &m) == "oracle-ambiguous" {
			amb++
		}
		n++
	}
	for _, p := range c13Positions(cs, file, base, pl) {
		for _, v := range c13Vals {
			if v >= 0 && int(file[p]) == v {
				continue
			}
			one(C13Mut{Kind: "set", Pos: p, Val: v})
		}
		one(C13Mut{Kind: "trunc", Pos: p})
	}
	// vacuity guard: the inputs excluded because the two scans disagree stay a minority
	if amb*2 > n {
		x.Fail("c13:vacuity:ambiguous", "%d of %d mutants of this seed were excluded as oracle-ambiguous", amb, n)
	}
	x.Count("mutants", n)
	x.State(fmt.Sprintf("%s|%v|%d|%d|%x", cs.Cont, cs.ZeroEOF, cs.MaxSect, cs.MaxHdr, file))
}

var c13Conts = []string{"v1", "v2", "v2idx", "v2idxpad", "v1null", "v2null", "v2trail"}
var c13Conts5 = []string{"v1", "v2", "v2idx", "v2idxpad", "v1null"}

// c13Limits enumerates (MaxSect, MaxHdr) for a seed; L = its largest section, H = its header body.
//
//	none : defaults only                      sect : MaxSect in {default, L, L-1}
//	hdr  : MaxHdr in {H, H-1}                 cross: both set, {L, L-1} x {H, H-1}
func c13Limits(roots string, sq []string, mode string) [][2]uint64 {
	_, _, _, H, L := c13Build(C13Case{Roots: roots, Seq: sq, Cont: "v1"})
	var out [][2]uint64
	for _, m := range strings.Split(mode, "+") {
		switch m {
		case "none":
			out = append(out, [2]uint64{0, 0})
		case "sect":
			out = append(out, [2]uint64{0, 0})
			if L > 1 {
				out = append(out, [2]uint64{L, 0}, [2]uint64{L - 1, 0})
			}
		case "hdr":
			out = append(out, [2]uint64{0, H}, [2]uint64{0, H - 1})
		case "cross":
			if L > 1 {
				out = append(out, [2]uint64{L, H}, [2]uint64{L, H - 1}, [2]uint64{L - 1, H}, [2]uint64{L - 1, H - 1})
			}
		default:
			panic("limit mode " + m)
		}
	}
	return out
}

// c13Group is one explicit sub-product of the enumeration.
type c13Group struct {
	seqs    [][]string
	roots   []string
	conts   []string
	lim     string
	files   func(roots string, sq []string) int  // Files for the default-limit cases (nil = 1)
	varsAll bool                                 // source/call-order variants under every limit (else: default limits only)
	plain   func(roots string, sq []string) bool // seeds that get neither the variants nor the file-backed entry points
	mutSet  string
}

func c13ShortSeqs(seqs [][]string, maxLen int) [][]string {
	var out [][]string
	for _, s := range seqs {
		if len(s) <= maxLen {
			out = append(out, s)
		}
	}
	return out
}

func genC13(tier string, emit func(any)) {
	seen := map[string]bool{}
	run := func(g c13Group) {
		for _, sq := range g.seqs {
			for _, r := range g.roots {
				lims := c13Limits(r, sq, g.lim)
				for _, cont := range g.conts {
					for _, z := range []bool{false, true} {
						for _, l := range lims {
							def := l[0] == 0 && l[1] == 0
							c := C13Case{Roots: r, Seq: sq, Cont: cont, ZeroEOF: z, MaxSect: l[0], MaxHdr: l[1], MutSet: g.mutSet, Vars: def || g.varsAll}
							if g.plain != nil && g.plain(r, sq) {
								c.Vars = false
							} else if def {
								// the file-backed entry points run with default limits only
								c.Files = 1
								if g.files != nil {
									c.Files = g.files(r, sq)
								}
							}
							k := fmt.Sprintf("%s|%v|%s|%v|%d|%d", r, sq, cont, z, l[0], l[1])
							if seen[k] {
								continue
							}
							seen[k] = true
							emit(c)
						}
					}
				}
			}
		}
	}
	seqsOver := func(names []string, extra ...[]string) [][]string {
		var out [][]string
		kit.Seqs(names, 2, func(s []string) { out = append(out, s) })
		return append(out, extra...)
	}
	names6 := []string{"a", "e", "a0", "i", "s", "t"}
	oldRoots := []string{"aa", "ab", "empty", "absent"}
	newConts := []string{"v2null", "v2trail"}
	// multi-root seeds for the roots-present bookkeeping (G8) and the new root shapes
	type rs struct {
		roots string
		seq   []string
	}
	multi := []rs{
		{"ab", []string{"a", "b"}}, {"ab", []string{"b", "a"}}, {"aa", []string{"a", "a"}}, {"absent", []string{"a", "b"}},
		{"r4", []string{"a", "b", "c", "s"}}, {"r4", []string{"s", "c", "b"}}, {"a0", []string{"a", "a0"}},
	}
	if tier != "thorough" {
		seqs6 := seqsOver(names6, []string{"L128"}, []string{"a", "b", "a"})
		// the original matrix; of the 36 two-block sequences only 7 get the variants and file-backed
		// entry points (the thorough tier gives them to all)
		richPairs := map[string]bool{"a,e": true, "e,a": true, "a,s": true, "s,a0": true, "i,t": true, "t,i": true, "a,a": true}
		plain := func(_ string, sq []string) bool { return len(sq) == 2 && !richPairs[strings.Join(sq, ",")] }
		run(c13Group{seqs: seqs6, roots: []string{"a"}, conts: c13Conts5, lim: "sect", plain: plain})
		run(c13Group{seqs: c13ShortSeqs(seqs6, 1), roots: oldRoots, conts: c13Conts5, lim: "sect"})
		// blocks with a multi-byte hash code (k), a multi-byte codec (j), an empty identity digest (i0)
		run(c13Group{seqs: [][]string{{"k"}, {"j"}, {"i0"}}, roots: []string{"a"}, conts: c13Conts5, lim: "sect"})
		run(c13Group{seqs: [][]string{{"a", "j"}, {"j", "k"}, {"k", "a"}, {"i0", "a"}, {"a", "i0"}, {"j", "j"}}, roots: []string{"a"}, conts: []string{"v1", "v2idx"}, lim: "none"})
		// null padding inside DataSize / trailing bytes after an index-less payload
		run(c13Group{seqs: [][]string{{}, {"a"}, {"e"}, {"a0"}, {"i"}, {"s"}, {"t"}, {"k"}, {"j"}, {"i0"}}, roots: []string{"a"}, conts: newConts, lim: "sect"})
		run(c13Group{seqs: [][]string{{"a", "b", "a"}, {"a", "e"}}, roots: []string{"a"}, conts: newConts, lim: "none"})
		// header-size limit (1- and 2-byte header varints)
		run(c13Group{seqs: [][]string{{}, {"a"}, {"e"}}, roots: []string{"a", "empty", "ab", "r4", "s"}, conts: []string{"v1", "v2", "v2idx", "v2null"}, lim: "hdr"})
		run(c13Group{seqs: [][]string{{"a"}}, roots: []string{"a", "r4"}, conts: []string{"v1", "v2idx"}, lim: "cross"})
		// root shapes: CIDv0, 68-byte CID, identity CID, four roots
		run(c13Group{seqs: [][]string{{}, {"a"}, {"a0"}, {"s"}, {"i"}, {"e"}}, roots: []string{"a0", "s", "i", "r4"}, conts: []string{"v1", "v2idx", "v2idxpad"}, lim: "none"})
		for _, m := range multi {
			run(c13Group{seqs: [][]string{m.seq}, roots: []string{m.roots}, conts: []string{"v1", "v2idx"}, lim: "none"})
		}
		// sections with a 3-byte length varint / data larger than the 32 KiB copy chunk and than 64 KiB
		run(c13Group{seqs: [][]string{{"L16384"}}, roots: []string{"a"}, conts: []string{"v1", "v2idx"}, lim: "none", mutSet: "struct"})
		run(c13Group{seqs: [][]string{{"L70000"}}, roots: []string{"a"}, conts: []string{"v2"}, lim: "none", mutSet: "struct"})
		return
	}
	names11 := append(append([]string{}, names6...), "b", "a'", "k", "ia", "j")
	seqs11 := seqsOver(names11, []string{"L128"}, []string{"a", "b", "a"}, []string{"a", "s", "e", "a0"}, []string{"L127", "L128"}, []string{"a", "j", "k", "i0"})
	short11 := append(c13ShortSeqs(seqs11, 1), []string{"i0"})
	allFiles := func(r string, sq []string) int {
		if r == "a" && len(sq) <= 1 {
			return 2
		}
		return 1
	}
	// the original matrix (over one more block name)
	run(c13Group{seqs: short11, roots: append([]string{"a"}, oldRoots...), conts: c13Conts, lim: "sect", files: allFiles, varsAll: true})
	// (longer sequences under the other root lists: single Inspect over bytes.Reader only)
	run(c13Group{seqs: seqs11, roots: append([]string{"a"}, oldRoots...), conts: c13Conts5, lim: "sect", plain: func(r string, _ []string) bool { return r != "a" }})
	run(c13Group{seqs: seqs11, roots: []string{"a"}, conts: newConts, lim: "sect"})
	// the empty identity digest next to every other block
	var i0 [][]string
	for _, n := range names11 {
		i0 = append(i0, []string{"i0", n}, []string{n, "i0"})
	}
	i0 = append(i0, []string{"i0", "i0"})
	run(c13Group{seqs: i0, roots: []string{"a"}, conts: c13Conts, lim: "sect"})
	// header-size limit, alone and crossed with the section-size limit
	run(c13Group{seqs: [][]string{{}, {"a"}}, roots: []string{"a", "r4"}, conts: c13Conts, lim: "hdr+cross", varsAll: true})
	run(c13Group{seqs: short11, roots: []string{"a", "empty", "ab", "r4", "s", "nil"}, conts: c13Conts, lim: "hdr+cross"})
	// root shapes
	newRoots := []string{"a0", "s", "i", "r4", "nil"}
	run(c13Group{seqs: short11, roots: newRoots, conts: c13Conts, lim: "sect"})
	run(c13Group{seqs: c13ShortSeqs(seqsOver([]string{"a", "a0", "s", "i", "b", "c"}), 2), roots: newRoots, conts: []string{"v1", "v2idx", "v2idxpad"}, lim: "none"})
	for _, m := range multi {
		run(c13Group{seqs: [][]string{m.seq}, roots: []string{m.roots}, conts: c13Conts, lim: "sect"})
	}
	// large sections
	run(c13Group{seqs: [][]string{{"L16383"}, {"L16384"}, {"L40000"}}, roots: []string{"a"}, conts: c13Conts, lim: "sect", mutSet: "struct"})
	run(c13Group{seqs: [][]string{{"L70000"}}, roots: []string{"a"}, conts: []string{"v1", "v2", "v2idx", "v2null"}, lim: "sect", mutSet: "struct"})
	run(c13Group{seqs: [][]string{{"a", "L40000", "e"}, {"L70000", "a"}}, roots: []string{"a", "r4"}, conts: []string{"v1", "v2idx"}, lim: "none", mutSet: "struct"})
}

func init() {
	kit.Register(&kit.Prop{
		ID:     "C13",
		Gen:    genC13,
		Run:    runC13,
		Decode: kit.DecodeAs[C13Case],
		Rule: "every seed archive of the enumerated sub-products (see bound; containers CARv1, null-padded, CARv2 with/without index, padded, null padding inside DataSize, trailing bytes after an index-less payload; root lists incl. duplicate, absent, CIDv0, 68-byte, identity, nil and 4 roots (2-byte header varint); blocks incl. CIDv0, identity with empty digest, truncated digest, sha2-512, 3-byte hash-code varint, 2-byte codec varint; sections of 16 KiB, 40 KiB and 70 KiB) with 0 deviations and EVERY 1-deviation neighbour (each byte set to 00/01/7f/80/ff/+1/-1, every truncation; for the >=16 KiB sections only structural positions) x ZeroLengthSectionAsEOF x (section-size limit, header-size limit) in {default, exact, exact-1}; " +
			"for each input NewReader accepts, Inspect(true) is compared with the hash-verifying scan (library BlockReader, cross-checked by the reference scan; disagreements between the two scans are counted as oracle-ambiguous and excluded): verdict and every statistic, version and CARv2 header taken from the bytes, zero Header for a CARv1. " +
			"In the cases marked vars each such input is also observed through: a second Inspect on the same Reader, Inspect(false) after it (when the scan succeeds), Roots() before Inspect, a partial DataReader read before Inspect, a ReaderAt-only source and a ReaderAt that returns io.EOF together with the last bytes; in the cases marked files additionally through *os.File, OpenReader (mmap) and every field of cmd/car/lib.InspectCar's Report (in the default-limit cases whose ZeroLengthSectionAsEOF is the one InspectCar itself uses, probed once; roots compared as decoded CIDs, the index type by consistency: one spelling per codec and one codec per spelling over the run; the exact spellings are outcomes beyond-statement:report-*-text). " +
			"Unmutated seeds must fall in their expected class (a seed whose header exceeds the header limit may be refused at open or by Inspect); non-trivial = distinct input accepted by both",
		Bound: func(tier string) map[string]any {
			b := map[string]any{"deviations": 1, "byte_values": 7, "truncations": "all offsets (structural offsets for sections >= 16 KiB: framing, header, length varints, CIDs, first/last data byte, data bytes around 32 KiB and 64 KiB)",
				"containers": c13Conts, "sources": []string{"bytes", "at", "eofat", "osfile", "mmap", "lib.InspectCar"},
				"call_orders": []string{"inspect", "inspect;inspect", "inspect;inspect;inspect(false)", "roots;inspect", "datareader-partial;inspect"}}
			if tier == "thorough" {
				b["seeds"] = "all sequences of length <= 2 over 11 block names (+5 longer) x roots {a,aa,ab,empty,absent} x 5 containers; the same sequences x roots a x {v2null,v2trail}; <=1 block x all 10 root lists x 7 containers; i0 next to every block; 36 pairs over {a,a0,s,i,b,c} x roots {a0,s,i,r4,nil} x 3 containers; 7 multi-root seeds; large sections L16383/L16384/L40000 x 7 containers, L70000 x 4, two mixed"
				b["limits"] = "section limit {default, exact, exact-1} everywhere; header limit {exact, exact-1} alone and crossed with the section limit for seeds of <= 1 block x roots {a,empty,ab,r4,s,nil}"
				b["vars"] = "default-limit cases of every group (roots a only for the two-block sequences); every limit for seeds of <= 1 block x roots {a,aa,ab,empty,absent}, and for {[],[a]} x roots {a,r4} under the header limits"
				b["files"] = "default-limit cases that have vars: seed, every truncation, every scan-accepted mutant (ZeroEOF); every input NewReader accepts for seeds of <= 1 block with roots a"
			} else {
				b["seeds"] = "all sequences of length <= 2 over 6 block names (+L128, a-b-a) x roots a x 5 containers; <=1 block x roots {aa,ab,empty,absent}; k, j, i0 singly and in 6 pairs; 10 seeds of <= 1 block (+2 longer) x {v2null,v2trail}; <=1 block over {a,a0,s,i,e} x roots {a0,s,i,r4} x 3 containers; 7 multi-root seeds x 2 containers; L16384 x {v1,v2idx}, L70000 x v2"
				b["limits"] = "section limit {default, exact, exact-1}; header limit {exact, exact-1} for {[],[a],[e]} x roots {a,empty,ab,r4,s} x 4 containers; both limits set for [a] x roots {a,r4} x 2 containers"
				b["vars"] = "default-limit cases, except 29 of the 36 two-block sequences"
				b["files"] = "the default-limit cases that have vars: seed, every truncation, every scan-accepted mutant (ZeroEOF)"
			}
			return b
		},
		Assumptions: []string{"the corruption half is a coverage statement over the 1-deviation neighbourhood of the seeds, not over all byte strings",
			"inputs on which the two scans disagree (e.g. inner header version != 1) are excluded as oracle-ambiguous and counted in coverage.oracle_ambiguous; a seed with more than half of its mutants excluded fails the run",
			"source kinds other than bytes.Reader and call orders other than a single Inspect are judged against the same oracle, only for inputs that NewReader accepts over bytes.Reader and whose primary observation is right; an input the other source's NewReader rejects is counted (src_open_rejects), not judged, unless it is an unmutated seed",
			"call orders are crossed with the bytes.Reader source only; source kinds with the single-Inspect order only; the file-backed entry points run with default limits only",
			"lib.InspectCar on a CARv1 with full validation hits C19's known finding (the trailing-data probe reads from the handle position, 0); when InspectCar refuses a CARv1 the scan accepts, the call is repeated with the handle positioned at the end of the file and a success there replaces the refusal (the error text is not matched; a refusal that persists is judged)",
			"which options lib.InspectCar hard-codes (today ZeroLengthSectionAsEOF, default limits) is not part of the statement: ZeroLengthSectionAsEOF is probed once on a valid null-padded CARv1 and the report is judged in the cases with that setting; default limits are assumed",
			"Inspect(false) is compared only when the verifying scan succeeds (skip mode cannot detect what full validation detects)",
			"error classes (io.ErrUnexpectedEOF vs others) and the Stats returned together with an error are not part of the statement and not judged"},
	})
}
