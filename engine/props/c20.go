package props

import (
	"bytes"
	"errors"
	"fmt"
	"os"
	"path/filepath"
	"runtime"
	"strings"
	"sync"
	"sync/atomic"
	"time"

	"github.com/ipfs/go-cid"
	carv2 "github.com/ipld/go-car/v2"
	"github.com/ipld/go-car/v2/storage"
	"github.com/ipld/go-car/v2/storage/deferred"
	"github.com/ipld/go-ipld-prime/linking"
	cidlink "github.com/ipld/go-ipld-prime/linking/cid"

	"verif/drv"
	"verif/kit"
)

// C20Case is one operation sequence over one target/configuration.
//
// Targets:
//
//	path         NewDeferredCarWriterForPath, nothing at the path (or, with Pre, a longer file)
//	path-nodir   ForPath, the parent directory of the path is missing until the op "fix" creates it
//	path-isdir   ForPath, the path is an (empty) directory until the op "fix" removes it
//	stream       NewDeferredCarWriterForStream over a plain io.Writer (that also has a counting Close)
//	stream-file  ForStream over a caller-opened file: io.Writer + io.WriterAt (+ counting Close)
//
// Ops:
//
//	put:X        Put of alphabet block X ("bad" = a key that is not a CID)
//	has:X        Has of alphabet block X
//	cb, cb1      OnPut(always) / OnPut(once)
//	cbreg,cbreg1 OnPut(always / once) of a callback that, on its first invocation, registers a further once-callback
//	bwo:X        BlockWriteOpener: open, write X's data, commit with X's link (= one Put)
//	bwo-open:X   open + write only; the commit is the later op "bwo-commit" (at most one pending writer)
//	close        Close
//	fix          removes the obstacle of path-nodir / path-isdir (harness action, not a writer call)
type C20Case struct {
	Target string   `json:"target"`
	Opts   drv.Opts `json:"opts"`
	Ops    []string `json:"ops"`
	Pre    bool     `json:"pre,omitempty"`    // a longer file already exists at the target path
	V1Off  bool     `json:"v1off,omitempty"`  // the caller passes WriteAsCarV1(false) explicitly (last option)
	Roots  string   `json:"roots,omitempty"`  // kit root set; "" = "a"
	FailAt int      `json:"failat,omitempty"` // family failing-close: the stream's FailAt-th Write (and every later one) fails
}

// c20BadKey is the key of the op "put:bad": not a CID.
const c20BadKey = "bad-key"

var c20Ops = []string{"put:a", "put:b", "has:a", "cb", "cb1", "close", "has:b"}

// c20Stats counts what the deferred writer does to a caller-owned stream.
type c20Stats struct {
	writes int // Write + WriteAt calls, zero-length ones included
	closes int
}

// c20Stream is a plain io.Writer. It also has a Close method: the stream belongs to the caller,
// the writer must never call it.
type c20Stream struct {
	b  *bytes.Buffer
	st *c20Stats
}

func (p c20Stream) Write(b []byte) (int, error) { p.st.writes++; return p.b.Write(b) }
func (p c20Stream) Close() error                { p.st.closes++; return nil }

// c20File is a caller-opened file handed over as a stream: io.Writer + io.WriterAt.
type c20File struct {
	f  *os.File
	st *c20Stats
}

func (p c20File) Write(b []byte) (int, error) { p.st.writes++; return p.f.Write(b) }
func (p c20File) WriteAt(b []byte, off int64) (int, error) {
	p.st.writes++
	return p.f.WriteAt(b, off)
}
func (p c20File) Close() error { p.st.closes++; return nil }

// c20Mem is the reference's "file": io.Writer + io.WriterAt with the semantics of a freshly created
// file opened without O_APPEND (Write at the file offset, WriteAt anywhere, holes read as zeros).
type c20Mem struct {
	b   []byte
	off int64
}

func (m *c20Mem) WriteAt(p []byte, off int64) (int, error) {
	if end := off + int64(len(p)); end > int64(len(m.b)) {
		m.b = append(m.b, make([]byte, end-int64(len(m.b)))...)
	}
	copy(m.b[off:], p)
	return len(p), nil
}

func (m *c20Mem) Write(p []byte) (int, error) {
	n, err := m.WriteAt(p, m.off)
	m.off += int64(n)
	return n, err
}

// drvPlain hides everything but Write (used for the reference writer).
type drvPlain struct{ b *bytes.Buffer }

func (p drvPlain) Write(b []byte) (int, error) { return p.b.Write(b) }

// c20List lists dir (names only, directories with a trailing slash and their entries).
func c20List(dir string) string {
	ents, _ := os.ReadDir(dir)
	var sb strings.Builder
	for _, e := range ents {
		sb.WriteString(e.Name())
		if e.IsDir() {
			sb.WriteString("/[")
			sb.WriteString(c20List(filepath.Join(dir, e.Name())))
			sb.WriteString("]")
		}
		sb.WriteString(",")
	}
	return sb.String()
}

var c20DirCache sync.Map // worker scratch dir -> [2]string

// c20Dirs returns (creating them once per worker) the directory of the deferred writer's target,
// with symlinks resolved so that /proc/self/fd links can be compared, and the reference's directory.
func c20Dirs(base string) (string, string) {
	if v, ok := c20DirCache.Load(base); ok {
		d := v.([2]string)
		return d[0], d[1]
	}
	ddir := filepath.Join(base, "c20d")
	rdir := filepath.Join(base, "c20r")
	for _, d := range []string{ddir, rdir} {
		os.RemoveAll(d)
		if err := os.MkdirAll(d, 0o755); err != nil {
			panic(err)
		}
	}
	if r, err := filepath.EvalSymlinks(ddir); err == nil {
		ddir = r
	}
	c20DirCache.Store(base, [2]string{ddir, rdir})
	return ddir, rdir
}

// c20OpenFDs counts the descriptors of this process that refer to path.
func c20OpenFDs(path string) int {
	ents, err := os.ReadDir("/proc/self/fd")
	if err != nil {
		return 0
	}
	n := 0
	for _, e := range ents {
		if l, err := os.Readlink("/proc/self/fd/" + e.Name()); err == nil && l == path {
			n++
		}
	}
	return n
}

type c20Cb struct {
	id      int
	once    bool
	spawn   bool // registers a once-callback (id+1000) on its first invocation
	spawned bool
}

// c20Fire models one Put over the registered callbacks: every callback once, in registration
// order, once-callbacks removed. samePut selects whether a callback registered from inside a
// callback takes part in the Put that is in progress (after all earlier registrations) or only
// from the next Put on; the property fixes neither, so both models are kept.
// The log holds callback ids only: the property does not fix the argument of the callback.
func c20Fire(list []c20Cb, log []string, samePut bool) ([]c20Cb, []string) {
	var later []c20Cb
	for i := 0; i < len(list); i++ {
		r := list[i]
		log = append(log, fmt.Sprintf("%d", r.id))
		if r.spawn && !r.spawned {
			list[i].spawned = true
			child := c20Cb{id: r.id + 1000, once: true}
			if samePut {
				list = append(list, child)
			} else {
				later = append(later, child)
			}
		}
		if r.once {
			list = append(list[:i], list[i+1:]...)
			i--
		}
	}
	return append(list, later...), log
}

// c20Model is one legal callback history: the registered callbacks, the invocations so far and the
// variant of c20Fire it follows.
type c20Model struct {
	list    []c20Cb
	log     []string
	samePut bool
}

func (m c20Model) key() string {
	return fmt.Sprintf("%v|%v|%v", m.samePut, m.list, m.log)
}

// c20Step advances every model over one Put. mayNotFire: the Put failed and started nothing (its
// initialisation failed, or it was rejected before the output was started); the property does not
// say whether such a Put fires (and uses up) callbacks, so each model is kept in both variants.
func c20Step(models []c20Model, mayNotFire bool) []c20Model {
	var out []c20Model
	seen := map[string]bool{}
	add := func(m c20Model) {
		if k := m.key(); !seen[k] {
			seen[k] = true
			out = append(out, m)
		}
	}
	for _, m := range models {
		if mayNotFire {
			add(m)
		}
		l, g := c20Fire(append([]c20Cb(nil), m.list...), append([]string(nil), m.log...), m.samePut)
		add(c20Model{list: l, log: g, samePut: m.samePut})
	}
	return out
}

// c20ReentrantBlocks is set once an OnPut called from inside a callback did not return: the
// implementation takes the writer's lock in OnPut. The property quantifies over sequences of calls,
// not over nested ones, so this is recorded as an outcome and nested registrations are no longer tried.
var c20ReentrantBlocks atomic.Bool

// c20ReentrantWait bounds the wait for a nested OnPut whose goroutine is neither done nor seen waiting
// (a starved machine); the decision normally comes from the state of the goroutine, see c20NestedOnPut.
const c20ReentrantWait = 5 * time.Minute

// c20IsFile reports whether path is a regular file.
func c20IsFile(path string) bool {
	fi, err := os.Stat(path)
	return err == nil && fi.Mode().IsRegular()
}

// c20Goid returns the id of the calling goroutine (as printed in stack dumps).
func c20Goid() string {
	b := make([]byte, 64)
	b = b[:runtime.Stack(b, false)]
	if f := strings.Fields(string(b)); len(f) > 1 {
		return f[1]
	}
	return ""
}

// c20Parked reports whether goroutine id is waiting for a lock or a channel, as opposed to running,
// waiting for a processor or being in a system call.
func c20Parked(id string) bool {
	if id == "" {
		return false
	}
	buf := make([]byte, 4<<20)
	dump := string(buf[:runtime.Stack(buf, true)])
	hdr := "goroutine " + id + " ["
	at := -1
	if strings.HasPrefix(dump, hdr) {
		at = 0
	} else if k := strings.Index(dump, "\n"+hdr); k >= 0 {
		at = k + 1
	}
	if at < 0 {
		return false
	}
	state := dump[at+len(hdr):]
	if k := strings.IndexAny(state, "],"); k >= 0 {
		state = state[:k]
	}
	// (other wait states, such as a GC assist, pass by themselves)
	for _, p := range []string{"sync.", "semacquire", "chan ", "select"} {
		if strings.HasPrefix(state, p) {
			return true
		}
	}
	return false
}

// c20NestedOnPut calls reg (an OnPut made from inside a callback, i.e. while Put is running) in a helper
// goroutine and waits until it has returned (true) or is blocked (false: seen waiting three times in a
// row, or c20ReentrantWait over). done is closed when reg has returned. No wall-clock decision is
// involved as long as the helper gets to run at all.
func c20NestedOnPut(reg func()) (returned bool, done chan struct{}) {
	done = make(chan struct{})
	idc := make(chan string, 1)
	go func() {
		defer close(done)
		idc <- c20Goid()
		reg()
	}()
	id := <-idc
	for k := 0; k < 100; k++ { // the common case: reg returns at once
		select {
		case <-done:
			return true, done
		default:
			runtime.Gosched()
		}
	}
	deadline := time.After(c20ReentrantWait)
	parked := 0
	for {
		select {
		case <-done:
			return true, done
		case <-deadline:
			return false, done
		case <-time.After(5 * time.Millisecond):
		}
		if c20Parked(id) {
			if parked++; parked >= 3 {
				return false, done
			}
		} else {
			parked = 0
		}
	}
}

func runC20(c any, x *kit.Ctx) {
	cs := c.(C20Case)
	if cs.FailAt > 0 || cs.Target == "path-badcodec" {
		runC20Fail(cs, x)
		return
	}
	rootSet := cs.Roots
	if rootSet == "" {
		rootSet = "a"
	}
	roots, _, _ := kit.Roots(rootSet)
	opts := cs.Opts.List()
	if cs.V1Off {
		opts = append(opts, carv2.WriteAsCarV1(false))
	}
	// the deferred writer and the reference work in two separate directories, so that everything
	// the deferred writer creates (not only the target file) is visible in a listing of ddir
	ddir, rdir := c20Dirs(x.Dir)
	dpath := filepath.Join(ddir, "c20-deferred.car")
	rpath := filepath.Join(rdir, "c20-direct.car")
	cleanup := []string{dpath}
	defer func() {
		for _, p := range cleanup {
			os.Remove(p)
		}
		// anything else the writer left behind must not leak into the next case of this worker
		if ents, _ := os.ReadDir(ddir); len(ents) > 0 {
			for _, e := range ents {
				os.RemoveAll(filepath.Join(ddir, e.Name()))
			}
		}
	}()
	isPath := strings.HasPrefix(cs.Target, "path")
	obstacle := false
	switch cs.Target {
	case "path-nodir":
		dpath = filepath.Join(ddir, "missing", "c20-deferred.car")
		rpath = filepath.Join(rdir, "missing", "c20-direct.car")
		cleanup = []string{dpath, rpath, filepath.Dir(dpath), filepath.Dir(rpath)}
		obstacle = true
	case "path-isdir":
		if err := os.Mkdir(dpath, 0o755); err != nil {
			panic(err)
		}
		if err := os.Mkdir(rpath, 0o755); err != nil {
			panic(err)
		}
		cleanup = []string{dpath, rpath}
		obstacle = true
	}
	var preBytes []byte
	if cs.Pre && cs.Target == "path" {
		preBytes = bytes.Repeat([]byte("old export "), 400)
		if err := os.WriteFile(dpath, preBytes, 0o644); err != nil {
			panic(err)
		}
	}
	var dbuf, rbuf bytes.Buffer
	var dst c20Stats
	var rmem c20Mem    // the reference's file (path targets, stream-file)
	var dfile *os.File // stream-file: the caller's file
	var dw *deferred.DeferredCarWriter
	switch cs.Target {
	case "path", "path-nodir", "path-isdir":
		dw = deferred.NewDeferredCarWriterForPath(dpath, roots, opts...)
	case "stream":
		dw = deferred.NewDeferredCarWriterForStream(c20Stream{&dbuf, &dst}, roots, opts...)
	case "stream-file":
		var err error
		if dfile, err = os.Create(dpath); err != nil {
			panic(err)
		}
		defer dfile.Close()
		dw = deferred.NewDeferredCarWriterForStream(c20File{dfile, &dst}, roots, opts...)
	default:
		panic("unknown target " + cs.Target)
	}
	x.Eval(1)
	// release the lazily opened file even when the sequence never closes the writer
	// (millions of cases would otherwise exhaust the file descriptors before the GC runs finalizers)
	defer dw.Close()
	baseList := c20List(ddir)

	// reference: a directly constructed writer, created at the first Put (the moment a caller
	// without the deferred writer would open the file / construct the writer)
	var direct storage.WritableCar
	// what the deferred stream constructor documents: CARv1 by default, the caller's options after it
	directOpts := opts
	if !isPath {
		directOpts = append([]carv2.Option{carv2.WriteAsCarV1(true)}, opts...)
	}
	var refInitErr error // a stream whose writer could not be constructed: a direct caller has no writer
	initFailed := false  // some Put found the target impossible to open / the writer impossible to construct
	started := false     // the reference writer exists: from now on the outputs must be identical
	// probeOpen: can a direct caller open a file at the reference's path (same obstacle as dpath)?
	probeOpen := func() error {
		if cs.Target == "path" || !isPath {
			return nil
		}
		f, err := os.OpenFile(rpath, os.O_CREATE|os.O_TRUNC|os.O_WRONLY, 0o644)
		if err == nil {
			f.Close()
			os.Remove(rpath)
		}
		return err
	}
	// refCanInit: could the reference writer be constructed now? (no side effects)
	refCanInit := func() bool {
		switch {
		case direct != nil:
			return true
		case refInitErr != nil:
			return false
		case isPath:
			return probeOpen() == nil
		case cs.Target == "stream":
			_, err := storage.NewWritable(drvPlain{&bytes.Buffer{}}, roots, directOpts...)
			return err == nil
		}
		_, err := storage.NewWritable(&c20Mem{}, roots, directOpts...)
		return err == nil
	}
	// dErr: what the deferred writer's Put returned (it may have failed for another reason, a bad key,
	// after it got its file open)
	refPut := func(key string, data []byte, dErr error) error {
		if direct == nil {
			if refInitErr != nil {
				return refInitErr
			}
			var w storage.WritableCar
			var err error
			switch {
			case isPath:
				// a direct caller opens the file first. Whether that is possible is decided by the file
				// system (rpath has the same obstacle as dpath); the bytes then go to an in-memory file.
				// How the deferred writer opens its path is not fixed by the property: one that gets
				// its file open where a plain os.OpenFile fails (it creates missing directories, ...) is
				// from then on compared with a direct writer all the same.
				if err = probeOpen(); err != nil && (dErr == nil || c20IsFile(dpath)) {
					x.Outcome("beyond-statement:open-more-permissive:" + cs.Target)
					err = nil
				}
				if err == nil {
					w, err = storage.NewWritable(&rmem, roots, directOpts...)
				}
			case cs.Target == "stream":
				if w, err = storage.NewWritable(drvPlain{&rbuf}, roots, directOpts...); err != nil {
					refInitErr = err
				}
			default:
				if w, err = storage.NewWritable(&rmem, roots, directOpts...); err != nil {
					refInitErr = err
				}
			}
			if err != nil {
				initFailed = true
				x.Count("failed_inits", 1)
				return err
			}
			direct = w
			started = true
		}
		return direct.Put(drv.Ctx, key, data)
	}

	// callbacks registered from a callback join the running Put / the next Put
	models := []c20Model{{samePut: true}, {samePut: false}}
	var gotLog []string
	nextID := 0
	closed := false
	fail := func(i int, sig, f string, a ...any) {
		x.Fail("c20:"+sig+":"+cs.Target, "after %v: "+f, append([]any{cs.Ops[:i+1]}, a...)...)
	}
	// info: behaviour the documentation describes but the property statement does not fix (callbacks run before the
	// Put writes, the caller's stream is never closed, no descriptor outlives Close). Recorded as an outcome class
	// of the evidence, never as a violation.
	info := func(i int, sig, f string, a ...any) {
		x.Outcome("beyond-statement:" + sig + ":" + cs.Target)
	}
	output := func() (exists bool, b []byte) {
		switch {
		case isPath:
			b, err := os.ReadFile(dpath)
			return err == nil, b
		case cs.Target == "stream":
			return dbuf.Len() > 0 || dst.writes > 0, dbuf.Bytes()
		default:
			b, _ := os.ReadFile(dpath)
			return len(b) > 0 || dst.writes > 0, b
		}
	}
	directBytes := func() []byte {
		switch {
		case isPath, cs.Target == "stream-file":
			return rmem.b
		}
		return rbuf.Bytes()
	}

	// callback-time observation: OnPut documents that the callback is called "when each Put()
	// operation is started" (its use: set HTTP headers before the first byte is streamed), so at
	// callback time the output must still be what it was before the Put
	var preExists bool
	var preOut []byte
	var preWrites int
	cbTiming := ""
	// the argument of the callback ("the number of bytes being written") is documented, but not part of the property
	curLen, cbArg := 0, ""
	// nested registration under a watchdog (see c20ReentrantBlocks)
	reentrantBlocked := false
	var pendingReg chan struct{}
	record := func(id, n int) {
		gotLog = append(gotLog, fmt.Sprintf("%d", id))
		if n != curLen && cbArg == "" {
			cbArg = fmt.Sprintf("callback %d got %d for a Put of %d bytes", id, n, curLen)
		}
		ex, out := output()
		if cbTiming == "" && (ex != preExists || dst.writes != preWrites || !bytes.Equal(out, preOut)) {
			cbTiming = fmt.Sprintf("callback %d ran with output exists=%v len=%d writes=%d; before the Put: exists=%v len=%d writes=%d",
				id, ex, len(out), dst.writes, preExists, len(preOut), preWrites)
		}
	}
	register := func(once, spawn bool) {
		id := nextID
		nextID++
		fired := false
		dw.OnPut(func(n int) {
			record(id, n)
			if spawn && !fired {
				fired = true
				if c20ReentrantBlocks.Load() {
					reentrantBlocked = true
					return
				}
				// the nested OnPut runs in a helper goroutine this callback waits for: should it block
				// (OnPut taking the lock Put holds), the callback returns, Put completes and releases
				// the lock, and the helper ends; the case is then over
				returned, done := c20NestedOnPut(func() { dw.OnPut(func(n int) { record(id+1000, n) }, true) })
				if returned {
					x.Count("reentrant_registrations", 1)
				} else {
					c20ReentrantBlocks.Store(true)
					reentrantBlocked = true
					pendingReg = done
				}
			}
		}, once)
		for k := range models {
			models[k].list = append(models[k].list, c20Cb{id: id, once: once, spawn: spawn})
		}
	}
	// untouched: "" while nothing was written to the stream and nothing was created or changed in the
	// directory of the target; otherwise what was
	untouched := func() string {
		switch cs.Target {
		case "stream":
			if dbuf.Len() > 0 || dst.writes > 0 {
				return fmt.Sprintf("output exists (%d bytes, %d write calls)", dbuf.Len(), dst.writes)
			}
			return ""
		case "stream-file":
			var size int64 = -1
			if fi, err := dfile.Stat(); err == nil {
				size = fi.Size()
			}
			if size > 0 || dst.writes > 0 {
				return fmt.Sprintf("output exists (%d bytes, %d write calls)", size, dst.writes)
			}
		}
		// no file at the target and nothing else created next to it
		if l := c20List(ddir); l != baseList {
			return fmt.Sprintf("the directory of the target changed: [%s] was [%s]", l, baseList)
		}
		if preBytes != nil {
			if got, _ := os.ReadFile(dpath); !bytes.Equal(got, preBytes) {
				return "the existing file at the target path was touched"
			}
		}
		return ""
	}

	// one Put, through whichever entry point `call` uses; true = the case ends here
	doPut := func(i int, key string, data []byte, call func() error) bool {
		if closed {
			if err := call(); !errors.Is(err, storage.ErrClosed) {
				fail(i, "put-after-close", "Put returned %v want ErrClosed", err)
			}
			return false
		}
		if nextID > 0 { // some callback was registered (whether or not the model still expects it to fire)
			ex, out := output()
			preExists, preOut, preWrites = ex, append([]byte(nil), out...), dst.writes
		}
		curLen = len(data)
		err := call()
		if reentrantBlocked {
			// Put has returned, so the lock is free and a blocked nested OnPut completes
			if pendingReg != nil {
				select {
				case <-pendingReg:
				case <-time.After(20 * time.Second):
				}
			}
			info(i, "reentrant-onput-blocks", "OnPut called from a callback did not return while Put was running")
			x.Count("reentrant_blocked_cases", 1)
			return true
		}
		if cbTiming != "" {
			info(i, "callback-timing", "%s", cbTiming)
		}
		if cbArg != "" {
			info(i, "callback-arg", "%s", cbArg)
		}
		hadFailed := initFailed
		wasStarted := started
		nothing := direct == nil && err != nil && untouched() == ""
		switch {
		case nothing && key == c20BadKey:
			// A key that is not a CID is outside what Put accepts. Whether such a Put, as the first
			// one, starts the output (header only) or is rejected before anything is created is not
			// fixed by the property: when nothing was started, the reference is not started either.
			if refCanInit() {
				x.Outcome("beyond-statement:invalid-first-put-starts-nothing:" + cs.Target)
			} else {
				initFailed = true
				x.Count("failed_inits", 1)
			}
		case nothing && isPath && hadFailed:
			// A Put after an initialisation that failed: whether the writer tries again (as a direct
			// caller could) or keeps reporting the failure is not fixed by the property. It started
			// nothing, so the reference is not started and "no output" stays asserted.
			if refCanInit() {
				info(i, "put-retry-after-failed-open", "Put returned %v after an earlier failed initialisation; a direct writer can be created now", err)
			} else {
				x.Count("failed_inits", 1)
			}
		default:
			derr := refPut(key, data, err)
			if (err != nil) != (derr != nil) {
				// the property is about the output (compared below), not about what Put returns
				info(i, "put-result", "Put returned %v, the direct writer %v", err, derr)
			}
		}
		// callbacks: once per Put in registration order; once-callbacks exactly once. A Put that failed
		// and started nothing may or may not have fired them.
		models = c20Step(models, err != nil && !started)
		if started && !wasStarted && direct != nil {
			if isIdentityKey(key) && !cs.Opts.StoreID {
				x.Count("first_put_writes_no_section", 1)
			}
		}
		return false
	}

	type pendingBWO struct {
		key    string
		data   []byte
		commit linking.BlockWriteCommitter
		link   cidlink.Link
	}
	var pending *pendingBWO
	bwoOpen := func(i int, name string) *pendingBWO {
		b := kit.B(name)
		w, commit, err := dw.BlockWriteOpener()(linking.LinkContext{Ctx: drv.Ctx})
		if err != nil {
			// opening only buffers; the store is touched by the commit. After Close an error is acceptable.
			// (BlockWriteOpener is not named by the property: only the Put its commit performs is)
			if !closed {
				info(i, "bwo-open", "BlockWriteOpener returned %v", err)
			}
			return nil
		}
		// two writes, so that the committed content is the concatenation
		h := len(b.Data) / 2
		if _, err := w.Write(b.Data[:h]); err != nil {
			info(i, "bwo-open", "block writer Write returned %v", err)
			return nil
		}
		if _, err := w.Write(b.Data[h:]); err != nil {
			info(i, "bwo-open", "block writer Write returned %v", err)
			return nil
		}
		return &pendingBWO{key: b.Cid.KeyString(), data: b.Data, commit: commit, link: cidlink.Link{Cid: b.Cid}}
	}

	for i, op := range cs.Ops {
		x.Transition(1)
		kind, arg, _ := strings.Cut(op, ":")
		end := false
		switch kind {
		case "cb", "cb1":
			register(kind == "cb1", false)
		case "cbreg", "cbreg1":
			register(kind == "cbreg1", true)
		case "fix":
			if obstacle && !started {
				switch cs.Target {
				case "path-nodir":
					os.Mkdir(filepath.Dir(dpath), 0o755)
					os.Mkdir(filepath.Dir(rpath), 0o755)
				case "path-isdir":
					os.Remove(dpath)
					os.Remove(rpath)
				}
				obstacle = false
				baseList = c20List(ddir)
			}
		case "has":
			b := kit.B(arg)
			has, err := dw.Has(drv.Ctx, b.Cid.KeyString())
			if closed {
				if !errors.Is(err, storage.ErrClosed) {
					fail(i, "has-after-close", "Has returned %v,%v want ErrClosed", has, err)
				}
				break
			}
			if direct != nil {
				want, werr := direct.Has(drv.Ctx, b.Cid.KeyString())
				// (what Has answers before Close is documented, but not part of the property)
				if (err != nil) != (werr != nil) || has != want {
					info(i, "has", "Has(%s)=%v,%v; the direct writer: %v,%v", arg, has, err, want, werr)
				}
				break
			}
			// nothing was put yet. Not fixed by the property: the answer for an identity CID (a direct
			// writer that does not store identity CIDs would say true) and the answer after a failed
			// initialisation
			if isIdentityKey(b.Cid.KeyString()) || initFailed {
				x.Count("has_unasserted", 1)
				break
			}
			if err != nil || has {
				info(i, "has", "Has(%s)=%v,%v want false before the first Put", arg, has, err)
			}
		case "put":
			key, data := c20BadKey, []byte("x")
			if arg != "bad" {
				b := kit.B(arg)
				key, data = b.Cid.KeyString(), b.Data
			}
			end = doPut(i, key, data, func() error { return dw.Put(drv.Ctx, key, data) })
		case "bwo":
			if p := bwoOpen(i, arg); p != nil {
				x.Count("bwo_commits", 1)
				end = doPut(i, p.key, p.data, func() error { return p.commit(p.link) })
			}
		case "bwo-open":
			if p := bwoOpen(i, arg); p != nil {
				pending = p
			}
		case "bwo-commit":
			if pending != nil {
				p := pending
				pending = nil
				x.Count("bwo_commits", 1)
				end = doPut(i, p.key, p.data, func() error { return p.commit(p.link) })
			}
		case "close":
			err := dw.Close()
			if closed {
				if !errors.Is(err, storage.ErrClosed) {
					fail(i, "close-after-close", "second Close returned %v want ErrClosed", err)
				}
				break
			}
			closed = true
			// (what the first Close returns is not fixed by the property: the finalized bytes are compared below)
			if err != nil && !(initFailed && !started) {
				info(i, "close-error", "Close returned %v", err)
			}
			if direct != nil {
				if err := direct.Finalize(); err != nil {
					panic(err)
				}
			}
			// "Closing the writer will close, but not delete, the underlying file": no descriptor of
			// the target may stay open
			if isPath && (started || initFailed) { // (otherwise nothing was ever opened: the listing above all steps shows it)
				if n := c20OpenFDs(dpath); n != 0 {
					info(i, "fd-leak", "%d descriptor(s) of the target file are still open after Close", n)
				}
			}
		default:
			panic("unknown op " + op)
		}
		if end {
			return
		}
		// observers after every step
		if dfile != nil {
			// the stream belongs to the caller: never closed by the writer
			if _, err := dfile.Stat(); err != nil {
				info(i, "stream-closed", "the caller's file is no longer usable: %v", err)
			}
		}
		if dst.closes != 0 {
			info(i, "stream-closed", "the caller's stream was closed %d time(s)", dst.closes)
		}
		if !started {
			if what := untouched(); what != "" {
				fail(i, "eager-output", "%s before the first successful initialisation", what)
			}
		} else {
			_, got := output()
			if want := directBytes(); !bytes.Equal(got, want) {
				fail(i, "bytes-differ", "output (%d bytes) differs from the directly constructed writer's (%d bytes): %x vs %x", len(got), len(want), clip(got), clip(want))
			}
		}
		g, legal := strings.Join(gotLog, ","), false
		for _, m := range models {
			if g == strings.Join(m.log, ",") {
				legal = true
				break
			}
		}
		if !legal {
			var want []string
			seen := map[string]bool{}
			for _, m := range models {
				if w := fmt.Sprint(m.log); !seen[w] && len(want) < 6 {
					seen[w] = true
					want = append(want, w)
				}
			}
			fail(i, "callbacks", "callback log (ids in invocation order) %v want %s (variants: a callback registered from a callback joins the running or the next Put; a Put that failed and started nothing fires or does not)", gotLog, strings.Join(want, " or "))
		}
		if x.Failed() {
			return
		}
	}
	key := fmt.Sprintf("%s|%+v|%v|%v|%s|%v", cs.Target, cs.Opts, cs.V1Off, cs.Pre, rootSet, cs.Ops)
	x.State(key)
	x.Outcome(fmt.Sprintf("started=%v closed=%v cbs=%v initFailed=%v", started, closed, len(gotLog) > 0, initFailed))
	if started && len(gotLog) > 0 {
		x.Nontrivial(key)
	}
}

// isIdentityKey reports whether the binary CID key uses the identity multihash.
func isIdentityKey(key string) bool {
	c, err := cid.Cast([]byte(key))
	return err == nil && c.Prefix().MhType == 0
}

type c20Cfg struct {
	target string
	o      drv.Opts
	v1off  bool
	roots  string
	pre    bool
}

// c20Family is one explicitly enumerated sub-space: every sequence of exactly `depth` ops over the
// alphabet (shorter sequences are covered as prefixes: observers run after every step) x configurations.
type c20Family struct {
	name         string
	ops          []string
	quick, thoro int // depth per tier
	cfgs         []c20Cfg
}

var c20Padded = drv.Opts{DataPad: 3, IndexPad: 2, Codec: "sorted"}

var c20Families = []c20Family{
	// the original space
	{"core", c20Ops, 5, 7, []c20Cfg{
		{target: "path"}, {target: "path", o: c20Padded}, {target: "path", o: drv.Opts{V1: true}},
		{target: "stream"}, {target: "stream", o: drv.Opts{AllowDup: true}}, {target: "path", o: drv.Opts{AllowDup: true, StoreID: true}},
	}},
	// the same sequences (one shorter) over a target path at which a longer file already exists
	{"pre-existing", c20Ops, 4, 6, []c20Cfg{
		{target: "path", pre: true}, {target: "path", o: drv.Opts{V1: true}, pre: true}, {target: "path", o: c20Padded, pre: true},
	}},
	// identity / empty blocks, a key that is not a CID, every stream capability, explicit WriteAsCarV1(false)
	{"blocks", []string{"put:a", "put:i", "put:e", "put:bad", "has:a", "has:i", "has:e", "cb1", "close"}, 4, 5, []c20Cfg{
		{target: "path"}, {target: "path", o: drv.Opts{StoreID: true}}, {target: "path", o: drv.Opts{V1: true}},
		{target: "path", o: drv.Opts{AllowDup: true, StoreID: true}},
		{target: "stream"}, {target: "stream", o: drv.Opts{StoreID: true}}, {target: "stream", v1off: true},
		{target: "stream-file"}, {target: "stream-file", o: drv.Opts{AllowDup: true}},
		{target: "stream-file", v1off: true}, {target: "stream-file", o: drv.Opts{StoreID: true, DataPad: 3, IndexPad: 2}, v1off: true},
		{target: "path", v1off: true}, {target: "path", o: drv.Opts{V1: true}, v1off: true},
	}},
	// the second Put entry point
	{"bwo", []string{"bwo:a", "bwo-open:a", "bwo-open:b", "bwo-commit", "put:a", "put:b", "has:a", "cb", "cb1", "close"}, 4, 5, []c20Cfg{
		{target: "path"}, {target: "path", o: drv.Opts{V1: true}}, {target: "stream"}, {target: "stream", o: drv.Opts{AllowDup: true}},
		{target: "stream-file", v1off: true},
	}},
	// targets that cannot be opened until "fix"
	{"failing-open", []string{"put:a", "put:b", "put:bad", "has:a", "cb", "cb1", "close", "fix"}, 4, 6, []c20Cfg{
		{target: "path-nodir"}, {target: "path-nodir", o: drv.Opts{V1: true}}, {target: "path-isdir"}, {target: "path-isdir", o: c20Padded},
	}},
	// callbacks that register callbacks
	{"reentrant", []string{"cbreg", "cbreg1", "cb", "cb1", "put:a", "put:b", "close"}, 5, 6, []c20Cfg{
		{target: "path"}, {target: "stream"},
	}},
	// root sets
	{"roots", c20Ops, 4, 5, []c20Cfg{
		{target: "path", roots: "ab"}, {target: "path", roots: "nil"}, {target: "path", roots: "empty"},
		{target: "path", o: drv.Opts{V1: true}, roots: "ab"}, {target: "path", o: drv.Opts{V1: true}, roots: "nil"},
		{target: "path", o: c20Padded, roots: "aa"},
		{target: "stream", roots: "ab"}, {target: "stream", roots: "nil"}, {target: "stream", roots: "empty"},
		{target: "stream-file", v1off: true, roots: "ab"}, {target: "stream-file", v1off: true, roots: "nil"},
	}},
}

func genC20(tier string, emit func(any)) {
	for _, f := range c20Families {
		depth := f.quick
		if tier == "thorough" {
			depth = f.thoro
		}
		var rec func(cur []string)
		rec = func(cur []string) {
			if len(cur) == depth {
				for _, c := range f.cfgs {
					emit(C20Case{Target: c.target, Opts: c.o, Ops: append([]string{}, cur...), Pre: c.pre, V1Off: c.v1off, Roots: c.roots})
				}
				return
			}
			for _, op := range f.ops {
				rec(append(cur, op))
			}
		}
		rec(nil)
	}
	genC20Fail(tier, emit)
}

func init() {
	kit.Register(&kit.Prop{
		ID:     "C20",
		Gen:    genC20,
		Run:    runC20,
		Decode: kit.DecodeAs[C20Case],
		Rule: "seven families, each = every op sequence of the family's depth over the family's alphabet (all shorter sequences are checked as prefixes: observers after every step) x the family's configurations: " +
			"core {Put a, Put b, Has a, Has b, OnPut(always), OnPut(once), Close} x {path, stream} x {CARv2, padded CARv2/sorted index, CARv1, duplicates allowed, duplicates+identity stored}; " +
			"pre-existing (same alphabet, a longer file already at the path) x {CARv2, CARv1, padded CARv2}; " +
			"blocks {Put a/identity i/empty e/non-CID key, Has a/i/e, OnPut(once), Close} x {path, plain stream, caller-opened file as stream (io.WriterAt)} x {default, StoreIdentityCIDs, CARv1, duplicates, explicit WriteAsCarV1(false) incl. on a plain stream where every Put must fail}; " +
			"bwo {BlockWriteOpener open+write+commit, open a, open b, commit, Put a/b, Has a, OnPut x2, Close}; " +
			"failing-open {Put a/b/non-CID, Has, OnPut x2, Close, fix} x {parent directory missing, path is a directory} (fix removes the obstacle); " +
			"reentrant {OnPut(always/once) of a callback that registers a once-callback, OnPut x2, Put a/b, Close}; roots (core alphabet) x root sets {a b, nil, empty, a a}; failing-close {Put a/b, Has a, OnPut x2, Close} at depth 5/6 x {stream whose 1st..4th Write and all later ones fail, path target with an index codec that cannot be written}: whatever Close returns, every later Has/Put/Close gives ErrClosed and no callback fires. " +
			"Oracle: differential against a storage.NewWritable constructed at the first Put that can construct it (or at which the deferred writer got its file open) and driven with the same puts (bytes after every step); before that no file, no change in the target's directory, zero Write/WriteAt calls on the stream; " +
			"callback log (callback ids) = once per non-closed Put in registration order, once-callbacks exactly once (a callback registered from a callback may join the running or the next Put; a Put that failed and started nothing may or may not fire); " +
			"ErrClosed from Has/Put/commit/Close after Close; recorded as outcome classes 'beyond-statement:*' only (documented or current behaviour, but not part of the statement): output observed inside a callback equals the output before the Put, the callback's argument is the length of the data, caller's stream never closed, no descriptor of the target left after Close, " +
			"error-ness of Put and the result of Has equal the direct writer's, the first Close returns nil, BlockWriteOpener opens without error, a path whose open failed is tried again by the next Put, a non-CID key as first Put starts the output, a path is opened like os.OpenFile does (missing directories are an error), OnPut can be called from inside a callback (run in a helper goroutine that is watched until it returns or is seen waiting; once it blocked, nested registrations are skipped and the cases end there); non-trivial = sequence in which output started and a callback fired",
		Bound: func(tier string) map[string]any {
			m := map[string]any{}
			for _, f := range c20Families {
				d := f.quick
				if tier == "thorough" {
					d = f.thoro
				}
				m[f.name] = map[string]any{"depth": d, "ops": len(f.ops), "configurations": len(f.cfgs)}
			}
			return m
		},
		Assumptions: []string{
			"storage.NewWritable is the reference for the bytes (its own correctness is C01/C05)",
			"roots and option slices are not mutated by the caller between construction and the first Put (the property does not say when they are captured)",
			"the results of Has and of the first Close, the error-ness of Put and the argument of the callbacks are recorded (outcomes beyond-statement:has / close-error / put-result / callback-arg), not asserted: the property fixes the output, the callback bookkeeping and the closed state",
			"a Put that fails and starts nothing (no write, nothing created) does not start the reference either when it follows a failed initialisation of a path (outcome put-retry-after-failed-open when a direct writer could be created by then) or has a non-CID key (outcome invalid-first-put-starts-nothing); 'no output' stays asserted until a Put starts the output; a stream whose writer cannot be constructed fails every Put",
			"a deferred writer that opens its path where os.OpenFile fails is compared with a direct writer from that Put on (outcome open-more-permissive)",
			"write faults of the stream are C16's subject and are not injected here",
		},
	})
}
