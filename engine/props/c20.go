package props

import (
	"bytes"
	"errors"
	"fmt"
	"os"
	"path/filepath"
	"strings"

	"github.com/ipld/go-car/v2/storage"
	"github.com/ipld/go-car/v2/storage/deferred"

	"verif/drv"
	"verif/kit"
)

type C20Case struct {
	Target string   `json:"target"` // path, stream
	Opts   drv.Opts `json:"opts"`
	Ops    []string `json:"ops"`
	Pre    bool     `json:"pre,omitempty"` // a longer file already exists at the target path
}

var c20Ops = []string{"put:a", "put:b", "has:a", "cb", "cb1", "close", "has:b"}

func runC20(c any, x *kit.Ctx) {
	cs := c.(C20Case)
	roots, _, _ := kit.Roots("a")
	opts := cs.Opts.List()
	dpath := filepath.Join(x.Dir, "c20-deferred.car")
	rpath := filepath.Join(x.Dir, "c20-direct.car")
	os.Remove(dpath)
	os.Remove(rpath)
	var preBytes []byte
	if cs.Pre && cs.Target == "path" {
		preBytes = bytes.Repeat([]byte("old export "), 400)
		if err := os.WriteFile(dpath, preBytes, 0o644); err != nil {
			panic(err)
		}
	}
	defer os.Remove(dpath)
	defer os.Remove(rpath)
	var dbuf, rbuf bytes.Buffer
	var dw *deferred.DeferredCarWriter
	if cs.Target == "path" {
		dw = deferred.NewDeferredCarWriterForPath(dpath, roots, opts...)
	} else {
		dw = deferred.NewDeferredCarWriterForStream(drvPlain{&dbuf}, roots, opts...)
	}
	x.Eval(1)
	// release the lazily opened file even when the sequence never closes the writer
	// (millions of cases would otherwise exhaust the file descriptors before the GC runs finalizers)
	defer dw.Close()
	// reference: a directly constructed writer, created at the first Put
	var direct storage.WritableCar
	var rf *os.File
	defer func() {
		if rf != nil {
			rf.Close()
		}
	}()
	directOpts := cs.Opts
	if cs.Target == "stream" {
		directOpts.V1 = true
	}
	type cbReg struct {
		id   int
		once bool
	}
	var model []cbReg
	var gotLog, wantLog []string
	nextID := 0
	closed := false
	started := false
	fail := func(i int, sig, f string, a ...any) {
		x.Fail("c20:"+sig+":"+cs.Target, "after %v: "+f, append([]any{cs.Ops[:i+1]}, a...)...)
	}
	output := func() (exists bool, b []byte) {
		if cs.Target == "path" {
			b, err := os.ReadFile(dpath)
			return err == nil, b
		}
		return dbuf.Len() > 0, dbuf.Bytes()
	}
	directBytes := func() []byte {
		if cs.Target == "path" {
			b, _ := os.ReadFile(rpath)
			return b
		}
		return rbuf.Bytes()
	}
	for i, op := range cs.Ops {
		x.Transition(1)
		kind, arg, _ := strings.Cut(op, ":")
		switch kind {
		case "cb", "cb1":
			id := nextID
			nextID++
			once := kind == "cb1"
			dw.OnPut(func(n int) { gotLog = append(gotLog, fmt.Sprintf("%d:%d", id, n)) }, once)
			model = append(model, cbReg{id, once})
		case "has":
			b := kit.B(arg)
			has, err := dw.Has(drv.Ctx, b.Cid.KeyString())
			if closed {
				if !errors.Is(err, storage.ErrClosed) {
					fail(i, "has-after-close", "Has returned %v,%v want ErrClosed", has, err)
				}
				break
			}
			want := false
			if direct != nil {
				want, _ = direct.Has(drv.Ctx, b.Cid.KeyString())
			}
			if err != nil || has != want {
				fail(i, "has", "Has(%s)=%v,%v want %v", arg, has, err, want)
			}
		case "put":
			b := kit.B(arg)
			err := dw.Put(drv.Ctx, b.Cid.KeyString(), b.Data)
			if closed {
				if !errors.Is(err, storage.ErrClosed) {
					fail(i, "put-after-close", "Put returned %v want ErrClosed", err)
				}
				break
			}
			// callbacks: once per Put in registration order; once-callbacks exactly once
			var keep []cbReg
			for _, r := range model {
				wantLog = append(wantLog, fmt.Sprintf("%d:%d", r.id, len(b.Data)))
				if !r.once {
					keep = append(keep, r)
				}
			}
			model = keep
			if direct == nil {
				var err error
				if cs.Target == "path" {
					rf, err = os.OpenFile(rpath, os.O_CREATE|os.O_TRUNC|os.O_WRONLY, 0o644)
					if err != nil {
						panic(err)
					}
					direct, err = storage.NewWritable(rf, roots, directOpts.List()...)
				} else {
					direct, err = storage.NewWritable(drvPlain{&rbuf}, roots, directOpts.List()...)
				}
				if err != nil {
					panic(err)
				}
				started = true
			}
			derr := direct.Put(drv.Ctx, b.Cid.KeyString(), b.Data)
			if (err != nil) != (derr != nil) {
				fail(i, "put-result", "Put returned %v, the direct writer %v", err, derr)
			}
		case "close":
			err := dw.Close()
			if closed {
				if !errors.Is(err, storage.ErrClosed) {
					fail(i, "close-after-close", "second Close returned %v want ErrClosed", err)
				}
				break
			}
			closed = true
			if err != nil {
				fail(i, "close-error", "Close returned %v", err)
			}
			if direct != nil {
				if err := direct.Finalize(); err != nil {
					panic(err)
				}
			}
		}
		// observers after every step
		exists, got := output()
		if !started {
			if preBytes != nil {
				if !bytes.Equal(got, preBytes) {
					fail(i, "eager-output", "the existing file at the target path was touched before the first Put")
				}
			} else if exists {
				fail(i, "eager-output", "output exists (%d bytes) before the first Put", len(got))
			}
		} else {
			if want := directBytes(); !bytes.Equal(got, want) {
				fail(i, "bytes-differ", "output (%d bytes) differs from the directly constructed writer's (%d bytes): %x vs %x", len(got), len(want), clip(got), clip(want))
			}
		}
		if strings.Join(gotLog, ",") != strings.Join(wantLog, ",") {
			fail(i, "callbacks", "callback log %v want %v", gotLog, wantLog)
		}
		if x.Failed() {
			return
		}
	}
	x.State(fmt.Sprintf("%s|%+v|%v", cs.Target, cs.Opts, cs.Ops))
	x.Outcome(fmt.Sprintf("started=%v closed=%v cbs=%d", started, closed, len(wantLog) > 0))
	if started && len(wantLog) > 0 {
		x.Nontrivial(fmt.Sprintf("%s|%+v|%v", cs.Target, cs.Opts, cs.Ops))
	}
}

type drvPlain struct{ b *bytes.Buffer }

func (p drvPlain) Write(b []byte) (int, error) { return p.b.Write(b) }

func genC20(tier string, emit func(any)) {
	depth := 5
	if tier == "thorough" {
		depth = 7
	}
	type cfg struct {
		target string
		o      drv.Opts
	}
	cfgs := []cfg{
		{"path", drv.Opts{}}, {"path", drv.Opts{DataPad: 3, IndexPad: 2, Codec: "sorted"}}, {"path", drv.Opts{V1: true}},
		{"stream", drv.Opts{}}, {"stream", drv.Opts{AllowDup: true}}, {"path", drv.Opts{AllowDup: true, StoreID: true}},
	}
	var rec func(cur []string)
	rec = func(cur []string) {
		if len(cur) == depth {
			for _, c := range cfgs {
				emit(C20Case{Target: c.target, Opts: c.o, Ops: append([]string{}, cur...)})
			}
			return
		}
		for _, op := range c20Ops {
			rec(append(cur, op))
		}
	}
	rec(nil)
	// the same sequences (one shorter) over a target path at which a longer file already exists
	depth--
	cfgs = []cfg{{"path", drv.Opts{}}, {"path", drv.Opts{V1: true}}}
	var rec2 func(cur []string)
	rec2 = func(cur []string) {
		if len(cur) == depth {
			for _, c := range cfgs {
				emit(C20Case{Target: c.target, Opts: c.o, Ops: append([]string{}, cur...), Pre: true})
			}
			return
		}
		for _, op := range c20Ops {
			rec2(append(cur, op))
		}
	}
	rec2(nil)
}

func init() {
	kit.Register(&kit.Prop{
		ID:     "C20",
		Gen:    genC20,
		Run:    runC20,
		Decode: kit.DecodeAs[C20Case],
		Rule: "every sequence of the depth bound over {Put a, Put b, Has a, Has b, OnPut(always), OnPut(once), Close} (all shorter sequences are checked as prefixes, observers after every step) x {path, stream, path with a longer pre-existing file} x {CARv2, padded CARv2/sorted index, CARv1, duplicates allowed, identity stored}; " +
			"differential oracle: a directly constructed storage.NewWritable driven with the same puts; non-trivial = sequence in which output started and a callback fired",
		Bound: func(tier string) map[string]any {
			if tier == "thorough" {
				return map[string]any{"depth": 7, "ops": 7, "configurations": 6}
			}
			return map[string]any{"depth": 5, "ops": 7, "configurations": 6}
		},
		Assumptions: []string{"storage.NewWritable is the reference for the bytes (its own correctness is C01/C05)"},
	})
}
