package props

import (
	"fmt"

	"github.com/ipfs/go-cid"

	"verif/refcar"
)

// Header shapes for C14: the roots of the header given as runs {count, byte length of each root CID}. A root of a
// chosen byte length is an identity-multihash CIDv1 (the digest is free, so every length from 4 up is realisable);
// (the hashed root kinds - CIDv0, sha2-256, sha2-512 - stay in the named root sets of kit.RootSets).

// c14VarintLen is the width of the unsigned varint of v.
func c14VarintLen(v uint64) int {
	n := 1
	for v >= 0x80 {
		v >>= 7
		n++
	}
	return n
}

// c14IdentityRoot returns the bytes of an identity-multihash CIDv1 that is exactly l bytes long (l >= 4). salt varies
// the digest. A CIDv1 is version(1) codec mhcode(1) digestlen digest; the digest-length varint leaves holes in the
// lengths reachable with one codec (132, 16389, ...), which codecs with a wider varint fill.
func c14IdentityRoot(l int, salt int) []byte {
	for _, codec := range []uint64{refcar.CodecRaw, 0x0129 /* dag-json: 2-byte varint */} {
		for k := 1; k <= 4; k++ {
			d := l - 2 - c14VarintLen(codec) - k
			if d < 0 || c14VarintLen(uint64(d)) != k {
				continue
			}
			dg := make([]byte, d)
			for i := range dg {
				dg[i] = byte(salt*31 + i*7 + l)
			}
			raw := refcar.CIDv1(codec, refcar.MhIdentity, dg)
			if len(raw) != l {
				panic(fmt.Sprintf("c14: identity root of %d bytes came out %d bytes long", l, len(raw)))
			}
			// the alphabet must be a CID go-cid reads back unchanged, or the header would not be canonical
			c, err := cid.Cast(raw)
			if err != nil || string(c.Bytes()) != string(raw) {
				panic(fmt.Sprintf("c14: identity root of %d bytes is not a canonical CID: %v", l, err))
			}
			return raw
		}
	}
	panic(fmt.Sprintf("c14: no identity CID is %d bytes long", l))
}

// c14HdrRoots expands the runs into root CID bytes.
func c14HdrRoots(runs [][2]int) [][]byte {
	out := [][]byte{}
	for _, r := range runs {
		for i := 0; i < r[0]; i++ {
			out = append(out, c14IdentityRoot(r[1], len(out)))
		}
	}
	return out
}

// c14HdrBytes is the number of root CID bytes of the shape.
func c14HdrBytes(runs [][2]int) int {
	n := 0
	for _, r := range runs {
		n += r[0] * r[1]
	}
	return n
}

func c14HdrKey(runs [][2]int) string { return fmt.Sprint(runs) }

// c14BodyLen is the length of the DAG-CBOR header body for these runs (reference encoder).
func c14BodyLen(runs [][2]int) int {
	return len(refcar.EncodeHeaderBody(c14HdrRoots(runs), false, 1))
}

// c14SingleRootAtBody returns the byte length of the single root whose header body is exactly body bytes long
// (the body grows by one with the root, except where the byte-string head widens: those values are skipped).
func c14SingleRootAtBody(body int) (int, bool) {
	// body = 1 + 6 + arrayhead(1) + tag(2) + bytestring head(1..5) + 1 + l + 8 + 1
	for _, hw := range []int{1, 2, 3, 5} {
		l := body - 20 - hw
		if l >= 4 && c14BodyLen([][2]int{{1, l}}) == body {
			return l, true
		}
	}
	return 0, false
}

// c14HeaderShapes is the header dimension. Every range is there for a format boundary:
//   - one root of every byte length 4..300: the CBOR byte string that holds a root is 1+len bytes, its head widens at
//     24 and 256 (root lengths 23 and 255); the body crosses 127/128 bytes (length prefix 1 -> 2 bytes) on the way;
//   - one root of 65535+-3 bytes: the byte-string head widens to 5 bytes at 65536;
//   - one root such that the header body is 16384+-40 bytes (length prefix 2 -> 3 bytes); thorough: 2097152+-2;
//   - n roots of equal length, n = 0..40 and 250..260 (array head widens at 24 and 256), each with root length
//     4, 22, 23, 24 and 36, so that a per-root error accumulates and an array-head error shows; 65534..65537 roots
//     of 4 bytes (array head 3 -> 5 bytes at 65536; thorough);
//   - two roots, every ordered pair of lengths over {22,23,24,36,254,255,256}: position-dependent accounting.
func c14HeaderShapes(tier string) [][][2]int {
	var out [][][2]int
	for l := 4; l <= 300; l++ {
		out = append(out, [][2]int{{1, l}})
	}
	for l := 65535 - 3; l <= 65535+3; l++ {
		out = append(out, [][2]int{{1, l}})
	}
	for body := 16384 - 40; body <= 16384+40; body++ {
		if l, ok := c14SingleRootAtBody(body); ok {
			out = append(out, [][2]int{{1, l}})
		}
	}
	counts := []int{}
	for n := 0; n <= 40; n++ {
		counts = append(counts, n)
	}
	for n := 250; n <= 260; n++ {
		counts = append(counts, n)
	}
	for _, n := range counts {
		for _, l := range []int{4, 22, 23, 24, 36} {
			if n == 0 && l != 4 {
				continue
			}
			if n == 1 {
				continue // the single-root sweep has it
			}
			out = append(out, [][2]int{{n, l}})
		}
	}
	pair := []int{22, 23, 24, 36, 254, 255, 256}
	for _, a := range pair {
		for _, b := range pair {
			out = append(out, [][2]int{{1, a}, {1, b}})
		}
	}
	// the 2 -> 3 byte length prefix (body 16384) once more with roots of ordinary size only (398 roots of 36 bytes and
	// one of 30..55: bodies 16372..16397), so that the boundary stays covered when a version refuses oversize roots
	for l := 30; l <= 55; l++ {
		out = append(out, [][2]int{{398, 36}, {1, l}})
	}
	if tier == "thorough" {
		for body := 2097152 - 2; body <= 2097152+2; body++ {
			if l, ok := c14SingleRootAtBody(body); ok {
				out = append(out, [][2]int{{1, l}})
			}
		}
		for n := 65534; n <= 65537; n++ {
			out = append(out, [][2]int{{n, 4}})
		}
	}
	return out
}

// c14HdrOversize: the header holds a root CID longer than the largest CID go-car handles elsewhere (2 KiB,
// DefaultMaxIndexCidSize), or its body is over 1 MiB. Whether such an archive must be readable is a resource policy.
func c14HdrOversize(roots [][]byte) bool {
	for _, r := range roots {
		if len(r) > 2<<10 {
			return true
		}
	}
	return len(refcar.EncodeHeaderBody(roots, false, 1)) > 1<<20
}
