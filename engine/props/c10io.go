package props

import (
	"bytes"
	"io"
)

// c10PlainRS is an io.ReadSeeker and nothing else (no ReadByte, ReadAt, WriterTo): it forces
// go-car onto its wrapped-seeker path and io.Copy onto its generic loop. Reads are capped at
// chunk bytes (short reads are allowed by the io.Reader contract); with eofWithData the last
// bytes are returned together with io.EOF (also allowed by the contract).
type c10PlainRS struct {
	r           *bytes.Reader
	chunk       int
	eofWithData bool
}

func (p *c10PlainRS) Read(b []byte) (int, error) {
	if len(b) == 0 {
		return 0, nil
	}
	if p.chunk > 0 && len(b) > p.chunk {
		b = b[:p.chunk]
	}
	n, err := p.r.Read(b)
	if p.eofWithData && n > 0 && err == nil && p.r.Len() == 0 {
		return n, io.EOF
	}
	return n, err
}

func (p *c10PlainRS) Seek(off int64, whence int) (int64, error) { return p.r.Seek(off, whence) }

// c10PlainW is an io.Writer and nothing else (no ReadFrom): io.Copy must run its own loop.
type c10PlainW struct {
	b      bytes.Buffer
	writes int
}

func (w *c10PlainW) Write(p []byte) (int, error) {
	w.writes++
	return w.b.Write(p)
}
