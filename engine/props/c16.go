package props

import (
	"bytes"
	"fmt"
	"os"
	"path/filepath"
	"strings"

	blocks "github.com/ipfs/go-block-format"
	"github.com/ipfs/go-cid"
	"github.com/ipld/go-car/v2/blockstore"
	"github.com/ipld/go-car/v2/index"
	"github.com/ipld/go-car/v2/storage"
	"github.com/ipld/go-car/v2/storage/deferred"

	"verif/drv"
	"verif/kit"
	"verif/model"
	"verif/refcar"
)

type C16Case struct {
	Blocks []string    `json:"blocks,omitempty"` // default a, L300, b: one Put call each
	Batch  []string    `json:"batch,omitempty"`  // bs only: after Blocks, ONE PutMany call with these
	Front  string      `json:"front"`            // bs, st, st-stream, def-stream, def-path, st-memdev, st-memrw, bs-ro, st-ro
	Opts   drv.Opts    `json:"opts"`
	Faults []drv.Fault `json:"faults"`
	Retry  bool        `json:"retry,omitempty"`  // a failed Put/PutMany is retried once
	Cont   string      `json:"cont,omitempty"`   // after a failed finalize: "" stop, "refin" finalize again, "putfin" Put k then finalize again; "reopen": resume the file with a fresh store
	Fro    bool        `json:"fro,omitempty"`    // bs: FinalizeReadOnly (+ Close at the end) instead of Finalize
	Pre    []string    `json:"pre,omitempty"`    // bs, st: blocks of a fault-free first generation; the faulted session RESUMES that file
	PreFin bool        `json:"prefin,omitempty"` // the first generation was finalized
	Class  string      `json:"class,omitempty"`
}

var c16Blocks = []string{"a", "L300", "b"}

// c16Extra is the block put by the "putfin" continuation (in no session's block list).
const c16Extra = "k"

// faultyWriter injects faults into a plain stream.
type faultyWriter struct {
	buf    bytes.Buffer
	faults []drv.Fault
	calls  int
	lens   []int
}

func (w *faultyWriter) Write(p []byte) (int, error) {
	k := w.calls
	w.calls++
	w.lens = append(w.lens, len(p))
	for _, f := range w.faults {
		if f.At == k {
			n := f.N
			if n > len(p) {
				n = len(p)
			}
			w.buf.Write(p[:n])
			return n, drv.ErrInjected
		}
	}
	return w.buf.Write(p)
}

// c16W is the uniform view of the front-ends.
type c16W struct {
	bs       *blockstore.ReadWrite
	st       *storage.StorageCar // storage front-ends (file, memory, stream)
	dw       *deferred.DeferredCarWriter
	readable bool // st has a reader (Get works)
}

func (w *c16W) Put(b kit.Blk) error {
	switch {
	case w.bs != nil:
		return w.bs.Put(drv.Ctx, b.Block())
	case w.dw != nil:
		return w.dw.Put(drv.Ctx, b.Cid.KeyString(), b.Data)
	}
	return w.st.Put(drv.Ctx, b.Cid.KeyString(), b.Data)
}

func (w *c16W) PutMany(bs []kit.Blk) error {
	l := make([]blocks.Block, len(bs))
	for i, b := range bs {
		l[i] = b.Block()
	}
	return w.bs.PutMany(drv.Ctx, l)
}

func (w *c16W) Has(b kit.Blk) (bool, error) {
	switch {
	case w.bs != nil:
		return w.bs.Has(drv.Ctx, b.Cid)
	case w.dw != nil:
		return w.dw.Has(drv.Ctx, b.Cid.KeyString())
	}
	return w.st.Has(drv.Ctx, b.Cid.KeyString())
}

// Get: third result false = the front-end cannot read.
func (w *c16W) Get(b kit.Blk) ([]byte, error, bool) {
	switch {
	case w.bs != nil:
		bl, err := w.bs.Get(drv.Ctx, b.Cid)
		if err != nil {
			return nil, err, true
		}
		return bl.RawData(), nil, true
	case w.st != nil && w.readable:
		d, err := w.st.Get(drv.Ctx, b.Cid.KeyString())
		return d, err, true
	}
	return nil, nil, false
}

func (w *c16W) GetSize(b kit.Blk) (int, error, bool) {
	if w.bs == nil {
		return 0, nil, false
	}
	n, err := w.bs.GetSize(drv.Ctx, b.Cid)
	return n, err, true
}

func (w *c16W) Keys() ([]cid.Cid, error, bool) {
	if w.bs == nil {
		return nil, nil, false
	}
	ch, err := w.bs.AllKeysChan(drv.Ctx)
	if err != nil {
		return nil, err, true
	}
	var out []cid.Cid
	for c := range ch {
		out = append(out, c)
	}
	return out, nil, true
}

// IndexHits counts the offsets the live index reports for the block's CID.
func (w *c16W) IndexHits(b kit.Blk) (int, bool) {
	var idx index.Index
	switch {
	case w.bs != nil:
		idx = w.bs.Index()
	case w.st != nil:
		idx = w.st.Index()
	default:
		return 0, false
	}
	n := 0
	_ = idx.GetAll(b.Cid, func(uint64) bool { n++; return true })
	return n, true
}

func (w *c16W) Finalize() error {
	switch {
	case w.bs != nil:
		return w.bs.Finalize()
	case w.dw != nil:
		return w.dw.Close()
	}
	return w.st.Finalize()
}

type c16Result struct {
	lens     []int    // lengths of the faultable writes, in order
	calls    []string // API call kind that issued each of them
	fired    int      // number of the case's faults that were reached
	contRan  bool     // the Cont continuation was executed
	openFail bool
}

// c16Reopen: after a session whose later calls kept failing, the file is resumed by a fresh store, one more
// block is put and the archive finalized. The resumption may be refused (outcome). If everything succeeds the
// archive must be well-formed (every section hashing to its CID), hold every acknowledged block and the new one,
// and nothing else except intact copies of blocks whose Put had reported the failure after writing them whole.
func c16Reopen(x *kit.Ctx, cs C16Case, path string, roots []cid.Cid, okBlocks, absent []kit.Blk, fail func(sig, f string, a ...any)) {
	f, err := os.OpenFile(path, os.O_RDWR, 0o644)
	if err != nil {
		return
	}
	defer f.Close()
	x.Eval(1)
	s, err := c06Open(cs.Front, f, roots, cs.Opts, true)
	if err != nil {
		x.Outcome("reopen-after-fault-refused")
		return
	}
	defer s.Discard()
	k := kit.B(c16Extra)
	if err := s.Put(k); err != nil {
		x.Outcome("reopen-after-fault-put-failed")
		return
	}
	if err := s.Finalize(); err != nil {
		x.Outcome("reopen-after-fault-finalize-failed")
		return
	}
	x.Outcome("reopened-after-fault")
	b, _ := os.ReadFile(path)
	fl, err := refcar.DecodeFile(b, false)
	if err != nil {
		fail("reopen:malformed-archive", "after a failed write the file was resumed by a fresh store, one block put and the archive finalized, all without error: the archive is not well-formed: %v", err)
		return
	}
	have := map[string]int{}
	for _, sec := range fl.Payload.Sections {
		have[string(sec.Cid)]++
	}
	for _, b := range append(append([]kit.Blk{}, okBlocks...), k) {
		if b.Cid.Prefix().MhType == 0 && !cs.Opts.StoreID {
			continue
		}
		if have[string(b.Raw)] == 0 {
			fail("reopen:acked-block-lost", "block %s, whose Put had succeeded, is missing from the archive finalized after resuming", b.Name)
		}
		delete(have, string(b.Raw))
	}
	for _, b := range absent {
		delete(have, string(b.Raw)) // written whole before the error was reported: intact (the decode verified it), tolerated
	}
	for c := range have {
		fail("reopen:phantom-block", "the archive finalized after resuming holds a block that was never put: %x", c)
	}
}

// c16Run executes the session under the given faults and applies the oracle (check = false:
// only learn the write sequence).
func c16Run(x *kit.Ctx, cs C16Case, check bool) (res c16Result) {
	drv.InstallC16Hook()
	roots := []cid.Cid{kit.B("a").Cid}
	fail := func(sig, f string, a ...any) {
		if check {
			x.Fail("c16:"+cs.Front+":"+cs.Class+":"+sig, f, a...)
		}
	}
	path := filepath.Join(x.Dir, "c16.car")
	os.Remove(path)
	defer os.Remove(path)

	var w *c16W
	var openErr error
	var hooked func() int
	var lensNow func() []int
	var final func() []byte
	var okBlocks []kit.Blk

	switch cs.Front {
	case "bs", "st":
		if len(cs.Pre) > 0 {
			// fault-free first generation
			pf, err := os.OpenFile(path, os.O_RDWR|os.O_CREATE|os.O_TRUNC, 0o644)
			if err != nil {
				panic(err)
			}
			s, err := c06Open(cs.Front, pf, roots, cs.Opts, false)
			if err != nil {
				panic(err)
			}
			for _, b := range kit.Bs(cs.Pre) {
				if err := s.Put(b); err != nil {
					panic(err)
				}
				okBlocks = append(okBlocks, b)
			}
			if cs.PreFin {
				if err := s.Finalize(); err != nil {
					panic(err)
				}
			}
			s.Discard()
			pf.Close()
		}
		flags := os.O_RDWR | os.O_CREATE
		if len(cs.Pre) == 0 {
			flags |= os.O_TRUNC
		}
		f, err := os.OpenFile(path, flags, 0o644)
		if err != nil {
			panic(err)
		}
		defer f.Close()
		tr := drv.NewTrace(f)
		tr.Faults = cs.Faults
		defer tr.Stop()
		hooked = tr.Hooked
		// requested lengths, faulted writes included (tr.Log has no record of a faulted write
		// of which nothing reached the file)
		rec := drv.NewLenRecorder(f)
		defer rec.Stop(f)
		lensNow = rec.Lens
		final = func() []byte { b, _ := os.ReadFile(path); return b }
		s, err := c06Open(cs.Front, f, roots, cs.Opts, len(cs.Pre) > 0)
		openErr = err
		if err == nil {
			defer s.Discard()
			w = &c16W{bs: s.bs, st: s.st, readable: true}
		}
	case "st-stream":
		fw := &faultyWriter{faults: cs.Faults}
		hooked = func() int { return fw.calls }
		lensNow = func() []int { return fw.lens }
		final = func() []byte { return fw.buf.Bytes() }
		o := cs.Opts
		o.V1 = true
		s, err := storage.NewWritable(fw, roots, o.List()...)
		openErr = err
		if err == nil {
			w = &c16W{st: s.(*storage.StorageCar)}
		}
	case "def-stream":
		fw := &faultyWriter{faults: cs.Faults}
		hooked = func() int { return fw.calls }
		lensNow = func() []int { return fw.lens }
		final = func() []byte { return fw.buf.Bytes() }
		w = &c16W{dw: deferred.NewDeferredCarWriterForStream(fw, roots, cs.Opts.List()...)}
	case "def-path":
		pi := drv.NewPathInjector(path, cs.Faults)
		defer pi.Stop()
		hooked = pi.Hooked
		lensNow = pi.Lens
		final = func() []byte { b, _ := os.ReadFile(path); return b }
		w = &c16W{dw: deferred.NewDeferredCarWriterForPath(path, roots, cs.Opts.List()...)}
	case "st-memdev", "st-memrw":
		md := &drv.MemDev{Faults: cs.Faults}
		hooked = func() int { return md.Calls }
		lensNow = func() []int { return md.Lens }
		final = func() []byte { return md.Buf }
		if cs.Front == "st-memdev" {
			s, err := storage.NewWritable(md, roots, cs.Opts.List()...)
			openErr = err
			if err == nil {
				w = &c16W{st: s.(*storage.StorageCar)}
			}
		} else {
			s, err := storage.NewReadableWritable(drv.MemDevRW{MemDev: md}, roots, cs.Opts.List()...)
			openErr = err
			if err == nil {
				w = &c16W{st: s, readable: true}
			}
		}
	default:
		panic("unknown front " + cs.Front)
	}
	v1 := cs.Opts.V1 || cs.Front == "st-stream" || cs.Front == "def-stream"

	mark := func(kind string, before int) {
		for i := before; i < hooked(); i++ {
			res.calls = append(res.calls, kind)
		}
	}
	faultIn := func(before, after int) bool {
		for _, ft := range cs.Faults {
			if ft.At >= before && ft.At < after {
				return true
			}
		}
		return false
	}
	defer func() {
		res.lens = lensNow()
		for _, ft := range cs.Faults {
			if ft.At < hooked() {
				res.fired++
			}
		}
	}()
	x.Eval(1)
	mark("open", 0)
	if openErr != nil {
		if !faultIn(0, hooked()) {
			fail("open-error", "constructor failed without an injected fault: %v", openErr)
		}
		x.Outcome("open-failed")
		res.openFail = true
		return
	}
	faultSeen := false // a fault fired in some call so far
	if faultIn(0, hooked()) {
		// The statement speaks of Put and Finalize. A constructor that does not report a
		// failed write is recorded; the session goes on and the statement's second sentence
		// decides (if every later call succeeds the archive must be right).
		if check {
			x.Outcome("beyond-statement:fault-swallowed:open")
		}
		faultSeen = true
	}
	failAfter := false // a call that met no fault failed after the last fault
	var absent []kit.Blk
	var maybe []kit.Blk // blocks of a failed PutMany that precede the failing one
	inList := func(l []kit.Blk, b kit.Blk) bool {
		for _, o := range l {
			if bytes.Equal(o.Raw, b.Raw) {
				return true
			}
		}
		return false
	}
	sameHash := func(l []kit.Blk, b kit.Blk) bool {
		for _, o := range l {
			if bytes.Equal(o.Cid.Hash(), b.Cid.Hash()) {
				return true
			}
		}
		return false
	}
	// the live (insertion) index is keyed by the bare digest: a record of another block with
	// the same digest (a / ia) answers GetAll
	sameDigest := func(l []kit.Blk, b kit.Blk) bool {
		bc, _ := refcar.ParseCID(b.Raw)
		for _, o := range l {
			if oc, err := refcar.ParseCID(o.Raw); err == nil && bytes.Equal(oc.Digest, bc.Digest) {
				return true
			}
		}
		return false
	}
	call := func(kind string, fn func() error) (err error, injected bool) {
		before := hooked()
		err = fn()
		after := hooked()
		mark(kind, before)
		x.Transition(1)
		injected = faultIn(before, after)
		if injected {
			faultSeen = true
			failAfter = false
			if err == nil {
				fail("fault-swallowed:"+kind, "%s returned nil although one of its writes failed", kind)
			}
		} else if err != nil {
			if faultSeen {
				failAfter = true
			} else {
				fail(kind+"-error", "%s failed without an injected fault: %v", kind, err)
			}
		}
		return
	}
	notStoredByRule := func(b kit.Blk) bool { return model.IsIdentity(b.Raw) && !cs.Opts.StoreID }

	// audit looks at the store after a failed call. open = the store has not been finalized
	// or closed by the caller yet (after a failed Put): every answer must be exact. Otherwise
	// (after a failed finalize) errors are tolerated, wrong answers are not.
	audit := func(stage string, open bool) {
		if !check {
			return
		}
		for _, b := range absent {
			// identity CIDs are always "present" unless they are stored explicitly (IdStore rule)
			if notStoredByRule(b) || sameHash(okBlocks, b) || sameHash(maybe, b) {
				continue
			}
			has, herr := w.Has(b)
			if has {
				fail("failed-block-reported", "Put(%s) failed but Has reports the block (%s)", b.Name, stage)
			} else if herr != nil && open {
				// the block is not reported as stored; that the store answers at all is
				// not in the statement
				x.Outcome("beyond-statement:has-error-after-failed-write")
			}
			if _, gerr, ok := w.Get(b); ok && gerr == nil {
				fail("failed-block-readable", "Put(%s) failed but Get returns the block (%s)", b.Name, stage)
			}
			if !model.IsIdentity(b.Raw) {
				if _, serr, ok := w.GetSize(b); ok && serr == nil {
					fail("failed-block-readable", "Put(%s) failed but GetSize returns a size (%s)", b.Name, stage)
				}
			}
			if n, ok := w.IndexHits(b); ok && n > 0 && !sameDigest(okBlocks, b) && !sameDigest(maybe, b) {
				fail("failed-block-indexed", "Put(%s) failed but the live index has %d record(s) for it (%s)", b.Name, n, stage)
			}
		}
		for _, b := range okBlocks {
			has, herr := w.Has(b)
			if herr == nil && !has {
				fail("acked-block-lost", "Put(%s) succeeded but after the failed write (%s) Has reports false", b.Name, stage)
			} else if herr != nil && open {
				x.Outcome("beyond-statement:has-error-after-failed-write")
			}
			if d, gerr, ok := w.Get(b); ok {
				if gerr == nil && !bytes.Equal(d, b.Data) {
					fail("acked-block-corrupt", "Put(%s) succeeded but after the failed write (%s) Get returns %x", b.Name, stage, clip(d))
				} else if gerr != nil && open {
					x.Outcome("beyond-statement:get-error-after-failed-write")
				}
			}
		}
		for _, b := range maybe {
			// written before the failing block of a PutMany: either answer, but a consistent one
			has, herr := w.Has(b)
			if herr == nil && has {
				if d, gerr, ok := w.Get(b); ok && (gerr != nil || !bytes.Equal(d, b.Data)) {
					fail("batch-prefix-inconsistent", "Has(%s) is true but Get returns %x, %v (%s)", b.Name, clip(d), gerr, stage)
				}
			} else if herr == nil && !notStoredByRule(b) {
				if n, ok := w.IndexHits(b); ok && n > 0 && !sameDigest(okBlocks, b) {
					fail("batch-prefix-inconsistent", "Has(%s) is false but the live index has %d record(s) (%s)", b.Name, n, stage)
				}
			}
		}
		if keys, kerr, ok := w.Keys(); ok {
			if kerr != nil {
				if open {
					x.Outcome("beyond-statement:keys-error-after-failed-write")
				}
			} else {
				for _, k := range keys {
					kb := kit.Blk{Cid: k}
					switch {
					case sameHash(okBlocks, kb) || sameHash(maybe, kb):
					case sameHash(absent, kb):
						fail("failed-block-listed", "AllKeysChan lists a block whose Put failed: %s (%s)", k, stage)
					default:
						fail("phantom-key", "AllKeysChan lists a key that was never put: %s (%s)", k, stage)
					}
				}
				for _, b := range okBlocks {
					if notStoredByRule(b) {
						continue
					}
					found := false
					for _, k := range keys {
						if bytes.Equal(k.Hash(), b.Cid.Hash()) {
							found = true
						}
					}
					if !found {
						fail("acked-block-lost", "Put(%s) succeeded but after the failed write (%s) AllKeysChan does not list it", b.Name, stage)
					}
				}
			}
		}
	}
	drop := func(l []kit.Blk, b kit.Blk) []kit.Blk {
		var o []kit.Blk
		for _, e := range l {
			if !bytes.Equal(e.Raw, b.Raw) {
				o = append(o, e)
			}
		}
		return o
	}

	attempts := 1
	if cs.Retry {
		attempts = 2
	}
	blockNames := c16Blocks
	if len(cs.Blocks) > 0 {
		blockNames = cs.Blocks
	}
	for _, n := range blockNames {
		b := kit.B(n)
		stored := false
		for a := 0; a < attempts && !stored; a++ {
			err, _ := call("put", func() error { return w.Put(b) })
			if err == nil {
				stored = true
				okBlocks = append(okBlocks, b)
				absent = drop(absent, b)
			} else {
				if !inList(absent, b) {
					absent = append(absent, b)
				}
				audit("Put "+n, true)
			}
		}
	}
	if len(cs.Batch) > 0 {
		batch := kit.Bs(cs.Batch)
		stored := false
		for a := 0; a < attempts && !stored; a++ {
			before := hooked()
			// the blocks of the batch for which PutMany writes nothing: not stored by rule,
			// present before the call (asked of the store itself), or repeated in the batch
			skip := make([]bool, len(batch))
			for i, b := range batch {
				has, herr := w.Has(b)
				skip[i] = notStoredByRule(b) || (!cs.Opts.AllowDup && (herr == nil && has || sameHash(batch[:i], b)))
			}
			err, injected := call("putmany", func() error { return w.PutMany(batch) })
			if err == nil {
				stored = true
				for _, b := range batch {
					okBlocks = append(okBlocks, b)
					absent = drop(absent, b)
					maybe = drop(maybe, b)
				}
				continue
			}
			// the block that was being written when the fault fired, located by BYTES (the
			// section sizes are fixed by the format; how many write calls a section takes,
			// and which blocks are skipped as present, is the implementation's business):
			// the sections completed by the writes of this call that precede the faulted one
			failing := 0
			if injected {
				first := -1
				for _, ft := range cs.Faults {
					if ft.At >= before && ft.At < hooked() && (first < 0 || ft.At < first) {
						first = ft.At
					}
				}
				done := 0
				for i, l := range lensNow() {
					if i >= before && i < first {
						done += l
					}
				}
				for ; failing < len(batch); failing++ {
					if skip[failing] {
						continue
					}
					sz := c16SectionSize(batch[failing])
					if done < sz {
						break
					}
					done -= sz
				}
			}
			for i, b := range batch {
				if i < failing {
					if !inList(maybe, b) && !inList(okBlocks, b) {
						maybe = append(maybe, b)
					}
					absent = drop(absent, b)
				} else if !inList(maybe, b) && !inList(absent, b) && !inList(okBlocks, b) {
					absent = append(absent, b)
				}
			}
			audit("PutMany", true)
		}
	}

	finalize := func() error {
		if cs.Fro {
			return w.bs.FinalizeReadOnly()
		}
		return w.Finalize()
	}
	lastFin, _ := call("finalize", finalize)
	if lastFin != nil {
		audit("finalize", false)
		switch cs.Cont {
		case "refin":
			res.contRan = true
			lastFin, _ = call("finalize", finalize)
		case "putfin":
			res.contRan = true
			b := kit.B(c16Extra)
			if err, _ := call("put", func() error { return w.Put(b) }); err == nil {
				okBlocks = append(okBlocks, b)
			} else {
				absent = append(absent, b)
				audit("Put after failed finalize", false)
			}
			lastFin, _ = call("finalize", finalize)
		}
	}
	if cs.Fro {
		// the read-only phase: everything acknowledged is still there; then Close
		if lastFin == nil && faultSeen && !failAfter {
			audit("FinalizeReadOnly succeeded", true)
		}
		if cerr, _ := call("close", func() error { return w.bs.Close() }); cerr != nil && lastFin == nil {
			lastFin = cerr
		}
	}
	if !check {
		return
	}
	if failAfter || lastFin != nil {
		x.Outcome("sticky-or-finalize-failed")
		if cs.Cont == "reopen" && (cs.Front == "bs" || cs.Front == "st") && w != nil {
			// the caller carries on the other way: it gives the store up and resumes the file (no faults any more)
			res.contRan = true
			c16Reopen(x, cs, path, roots, okBlocks, append(append([]kit.Blk{}, absent...), maybe...), fail)
		}
		return // later calls keep failing: nothing is asserted about the archive
	}
	if faultSeen {
		x.Outcome("carried-on")
	} else {
		x.Outcome("no-fault-reached")
	}
	// the caller carried on and every later call succeeded: the archive must be well-formed
	// and hold exactly the blocks whose Put returned success
	fl, err := refcar.DecodeFile(final(), false)
	if err != nil {
		fail("malformed-archive", "after a failed write and a successful continuation the finalized archive is not well-formed: %v", err)
		return
	}
	if fl.Version == 2 == v1 {
		fail("malformed-archive", "finalized archive has version %d", fl.Version)
	}
	if len(fl.Payload.Header.Roots) != 1 || !bytes.Equal(fl.Payload.Header.Roots[0], kit.B("a").Raw) {
		fail("malformed-archive", "finalized archive has roots %x", fl.Payload.Header.Roots)
	}
	var want []refcar.Block
	for _, b := range okBlocks {
		if !notStoredByRule(b) && !inList(maybe, b) {
			want = append(want, b.Ref())
		}
	}
	var got []refcar.Block
	for _, s := range fl.Payload.Sections {
		if !inList(maybe, kit.Blk{Raw: s.Cid}) {
			got = append(got, refcar.Block{Cid: s.Cid, Data: s.Data})
		}
	}
	// "contains exactly the blocks": as a multiset, the statement fixes no order
	if d := c16SameBlockSet(got, want); d != "" {
		fail("wrong-blocks", "finalized archive does not hold exactly the successfully put blocks: %s", d)
	}
	if !v1 {
		if !fl.HasIndex {
			// a CARv2 without index is well-formed; that Finalize writes one is documented
			// behaviour outside the statement
			x.Outcome("beyond-statement:no-index")
		} else if g, w2 := recMultiset(fl.IndexCodec, fl.Index), recMultiset(fl.IndexCodec, refcar.RecordsOf(fl.Payload, cs.Opts.StoreID)); g != w2 {
			fail("malformed-archive", "index {%s} does not match payload {%s}", g, w2)
		}
	}
	return
}

// c16SectionSize is the number of bytes of the block's section: varint(len(CID)+len(data)),
// CID, data.
func c16SectionSize(b kit.Blk) int {
	n := len(b.Raw) + len(b.Data)
	sz := n + 1
	for v := n; v >= 0x80; v >>= 7 {
		sz++
	}
	return sz
}

// c16SameBlockSet compares two block lists as multisets of (CID, data).
func c16SameBlockSet(got, want []refcar.Block) string {
	count := map[string]int{}
	for _, b := range want {
		count[string(b.Cid)+"\x00"+string(b.Data)]++
	}
	for _, b := range got {
		k := string(b.Cid) + "\x00" + string(b.Data)
		if count[k] == 0 {
			return fmt.Sprintf("holds %x (data %x) which was not successfully put, or holds it too often (%d blocks vs %d)", b.Cid, clip(b.Data), len(got), len(want))
		}
		count[k]--
	}
	if len(got) != len(want) {
		return fmt.Sprintf("%d blocks vs %d", len(got), len(want))
	}
	return ""
}

// c16Pragma: the CARv2 pragma is written straight to the file (WriteAt in the blockstore, Write
// in storage), not through the seam. Give the constructor a file that is open read-only, so
// that exactly these writes fail, and swallow the seam writes: the constructor must fail.
// Control: the same with a writable file must succeed and leave exactly the pragma on disk.
func c16Pragma(x *kit.Ctx, cs C16Case) {
	roots := []cid.Cid{kit.B("a").Cid}
	path := filepath.Join(x.Dir, "c16p.car")
	front := strings.TrimSuffix(cs.Front, "-ro")
	for _, ro := range []bool{false, true} {
		os.Remove(path)
		f, err := os.OpenFile(path, os.O_RDWR|os.O_CREATE|os.O_TRUNC, 0o644)
		if err != nil {
			panic(err)
		}
		if ro {
			f.Close()
			if f, err = os.Open(path); err != nil {
				panic(err)
			}
		}
		sink := drv.NewMemSink(f)
		s, err := c06Open(front, f, roots, cs.Opts, false)
		x.Eval(1)
		x.Transition(1)
		if s != nil {
			s.Discard()
		}
		sink.Stop(f)
		f.Close()
		if !ro {
			b, _ := os.ReadFile(path)
			if err != nil || !bytes.Equal(b, refcar.Pragma) || sink.Swallowed() == 0 {
				// the control does not isolate the pragma write: the harness is out of date
				x.NotExhaustive(fmt.Sprintf("c16 pragma control (%s) no longer isolates the pragma write: err=%v file=%x swallowed=%d", front, err, clip(b), sink.Swallowed()))
				break
			}
			continue
		}
		if err == nil {
			// constructors are outside the statement (Put, Finalize): recorded only
			x.Outcome("beyond-statement:fault-swallowed:open")
		} else {
			x.Outcome("open-failed")
		}
	}
	os.Remove(path)
}

func runC16(c any, x *kit.Ctx) {
	cs := c.(C16Case)
	key := fmt.Sprintf("%+v", cs)
	x.State(key)
	if strings.HasSuffix(cs.Front, "-ro") {
		c16Pragma(x, cs)
		x.Nontrivial(key)
		return
	}
	res := c16Run(x, cs, true)
	if res.fired == 0 {
		// the generator only emits fault positions it saw in the fault-free run
		x.Fail("c16:harness:fault-not-reached", "the first fault of the case was never reached (%d faultable writes)", len(res.lens))
		return
	}
	if res.fired < len(cs.Faults) {
		x.Outcome("later-fault-not-reached")
		return // same execution as the case without the unreached fault
	}
	if cs.Cont != "" && !res.contRan {
		x.Outcome("continuation-not-reached")
		return // same execution as Cont = ""
	}
	x.Nontrivial(key)
}

type c16Job struct {
	front  string
	o      drv.Opts
	blocks []string
	batch  []string
	pre    []string
	preFin bool
	fro    bool
	tag    string // prefix of the class of the job's cases
}

func genC16(tier string, emit func(any)) {
	drv.InstallC16Hook()
	sorted := drv.Opts{Codec: "sorted"}
	padded := drv.Opts{DataPad: 3, IndexPad: 2, Codec: "sorted"}
	multiBlocks := []string{"a", "s", "i", "ia", "t"}
	zeroBlocks := []string{"a", "e", "b"}
	pre := []string{"c", "s"}
	jobs := []c16Job{
		{front: "bs"}, {front: "bs", o: padded}, {front: "bs", o: drv.Opts{V1: true}},
		{front: "st"}, {front: "st", o: drv.Opts{V1: true}},
		{front: "st-stream"}, {front: "def-stream"},
		// sessions whose index has several width buckets / hash codes (so that Finalize issues
		// several bucket writes, any of which may fail)
		{front: "bs", o: sorted, blocks: multiBlocks}, {front: "st", o: sorted, blocks: multiBlocks},
		{front: "bs", o: drv.Opts{StoreID: true}, blocks: multiBlocks}, {front: "st", o: drv.Opts{StoreID: true, Codec: "sorted"}, blocks: multiBlocks},
		// DeferredCarWriter for a path (creates, and after a failed header re-creates, its file)
		{front: "def-path"}, {front: "def-path", o: drv.Opts{V1: true}}, {front: "def-path", o: padded},
		{front: "def-path", o: drv.Opts{StoreID: true, Codec: "sorted"}, blocks: multiBlocks},
		// storage on an in-memory Writer+WriterAt (every write incl. the pragma is faultable)
		{front: "st-memdev"}, {front: "st-memdev", o: drv.Opts{V1: true}}, {front: "st-memdev", o: padded},
		{front: "st-memrw"}, {front: "st-memrw", o: drv.Opts{V1: true}},
		{front: "st-memrw", o: drv.Opts{StoreID: true}, blocks: multiBlocks},
		// one PutMany call with three blocks
		{front: "bs", blocks: []string{"c"}, batch: c16Blocks, tag: "batch:"}, {front: "bs", o: drv.Opts{V1: true}, blocks: []string{"c"}, batch: c16Blocks, tag: "batch:"},
		{front: "bs", o: drv.Opts{StoreID: true}, blocks: []string{"c"}, batch: []string{"a", "i", "b"}, tag: "batch:"},
		// resumed sessions (finalized / unfinalized CARv2, CARv1)
		{front: "bs", pre: pre, preFin: true, tag: "resume-fin:"}, {front: "bs", pre: pre, tag: "resume:"}, {front: "bs", o: drv.Opts{V1: true}, pre: pre, tag: "resume:"},
		{front: "bs", o: padded, pre: pre, preFin: true, tag: "resume-fin:"},
		{front: "st", pre: pre, preFin: true, tag: "resume-fin:"}, {front: "st", pre: pre, tag: "resume:"}, {front: "st", o: drv.Opts{V1: true}, pre: pre, tag: "resume:"},
		// FinalizeReadOnly + Close
		{front: "bs", fro: true, tag: "fro:"}, {front: "bs", o: drv.Opts{V1: true}, fro: true, tag: "fro:"}, {front: "bs", o: drv.Opts{StoreID: true}, blocks: multiBlocks, fro: true, tag: "fro:"},
		// a block with empty data: its data write has length zero
		{front: "bs", blocks: zeroBlocks, tag: "zero:"}, {front: "st", blocks: zeroBlocks, tag: "zero:"}, {front: "st-stream", blocks: zeroBlocks, tag: "zero:"},
		{front: "def-stream", blocks: zeroBlocks, tag: "zero:"}, {front: "def-path", blocks: zeroBlocks, tag: "zero:"}, {front: "st-memdev", blocks: zeroBlocks, tag: "zero:"},
	}
	// the pragma writes that bypass the seam
	emit(C16Case{Front: "bs-ro", Class: "open:pragma:error"})
	emit(C16Case{Front: "st-ro", Class: "open:pragma:error"})
	emit(C16Case{Front: "bs-ro", Opts: padded, Class: "open:pragma:error"})

	dir, err := os.MkdirTemp("/dev/shm", "c16gen")
	if err != nil {
		panic(err)
	}
	defer os.RemoveAll(dir)
	for _, jb := range jobs {
		base := C16Case{Front: jb.front, Opts: jb.o, Blocks: jb.blocks, Batch: jb.batch, Pre: jb.pre, PreFin: jb.preFin, Fro: jb.fro}
		// learn the write sequence from a fault-free run
		x := kit.ScratchCtx(dir)
		res := c16Run(x, base, false)
		lens, calls := res.lens, res.calls
		if len(calls) != len(lens) {
			panic(fmt.Sprintf("c16 gen: %d writes, %d attributed", len(lens), len(calls)))
		}
		class := func(k int) string {
			// ordinal within its call
			ord := 0
			for j := k - 1; j >= 0 && calls[j] == calls[k]; j-- {
				ord++
			}
			if calls[k] == "put" {
				return fmt.Sprintf("%sput:w%d", jb.tag, ord%3)
			}
			return fmt.Sprintf("%s%s:w%d", jb.tag, calls[k], ord)
		}
		conts := []string{"", "refin", "putfin"}
		if jb.front == "bs" || jb.front == "st" {
			conts = append(conts, "reopen")
		}
		shape := func(n, l int) string {
			switch {
			case n > 0 && n < l:
				return "short"
			case n > 0:
				return "full"
			}
			return "error"
		}
		for k, l := range lens {
			isPut := calls[k] == "put" || calls[k] == "putmany"
			for n := 0; n <= l; n++ {
				if l > 64 && tier != "thorough" && !(n <= 2 || n >= l-2 || n == l/2) {
					continue
				}
				for _, retry := range []bool{false, true} {
					if retry && !isPut {
						continue // nothing to retry: identical to retry = false
					}
					for _, cont := range conts {
						if cont != "" && calls[k] == "open" {
							continue // a failed constructor has no continuation
						}
						cs := base
						cs.Faults = []drv.Fault{{At: k, N: n}}
						cs.Retry, cs.Cont, cs.Class = retry, cont, class(k)+":"+shape(n, l)
						emit(cs)
						// two faults: run the single-fault case to learn which writes are issued
						// AFTER the first fault (the implementation is deterministic), and put the
						// second fault on each of them - every pair emitted is reachable
						if tier != "thorough" && !(n <= 1 || n == l) {
							continue
						}
						r1 := c16Run(kit.ScratchCtx(dir), cs, false)
						if cont != "" && !r1.contRan {
							continue // same execution as cont = ""
						}
						for k2 := k + 1; k2 < len(r1.lens); k2++ {
							l2 := r1.lens[k2]
							for n2 := 0; n2 <= l2; n2++ {
								if tier != "thorough" && !(n2 <= 1 || n2 == l2) {
									continue
								}
								c2 := cs
								c2.Faults = []drv.Fault{{At: k, N: n}, {At: k2, N: n2}}
								c2.Class = "two-faults:" + class(k)
								emit(c2)
							}
						}
					}
				}
			}
		}
	}
}

func init() {
	kit.Register(&kit.Prop{
		ID:     "C16",
		Gen:    genC16,
		Run:    runC16,
		Decode: kit.DecodeAs[C16Case],
		Rule: "sessions Open; Put a; Put L300; Put b; Finalize (also Put a, s, i, ia, t with the digest-only codec / StoreIdentityCIDs so that the index has several buckets; Put a, e, b so that a data write has length 0) on " +
			"{blockstore.ReadWrite on a file (write seam), storage.NewReadableWritable on a file (write seam), storage.NewWritable / NewReadableWritable on an in-memory Writer+WriterAt (every write incl. the pragma), storage streaming CARv1, deferred writer for a stream, deferred writer for a PATH (write seam matched by file name) as CARv2, CARv1 and padded}; " +
			"variants: one PutMany([a, L300, b]) call after Put c (blockstore); sessions that RESUME a fault-free file holding c, s (finalized CARv2, unfinalized CARv2, CARv1; blockstore and storage.OpenReadableWritable); FinalizeReadOnly + Close instead of Finalize (blockstore); the CARv2 pragma write of blockstore/storage on a file (fails because the file is read-only, seam writes swallowed, with a writable control). " +
			"ONE transient fault at EVERY write call: plain error (n = 0, also on zero-length writes), short write of every length, and full write reported with an error (quick: n in {0,1,2,mid,len-2,len-1,len} for writes > 64 bytes); " +
			"for the two file front ends additionally the continuation REOPEN: when the later calls keep failing the caller gives the store up and a fresh store resumes the file (no faults), puts one more block and finalizes; a refusal is an outcome, a success must give a well-formed archive (every section hashing to its CID) with every acknowledged block, the new one, and nothing else but intact blocks that were written whole before their Put reported the error; " +
			"continuations: {carry on, retry the failed Put/PutMany once} x after a failed finalize {stop, finalize again, Put k then finalize again}; TWO faults: every single-fault case (quick: first fault n in {0,1,len}) is executed by the generator to learn which writes the (deterministic) implementation issues after the first fault - re-created deferred-path file, retried calls, continuations - and the second fault is put on each of them (quick: n in {0,1,len}; thorough: every length 0..len), so every pair is reachable. " +
			"Oracle: the faulted Put/PutMany/Finalize/Close returns an error (a constructor that does not report its failed write is an outcome beyond-statement:fault-swallowed:open; the session goes on) and no call fails before the first fault; after every failed Put/PutMany and failed finalize each block whose Put failed is not reported as stored (Has not true, no Get/GetSize, no AllKeysChan entry, no live index record) and no acknowledged block is answered wrongly (Has not false, Get = its data if it answers, listed if AllKeysChan answers); ERRORS of these reads on the still open store are outcomes beyond-statement:{has,get,keys}-error-after-failed-write, not violations; blocks of a failed PutMany before the failing one - located by the BYTES the call wrote before the faulted write against the section sizes, skipping blocks the store already had - may be either but consistently; " +
			"if every call after the last fault succeeds incl. the last finalize (and Close), the file strictly decodes (refcar; padding content is not judged) with the right version and roots, holds exactly the acknowledged blocks (incl. the resumed ones; compared as a multiset) and its index, if it has one (none: outcome beyond-statement:no-index), equals the records of its payload. A case is non-trivial when all its faults fired and its continuation ran (a single-fault case whose finalize did not fail has no continuation: outcome continuation-not-reached; a first fault that is not reached is reported as c16:harness:fault-not-reached)",
		Bound: func(tier string) map[string]any {
			m := map[string]any{"sessions": 40, "continuations": "2 x 3", "fault shapes": "error, short (every length), full+error, zero-length"}
			if tier == "thorough" {
				m["faults"] = "2 (second fault on every write reachable after the first, every length)"
				m["positions"] = "every write call x every length 0..len"
			} else {
				m["faults"] = "2 (first and second fault n in {0,1,len}; second fault on every write reachable after the first)"
				m["positions"] = "every write call x every length 0..len (7 lengths for writes > 64 bytes)"
			}
			return m
		},
		Assumptions: []string{
			"faults are transient (only the chosen write calls fail)",
			"if a call that met no fault fails after the last fault (sticky error) nothing is asserted about the archive, as the property states; the store audit after each failed call still applies",
			"a short write always comes with an error (a writer returning n < len(p) and a nil error breaks the io.Writer contract: out of scope)",
			"the pragma write of the file-backed front-ends (blockstore WriteAt, storage/deferred-path Write on the *os.File) bypasses the seam: it is faulted only as 'file not writable' (blockstore, storage) and positionally on the in-memory device; not at all for the deferred path writer, which shares storage.NewWritable",
			"Truncate and Seek issued by Resume are not faultable (no seam); re-opening after a failed resume is C06's domain",
			"after a failed PutMany the blocks written before the failing one are neither required nor forbidden (PutMany reports one error for the batch); the failing block is the one whose section is not completed by the bytes written before the faulted write",
			"the statement covers Put and Finalize: constructors that swallow a write fault, read errors (as opposed to wrong answers) of a store after a failed write, the order of the blocks in the archive and the presence of an index are recorded as beyond-statement outcomes",
		},
	})
}
