package props

import (
	"bytes"
	"fmt"
	"io"
	"os"
	"path/filepath"

	"github.com/ipfs/go-cid"
	"github.com/ipld/go-car/v2/storage"
	"github.com/ipld/go-car/v2/storage/deferred"

	"verif/drv"
	"verif/kit"
	"verif/model"
	"verif/refcar"
)

type C16Case struct {
	Blocks []string    `json:"blocks,omitempty"` // default a, L300, b
	Front  string      `json:"front"`            // bs, st, st-stream, def-stream
	Opts   drv.Opts    `json:"opts"`
	Faults []drv.Fault `json:"faults"`
	Retry  bool        `json:"retry,omitempty"`
	Class  string      `json:"class,omitempty"`
}

var c16Blocks = []string{"a", "L300", "b"}

// faultyWriter injects faults into a plain stream.
type faultyWriter struct {
	buf    bytes.Buffer
	faults []drv.Fault
	calls  int
	lens   []int
}

func (w *faultyWriter) Write(p []byte) (int, error) {
	k := w.calls
	w.calls++
	w.lens = append(w.lens, len(p))
	for _, f := range w.faults {
		if f.At == k {
			n := f.N
			if n > len(p) {
				n = len(p)
			}
			w.buf.Write(p[:n])
			return n, drv.ErrInjected
		}
	}
	return w.buf.Write(p)
}

type c16Writer interface {
	Put(b kit.Blk) error
	Has(b kit.Blk) (bool, error, bool) // third: supported
	Finalize() error
}

type c16Stream struct {
	w  storage.WritableCar
	dw *deferred.DeferredCarWriter
}

func (s *c16Stream) Put(b kit.Blk) error {
	if s.dw != nil {
		return s.dw.Put(drv.Ctx, b.Cid.KeyString(), b.Data)
	}
	return s.w.Put(drv.Ctx, b.Cid.KeyString(), b.Data)
}
func (s *c16Stream) Has(b kit.Blk) (bool, error, bool) {
	var h bool
	var err error
	if s.dw != nil {
		h, err = s.dw.Has(drv.Ctx, b.Cid.KeyString())
	} else {
		h, err = s.w.(*storage.StorageCar).Has(drv.Ctx, b.Cid.KeyString())
	}
	return h, err, true
}
func (s *c16Stream) Finalize() error {
	if s.dw != nil {
		return s.dw.Close()
	}
	return s.w.Finalize()
}

type c16File struct{ s *c06Store }

func (s c16File) Put(b kit.Blk) error { return s.s.Put(b) }
func (s c16File) Has(b kit.Blk) (bool, error, bool) {
	h, err := s.s.Has(b.Cid)
	return h, err, true
}
func (s c16File) Finalize() error { return s.s.Finalize() }

// c16Run executes the fixed session under the given faults. It returns the write lengths
// seen (for enumeration) and reports violations.
func c16Run(x *kit.Ctx, cs C16Case, check bool) (lens []int, callOfWrite []string) {
	roots := []cid.Cid{kit.B("a").Cid}
	var w c16Writer
	var fw *faultyWriter
	var tr *drv.Trace
	var f *os.File
	path := filepath.Join(x.Dir, "c16.car")
	os.Remove(path)
	defer os.Remove(path)
	var openErr error
	hookedBefore := func() int {
		if tr != nil {
			return tr.Hooked()
		}
		return fw.calls
	}
	switch cs.Front {
	case "bs", "st":
		var err error
		f, err = os.OpenFile(path, os.O_RDWR|os.O_CREATE|os.O_TRUNC, 0o644)
		if err != nil {
			panic(err)
		}
		defer f.Close()
		tr = drv.NewTrace(f)
		tr.Faults = cs.Faults
		defer tr.Stop()
		s, err := c06Open(cs.Front, f, roots, cs.Opts, false)
		openErr = err
		if err == nil {
			defer s.Discard()
			w = c16File{s}
		}
	case "st-stream":
		fw = &faultyWriter{faults: cs.Faults}
		o := cs.Opts
		o.V1 = true
		s, err := storage.NewWritable(fw, roots, o.List()...)
		openErr = err
		if err == nil {
			w = &c16Stream{w: s}
		}
	case "def-stream":
		fw = &faultyWriter{faults: cs.Faults}
		w = &c16Stream{dw: deferred.NewDeferredCarWriterForStream(fw, roots, cs.Opts.List()...)}
	}
	mark := func(kind string, before int) {
		for i := before; i < hookedBefore(); i++ {
			callOfWrite = append(callOfWrite, kind)
		}
	}
	faultIn := func(before, after int) bool {
		for _, ft := range cs.Faults {
			if ft.At >= before && ft.At < after {
				return true
			}
		}
		return false
	}
	x.Eval(1)
	mark("open", 0)
	fail := func(sig, f string, a ...any) {
		if check {
			x.Fail("c16:"+cs.Front+":"+cs.Class+":"+sig, f, a...)
		}
	}
	if openErr != nil {
		if !faultIn(0, hookedBefore()) {
			fail("open-error", "constructor failed without an injected fault: %v", openErr)
		}
		x.Outcome("open-failed")
		return
	}
	if faultIn(0, hookedBefore()) && cs.Front != "def-stream" {
		fail("fault-swallowed:open", "a write fault during construction was not reported")
	}
	lastFaultCall := -1
	callIdx := 0
	laterFailed := false
	var okBlocks []kit.Blk
	blockNames := c16Blocks
	if len(cs.Blocks) > 0 {
		blockNames = cs.Blocks
	}
	for _, n := range blockNames {
		b := kit.B(n)
		attempts := 1
		if cs.Retry {
			attempts = 2
		}
		stored := false
		for a := 0; a < attempts && !stored; a++ {
			before := hookedBefore()
			err := w.Put(b)
			after := hookedBefore()
			mark("put", before)
			x.Transition(1)
			injected := faultIn(before, after)
			if injected {
				lastFaultCall = callIdx
				if err == nil {
					fail("fault-swallowed:put", "Put(%s) returned nil although one of its writes failed", n)
				}
			} else if err != nil {
				if lastFaultCall >= 0 {
					laterFailed = true
				} else {
					fail("put-error", "Put(%s) failed without an injected fault: %v", n, err)
				}
			}
			callIdx++
			if err == nil {
				stored = true
				okBlocks = append(okBlocks, b)
			} else {
				// the failed block is not reported as stored (identity CIDs are always "present"
				// unless they are stored explicitly: IdStore rule)
				if model.IsIdentity(b.Raw) && !cs.Opts.StoreID {
					continue
				}
				if has, herr, ok := w.Has(b); ok && herr == nil && has {
					fail("failed-block-reported", "Put(%s) failed (%v) but Has reports the block", n, err)
				}
			}
		}
	}
	before := hookedBefore()
	ferr := w.Finalize()
	after := hookedBefore()
	mark("finalize", before)
	x.Transition(1)
	if faultIn(before, after) {
		lastFaultCall = callIdx
		if ferr == nil {
			fail("fault-swallowed:finalize", "Finalize returned nil although one of its writes failed")
		}
	} else if ferr != nil {
		laterFailed = true
		if lastFaultCall < 0 {
			fail("finalize-error", "Finalize failed without an injected fault: %v", ferr)
		}
	}
	if fw != nil {
		lens = fw.lens
	} else {
		for _, r := range tr.Log {
			if !r.Synthetic && r.Kind == "write" {
				lens = append(lens, len(r.Data))
			}
		}
	}
	if !check {
		return
	}
	if laterFailed || ferr != nil {
		x.Outcome("sticky-or-finalize-failed")
		return // later calls keep failing: nothing is asserted
	}
	x.Outcome("carried-on")
	// the caller carried on and every later call succeeded: the archive must be well-formed
	// and hold exactly the blocks whose Put returned success
	var final []byte
	if fw != nil {
		final = fw.buf.Bytes()
	} else {
		final, _ = os.ReadFile(path)
	}
	fl, err := refcar.DecodeFile(final, false)
	if err != nil {
		fail("malformed-archive", "after a failed write and a successful continuation the finalized archive is not well-formed: %v", err)
		return
	}
	var want []refcar.Block
	for _, b := range okBlocks {
		want = append(want, b.Ref())
	}
	var got []refcar.Block
	for _, s := range fl.Payload.Sections {
		got = append(got, refcar.Block{Cid: s.Cid, Data: s.Data})
	}
	if d := sameBlocks(got, want, true); d != "" {
		fail("wrong-blocks", "finalized archive does not hold exactly the successfully put blocks: %s", d)
	}
	v1 := cs.Opts.V1 || fw != nil
	if !v1 {
		if !fl.HasIndex {
			fail("malformed-archive", "no index")
		} else if g, w2 := recMultiset(fl.IndexCodec, fl.Index), recMultiset(fl.IndexCodec, refcar.RecordsOf(fl.Payload, cs.Opts.StoreID)); g != w2 {
			fail("malformed-archive", "index {%s} does not match payload {%s}", g, w2)
		}
	}
	_ = io.EOF
	return
}

func runC16(c any, x *kit.Ctx) {
	cs := c.(C16Case)
	c16Run(x, cs, true)
	x.State(fmt.Sprintf("%+v", cs))
	x.Nontrivial(fmt.Sprintf("%+v", cs))
}

func genC16(tier string, emit func(any)) {
	type cfg struct {
		front string
		o     drv.Opts
	}
	// sessions whose index has several width buckets / hash codes (so that Finalize issues
	// several bucket writes, any of which may fail)
	multi := []cfg{{"bs", drv.Opts{Codec: "sorted"}}, {"st", drv.Opts{Codec: "sorted"}}, {"bs", drv.Opts{StoreID: true}}, {"st", drv.Opts{StoreID: true, Codec: "sorted"}}}
	multiBlocks := []string{"a", "s", "i", "ia", "t"}
	cfgs := []cfg{{"bs", drv.Opts{}}, {"bs", drv.Opts{DataPad: 3, IndexPad: 2, Codec: "sorted"}}, {"bs", drv.Opts{V1: true}}, {"st", drv.Opts{}}, {"st", drv.Opts{V1: true}}, {"st-stream", drv.Opts{}}, {"def-stream", drv.Opts{}}}
	dir, err := os.MkdirTemp("/dev/shm", "c16gen")
	if err != nil {
		panic(err)
	}
	defer os.RemoveAll(dir)
	type job struct {
		cf     cfg
		blocks []string
	}
	var jobs []job
	for _, cf := range cfgs {
		jobs = append(jobs, job{cf, nil})
	}
	for _, cf := range multi {
		jobs = append(jobs, job{cf, multiBlocks})
	}
	for _, jb := range jobs {
		cf := jb.cf
		// learn the write sequence from a fault-free run
		x := kit.ScratchCtx(dir)
		lens, calls := c16Run(x, C16Case{Front: cf.front, Opts: cf.o, Blocks: jb.blocks}, false)
		class := func(k int) string {
			// ordinal within its call
			ord := 0
			for j := k - 1; j >= 0 && calls[j] == calls[k]; j-- {
				ord++
			}
			if calls[k] == "put" {
				return fmt.Sprintf("put:w%d", ord%3)
			}
			return fmt.Sprintf("%s:w%d", calls[k], ord)
		}
		var singles []drv.Fault
		for k, l := range lens {
			for n := 0; n < l; n++ {
				if l > 64 && tier != "thorough" && !(n <= 2 || n >= l-2 || n == l/2) {
					continue
				}
				singles = append(singles, drv.Fault{At: k, N: n})
				kind := "error"
				if n > 0 {
					kind = "short"
				}
				for _, retry := range []bool{false, true} {
					emit(C16Case{Front: cf.front, Opts: cf.o, Blocks: jb.blocks, Faults: []drv.Fault{{At: k, N: n}}, Retry: retry, Class: class(k) + ":" + kind})
				}
			}
		}
		if tier == "thorough" {
			// two faults: all ordered pairs of write indices with n in {0, 1}
			for k1 := range lens {
				for k2 := k1 + 1; k2 < len(lens)+3; k2++ {
					for _, n1 := range []int{0, 1} {
						for _, n2 := range []int{0, 1} {
							if k1 < len(lens) && n1 >= lens[k1] {
								continue
							}
							for _, retry := range []bool{false, true} {
								emit(C16Case{Front: cf.front, Opts: cf.o, Blocks: jb.blocks, Faults: []drv.Fault{{At: k1, N: n1}, {At: k2, N: n2}}, Retry: retry, Class: "two-faults:" + class(k1)})
							}
						}
					}
				}
			}
		}
	}
}

func init() {
	kit.Register(&kit.Prop{
		ID:     "C16",
		Gen:    genC16,
		Run:    runC16,
		Decode: kit.DecodeAs[C16Case],
		Rule: "sessions Open; Put a; Put L300; Put b; Finalize (and Put a, s, i, ia, t with the digest-only codec / StoreIdentityCIDs, so that the index has several buckets) on {blockstore (file + write seam), storage ReadableWritable (file + write seam), storage streaming CARv1, deferred stream}: ONE transient fault injected at EVERY write call, as a plain error and as a short write of every length (quick: {0,1,2,mid,len-2,len-1} for writes > 64 bytes), " +
			"with continuation {carry on, retry the failed put}; thorough adds all ordered pairs of faults; oracle: error reported, failed block not reported stored, and if every later call succeeds the finalized archive strictly decodes to exactly the successfully put blocks; every case is non-trivial (one fault position)",
		Bound: func(tier string) map[string]any {
			if tier == "thorough" {
				return map[string]any{"faults": 2, "positions": "every write call x every short length"}
			}
			return map[string]any{"faults": 1, "positions": "every write call x every short length (6 lengths for writes > 64 bytes)"}
		},
		Assumptions: []string{"faults are transient (only the chosen write calls fail)", "if later calls keep failing (sticky error) nothing is asserted, as the property states"},
	})
}
