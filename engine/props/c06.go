package props

import (
	"bytes"
	"fmt"
	"os"
	"path/filepath"
	"strings"

	blocks "github.com/ipfs/go-block-format"
	"github.com/ipfs/go-cid"
	"github.com/ipld/go-car/v2/blockstore"
	"github.com/ipld/go-car/v2/storage"

	"verif/drv"
	"verif/kit"
	"verif/model"
	"verif/refcar"
)

type C06Point struct {
	I int `json:"i"` // record index
	T int `json:"t"` // torn length of record i (0 = clean boundary)
}

type C06Case struct {
	Front string   `json:"front"` // bs, st
	Opts  drv.Opts `json:"opts"`
	// generation 1: ops "put:x" / "F"
	Gen1 []string `json:"gen1"`
	// if Gen2 is set, generation 1 is cut at Cut1 (nil = runs to completion) and the
	// crash points enumerated are those of generation 2, which resumes from that image
	Cut1 *C06Point `json:"cut1,omitempty"`
	Gen2 []string  `json:"gen2,omitempty"`
	// replay: only this crash point of the last generation
	Point *C06Point `json:"point,omitempty"`
	Tier  string    `json:"tier,omitempty"`
}

type c06Put struct {
	blk  kit.Blk
	call int
}

// c06Session runs ops on a traced file and returns the trace and the puts with their call ids.
type c06Sess struct {
	tr     *drv.Trace
	puts   []c06Put
	base   []byte // file content before the session
	labels []string
	err    error
}

type c06Store struct {
	bs *blockstore.ReadWrite
	st *storage.StorageCar
}

func c06Open(front string, f *os.File, roots []cid.Cid, o drv.Opts, resume bool) (*c06Store, error) {
	if front == "bs" {
		bs, err := blockstore.OpenReadWriteFile(f, roots, o.List()...)
		if err != nil {
			return nil, err
		}
		return &c06Store{bs: bs}, nil
	}
	var st *storage.StorageCar
	var err error
	if resume {
		st, err = storage.OpenReadableWritable(f, roots, o.List()...)
	} else {
		st, err = storage.NewReadableWritable(f, roots, o.List()...)
	}
	if err != nil {
		return nil, err
	}
	return &c06Store{st: st}, nil
}

func (s *c06Store) Put(b kit.Blk) error {
	if s.bs != nil {
		return s.bs.Put(drv.Ctx, b.Block())
	}
	return s.st.Put(drv.Ctx, b.Cid.KeyString(), b.Data)
}
func (s *c06Store) Finalize() error {
	if s.bs != nil {
		return s.bs.Finalize()
	}
	return s.st.Finalize()
}
func (s *c06Store) Has(c cid.Cid) (bool, error) {
	if s.bs != nil {
		return s.bs.Has(drv.Ctx, c)
	}
	return s.st.Has(drv.Ctx, c.KeyString())
}
func (s *c06Store) Get(c cid.Cid) ([]byte, error) {
	if s.bs != nil {
		b, err := s.bs.Get(drv.Ctx, c)
		if err != nil {
			return nil, err
		}
		return b.RawData(), nil
	}
	return s.st.Get(drv.Ctx, c.KeyString())
}
func (s *c06Store) Keys() ([]cid.Cid, error) {
	if s.bs == nil {
		return nil, drv.ErrNoListing
	}
	ch, err := s.bs.AllKeysChan(drv.Ctx)
	if err != nil {
		return nil, err
	}
	var out []cid.Cid
	for c := range ch {
		out = append(out, c)
	}
	return out, nil
}
func (s *c06Store) Discard() {
	if s.bs != nil {
		s.bs.Discard()
	}
}

var c06Roots = []cid.Cid{kit.B("a").Cid}

// runSession executes ops on path (resuming when the file is non-empty) under a trace.
func c06RunSession(front, path string, o drv.Opts, ops []string) (*c06Sess, error) {
	f, err := os.OpenFile(path, os.O_RDWR|os.O_CREATE, 0o644)
	if err != nil {
		panic(err)
	}
	defer f.Close()
	st, _ := f.Stat()
	resume := st.Size() != 0
	tr := drv.NewTrace(f)
	defer tr.Stop()
	se := &c06Sess{tr: tr, base: append([]byte{}, tr.Img...)}
	s, err := c06Open(front, f, c06Roots, o, resume)
	tr.EndCall()
	if resume {
		se.labels = append(se.labels, "resume")
	} else {
		se.labels = append(se.labels, "open")
	}
	if err != nil {
		return se, err
	}
	defer s.Discard()
	for _, op := range ops {
		if op == "F" {
			err := s.Finalize()
			tr.EndCall()
			se.labels = append(se.labels, "finalize")
			if err != nil {
				return se, fmt.Errorf("finalize: %w", err)
			}
			continue
		}
		if strings.HasPrefix(op, "many:") {
			// one PutMany call: all its blocks are acknowledged only when the call returns
			bl := kit.Bs(strings.Split(strings.TrimPrefix(op, "many:"), ","))
			call := tr.Call
			var err error
			if s.bs != nil {
				var l []blocks.Block
				for _, b := range bl {
					l = append(l, b.Block())
				}
				err = s.bs.PutMany(drv.Ctx, l)
			} else {
				for _, b := range bl {
					if err = s.Put(b); err != nil {
						break
					}
				}
			}
			tr.EndCall()
			se.labels = append(se.labels, "put")
			if err != nil {
				return se, fmt.Errorf("%s: %w", op, err)
			}
			for _, b := range bl {
				se.puts = append(se.puts, c06Put{b, call})
			}
			continue
		}
		b := kit.B(strings.TrimPrefix(op, "put:"))
		call := tr.Call
		err := s.Put(b)
		tr.EndCall()
		se.labels = append(se.labels, "put")
		if err != nil {
			return se, fmt.Errorf("%s: %w", op, err)
		}
		se.puts = append(se.puts, c06Put{b, call})
	}
	return se, nil
}

// c06Class labels record i: (API call kind, which write of that call, torn field).
func c06Class(se *c06Sess, i, t int) string {
	r := se.tr.Log[i]
	call := se.labels[r.Call]
	// ordinal within the call
	start := 0
	if r.Call > 0 {
		start = se.tr.CallEnd[r.Call-1]
	}
	end := se.tr.CallEnd[r.Call]
	ord := i - start
	n := end - start
	part := fmt.Sprintf("w%d", ord)
	if r.Kind == "truncate" {
		part = "truncate"
	} else {
		switch call {
		case "put":
			part = []string{"varint", "cid", "data"}[ord%3]
		case "open":
			if r.Synthetic {
				part = "pragma"
			} else if len(r.Data) <= 9 && ord < n-1 {
				part = "v1hdr-varint"
			} else {
				part = "v1hdr-body"
			}
		case "finalize":
			switch {
			case ord == n-1:
				part = "v2hdr-fields"
			case ord == n-2:
				part = "v2hdr-chars"
			default:
				part = "index"
			}
		case "resume":
			switch {
			case len(r.Data) == 24:
				part = "unfinalize-fields"
			case len(r.Data) == 16:
				part = "unfinalize-chars"
			}
		}
	}
	torn := "clean"
	if t > 0 {
		torn = "torn"
		if part == "v2hdr-fields" || part == "unfinalize-fields" {
			torn = []string{"torn-dataoffset", "torn-datasize", "torn-indexoffset"}[min((t-1)/8, 2)]
			if t%8 == 0 {
				torn += "-complete"
			}
		}
	}
	return call + ":" + part + ":" + torn
}

// tornLengths for record r.
func c06Torn(r drv.Rec, tier string, exhaustiveData bool) []int {
	if r.Kind == "truncate" {
		return []int{0}
	}
	n := len(r.Data)
	out := []int{0}
	if n <= 64 || exhaustiveData {
		for t := 1; t < n; t++ {
			out = append(out, t)
		}
		return out
	}
	for _, t := range []int{1, 2, n / 2, n - 2, n - 1} {
		if t > 0 && t < n {
			out = append(out, t)
		}
	}
	return out
}

// c06CheckImage reopens img and applies the oracle.
func c06CheckImage(x *kit.Ctx, rc C06Case, img []byte, acked, inflight []kit.Blk, class string) {
	front, o := rc.Front, rc.Opts
	path := filepath.Join(x.Dir, "c06-img.car")
	if err := os.WriteFile(path, img, 0o644); err != nil {
		panic(err)
	}
	defer os.Remove(path)
	f, err := os.OpenFile(path, os.O_RDWR, 0o644)
	if err != nil {
		panic(err)
	}
	defer f.Close()
	x.Eval(1)
	x.Transition(2)
	if len(img) == 0 {
		return // nothing on disk: a fresh start, not a resumption
	}
	s, err := c06Open(front, f, c06Roots, o, true)
	if err != nil {
		x.Outcome("reopen-refused")
		// must not have destroyed any acknowledged block already on disk
		after, _ := os.ReadFile(path)
		for _, b := range acked {
			sec := refcar.EncodeSection(b.Ref())
			if bytes.Contains(img, sec) && !bytes.Contains(after, sec) {
				x.FailCase(rc, "c06:"+class+":acked-block-destroyed-by-refused-reopen", "reopen failed (%v) and destroyed acknowledged block %s", err, b.Name)
			}
		}
		return
	}
	defer s.Discard()
	x.Outcome("reopen-ok")
	okPut := map[string]kit.Blk{}
	for _, b := range acked {
		okPut[string(b.Raw)] = b
	}
	for _, b := range inflight {
		okPut[string(b.Raw)] = b
	}
	for _, b := range acked {
		if model.IsIdentity(b.Raw) && !o.StoreID {
			continue
		}
		has, herr := s.Has(b.Cid)
		data, gerr := s.Get(b.Cid)
		if herr != nil || !has || gerr != nil {
			x.FailCase(rc, "c06:"+class+":acked-block-missing", "resumed store lacks acknowledged block %s: Has=%v,%v Get err=%v", b.Name, has, herr, gerr)
		} else if !bytes.Equal(data, b.Data) {
			x.FailCase(rc, "c06:"+class+":acked-block-corrupt", "resumed store returns wrong bytes for acknowledged block %s: %x want %x", b.Name, clip(data), clip(b.Data))
		}
	}
	// everything retrievable was put, and is intact
	var queries []kit.Blk
	for _, n := range []string{"a", "b", "c", "e", "a'", "i", "L300", "L70000"} {
		queries = append(queries, kit.B(n))
	}
	for _, q := range queries {
		if model.IsIdentity(q.Raw) && !o.StoreID {
			continue
		}
		has, _ := s.Has(q.Cid)
		data, gerr := s.Get(q.Cid)
		if !has && gerr != nil {
			continue
		}
		// present under multihash semantics: some put block must carry the key
		var src *kit.Blk
		for _, p := range okPut {
			p := p
			if bytes.Equal(multihashBytes(p.Raw), multihashBytes(q.Raw)) {
				src = &p
			}
		}
		if src == nil {
			x.FailCase(rc, "c06:"+class+":phantom-block", "resumed store reports %s (Has=%v, Get err=%v) which was never put", q.Name, has, gerr)
			continue
		}
		if gerr == nil && !bytes.Equal(data, src.Data) {
			x.FailCase(rc, "c06:"+class+":corrupt-bytes", "resumed store returns %d bytes for %s that are not the block's (%x)", len(data), q.Name, clip(data))
		} else if has && gerr != nil {
			x.FailCase(rc, "c06:"+class+":corrupt-bytes", "resumed store has %s but Get fails: %v", q.Name, gerr)
		}
	}
	if keys, err := s.Keys(); err == nil {
		for _, k := range keys {
			found := false
			for _, p := range okPut {
				if bytes.Equal(multihashBytes(p.Raw), []byte(k.Hash())) {
					found = true
				}
			}
			if !found {
				x.FailCase(rc, "c06:"+class+":phantom-block", "resumed store lists key %s which was never put", k)
			}
		}
	}
	if x.Failed() {
		return
	}
	// continue: more puts and Finalize must give a well-formed archive holding all of them
	nb := kit.B("c")
	if err := s.Put(nb); err != nil {
		x.FailCase(rc, "c06:"+class+":continue-put-error", "Put after resumption failed: %v", err)
		return
	}
	if err := s.Finalize(); err != nil {
		x.FailCase(rc, "c06:"+class+":continue-finalize-error", "Finalize after resumption failed: %v", err)
		return
	}
	final, _ := os.ReadFile(path)
	fl, err := refcar.DecodeFile(final, o.ZeroEOF)
	if err != nil {
		x.FailCase(rc, "c06:"+class+":malformed-after-continue", "file after resume+Put+Finalize is not well-formed: %v", err)
		return
	}
	okPut[string(nb.Raw)] = nb
	present := map[string]bool{}
	for _, sec := range fl.Payload.Sections {
		present[string(sec.Cid)] = true
		if _, ok := okPut[string(sec.Cid)]; !ok {
			x.FailCase(rc, "c06:"+class+":phantom-block-in-final", "final archive holds section %x which was never put", sec.Cid)
		}
	}
	for _, b := range append(append([]kit.Blk{}, acked...), nb) {
		if model.IsIdentity(b.Raw) && !o.StoreID {
			continue
		}
		ok := false
		for k := range present {
			if bytes.Equal(multihashBytes([]byte(k)), multihashBytes(b.Raw)) {
				ok = true
			}
		}
		if !ok {
			x.FailCase(rc, "c06:"+class+":acked-block-missing-in-final", "final archive lacks acknowledged block %s", b.Name)
		}
	}
	if !o.V1 {
		if fl.Version != 2 || !fl.HasIndex {
			x.FailCase(rc, "c06:"+class+":malformed-after-continue", "final archive is not an indexed CARv2")
		} else if got, want := recMultiset(fl.IndexCodec, fl.Index), recMultiset(fl.IndexCodec, refcar.RecordsOf(fl.Payload, o.StoreID)); got != want {
			x.FailCase(rc, "c06:"+class+":malformed-after-continue", "final index {%s} does not match the payload {%s}", got, want)
		}
	}
}

func multihashBytes(raw []byte) []byte {
	ci, err := refcar.ParseCID(raw)
	if err != nil {
		return raw
	}
	return ci.Multihash()
}

func runC06(c any, x *kit.Ctx) {
	cs := c.(C06Case)
	path := filepath.Join(x.Dir, "c06-session.car")
	os.Remove(path)
	defer os.Remove(path)
	se, err := c06RunSession(cs.Front, path, cs.Opts, cs.Gen1)
	if err != nil {
		x.Fail("c06:session-error:"+cs.Front, "generation-1 session %v failed: %v", cs.Gen1, err)
		return
	}
	ackedBefore := []kit.Blk{}
	if cs.Gen2 != nil {
		// cut generation 1, then run generation 2 from that image
		img := se.tr.Img
		if cs.Cut1 != nil {
			img = drv.Image(se.base, se.tr.Log, cs.Cut1.I, cs.Cut1.T)
			for _, p := range se.puts {
				if se.tr.CallEnd[p.call] <= cs.Cut1.I {
					ackedBefore = append(ackedBefore, p.blk)
				}
			}
		} else {
			for _, p := range se.puts {
				ackedBefore = append(ackedBefore, p.blk)
			}
		}
		if err := os.WriteFile(path, img, 0o644); err != nil {
			panic(err)
		}
		se2, err := c06RunSession(cs.Front, path, cs.Opts, cs.Gen2)
		if err != nil {
			// generation 2 cannot even start from this image: nothing to enumerate here
			// (the refusal itself is judged by the generation-1 case for that crash point)
			x.Outcome("gen2-refused")
			return
		}
		se = se2
	}
	checkPoint := func(i, t int) {
		img := drv.Image(se.base, se.tr.Log, i, t)
		acked := append([]kit.Blk{}, ackedBefore...)
		var inflight []kit.Blk
		for _, p := range se.puts {
			if se.tr.CallEnd[p.call] <= i {
				acked = append(acked, p.blk)
			} else if i < len(se.tr.Log) && se.tr.Log[i].Call == p.call {
				inflight = append(inflight, p.blk)
			} else if p.call > 0 && se.tr.CallEnd[p.call-1] <= i && i < se.tr.CallEnd[p.call] {
				inflight = append(inflight, p.blk)
			}
		}
		// blocks put in generation 1 but not acknowledged at its cut may also be on disk
		if cs.Gen2 != nil && cs.Cut1 != nil {
			for _, op := range cs.Gen1 {
				if strings.HasPrefix(op, "put:") {
					inflight = append(inflight, kit.B(strings.TrimPrefix(op, "put:")))
				}
				if strings.HasPrefix(op, "many:") {
					inflight = append(inflight, kit.Bs(strings.Split(strings.TrimPrefix(op, "many:"), ","))...)
				}
			}
		}
		class := "end"
		if i < len(se.tr.Log) {
			class = c06Class(se, i, t)
		}
		if cs.Gen2 != nil {
			class = "gen2:" + class
		}
		rc := C06Case{Front: cs.Front, Opts: cs.Opts, Gen1: cs.Gen1, Cut1: cs.Cut1, Gen2: cs.Gen2, Point: &C06Point{i, t}}
		c06CheckImage(x, rc, img, acked, inflight, class)
		x.State(fmt.Sprintf("%s|%+v|%x", cs.Front, cs.Opts, img))
		if t > 0 {
			x.Nontrivial(fmt.Sprintf("%s|%+v|%v|%v|%v|%d|%d", cs.Front, cs.Opts, cs.Gen1, cs.Cut1, cs.Gen2, i, t))
		}
	}
	if cs.Point != nil {
		checkPoint(cs.Point.I, cs.Point.T)
		return
	}
	for i := 0; i <= len(se.tr.Log); i++ {
		if i == len(se.tr.Log) {
			checkPoint(i, 0)
			break
		}
		for _, t := range c06Torn(se.tr.Log[i], cs.Tier, cs.Tier == "thorough") {
			checkPoint(i, t)
		}
	}
	x.Count("writes_logged", len(se.tr.Log))
}

func genC06(tier string, emit func(any)) {
	cfgs := []drv.Opts{
		{}, {DataPad: 3, IndexPad: 2, Codec: "sorted"}, {V1: true}, {StoreID: true}, {ZeroEOF: true}, {DataPad: 3}, {IndexPad: 2, StoreID: true, Codec: "sorted"},
		{DataPad: 1413}, // padding larger than payload + index: offsets relative to the payload and to the file differ by more than the file length
	}
	sessions := [][]string{
		{}, {"F"}, {"put:a"}, {"put:a", "F"}, {"put:a", "put:b"}, {"put:a", "put:b", "F"}, {"put:e", "put:a", "F"},
		{"put:L300", "F"}, {"put:a", "put:L300", "F"}, {"put:L70000", "put:a", "F"}, {"put:a", "put:a", "put:b", "F"},
		{"many:a,b", "F"}, {"put:e", "many:a,b,L300"}, {"many:a,a,b", "put:a'", "F"},
	}
	// a session whose index is larger than the section length that the index bytes themselves
	// spell when misread as a section (0x0400/0x0401 as a varint = 1024/1025)
	var many []string
	for n := 40; n < 72; n++ {
		many = append(many, fmt.Sprintf("put:L%d", n))
	}
	sessions = append(sessions, append(many, "F"))
	if tier == "thorough" {
		sessions = append(sessions, []string{"put:a", "put:b", "put:e", "F"}, []string{"put:b", "put:L300", "put:a", "F"}, []string{"put:a", "put:L70000", "put:b"}, []string{"put:a'", "put:a", "put:e"})
	}
	for _, front := range []string{"bs", "st"} {
		for _, o := range cfgs {
			for _, s := range sessions {
				if o.StoreID {
					s2 := append(append([]string{}, s...))
					emit(C06Case{Front: front, Opts: o, Gen1: s2, Tier: tier})
					if len(s) > 0 && s[len(s)-1] == "F" {
						s3 := append([]string{"put:i"}, s...)
						emit(C06Case{Front: front, Opts: o, Gen1: s3, Tier: tier})
					}
					continue
				}
				emit(C06Case{Front: front, Opts: o, Gen1: s, Tier: tier})
			}
			// second generation: resume a complete image
			gen2s := [][]string{{}, {"put:b"}, {"put:b", "F"}, {"F"}}
			for _, g1 := range [][]string{{"put:a"}, {"put:a", "F"}, {"put:a", "put:L300", "F"}, append(append([]string{}, many...), "F")} {
				for _, g2 := range gen2s {
					emit(C06Case{Front: front, Opts: o, Gen1: g1, Gen2: g2, Tier: tier})
				}
			}
			// second generation starting from every crash image of a first one (clean
			// boundaries and one torn length per write in quick, all torn lengths in thorough)
			for _, g1 := range [][]string{{"put:a", "F"}, {"put:a", "put:b"}} {
				dir, err := os.MkdirTemp("/dev/shm", "c06gen")
				if err != nil {
					panic(err)
				}
				se, err := c06RunSession(front, filepath.Join(dir, "g1.car"), o, g1)
				os.RemoveAll(dir)
				if err != nil {
					continue
				}
				for i := 0; i < len(se.tr.Log); i++ {
					ts := c06Torn(se.tr.Log[i], tier, tier == "thorough")
					if tier != "thorough" && len(ts) > 2 {
						ts = []int{0, ts[len(ts)/2]}
					}
					for _, t := range ts {
						for _, g2 := range [][]string{{"put:b", "F"}, {"put:e"}} {
							emit(C06Case{Front: front, Opts: o, Gen1: g1, Cut1: &C06Point{i, t}, Gen2: g2, Tier: tier})
						}
					}
				}
			}
		}
	}
}

// genC06Gen2Crashed enumerates second-generation sessions that start from crashed images of
// a first one; it needs to run generation 1 to know its write log, so it is produced by a
// dedicated pseudo-case expanded at run time (see runC06Expand).

func init() {
	kit.Register(&kit.Prop{
		ID:     "C06",
		Gen:    genC06,
		Run:    runC06,
		Decode: kit.DecodeAs[C06Case],
		Rule: "for every writing session of the bound (open, puts incl. payloads > 255 and > 65535 bytes, duplicates, finalize) x 8 option configurations x {blockstore.OpenReadWriteFile, storage.New/OpenReadableWritable}, and for second-generation sessions that resume a first one: the REAL write order is recorded through the build-tag write seam plus file diffing (pragma, Truncate); " +
			"EVERY crash image = every prefix of the log with the next write torn at every length (all lengths for writes <= 64 bytes, {1,2,mid,len-2,len-1} for larger data writes in quick, all in thorough) is reopened and judged; non-trivial = image with a torn write",
		Bound: func(tier string) map[string]any {
			return map[string]any{"puts_per_session": "<=3 (quick) / <=3 plus more orders (thorough)", "generations": 2, "torn_lengths": "all for writes <=64B; 5 per larger write (quick) / all (thorough)", "configurations": 8}
		},
		Assumptions: []string{"crash model = the property's: a prefix of the issued writes with the last one torn (the library issues no syncs, so no reordering dimension)", "a torn write past EOF extends the file only up to the torn length"},
	})
}
