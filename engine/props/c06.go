package props

import (
	"bytes"
	"crypto/sha256"
	"encoding/hex"
	"errors"
	"fmt"
	"os"
	"path/filepath"
	"runtime/debug"
	"sort"
	"strings"

	blocks "github.com/ipfs/go-block-format"
	"github.com/ipfs/go-cid"
	"github.com/ipld/go-car/v2/blockstore"
	"github.com/ipld/go-car/v2/index"
	"github.com/ipld/go-car/v2/storage"
	"github.com/multiformats/go-multihash"

	"verif/drv"
	"verif/kit"
	"verif/model"
	"verif/refcar"
)

type C06Point struct {
	I int `json:"i"` // record index
	T int `json:"t"` // torn length of record i (0 = clean boundary)
}

type C06Case struct {
	// bs  = blockstore.OpenReadWriteFile (open and resume)
	// st  = storage.NewReadableWritable / OpenReadableWritable
	// bsp = sessions as bs; every crash image is reopened with blockstore.OpenReadWrite(path) and
	//       finished with FinalizeReadOnly + Close
	// stw = first generation opened with storage.NewWritable, resumptions with OpenReadableWritable
	Front string   `json:"front"`
	Opts  drv.Opts `json:"opts"`
	// root set: "" = {a}, "empty" = no roots, "five" = {a,b,c,e,s} (CARv1 header > 127 bytes)
	Roots string `json:"roots,omitempty"`
	// generation 1: ops "put:x" / "many:x,y" / "F"
	Gen1 []string `json:"gen1"`
	// Gens = number of generations (0 = 1). Generation k < Gens is cut at Cutk (nil = runs to
	// completion); the crash points enumerated are those of the last generation, which resumes
	// from the image left by the previous ones.
	Gens int       `json:"gens,omitempty"`
	Cut1 *C06Point `json:"cut1,omitempty"`
	Gen2 []string  `json:"gen2,omitempty"`
	Cut2 *C06Point `json:"cut2,omitempty"`
	Gen3 []string  `json:"gen3,omitempty"`
	// replay: only this crash point of the last generation
	Point *C06Point `json:"point,omitempty"`
	Tier  string    `json:"tier,omitempty"`
	// Big: large-block case (round 5): writes are torn at the class of lengths of c06TornBig in both tiers
	Big bool `json:"big,omitempty"`
}

func (c C06Case) nGens() int {
	switch {
	case c.Gens > 0:
		return c.Gens
	case c.Gen3 != nil:
		return 3
	case c.Gen2 != nil:
		return 2
	}
	return 1
}

type c06Put struct {
	blk  kit.Blk
	call int
}

// c06Session runs ops on a traced file and returns the trace and the puts with their call ids.
type c06Sess struct {
	tr     *drv.Trace
	puts   []c06Put
	base   []byte // file content before the session
	labels []string
	err    error
}

type c06Store struct {
	bs     *blockstore.ReadWrite
	st     *storage.StorageCar
	byPath bool // bs opened with OpenReadWrite(path): finish with FinalizeReadOnly + Close
	mhKeys bool // Keys() could only list multihashes
	whole  bool
}

func c06RootSet(name string) []cid.Cid {
	switch name {
	case "":
		return []cid.Cid{kit.B("a").Cid}
	case "empty":
		return []cid.Cid{}
	case "five":
		var out []cid.Cid
		for _, n := range []string{"a", "b", "c", "e", "s"} {
			out = append(out, kit.B(n).Cid)
		}
		return out
	case "b": // only used as the "wrong roots" of a mismatching reopen
		return []cid.Cid{kit.B("b").Cid}
	}
	panic("c06: unknown root set " + name)
}

func c06Open(front string, f *os.File, roots []cid.Cid, o drv.Opts, resume bool) (*c06Store, error) {
	if front == "bs" || front == "bsp" {
		bs, err := blockstore.OpenReadWriteFile(f, roots, o.List()...)
		if err != nil {
			return nil, err
		}
		return &c06Store{bs: bs, whole: o.Whole}, nil
	}
	var st *storage.StorageCar
	var err error
	switch {
	case resume:
		st, err = storage.OpenReadableWritable(f, roots, o.List()...)
	case front == "stw":
		var wc storage.WritableCar
		wc, err = storage.NewWritable(f, roots, o.List()...)
		if err == nil {
			st = wc.(*storage.StorageCar)
		}
	default:
		st, err = storage.NewReadableWritable(f, roots, o.List()...)
	}
	if err != nil {
		return nil, err
	}
	return &c06Store{st: st, whole: o.Whole}, nil
}

// c06Reopen opens a crash image for read-write through the front-end's resumption entry point.
func c06Reopen(front, path string, f *os.File, roots []cid.Cid, o drv.Opts) (*c06Store, error) {
	if front == "bsp" {
		bs, err := blockstore.OpenReadWrite(path, roots, o.List()...)
		if err != nil {
			return nil, err
		}
		return &c06Store{bs: bs, byPath: true, whole: o.Whole}, nil
	}
	return c06Open(front, f, roots, o, true)
}

func (s *c06Store) Put(b kit.Blk) error {
	if s.bs != nil {
		return s.bs.Put(drv.Ctx, b.Block())
	}
	return s.st.Put(drv.Ctx, b.Cid.KeyString(), b.Data)
}
func (s *c06Store) PutMany(bl []kit.Blk) error {
	if s.bs != nil {
		var l []blocks.Block
		for _, b := range bl {
			l = append(l, b.Block())
		}
		return s.bs.PutMany(drv.Ctx, l)
	}
	for _, b := range bl {
		if err := s.Put(b); err != nil {
			return err
		}
	}
	return nil
}
func (s *c06Store) Finalize() error {
	if s.bs != nil {
		if s.byPath {
			if err := s.bs.FinalizeReadOnly(); err != nil {
				return err
			}
			return s.bs.Close()
		}
		return s.bs.Finalize()
	}
	return s.st.Finalize()
}
func (s *c06Store) Has(c cid.Cid) (bool, error) {
	if s.bs != nil {
		return s.bs.Has(drv.Ctx, c)
	}
	return s.st.Has(drv.Ctx, c.KeyString())
}
func (s *c06Store) Get(c cid.Cid) ([]byte, error) {
	if s.bs != nil {
		b, err := s.bs.Get(drv.Ctx, c)
		if err != nil {
			return nil, err
		}
		return b.RawData(), nil
	}
	return s.st.Get(drv.Ctx, c.KeyString())
}

// Keys lists the store: AllKeysChan for the blockstore (multihash keys unless whole CIDs), the
// public insertion index (StorageCar.Index) for the storage front-end (always whole CIDs).
func (s *c06Store) Keys() ([]cid.Cid, error) {
	var out []cid.Cid
	if s.bs == nil {
		ii, ok := s.st.Index().(*index.InsertionIndex)
		if !ok {
			it, ok := s.st.Index().(index.IterableIndex)
			if !ok {
				return nil, drv.ErrNoListing
			}
			s.mhKeys = true
			err := it.ForEach(func(mh multihash.Multihash, _ uint64) error {
				out = append(out, cid.NewCidV1(cid.Raw, mh))
				return nil
			})
			return out, err
		}
		err := ii.ForEachCid(func(c cid.Cid, _ uint64) error {
			out = append(out, c)
			return nil
		})
		return out, err
	}
	ch, err := s.bs.AllKeysChan(drv.Ctx)
	if err != nil {
		return nil, err
	}
	for c := range ch {
		out = append(out, c)
	}
	return out, nil
}
func (s *c06Store) Discard() {
	if s.bs != nil {
		s.bs.Discard()
	}
}

// c06PutRefused: op number k of the session (a Put / PutMany) returned an error without having issued a write.
// The statement speaks of puts that returned; a store that declines a block says nothing about crash safety.
type c06PutRefused struct {
	k   int
	err error
}

func (e *c06PutRefused) Error() string { return e.err.Error() }
func (e *c06PutRefused) Unwrap() error { return e.err }

// runSession executes ops on path (resuming when the file is non-empty) under a trace.
func c06RunSession(front, path string, o drv.Opts, roots []cid.Cid, ops []string) (*c06Sess, error) {
	f, err := os.OpenFile(path, os.O_RDWR|os.O_CREATE, 0o644)
	if err != nil {
		panic(err)
	}
	defer f.Close()
	st, _ := f.Stat()
	resume := st.Size() != 0
	tr := drv.NewTrace(f)
	defer tr.Stop()
	se := &c06Sess{tr: tr, base: append([]byte{}, tr.Img...)}
	s, err := c06Open(front, f, roots, o, resume)
	tr.EndCall()
	if resume {
		se.labels = append(se.labels, "resume")
	} else {
		se.labels = append(se.labels, "open")
	}
	if err != nil {
		return se, err
	}
	defer s.Discard()
	for k, op := range ops {
		nlog := len(tr.Log)
		refused := func(err error) error {
			if len(tr.Log) == nlog {
				return &c06PutRefused{k, err}
			}
			return err
		}
		if op == "F" {
			err := s.Finalize()
			tr.EndCall()
			se.labels = append(se.labels, "finalize")
			if err != nil {
				return se, fmt.Errorf("finalize: %w", err)
			}
			continue
		}
		if strings.HasPrefix(op, "many:") {
			bl := kit.Bs(strings.Split(strings.TrimPrefix(op, "many:"), ","))
			if s.bs == nil {
				// the storage front-end has no PutMany: N Puts, each acknowledged when it returns
				for _, b := range bl {
					call := tr.Call
					err := s.Put(b)
					tr.EndCall()
					se.labels = append(se.labels, "put")
					if err != nil {
						return se, refused(fmt.Errorf("%s: %w", op, err))
					}
					se.puts = append(se.puts, c06Put{b, call})
				}
				continue
			}
			// one PutMany call: all its blocks are acknowledged only when the call returns
			call := tr.Call
			err := s.PutMany(bl)
			tr.EndCall()
			se.labels = append(se.labels, "put")
			if err != nil {
				return se, refused(fmt.Errorf("%s: %w", op, err))
			}
			for _, b := range bl {
				se.puts = append(se.puts, c06Put{b, call})
			}
			continue
		}
		b := kit.B(strings.TrimPrefix(op, "put:"))
		call := tr.Call
		err := s.Put(b)
		tr.EndCall()
		se.labels = append(se.labels, "put")
		if err != nil {
			return se, refused(fmt.Errorf("%s: %w", op, err))
		}
		se.puts = append(se.puts, c06Put{b, call})
	}
	return se, nil
}

func (se *c06Sess) callStart(call int) int {
	if call > 0 {
		return se.tr.CallEnd[call-1]
	}
	return 0
}

// c06Class labels record i: (API call kind, which write of that call, torn field).
func c06Class(se *c06Sess, i, t int) string {
	r := se.tr.Log[i]
	call := se.labels[r.Call]
	// ordinal within the call
	start := se.callStart(r.Call)
	end := se.tr.CallEnd[r.Call]
	ord := i - start
	n := end - start
	part := fmt.Sprintf("w%d", ord)
	if r.Kind == "truncate" {
		part = "truncate"
	} else {
		switch call {
		case "put":
			// LdWrite issues exactly three writes per section (length, CID, data - the data write is
			// issued even when empty); Truncate never happens inside a put
			part = []string{"varint", "cid", "data"}[ord%3]
			if n%3 != 0 {
				// another write pattern (coalesced, chunked, extra writes): name the write by what it carries
				part = "other"
				for _, p := range se.puts {
					if p.call != r.Call {
						continue
					}
					switch {
					case len(r.Data) > 0 && bytes.Equal(r.Data, p.blk.Data):
						part = "data"
					case bytes.Equal(r.Data, p.blk.Raw):
						part = "cid"
					case bytes.Equal(r.Data, refcar.PutUvarint(uint64(len(p.blk.Raw)+len(p.blk.Data)))):
						part = "varint"
					}
				}
			}
		case "open":
			if r.Synthetic {
				part = "pragma"
			} else if len(r.Data) <= 9 && ord < n-1 {
				part = "v1hdr-varint"
			} else {
				part = "v1hdr-body"
			}
		case "finalize":
			switch {
			case r.Off >= refcar.PragmaSize+refcar.V2HeaderSize:
				part = "index"
			case r.Off == refcar.PragmaSize+16:
				part = "v2hdr-fields"
			case len(r.Data) <= 16:
				part = "v2hdr-chars"
			default:
				part = "v2hdr-whole"
			}
		case "resume":
			switch {
			case len(r.Data) == 24:
				part = "unfinalize-fields"
			case len(r.Data) == 16:
				part = "unfinalize-chars"
			}
		}
	}
	torn := "clean"
	if t > 0 {
		torn = "torn"
		if part == "v2hdr-fields" || part == "unfinalize-fields" {
			torn = []string{"torn-dataoffset", "torn-datasize", "torn-indexoffset"}[min((t-1)/8, 2)]
			if t%8 == 0 {
				torn += "-complete"
			}
		}
	}
	return call + ":" + part + ":" + torn
}

// c06IndexOnDisk returns the number of index bytes a Finalize call had written at crash point
// (i,t), or -1 when the point is not inside a CARv2 Finalize call.
func c06IndexOnDisk(se *c06Sess, i, t int) int {
	if i >= len(se.tr.Log) {
		return -1
	}
	r := se.tr.Log[i]
	if se.labels[r.Call] != "finalize" {
		return -1
	}
	start, end := se.callStart(r.Call), se.tr.CallEnd[r.Call]
	n := 0
	for k := start; k < end && k <= i; k++ {
		// writes into the CARv2 header area [11,51) are the header, whatever their number and order
		if se.tr.Log[k].Kind != "write" || se.tr.Log[k].Off < refcar.PragmaSize+refcar.V2HeaderSize {
			continue
		}
		if k < i {
			n += len(se.tr.Log[k].Data)
		} else {
			n += t
		}
	}
	return n
}

// tornLengths for record r.
func c06Torn(r drv.Rec, tier string, exhaustiveData bool) []int {
	if r.Kind == "truncate" {
		return []int{0}
	}
	n := len(r.Data)
	out := []int{0}
	if n <= 64 || exhaustiveData {
		for t := 1; t < n; t++ {
			out = append(out, t)
		}
		return out
	}
	for _, t := range []int{1, 2, n / 2, n - 2, n - 1} {
		if t > 0 && t < n {
			out = append(out, t)
		}
	}
	return out
}

// c06TornBig: torn lengths of record r in a large-block case (round 5). Writes of up to 64 bytes are torn at
// every length; a larger write at {1, 2, mid, len-2, len-1}, one byte before, at and one byte after every power
// of two >= 64 inside the write (the sizes at which a buffered / chunked / thresholded write path changes
// behaviour), and in the thorough tier at every multiple of the page size (4 KiB; of 64 KiB for writes over
// 1 MiB). Never at every length: the exhaustive tearing of a data write is the business of the 70 000-byte
// sessions.
func c06TornBig(r drv.Rec, tier string) []int {
	out := c06Torn(r, tier, false)
	n := len(r.Data)
	if r.Kind == "truncate" || n <= 64 {
		return out
	}
	seen := map[int]bool{}
	for _, t := range out {
		seen[t] = true
	}
	add := func(t int) {
		if t > 0 && t < n && !seen[t] {
			seen[t] = true
			out = append(out, t)
		}
	}
	for p := 64; p < n; p <<= 1 {
		add(p - 1)
		add(p)
		add(p + 1)
	}
	if tier == "thorough" {
		step := 4096
		if n > 1<<20 {
			step = 65536
		}
		for t := step; t < n; t += step {
			add(t)
		}
	}
	sort.Ints(out)
	return out
}

// c06BigMaxSection is the largest section the default options let a reader accept
// (DefaultMaxAllowedSectionSize, 8 MiB): the largest block whose Get the statement can demand.
const c06BigMaxSection = 8 << 20

// c06BigPut is the op that puts the block whose DATA is dataLen bytes long (raw sha2-256 CIDv1: 36 bytes).
func c06BigPut(dataLen int) string { return fmt.Sprintf("put:L%d", dataLen+36) }

// c06HasBig: some op of the session puts a block of the large-block dimension (section over 70 000 bytes,
// the largest block of the other sessions).
func c06HasBig(ops []string) bool {
	for _, op := range ops {
		for _, name := range strings.Split(op[strings.Index(op, ":")+1:], ",") {
			var n int
			if strings.HasPrefix(name, "L") {
				fmt.Sscanf(name[1:], "%d", &n)
			}
			if n > 70000 {
				return true
			}
		}
	}
	return false
}

// c06StateKey identifies a crash image; large images are identified by their SHA-256 rather than by their
// content (distinct images stay distinct, the key of every image below the limit is unchanged).
func c06StateKey(cs C06Case, img []byte) string {
	if len(img) <= 1<<17 {
		return fmt.Sprintf("%s|%s|%+v|%x", cs.Front, cs.Roots, cs.Opts, img)
	}
	return fmt.Sprintf("%s|%s|%+v|%d:sha256:%x", cs.Front, cs.Roots, cs.Opts, len(img), sha256.Sum256(img))
}

// c06GenModel is what one generation did up to its cut.
type c06GenModel struct {
	acked    []kit.Blk // puts that had returned, in call order
	inflight []kit.Blk // blocks of the call that was executing at the cut, in argument order
}

// c06ModelAt: puts of se acknowledged at crash point i, and the blocks of the call in progress.
// i < 0: the session ran to completion.
func c06ModelAt(se *c06Sess, i int) c06GenModel {
	var m c06GenModel
	for _, p := range se.puts {
		switch {
		case i < 0 || se.tr.CallEnd[p.call] <= i:
			m.acked = append(m.acked, p.blk)
		case se.callStart(p.call) <= i:
			m.inflight = append(m.inflight, p.blk)
		}
	}
	return m
}

// c06Disk models the sections of the payload under the documented put rules: identity CIDs are
// not stored unless StoreIdentityCIDs; duplicates (by multihash, by whole CID with UseWholeCIDs)
// are not written again unless AllowDuplicatePuts.
type c06Disk struct {
	seq  []string
	mh   map[string]bool
	cids map[string]bool
}

func (d *c06Disk) clone() *c06Disk {
	n := &c06Disk{seq: append([]string{}, d.seq...), mh: map[string]bool{}, cids: map[string]bool{}}
	for k := range d.mh {
		n.mh[k] = true
	}
	for k := range d.cids {
		n.cids[k] = true
	}
	return n
}

func (d *c06Disk) put(o drv.Opts, b kit.Blk) bool {
	if model.IsIdentity(b.Raw) && !o.StoreID {
		return false
	}
	mh := string(multihashBytes(b.Raw))
	if !o.AllowDup {
		if o.Whole {
			if d.cids[string(b.Raw)] {
				return false
			}
		} else if d.mh[mh] {
			return false
		}
	}
	d.seq = append(d.seq, hex.EncodeToString(b.Raw))
	d.mh[mh] = true
	d.cids[string(b.Raw)] = true
	return true
}

// c06Expected enumerates the section sequences the final archive may hold: per generation the
// acknowledged puts in order, then any prefix of the sections the interrupted call would have
// written (a crash image is a prefix of the writes), then the continuation puts.
func c06Expected(o drv.Opts, gens []c06GenModel, cont []kit.Blk) map[string]bool {
	out := map[string]bool{}
	var rec func(g int, d *c06Disk)
	rec = func(g int, d *c06Disk) {
		if g == len(gens) {
			for _, b := range cont {
				d.put(o, b)
			}
			out[strings.Join(d.seq, ",")] = true
			return
		}
		for _, b := range gens[g].acked {
			d.put(o, b)
		}
		rec(g+1, d.clone())
		for _, b := range gens[g].inflight {
			if d.put(o, b) {
				rec(g+1, d.clone())
			}
		}
	}
	rec(0, &c06Disk{mh: map[string]bool{}, cids: map[string]bool{}})
	return out
}

// c06Img is one crash image together with what the model knows about it.
type c06Img struct {
	rc     C06Case
	img    []byte
	gens   []c06GenModel
	class  string
	clean  bool // crash point is a call boundary of the API (nothing in flight)
	classA bool // known class A: crash inside Finalize with >= 1 KiB of index on disk and no complete header
	// known class B: ZeroLengthSectionAsEOF with index padding, and some generation crashed inside
	// Finalize after index bytes had reached the disk: Resume stops at the zeros of the padding and
	// leaves the writer in front of a stale tail (padding hole + old index bytes)
	staleTail bool
	depth     int // 1 = image left behind by a refused reopen
	// scratch (large-block cases): buffers reused from one crash image of the case to the next
	scratch *c06Scratch
}

// c06Scratch: per-case buffers of the large-block cases, so that a case does not allocate two buffers of the
// size of the file per crash point. img is the image under judgement, after[d] the file as the refused reopen
// of depth d left it.
type c06Scratch struct {
	img   []byte
	after [2][]byte
}

// c06ReadFile reads path, into the scratch buffer of this depth when there is one.
func (m *c06Img) readFile(path string) []byte {
	if m.scratch == nil || m.depth > 1 {
		b, _ := os.ReadFile(path)
		return b
	}
	f, err := os.Open(path)
	if err != nil {
		return nil
	}
	defer f.Close()
	buf := m.scratch.after[m.depth][:0]
	if st, err := f.Stat(); err == nil && int64(cap(buf)) < st.Size() {
		buf = make([]byte, 0, st.Size()+st.Size()/8)
	}
	for {
		if len(buf) == cap(buf) {
			buf = append(buf, 0)[:len(buf)]
		}
		n, err := f.Read(buf[len(buf):cap(buf)])
		buf = buf[:len(buf)+n]
		if err != nil {
			break
		}
	}
	m.scratch.after[m.depth] = buf
	return buf
}

// c06ImageInto is drv.Image building the image in buf's storage.
func c06ImageInto(buf, base []byte, log []drv.Rec, i, t int) []byte {
	img := append(buf[:0], base...)
	apply := func(r drv.Rec, t int) {
		if r.Kind == "truncate" {
			if int(r.Off) < len(img) {
				img = img[:r.Off]
			}
			return
		}
		d := r.Data
		if t >= 0 && t < len(d) {
			d = d[:t]
		}
		if end := int(r.Off) + len(d); end > len(img) {
			// a write past the end extends the file with zeros (the storage may hold old bytes)
			from := len(img)
			if end > cap(img) {
				img = append(img, make([]byte, end-from)...)
			} else {
				img = img[:end]
				clear(img[from:])
			}
		}
		copy(img[r.Off:], d)
	}
	for k := 0; k < i; k++ {
		apply(log[k], -1)
	}
	if t > 0 && i < len(log) {
		apply(log[i], t)
	}
	return img
}

func (m *c06Img) acked() []kit.Blk {
	var out []kit.Blk
	for _, g := range m.gens {
		out = append(out, g.acked...)
	}
	return out
}
func (m *c06Img) inflight() []kit.Blk {
	var out []kit.Blk
	for _, g := range m.gens {
		out = append(out, g.inflight...)
	}
	return out
}

// c06SectionsIntact reports the first acknowledged block that had a section in img and has no
// intact copy left in after: a block is destroyed when none of the sections that carried it in img
// is still there at its offset. copyLost tells that some copy (not the last one) of an acknowledged
// block went away, which the statement allows (e.g. a trimmed tail holding a duplicate).
func c06SectionsIntact(img, after []byte, acked []kit.Blk) (name string, ok, copyLost bool) {
	for _, b := range acked {
		sec := refcar.EncodeSection(b.Ref())
		was, still := 0, 0
		for from := 0; ; {
			k := bytes.Index(img[from:], sec)
			if k < 0 {
				break
			}
			k += from
			was++
			if len(after) >= k+len(sec) && bytes.Equal(after[k:k+len(sec)], sec) {
				still++
			}
			from = k + 1
		}
		if was > 0 && still == 0 {
			return b.Name, false, copyLost
		}
		copyLost = copyLost || still < was
	}
	return "", true, copyLost
}

var c06QueryNames = []string{"a", "b", "c", "e", "a'", "a0", "i", "i0", "L300", "L70000"}

// c06CheckImage reopens img and applies the oracle.
func c06CheckImage(x *kit.Ctx, m *c06Img) {
	rc, img, class := m.rc, m.img, m.class
	front, o := rc.Front, rc.Opts
	roots := c06RootSet(rc.Roots)
	failed := false // per crash image (Ctx.Fail de-duplicates signatures per case)
	fail := func(sig, format string, args ...any) {
		failed = true
		x.FailCase(rc, sig, format, args...)
	}
	path := filepath.Join(x.Dir, "c06-img.car")
	if err := os.WriteFile(path, img, 0o644); err != nil {
		panic(err)
	}
	defer os.Remove(path)
	f, err := os.OpenFile(path, os.O_RDWR, 0o644)
	if err != nil {
		panic(err)
	}
	defer f.Close()
	x.Eval(1)
	x.Transition(2)
	if len(img) == 0 {
		return // nothing on disk: a fresh start, not a resumption
	}
	acked, inflight := m.acked(), m.inflight()
	s, err := c06Reopen(front, path, f, roots, o)
	if err != nil {
		x.Outcome("reopen-refused")
		if m.clean {
			// allowed by C06 (C12 owns "a cleanly interrupted session resumes"); counted so
			// that an always-refusing Resume shows up in the evidence
			x.Outcome("reopen-refused-at-call-boundary")
			x.Note("refused-at-call-boundary: "+class+" "+front+fmt.Sprintf(" %+v", o), fmt.Sprintf("%v | gen1=%v cut1=%v gen2=%v cut2=%v gen3=%v point=%v", err, rc.Gen1, rc.Cut1, rc.Gen2, rc.Cut2, rc.Gen3, rc.Point))
		}
		// must not have destroyed any acknowledged block already on disk
		after := m.readFile(path)
		if name, ok, copyLost := c06SectionsIntact(img, after, acked); !ok {
			fail("c06:"+class+":acked-block-destroyed-by-refused-reopen", "reopen failed (%v) and destroyed acknowledged block %s", err, name)
		} else if copyLost {
			x.Outcome("beyond-statement:refused-reopen-removed-a-duplicate-copy")
		}
		if !bytes.Equal(after, img) {
			x.Outcome("reopen-refused-file-modified")
			if m.depth == 0 && !failed {
				// the refused reopen issued writes of its own: what it left behind is again an image
				// that a caller may try to reopen
				c06CheckImage(x, &c06Img{rc: rc, img: after, gens: m.gens, class: class + ":after-refused-reopen", classA: m.classA, staleTail: m.staleTail, depth: 1, scratch: m.scratch})
			}
		}
		return
	}
	defer s.Discard()
	x.Outcome("reopen-ok")
	if m.classA {
		x.Outcome("reopen-ok-classA")
	}
	var okPut []kit.Blk
	okPut = append(append(okPut, acked...), inflight...)
	// justify: some put block carries the key (whole CID under UseWholeCIDs, multihash otherwise)
	justify := func(raw []byte, whole bool) *kit.Blk {
		for k := range okPut {
			if whole && bytes.Equal(okPut[k].Raw, raw) {
				return &okPut[k]
			}
			if !whole && bytes.Equal(multihashBytes(okPut[k].Raw), multihashBytes(raw)) {
				return &okPut[k]
			}
		}
		return nil
	}
	isInflight := func(b *kit.Blk) bool {
		for _, a := range acked {
			if bytes.Equal(a.Raw, b.Raw) {
				return false
			}
		}
		return true
	}
	// tornOverStale: some section write was in flight (in any generation) and the multihash read back
	// stands in the image (what was written of the torn section's CID completed by bytes of the tail)
	tornOverStale := func(mh []byte) bool {
		return len(inflight) > 0 && bytes.Contains(img, mh)
	}
	phantom := func(raw []byte, format string, args ...any) {
		sig := "c06:" + class + ":phantom-block"
		// bytes that are not a section were scanned as one
		switch {
		case m.classA && bytes.Equal(multihashBytes(raw), []byte{0, 0}):
			// class A of KNOWN_FINDINGS.txt: the index (>= 1 KiB on disk, header not valid yet) is scanned
			// as a section; 01 00 00 00 parses as a CIDv1 with an identity multihash and an empty digest
			sig = "c06:classA-index-read-as-section:" + class + ":phantom-block"
		case m.staleTail && tornOverStale(multihashBytes(raw)):
			// class B: a torn section write completed by the stale tail (the CID read is what was
			// written of an in-flight block's CID, followed by zeros / old index bytes)
			sig = "c06:classB-zeroeof-stale-tail:" + class + ":phantom-block"
		}
		fail(sig, format, args...)
	}
	corrupt := func(src *kit.Blk, format string, args ...any) {
		sig := "c06:" + class + ":corrupt-bytes"
		if m.staleTail && src != nil && isInflight(src) {
			sig = "c06:classB-zeroeof-stale-tail:" + class + ":corrupt-bytes"
		}
		fail(sig, format, args...)
	}
	for _, b := range acked {
		if model.IsIdentity(b.Raw) && !o.StoreID {
			continue
		}
		has, herr := s.Has(b.Cid)
		data, gerr := s.Get(b.Cid)
		if herr != nil || !has || gerr != nil {
			fail("c06:"+class+":acked-block-missing", "resumed store lacks acknowledged block %s: Has=%v,%v Get err=%v", b.Name, has, herr, gerr)
		} else if !bytes.Equal(data, b.Data) {
			fail("c06:"+class+":acked-block-corrupt", "resumed store returns wrong bytes for acknowledged block %s: %x want %x", b.Name, clip(data), clip(b.Data))
		}
	}
	// everything retrievable was put, and is intact: every block of the sessions (acknowledged or
	// in flight) plus a fixed list of blocks that may or may not have been put
	var queries []kit.Blk
	seenQ := map[string]bool{}
	for _, b := range okPut {
		if !seenQ[b.Name] {
			seenQ[b.Name] = true
			queries = append(queries, b)
		}
	}
	for _, n := range c06QueryNames {
		if !seenQ[n] {
			seenQ[n] = true
			queries = append(queries, kit.B(n))
		}
	}
	for _, q := range queries {
		if model.IsIdentity(q.Raw) && !o.StoreID {
			continue
		}
		has, _ := s.Has(q.Cid)
		data, gerr := s.Get(q.Cid)
		if !has && gerr != nil {
			continue
		}
		src := justify(q.Raw, o.Whole)
		if src == nil {
			phantom(q.Raw, "resumed store reports %s (Has=%v, Get err=%v) which was never put", q.Name, has, gerr)
			continue
		}
		if gerr == nil && !bytes.Equal(data, src.Data) {
			corrupt(src, "resumed store returns %d bytes for %s that are not the block's (%x)", len(data), q.Name, clip(data))
		} else if has && gerr != nil {
			corrupt(src, "resumed store has %s but Get fails: %v", q.Name, gerr)
		}
	}
	if keys, err := s.Keys(); err == drv.ErrNoListing {
		x.Outcome("beyond-statement:store-cannot-be-listed")
	} else if err != nil {
		fail("c06:"+class+":listing-error", "listing the resumed store failed: %v", err)
	} else {
		// the blockstore lists multihash keys unless UseWholeCIDs; the storage index holds the CIDs as put
		wholeKeys := (o.Whole || s.bs == nil) && !s.mhKeys
		for _, k := range keys {
			src := justify(k.Bytes(), wholeKeys)
			if src == nil {
				phantom(k.Bytes(), "resumed store lists key %s which was never put", k)
				continue
			}
			if model.IsIdentity(src.Raw) && !o.StoreID {
				fail("c06:"+class+":phantom-block", "resumed store lists identity key %s although identity CIDs are not stored", k)
				continue
			}
			// a listed key must be retrievable, with the bytes of the block that was put under it
			q := src.Cid
			data, gerr := s.Get(q)
			if gerr != nil {
				corrupt(src, "resumed store lists %s (%s) but Get fails: %v", k, src.Name, gerr)
			} else if !bytes.Equal(data, src.Data) {
				corrupt(src, "resumed store lists %s (%s) and returns %d bytes that are not the block's (%x)", k, src.Name, len(data), clip(data))
			}
		}
		// every acknowledged (stored) block is listed
		for _, b := range acked {
			if model.IsIdentity(b.Raw) && !o.StoreID {
				continue
			}
			found := false
			for _, k := range keys {
				if o.Whole && !s.mhKeys {
					found = found || bytes.Equal(k.Bytes(), b.Raw)
				} else {
					found = found || bytes.Equal([]byte(k.Hash()), multihashBytes(b.Raw))
				}
			}
			if !found {
				fail("c06:"+class+":acked-block-missing", "resumed store does not list acknowledged block %s", b.Name)
			}
		}
	}
	if failed {
		return
	}
	// continue: more puts and Finalize must give a well-formed archive holding all of them. The
	// continuation puts again what was in flight, an acknowledged block again (the
	// de-duplication state has to be rebuilt by the resumption), and a fresh block.
	nb := kit.B("c")
	var cont []kit.Blk
	cont = append(cont, inflight...)
	if len(acked) > 0 {
		cont = append(cont, acked[0])
	}
	cont = append(cont, nb)
	if len(inflight) > 1 {
		if err := s.PutMany(inflight); err != nil {
			fail("c06:"+class+":continue-put-error", "PutMany(in-flight blocks) after resumption failed: %v", err)
			return
		}
	} else if len(inflight) == 1 {
		if err := s.Put(inflight[0]); err != nil {
			fail("c06:"+class+":continue-put-error", "Put(in-flight block %s) after resumption failed: %v", inflight[0].Name, err)
			return
		}
	}
	if len(acked) > 0 {
		if err := s.Put(acked[0]); err != nil {
			fail("c06:"+class+":continue-put-error", "Put(acknowledged block %s) again after resumption failed: %v", acked[0].Name, err)
			return
		}
	}
	if err := s.Put(nb); err != nil {
		fail("c06:"+class+":continue-put-error", "Put after resumption failed: %v", err)
		return
	}
	for _, b := range cont {
		if model.IsIdentity(b.Raw) && !o.StoreID {
			continue
		}
		data, err := s.Get(b.Cid)
		if err != nil || !bytes.Equal(data, b.Data) {
			fail("c06:"+class+":continue-get-wrong", "after resumption and Put, Get(%s) = %x, %v; want %x", b.Name, clip(data), err, clip(b.Data))
			return
		}
	}
	if err := s.Finalize(); err != nil {
		fail("c06:"+class+":continue-finalize-error", "Finalize after resumption failed: %v", err)
		return
	}
	final, _ := os.ReadFile(path)
	fl, err := refcar.DecodeFile(final, o.ZeroEOF)
	if err == nil && fl.IndexPaddingNonZero {
		// the format does not constrain the content of the padding: counted, not judged
		if m.staleTail {
			x.Outcome("final-index-padding-not-zero:zeroeof-stale-tail")
		} else {
			x.Outcome("final-index-padding-not-zero")
		}
	}
	if err != nil {
		fail("c06:"+class+":malformed-after-continue", "file after resume+Put+Finalize is not well-formed: %v", err)
		return
	}
	putAll := map[string]kit.Blk{}
	for _, b := range okPut {
		putAll[string(b.Raw)] = b
	}
	putAll[string(nb.Raw)] = nb
	present := map[string]bool{}
	var seq []string
	for _, sec := range fl.Payload.Sections {
		present[string(sec.Cid)] = true
		seq = append(seq, hex.EncodeToString(sec.Cid))
		if _, ok := putAll[string(sec.Cid)]; !ok {
			fail("c06:"+class+":phantom-block-in-final", "final archive holds section %x which was never put", sec.Cid)
		}
	}
	for _, b := range append(append([]kit.Blk{}, acked...), nb) {
		if model.IsIdentity(b.Raw) && !o.StoreID {
			continue
		}
		ok := false
		for k := range present {
			if o.Whole {
				ok = ok || k == string(b.Raw)
			} else if bytes.Equal(multihashBytes([]byte(k)), multihashBytes(b.Raw)) {
				ok = true
			}
		}
		if !ok {
			fail("c06:"+class+":acked-block-missing-in-final", "final archive lacks acknowledged block %s", b.Name)
		}
	}
	if !failed {
		// exact payload: acknowledged sections in put order (each once unless duplicates are allowed),
		// whatever prefix of the interrupted call had reached the disk, then the continuation
		if exp := c06Expected(o, m.gens, cont); !exp[strings.Join(seq, ",")] {
			// the statement fixes which sections the archive holds (and how many copies, through the
			// documented put rules), not their order: the same multiset in another order is recorded
			sameBag := false
			for k := range exp {
				sameBag = sameBag || c06Bag(strings.Split(k, ",")) == c06Bag(seq)
			}
			if sameBag {
				x.Outcome("beyond-statement:sections-in-another-order")
			} else {
				fail("c06:"+class+":wrong-sections-after-continue", "final archive holds sections [%s]; the sessions and the continuation allow only %v", c06Names(seq), c06NamesSet(exp))
			}
		}
	}
	var wantRoots [][]byte
	for _, r := range roots {
		wantRoots = append(wantRoots, r.Bytes())
	}
	if got := fl.Payload.Header.Roots; len(got) != len(wantRoots) || !bytes.Equal(bytes.Join(got, []byte{0xff}), bytes.Join(wantRoots, []byte{0xff})) {
		fail("c06:"+class+":wrong-roots-after-continue", "final archive has roots %x, want %x", got, wantRoots)
	}
	if o.V1 {
		if fl.Version != 1 {
			fail("c06:"+class+":malformed-after-continue", "final archive of a CARv1-mode session is version %d", fl.Version)
		}
		return
	}
	if fl.Version != 2 || !fl.HasIndex {
		fail("c06:"+class+":malformed-after-continue", "final archive is not an indexed CARv2")
		return
	}
	if msg := c06IndexCovers(fl, o.StoreID); msg != "" {
		fail("c06:"+class+":malformed-after-continue", "final index {%s} does not fit the payload {%s}: %s", recMultiset(fl.IndexCodec, fl.Index), recMultiset(fl.IndexCodec, refcar.RecordsOf(fl.Payload, o.StoreID)), msg)
	}
	if fl.IndexCodec != codecNum(o) {
		fail("c06:"+class+":wrong-header-after-continue", "final index has codec %#x, the options ask for %#x", fl.IndexCodec, codecNum(o))
	}
	// header arithmetic against the options of the resuming session
	h := fl.V2
	if h.DataOffset != refcar.PragmaSize+refcar.V2HeaderSize+o.DataPad || h.DataSize != fl.Payload.End || h.IndexOffset != h.DataOffset+h.DataSize+o.IndexPad {
		fail("c06:"+class+":wrong-header-after-continue", "final header {DataOffset %d DataSize %d IndexOffset %d}: want DataOffset 51+%d, DataSize %d (header and sections), IndexOffset = end of payload + %d",
			h.DataOffset, h.DataSize, h.IndexOffset, o.DataPad, fl.Payload.End, o.IndexPad)
	}
	if h.FullyIndexed() {
		x.Outcome("final-fully-indexed")
	}
}

// c06IndexCovers: every index record is a section of the payload with that digest (soundness), and every
// CID of the payload has at least one record pointing at a section that carries it (coverage). Several
// copies of one CID need not all be indexed.
func c06IndexCovers(fl *refcar.File, storeID bool) string {
	want := map[string]bool{}
	for _, r := range refcar.RecordsOf(fl.Payload, storeID) {
		want[recKey(fl.IndexCodec, r)] = true
	}
	indexedAt := map[uint64]bool{}
	for _, r := range fl.Index {
		if !want[recKey(fl.IndexCodec, r)] {
			return "record " + recKey(fl.IndexCodec, r) + " is not a section of the payload"
		}
		indexedAt[r.Offset] = true
	}
	covered := map[string]bool{}
	for _, sec := range fl.Payload.Sections {
		if indexedAt[sec.Offset] {
			covered[string(sec.Cid)] = true
		}
	}
	for _, sec := range fl.Payload.Sections {
		if sec.Info.MhCode == refcar.MhIdentity && !storeID {
			continue
		}
		if !covered[string(sec.Cid)] {
			return fmt.Sprintf("no record for CID %x", sec.Cid)
		}
	}
	return ""
}

// c06Bag is the multiset of a section sequence.
func c06Bag(seq []string) string {
	l := append([]string{}, seq...)
	sort.Strings(l)
	return strings.Join(l, ",")
}

func c06Names(seq []string) string {
	var out []string
	for _, h := range seq {
		name := h
		raw, _ := hex.DecodeString(h)
		for _, n := range kit.AlphaOrder {
			if bytes.Equal(kit.Alpha[n].Raw, raw) {
				name = n
			}
		}
		if len(name) > 12 {
			name = name[:12] + ".."
		}
		out = append(out, name)
	}
	return strings.Join(out, " ")
}

func c06NamesSet(exp map[string]bool) []string {
	var out []string
	for k := range exp {
		if k == "" {
			out = append(out, "[]")
			continue
		}
		out = append(out, "["+c06Names(strings.Split(k, ","))+"]")
	}
	return out
}

func multihashBytes(raw []byte) []byte {
	ci, err := refcar.ParseCID(raw)
	if err != nil {
		return raw
	}
	return ci.Multihash()
}

// c06Mismatch reopens a complete image with roots / data padding that do not match the file.
// The property only constrains a refusal: it must not destroy acknowledged blocks.
func c06Mismatch(x *kit.Ctx, rc C06Case, img []byte, acked []kit.Blk, class string) {
	if len(img) == 0 {
		return
	}
	type mm struct {
		tag   string
		roots string
		o     drv.Opts
	}
	wrongPad := rc.Opts
	wrongPad.DataPad++
	wrongRoots := "b"
	if rc.Roots == "b" {
		wrongRoots = ""
	}
	for _, v := range []mm{{"roots", wrongRoots, rc.Opts}, {"datapad", rc.Roots, wrongPad}} {
		if v.tag == "datapad" && rc.Opts.V1 {
			continue // no CARv2 header, no padding
		}
		path := filepath.Join(x.Dir, "c06-mm.car")
		if err := os.WriteFile(path, img, 0o644); err != nil {
			panic(err)
		}
		f, err := os.OpenFile(path, os.O_RDWR, 0o644)
		if err != nil {
			panic(err)
		}
		x.Eval(1)
		s, err := c06Open(rc.Front, f, c06RootSet(v.roots), v.o, true)
		if err == nil {
			s.Discard()
			x.Outcome("mismatch-" + v.tag + "-reopen-ok")
		} else {
			x.Outcome("mismatch-" + v.tag + "-reopen-refused")
			after, _ := os.ReadFile(path)
			if name, ok, copyLost := c06SectionsIntact(img, after, acked); !ok {
				x.FailCase(rc, "c06:"+class+":acked-block-destroyed-by-refused-reopen:mismatch-"+v.tag, "reopen with mismatching %s failed (%v) and destroyed acknowledged block %s", v.tag, err, name)
			} else if copyLost {
				x.Outcome("beyond-statement:refused-reopen-removed-a-duplicate-copy")
			}
			if !bytes.Equal(after, img) {
				x.Outcome("mismatch-" + v.tag + "-reopen-refused-file-modified")
			}
		}
		f.Close()
		os.Remove(path)
	}
}

func runC06(c any, x *kit.Ctx) {
	cs := c.(C06Case)
	roots := c06RootSet(cs.Roots)
	path := filepath.Join(x.Dir, "c06-session.car")
	os.Remove(path)
	defer os.Remove(path)
	n := cs.nGens()
	ops := [][]string{cs.Gen1, cs.Gen2, cs.Gen3}[:n]
	cuts := []*C06Point{cs.Cut1, cs.Cut2}
	var prior []c06GenModel
	var se *c06Sess
	stalePrior := false
	for g := 0; g < n; g++ {
		var err error
		se, err = c06RunSession(cs.Front, path, cs.Opts, roots, ops[g])
		var pr *c06PutRefused
		if errors.As(err, &pr) && g == n-1 {
			// a Put declined before any write: the session is the one up to that Put (counted, so that a store
			// declining everything shows in the evidence)
			x.Outcome("beyond-statement:put-refused")
			x.Note("put-refused: "+cs.Front+fmt.Sprintf(" %+v", cs.Opts), fmt.Sprintf("%v | ops=%v", err, ops[g]))
			ops[g] = ops[g][:pr.k]
			if err := os.WriteFile(path, se.base, 0o644); err != nil {
				panic(err)
			}
			if len(se.base) == 0 {
				os.Remove(path)
			}
			se, err = c06RunSession(cs.Front, path, cs.Opts, roots, ops[g])
		}
		if err != nil {
			if g == 0 {
				x.Fail("c06:session-error:"+cs.Front, "generation-1 session %v failed: %v", cs.Gen1, err)
				return
			}
			// this generation cannot even start from the image: nothing to enumerate here (the
			// refusal itself is judged by the case of the previous generation for that crash point)
			x.Outcome(fmt.Sprintf("gen%d-refused", g+1))
			return
		}
		if g == n-1 {
			break
		}
		// cut this generation and let the next one start from the image
		img := se.tr.Img
		at := -1
		if cuts[g] != nil {
			img = drv.Image(se.base, se.tr.Log, cuts[g].I, cuts[g].T)
			at = cuts[g].I
			stalePrior = stalePrior || c06IndexOnDisk(se, cuts[g].I, cuts[g].T) > 0
		}
		prior = append(prior, c06ModelAt(se, at))
		if err := os.WriteFile(path, img, 0o644); err != nil {
			panic(err)
		}
	}
	var scratch *c06Scratch
	if cs.Big {
		scratch = &c06Scratch{}
	}
	checkPoint := func(i, t int) {
		var img []byte
		if scratch != nil {
			img = c06ImageInto(scratch.img, se.base, se.tr.Log, i, t)
			scratch.img = img
		} else {
			img = drv.Image(se.base, se.tr.Log, i, t)
		}
		gens := append(append([]c06GenModel{}, prior...), c06ModelAt(se, i))
		class := "end"
		if i < len(se.tr.Log) {
			class = c06Class(se, i, t)
		}
		if n > 1 {
			class = fmt.Sprintf("gen%d:", n) + class
		}
		clean := t == 0 && i == len(se.tr.Log)
		for _, e := range se.tr.CallEnd {
			clean = clean || (t == 0 && e == i)
		}
		rc := cs
		rc.Gens = n
		rc.Point = &C06Point{i, t}
		onDisk := c06IndexOnDisk(se, i, t)
		m := &c06Img{rc: rc, img: img, gens: gens, class: class, clean: clean, classA: onDisk >= 1024,
			staleTail: cs.Opts.ZeroEOF && cs.Opts.IndexPad > 0 && !cs.Opts.V1 && (stalePrior || onDisk > 0), scratch: scratch}
		c06CheckImage(x, m)
		if i == len(se.tr.Log) {
			c06Mismatch(x, rc, img, m.acked(), class)
		}
		x.State(c06StateKey(cs, img))
		if t > 0 {
			x.Nontrivial(fmt.Sprintf("%s|%s|%+v|%v|%v|%v|%v|%v|%d|%d", cs.Front, cs.Roots, cs.Opts, cs.Gen1, cs.Cut1, cs.Gen2, cs.Cut2, cs.Gen3, i, t))
		}
	}
	if cs.Point != nil {
		checkPoint(cs.Point.I, cs.Point.T)
		return
	}
	for i := 0; i <= len(se.tr.Log); i++ {
		if i == len(se.tr.Log) {
			checkPoint(i, 0)
			break
		}
		ts := c06Torn(se.tr.Log[i], cs.Tier, cs.Tier == "thorough" && !cs.Big)
		if cs.Big {
			ts = c06TornBig(se.tr.Log[i], cs.Tier)
			// a write path that hands a large block over in many pieces multiplies the multi-MiB images: beyond
			// 48 writes only the first 12, the last 12 and the middle 8 writes get the full class, the others
			// are cut at their boundary and in the middle (counted below; unchanged go-car logs 3 writes per put)
			if n := len(se.tr.Log); n > 48 && !(i < 12 || i >= n-12 || (i >= n/2-4 && i < n/2+4)) {
				ts = []int{0}
				if l := len(se.tr.Log[i].Data); l > 1 {
					ts = append(ts, l/2)
				}
				x.Count("big_case_writes_with_reduced_torn_class", 1)
			}
		}
		for _, t := range ts {
			checkPoint(i, t)
		}
	}
	x.Count("writes_logged", len(se.tr.Log))
}

// c06Resumable tells whether the front-end accepts to reopen img (generator pre-check: later
// generations are only enumerated from images that resume).
func c06Resumable(dir, front string, o drv.Opts, roots []cid.Cid, img []byte) bool {
	if len(img) == 0 {
		return false
	}
	path := filepath.Join(dir, "pre.car")
	if err := os.WriteFile(path, img, 0o644); err != nil {
		panic(err)
	}
	f, err := os.OpenFile(path, os.O_RDWR, 0o644)
	if err != nil {
		panic(err)
	}
	defer f.Close()
	s, err := c06Open(front, f, roots, o, true)
	if err != nil {
		return false
	}
	s.Discard()
	return true
}

// c06Cuts lists the crash points of a traced session from which the front-end resumes.
// reduce: clean boundaries and one torn length per write (else the tier's torn lengths).
func c06Cuts(dir, front string, o drv.Opts, roots []cid.Cid, se *c06Sess, tier string, reduce, cleanOnly bool) []C06Point {
	var out []C06Point
	for i := 0; i < len(se.tr.Log); i++ {
		ts := c06Torn(se.tr.Log[i], tier, tier == "thorough" && !reduce)
		if reduce && len(ts) > 2 {
			ts = []int{0, ts[len(ts)/2]}
		}
		if cleanOnly {
			ts = []int{0}
		}
		for _, t := range ts {
			if c06Resumable(dir, front, o, roots, drv.Image(se.base, se.tr.Log, i, t)) {
				out = append(out, C06Point{i, t})
			}
		}
	}
	return out
}

func genC06(tier string, emit func(any)) {
	thorough := tier == "thorough"
	if os.Getenv("GOMEMLIMIT") == "" {
		// the large-block cases turn over images of several MiB per crash point; with the runner's relaxed GC
		// setting (GOGC 800) the garbage would grow to a multiple of what the workers hold. A soft limit makes
		// the collector run earlier instead (it never fails an allocation).
		debug.SetMemoryLimit(4 << 30)
	}
	dir, err := os.MkdirTemp("/dev/shm", "c06gen")
	if err != nil {
		panic(err)
	}
	defer os.RemoveAll(dir)

	base := []drv.Opts{
		{}, {DataPad: 3, IndexPad: 2, Codec: "sorted"}, {V1: true}, {StoreID: true}, {ZeroEOF: true}, {DataPad: 3}, {IndexPad: 2, StoreID: true, Codec: "sorted"},
		{DataPad: 1413}, // padding larger than payload + index: offsets relative to the payload and to the file differ by more than the file length
	}
	// round 2: zero-length-section-as-EOF over an index padding hole (the only zeros that can follow a
	// payload in a crash image), key semantics, duplicates, CARv1 mode combined
	extra := []drv.Opts{
		{ZeroEOF: true, IndexPad: 2}, {ZeroEOF: true, IndexPad: 2000, DataPad: 3}, {Whole: true}, {AllowDup: true}, {V1: true, ZeroEOF: true}, {V1: true, StoreID: true},
		{Whole: true, AllowDup: true, StoreID: true},
		// CARv1 mode with a data padding option (which CARv1 mode ignores): the file is shorter than the CARv2
		// data offset the option implies while it already holds acknowledged blocks
		{V1: true, DataPad: 300}, {V1: true, DataPad: 1413, StoreID: true},
	}
	sessions := [][]string{
		{}, {"F"}, {"put:a"}, {"put:a", "F"}, {"put:a", "put:b"}, {"put:a", "put:b", "F"}, {"put:e", "put:a", "F"},
		{"put:L300", "F"}, {"put:a", "put:L300", "F"}, {"put:L70000", "put:a", "F"}, {"put:a", "put:a", "put:b", "F"},
		{"many:a,b", "F"}, {"put:e", "many:a,b,L300"}, {"many:a,a,b", "put:a'", "F"},
		// CIDv0, sha2-512, truncated sha2-256, blake2b: several multihash codes and digest widths in one index
		{"put:a0", "put:s", "put:t", "put:k", "F"},
	}
	// a session whose index is larger than the section length that the index bytes themselves
	// spell when misread as a section (0x0400/0x0401 as a varint = 1024/1025)
	var many []string
	for n := 40; n < 72; n++ {
		many = append(many, fmt.Sprintf("put:L%d", n))
	}
	manyF := append(append([]string{}, many...), "F")
	sessions = append(sessions, manyF)
	// reduced session list: the new configurations in the quick tier, the extra front-ends and root sets
	reduced := [][]string{
		{"F"}, {"put:a", "F"}, {"put:a", "put:b"}, {"put:a", "put:L300", "F"}, {"put:e", "many:a,b,L300"}, {"many:a,a,b", "put:a'", "F"}, {"put:a0", "put:s", "put:t", "put:k", "F"},
	}
	if thorough {
		sessions = append(sessions, []string{"put:a", "put:b", "put:e", "F"}, []string{"put:b", "put:L300", "put:a", "F"}, []string{"put:a", "put:L70000", "put:b"}, []string{"put:a'", "put:a", "put:e"},
			[]string{"many:a,a',a0", "put:a", "put:a'", "F"})
	}
	emitSessions := func(front, rootSet string, o drv.Opts, list [][]string) {
		for _, s := range list {
			emit(C06Case{Front: front, Opts: o, Roots: rootSet, Gen1: append([]string{}, s...), Tier: tier})
			if o.StoreID && len(s) > 0 && s[len(s)-1] == "F" {
				emit(C06Case{Front: front, Opts: o, Roots: rootSet, Gen1: append([]string{"put:i"}, s...), Tier: tier})
			}
		}
	}
	// second generation resuming a complete image of a first one
	emitGen2Complete := func(front, rootSet string, o drv.Opts, g1s [][]string) {
		for _, g1 := range g1s {
			for _, g2 := range [][]string{{}, {"put:b"}, {"put:b", "F"}, {"F"}} {
				emit(C06Case{Front: front, Opts: o, Roots: rootSet, Gens: 2, Gen1: g1, Gen2: g2, Tier: tier})
			}
		}
	}
	// second generation starting from every crash image of a first one that resumes (clean boundaries
	// and one torn length per write in quick, all torn lengths in thorough)
	emitGen2Crashed := func(front, rootSet string, o drv.Opts, g1s, g2s [][]string) {
		roots := c06RootSet(rootSet)
		for _, g1 := range g1s {
			p := filepath.Join(dir, "g1.car")
			os.Remove(p)
			se, err := c06RunSession(front, p, o, roots, g1)
			if err != nil {
				continue // reported by the generation-1 case
			}
			for _, cut := range c06Cuts(dir, front, o, roots, se, tier, !thorough, false) {
				cut := cut
				for _, g2 := range g2s {
					emit(C06Case{Front: front, Opts: o, Roots: rootSet, Gens: 2, Gen1: g1, Cut1: &cut, Gen2: g2, Tier: tier, Big: c06HasBig(g1) || c06HasBig(g2)})
				}
			}
		}
	}
	// three generations: the second one also crashes (at a call boundary or with one torn length per
	// write), the third one's crash points are enumerated
	emitGen3 := func(front, rootSet string, o drv.Opts, g1, g2, g3 []string) {
		roots := c06RootSet(rootSet)
		p := filepath.Join(dir, "g1.car")
		os.Remove(p)
		se, err := c06RunSession(front, p, o, roots, g1)
		if err != nil {
			return
		}
		for _, cut1 := range c06Cuts(dir, front, o, roots, se, tier, true, false) {
			cut1 := cut1
			p2 := filepath.Join(dir, "g2.car")
			if err := os.WriteFile(p2, drv.Image(se.base, se.tr.Log, cut1.I, cut1.T), 0o644); err != nil {
				panic(err)
			}
			se2, err := c06RunSession(front, p2, o, roots, g2)
			if err != nil {
				continue
			}
			for _, cut2 := range c06Cuts(dir, front, o, roots, se2, tier, true, !thorough) {
				cut2 := cut2
				emit(C06Case{Front: front, Opts: o, Roots: rootSet, Gens: 3, Gen1: g1, Cut1: &cut1, Gen2: g2, Cut2: &cut2, Gen3: g3, Tier: tier})
			}
		}
	}
	// round 5: blocks larger than every size at which a write path may change behaviour (buffering, chunking,
	// pre-allocation, coalescing). The unchanged write path has no size constant of its own (LdWrite: three
	// appends whatever the size); the sizes are therefore the powers of two from 4 KiB (page, bufio default)
	// through 32/64 KiB (io.Copy / pipe buffers), 256 KiB (default chunk size of the block producers), 1 MiB
	// and 2 MiB (block limits of the transports; section length prefix grows to 4 bytes) up to 4 MiB, plus the
	// largest section a reader accepts by default (8 MiB): one block per octave, and one block above every
	// monotone threshold ("from N bytes on") that can still be read back. The large block is put last so that
	// only the crash images inside and behind its own writes are large.
	var ladder []int
	for k := 12; k <= 22; k++ {
		ladder = append(ladder, 1<<k)
	}
	bigMax := c06BigMaxSection - 36
	bigSessions := func(full bool) [][]string {
		var l [][]string
		sizes := append(append([]int{}, ladder...), bigMax)
		if full {
			// both sides of every power of two, both sides of the limit being the limit and one less
			sizes = nil
			for _, n := range ladder {
				sizes = append(sizes, n-1, n, n+1)
			}
			sizes = append(sizes, bigMax-1, bigMax)
		}
		// largest first: these are the longest cases of the check, emitted before everything else so that the
		// workers run them while the generator traces the first generations of the multi-generation cases
		sort.Sort(sort.Reverse(sort.IntSlice(sizes)))
		for _, n := range sizes {
			l = append(l, []string{"put:a", c06BigPut(n)})
		}
		// large block in the middle of / in front of a session that is finalized (DataSize / index offsets of
		// 3 and 4 significant bytes in the header writes), and inside one PutMany call
		l = append(l, []string{"put:a", c06BigPut(1 << 18), "put:b", "F"}, []string{c06BigPut(1 << 20), "put:a", "F"},
			[]string{"many:a," + strings.TrimPrefix(c06BigPut(1<<20), "put:") + ",b"})
		return l
	}
	// the largest block, a chunk-sized one in a finalized session and one with a 4-byte length prefix, for the
	// configurations / front-ends / root sets outside the reduced matrix
	bigFew := [][]string{{"put:a", c06BigPut(bigMax)}, {"put:a", c06BigPut(1 << 18), "F"}, {"put:a", c06BigPut(1 << 21)}}
	bigCfgs := []drv.Opts{{}, {DataPad: 3, IndexPad: 2, Codec: "sorted"}, {V1: true}}
	allCfgs := append(append([]drv.Opts{}, base...), extra...) // (bsp / stw in thorough)
	isBigCfg := func(o drv.Opts) bool {
		for _, b := range bigCfgs {
			if b == o {
				return true
			}
		}
		return false
	}
	// the configurations outside the reduced matrix (emitted among the other cases of the configuration, so that
	// the cases with the largest block do not all run at the same time)
	emitBigOther := func(front string, o drv.Opts) {
		if isBigCfg(o) {
			return
		}
		l := bigFew
		if thorough {
			l = bigSessions(false)
		}
		for _, s := range l {
			emit(C06Case{Front: front, Opts: o, Gen1: append([]string{}, s...), Tier: tier, Big: true})
		}
	}
	emitBig := func(front, rootSet string, o drv.Opts, list [][]string) {
		for _, s := range list {
			emit(C06Case{Front: front, Opts: o, Roots: rootSet, Gen1: append([]string{}, s...), Tier: tier, Big: true})
		}
	}
	for _, front := range []string{"bs", "st"} {
		for _, o := range bigCfgs {
			emitBig(front, "", o, bigSessions(thorough))
			// the session that writes the large block itself started by resuming (a complete image, finalized or not)
			for _, g1 := range [][]string{{"put:a"}, {"put:a", "F"}} {
				for _, g2 := range [][]string{{c06BigPut(1 << 18), "F"}, {c06BigPut(1 << 21)}} {
					emit(C06Case{Front: front, Opts: o, Roots: "", Gens: 2, Gen1: g1, Gen2: g2, Tier: tier, Big: true})
				}
			}
		}
		emitBig(front, "five", drv.Opts{}, bigFew)
		emitBig(front, "empty", drv.Opts{V1: true}, bigFew)
	}
	for _, front := range []string{"bsp", "stw"} {
		cfgs := bigCfgs
		if thorough {
			cfgs = allCfgs
		}
		for _, o := range cfgs {
			emitBig(front, "", o, bigFew)
		}
	}
	g1Complete := [][]string{{"put:a"}, {"put:a", "F"}, {"put:a", "put:L300", "F"}, manyF}
	g1Crashed := [][]string{{"put:a", "F"}, {"put:a", "put:b"}, {"put:a", "put:L300", "F"}, {"many:a,b", "F"}}
	g2Crashed := [][]string{{"put:b", "F"}, {"put:e"}}
	// (round 5) ... and from every resumable crash image of a first generation
	for _, front := range []string{"bs", "st"} {
		for _, o := range bigCfgs {
			emitGen2Crashed(front, "", o, g1Crashed[:1], [][]string{{c06BigPut(1 << 18)}})
		}
	}
	for _, front := range []string{"bs", "st"} {
		for _, o := range base {
			emitBigOther(front, o)
			emitSessions(front, "", o, sessions)
			emitGen2Complete(front, "", o, g1Complete)
			emitGen2Crashed(front, "", o, g1Crashed, g2Crashed)
		}
		for _, o := range extra {
			emitBigOther(front, o)
			if thorough {
				// all sessions except the two with a 70 KB block (their exhaustive tearing is 70 000
				// images each and exercises nothing that depends on these options)
				var l [][]string
				for _, s := range sessions {
					if !strings.Contains(strings.Join(s, " "), "L70000") {
						l = append(l, s)
					}
				}
				emitSessions(front, "", o, l)
				emitGen2Complete(front, "", o, g1Complete)
			} else {
				emitSessions(front, "", o, reduced)
				emitGen2Complete(front, "", o, g1Complete[:3])
			}
			// a torn section on top of a dirty tail: the second generation tears a block whose section
			// reaches into whatever the first generation left beyond the payload
			emitGen2Crashed(front, "", o, g1Crashed, append(append([][]string{}, g2Crashed...), []string{"put:L300"}))
		}
		// three generations (reduced matrix of configurations in quick)
		g3cfgs := []drv.Opts{{}, {DataPad: 3, IndexPad: 2, Codec: "sorted"}, {ZeroEOF: true, IndexPad: 2000, DataPad: 3}}
		if thorough {
			g3cfgs = append(append([]drv.Opts{}, base[:7]...), extra...)
		}
		for _, o := range g3cfgs {
			emitGen3(front, "", o, []string{"put:a", "put:L300", "F"}, []string{"put:b", "F"}, []string{"put:e", "F"})
			if thorough {
				emitGen3(front, "", o, []string{"many:a,b", "F"}, []string{"put:L300"}, []string{"put:e", "F"})
			}
		}
		// root sets: none, and five roots (CARv1 header of more than 127 bytes: two-byte length prefix)
		rcfgs := []drv.Opts{{}, {DataPad: 3, IndexPad: 2, Codec: "sorted"}, {V1: true}}
		if thorough {
			rcfgs = append(rcfgs, drv.Opts{StoreID: true}, drv.Opts{ZeroEOF: true, IndexPad: 2}, drv.Opts{DataPad: 1413})
		}
		for _, rootSet := range []string{"empty", "five"} {
			for _, o := range rcfgs {
				emitSessions(front, rootSet, o, reduced)
				emitGen2Complete(front, rootSet, o, g1Complete[:2])
				emitGen2Crashed(front, rootSet, o, g1Crashed[:2], g2Crashed[:1])
			}
		}
		// no roots + CARv1 mode + tiny identity blocks: a file of a few dozen bytes (shorter than a CARv2's fixed
		// 51-byte prelude) that holds acknowledged blocks
		for _, o := range []drv.Opts{{V1: true, StoreID: true}, {V1: true, StoreID: true, DataPad: 3}} {
			tiny := [][]string{{"put:i0", "put:i"}, {"put:i0", "put:i0", "F"}, {"put:i", "put:e", "put:i0"}}
			emitSessions(front, "empty", o, tiny)
			emitGen2Complete(front, "empty", o, tiny[:2])
		}
	}
	// other entry points named by the property: blockstore.OpenReadWrite(path) + FinalizeReadOnly/Close on every
	// crash image; storage.NewWritable for the first generation
	for _, front := range []string{"bsp", "stw"} {
		cfgs := []drv.Opts{{}, {DataPad: 3, IndexPad: 2, Codec: "sorted"}, {V1: true}}
		if thorough {
			cfgs = append(append([]drv.Opts{}, base...), extra...)
		}
		for _, o := range cfgs {
			emitSessions(front, "", o, reduced)
			emitGen2Complete(front, "", o, g1Complete[:2])
			if thorough {
				emitGen2Crashed(front, "", o, g1Crashed[:2], g2Crashed[:1])
			}
		}
	}
}

func init() {
	kit.Register(&kit.Prop{
		ID:     "C06",
		Gen:    genC06,
		Run:    runC06,
		Decode: kit.DecodeAs[C06Case],
		Rule: "for every writing session of the bound (open, Put/PutMany incl. payloads > 255 and > 65535 bytes, duplicates, CIDv0 / sha2-512 / truncated / blake2b / identity CIDs, finalize) x option configurations x front-ends, and for second- and third-generation sessions that resume a complete or crashed image of the previous one: the REAL write order is recorded through the build-tag write seam plus file diffing (pragma, Truncate); " +
			"EVERY crash image = every prefix of the log with the next write torn at every length (all lengths for writes <= 64 bytes, {1,2,mid,len-2,len-1} for larger data writes in quick, all in thorough; in the large-block cases in both tiers {1,2,mid,len-2,len-1} plus one byte before, at and one byte after every power of two >= 64 inside the write, in thorough also every multiple of 4 KiB / of 64 KiB for writes over 1 MiB) is reopened and judged per image: refusal must leave at least one intact copy of the section of every acknowledged block at its offset (what a refused reopen leaves behind is reopened once more); success must serve every acknowledged block, list them (AllKeysChan; for the storage front-end the insertion index, else any iterable index by multihash, else outcome beyond-statement:store-cannot-be-listed), serve nothing that was not put (all session blocks + 10 fixed probes, every listed key fetched; whole-CID keys under UseWholeCIDs), then Put(in-flight again), Put(an acknowledged block again), Put(c), Get, Finalize must give a strictly decodable archive whose sections are exactly those the model allows (acknowledged puts, a prefix of the interrupted call, the continuation, copies per the documented put rules; the same multiset in another order is the outcome beyond-statement:sections-in-another-order), whose index is sound (every record is a section with that digest) and covers every CID of the payload (copies of one CID need not all be indexed), and whose header fields follow the options; " +
			"complete images are also reopened with mismatching roots / data padding (refusal must not destroy blocks); " +
			"large blocks (round 5): sessions whose last / middle / first Put (or PutMany) carries a block of 2^k data bytes for every k in 12..22 (4 KiB .. 4 MiB; thorough: 2^k-1, 2^k, 2^k+1) and the largest block a reader accepts by default (section of 8 MiB; thorough also one byte less), i.e. a block above every size from which a write path might buffer, chunk, pre-allocate or reorder a large write, with every crash point of the recorded writes of that Put including whatever extra or reordered writes it issues; first generation and generations resuming a complete or crashed image; " +
			"non-trivial = image with a torn write",
		Bound: func(tier string) map[string]any {
			return map[string]any{
				"puts_per_session": "<=4 plus one 32-block session (quick) / plus more orders (thorough)",
				"generations":      "1, 2 (from complete images and from every resumable crash image of 4 first generations), 3 (both earlier generations crashed; reduced configuration matrix in quick)",
				"torn_lengths":     "all for writes <=64B; 5 per larger write (quick) / all (thorough); large-block cases, writes > 64 B: the 5 + {2^j-1, 2^j, 2^j+1 : 64 <= 2^j < len} (+ every multiple of 4 KiB, of 64 KiB over 1 MiB, in thorough), never all; cuts of earlier generations: clean + 1 torn length per write (quick, and always for 3 generations) / all (thorough)",
				"configurations":   "8 base + 7 round-2 {ZeroEOF+IndexPad 2, ZeroEOF+IndexPad 2000+DataPad 3, UseWholeCIDs, AllowDuplicatePuts, V1+ZeroEOF, V1+StoreIdentity, Whole+AllowDup+StoreIdentity}; round-2 ones on a reduced session list in quick",
				"front_ends":       "bs (OpenReadWriteFile), st (New/OpenReadableWritable) full; bsp (images reopened with OpenReadWrite(path), FinalizeReadOnly+Close), stw (NewWritable then OpenReadableWritable): reduced sessions, 3 configurations in quick / all in thorough",
				"large_blocks":     "data of 2^12..2^22 bytes (11 sizes; thorough x {-1,0,+1}) and the 8 MiB section limit: full ladder + finalized / PutMany sessions + second generations (from complete images, and from every resumable crash image of one first generation) for front-ends bs, st x 3 configurations {default, padding+sorted index, CARv1 mode}; the other 14 configurations: 3 sessions {8 MiB limit, 256 KiB finalized, 2 MiB} in quick / full ladder in thorough; front-ends bsp, stw and root sets {} / 5 roots: the 3 sessions (3 configurations in quick, all in thorough for bsp/stw)",
				"root_sets":        "{a} full; {} and 5 roots (2-byte header length prefix): reduced sessions x 3 configurations (quick) / 6 (thorough)",
			}
		},
		Assumptions: []string{"a Put that declines a block before issuing any write (for instance a size limit on the write path) is outside the statement, which speaks of puts that returned: outcome beyond-statement:put-refused, the accepted prefix of the session is still enumerated; in a large-block case whose put logs more than 48 writes only the first 12, last 12 and middle 8 writes get the full torn class", "crash model = the property's: a prefix of the issued writes with the last one torn (the library issues no syncs, so no reordering dimension)", "a torn write past EOF extends the file only up to the torn length",
			"later generations are enumerated only from images the front-end accepts to resume (the refusal of the others is judged by the previous generation's case)",
			"a refusal at a clean call boundary is allowed by C06 (counted as outcome reopen-refused-at-call-boundary; C12 owns resumability)",
			"writes of a Finalize call are classed by target offset (below 51 = CARv2 header, else index padding / index), not by their number or order; the class only names signatures (known finding class A)",
			"size thresholds of a write path are covered as monotone thresholds (\"from N bytes on\", any N up to the 8 MiB section limit, by the largest block) and per power-of-two octave from 4 KiB to 4 MiB (one block per octave, three around each power in thorough); a size class narrower than an octave that does not contain a power of two is not enumerated",
			"blocks whose section exceeds DefaultMaxAllowedSectionSize (8 MiB) are not put: reading them back is refused by the default options, so the statement's 'returns intact bytes' cannot be demanded of them",
			"a large single write of Finalize (an index of thousands of blocks) is not enumerated: the largest index of the bound is the 32-block one; large single writes are covered for Put/PutMany only",
			"the large-block cases tear the writes of all their blocks at the class of lengths given in the rule, not at every length (every length of a data write is covered by the 300- and 70 000-byte blocks of the other sessions)",
			"resume.go's DataSize==0 branch is unreachable (Header.ReadFrom rejects it first) and is not claimed as covered"},
	})
}
