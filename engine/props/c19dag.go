package props

import (
	"bytes"
	"fmt"
	"os"
	"path/filepath"
	"strings"

	"verif/drv"
	"verif/kit"
	"verif/model"
	"verif/refcar"
)

// ---- get-dag on small DAGs ----------------------------------------------------

// c19Dag is a hand-built DAG with its link structure (the reference answer is a first-visit
// pre-order walk over it).
type c19Dag struct {
	b     ufsBuilder
	kids  map[string][][]byte
	root  []byte
	sub   []byte
	f1    []byte
	f2    []byte
	other []byte
	cb    []byte // dag-cbor node (variant "leaves")
}

func (d *c19Dag) dir(links []pbLink) []byte {
	c := d.b.dir(links)
	var k [][]byte
	for _, l := range links {
		k = append(k, l.Cid)
	}
	d.kids[string(c)] = k
	return c
}

func c19BuildDag(variant string) *c19Dag {
	d := &c19Dag{kids: map[string][][]byte{}}
	d.f1 = d.b.file([]byte("file one"))
	d.f2 = d.b.file([]byte("file two"))
	d.sub = d.dir([]pbLink{{Name: "x", Cid: d.f1, Size: 8}, {Name: "y", Cid: d.f2, Size: 8}})
	if variant == "leaves" {
		// leaves that are not dag-pb: a raw block, an identity CID (never stored), and a dag-cbor
		// list holding a link to f2
		raw := d.b.add(refcar.CodecRaw, []byte("raw leaf bytes"))
		idl := refcar.CIDv1(refcar.CodecRaw, refcar.MhIdentity, []byte("idleaf"))
		cb := append([]byte{0x81, 0xd8, 0x2a, 0x58, byte(1 + len(d.f2)), 0x00}, d.f2...)
		d.cb = d.b.add(refcar.CodecDagCBOR, cb)
		d.kids[string(d.cb)] = [][]byte{d.f2}
		d.root = d.dir([]pbLink{{Name: "again", Cid: d.f1, Size: 8}, {Name: "cb", Cid: d.cb, Size: 50}, {Name: "id", Cid: idl, Size: 6}, {Name: "raw", Cid: raw, Size: 14}, {Name: "sub", Cid: d.sub, Size: 30}})
	} else {
		d.root = d.dir([]pbLink{{Name: "again", Cid: d.f1, Size: 8}, {Name: "sub", Cid: d.sub, Size: 30}})
	}
	d.other = d.b.file([]byte("unrelated"))
	return d
}

// reach: first-visit pre-order from start over the stored blocks; links to blocks that are not
// stored are skipped (missing reports whether there was one); identity CIDs are listed, not entered.
func (d *c19Dag) reach(start []byte, stored map[string]bool) (order [][]byte, missing bool) {
	seen := map[string]bool{}
	var walk func(c []byte)
	walk = func(c []byte) {
		if seen[string(c)] {
			return
		}
		seen[string(c)] = true
		if model.IsIdentity(c) {
			order = append(order, c)
			return
		}
		if !stored[string(c)] {
			missing = true
			return
		}
		order = append(order, c)
		for _, k := range d.kids[string(c)] {
			walk(k)
		}
	}
	walk(start)
	return
}

func c19NoIdentity(l [][]byte) [][]byte {
	var out [][]byte
	for _, c := range l {
		if !model.IsIdentity(c) {
			out = append(out, c)
		}
	}
	return out
}

func runC19Dag(x *kit.Ctx, cs C19Case) {
	work := filepath.Join(x.Dir, "c19")
	os.RemoveAll(work)
	os.MkdirAll(work, 0o755)
	defer os.RemoveAll(work)
	d := c19BuildDag(cs.Arg)
	var all []refcar.Block
	for _, b := range d.b.blocks {
		if cs.Arg == "partial" && bytes.Equal(b.Cid, d.sub) {
			continue // a link whose block is absent
		}
		all = append(all, b)
	}
	if cs.Arg == "root-first" {
		for i, j := 0, len(all)-1; i < j; i, j = i+1, j-1 {
			all[i], all[j] = all[j], all[i]
		}
	}
	hdrRoots := [][]byte{d.root}
	switch cs.Arg {
	case "2roots":
		hdrRoots = [][]byte{d.root, d.f1}
	case "0roots":
		hdrRoots = [][]byte{}
	}
	stored := map[string]bool{}
	for _, b := range all {
		stored[string(b.Cid)] = true
	}
	payload := refcar.EncodeV1(hdrRoots, false, all)
	pl, _ := refcar.DecodePayload(payload, false, true)
	in := c19Container(cs.Cont, payload, pl)
	os.WriteFile(filepath.Join(work, "in.car"), in, 0o644)
	starts := [][]byte{nil, d.root, d.sub, d.f1}
	if d.cb != nil {
		starts = append(starts, d.cb)
	}
	stricts := []bool{false}
	if cs.Arg == "partial" {
		stricts = []bool{false, true}
	}
	staleKind := c19Var(cs.Var, "stale")
	type sel struct{ name, json string }
	for _, start := range starts {
		sels := []sel{{}}
		if start != nil && bytes.Equal(start, d.root) {
			// a custom selector: the matcher alone selects the start node and follows no link
			sels = append(sels, sel{"match", `{".":{}}`})
		}
		for _, sl := range sels {
			for _, ver := range []string{"1", "2"} {
				for _, strict := range stricts {
					args := []string{"get-dag", "--version", ver}
					if strict {
						args = append(args, "--strict")
					}
					if sl.json != "" {
						args = append(args, "--selector", sl.json)
					}
					args = append(args, "in.car")
					s := start
					if start != nil {
						args = append(args, cidStr(start))
					} else if len(hdrRoots) == 1 {
						s = hdrRoots[0]
					}
					args = append(args, "out.car")
					// what sits at the output path: nothing, the previous run's output (chain), or a stale file
					switch staleKind {
					case "":
						os.Remove(filepath.Join(work, "out.car"))
					case "chain":
					default:
						c19PutStale(work, "out.car", staleKind)
					}
					r := drv.Car(work, nil, args...)
					x.Eval(1)
					tag := "get-dag:v" + ver
					if s == nil {
						// no start given and not exactly one root: there is no request to answer; a refusal is expected
						if r.Exit == 0 {
							x.Outcome("get-dag-implicit-root-accepted")
							c19Validate(x, work, "out.car", tag)
						} else {
							x.Outcome("get-dag-implicit-root-refused")
						}
						continue
					}
					want, missing := d.reach(s, stored)
					if sl.name == "match" {
						want, missing = [][]byte{s}, false
					}
					if !stored[string(s)] {
						// the start block itself is absent: nothing to emit
						if r.Exit == 0 {
							x.Outcome("get-dag-absent-start-accepted")
							c19Validate(x, work, "out.car", tag)
						} else {
							x.Outcome("get-dag-absent-start-refused")
						}
						continue
					}
					if missing && (ver == "1" || !strict) {
						// the CARv1 writer (SelectiveCar) has no notion of skipping an absent link and car get-dag
						// does not promise one for it; that the CARv2 writer skips one unless --strict is the flag's
						// usage text, not the statement: a refusal emits nothing; an accepted run is judged
						if r.Exit != 0 {
							x.Outcome("get-dag-v" + ver + "-missing-link-refused")
							continue
						}
					}
					if missing && strict && ver == "2" {
						if r.Exit == 0 {
							x.Fail("c19:get-dag-strict:"+tag, "get-dag --strict succeeded although a link of the DAG points to a block that is not in the archive")
						}
						x.Outcome("get-dag-strict-refused")
						continue
					}
					if r.Exit != 0 {
						x.Fail("c19:cmd-failed:"+tag, "car get-dag failed (start %s, selector %q, strict %v): %s", cidStr(s), sl.json, strict, clipS(string(r.Stderr), 300))
						continue
					}
					c19Validate(x, work, "out.car", tag)
					out, _ := os.ReadFile(filepath.Join(work, "out.car"))
					fl, err := refcar.DecodeFile(out, false)
					if err != nil {
						continue
					}
					var got [][]byte
					for _, sc := range fl.Payload.Sections {
						got = append(got, sc.Cid)
					}
					// identity leaves need not be stored (the CARv2 blockstore drops them, the CARv1 writer keeps them)
					if !sameRoots(c19NoIdentity(got), c19NoIdentity(want)) {
						if c19SameMultiset(c19NoIdentity(got), c19NoIdentity(want)) {
							// the statement fixes the order for filter, list and concat; for get-dag it asks for the
							// library's content: the same blocks in another order are recorded, not reported
							x.Outcome("beyond-statement:get-dag-order:" + tag)
						} else {
							x.Fail("c19:get-dag-blocks:"+tag, "get-dag output blocks %x want the blocks of the DAG (first-visit order) %x", got, want)
						}
					}
					for _, g := range got {
						if model.IsIdentity(g) {
							inWant := false
							for _, w := range want {
								inWant = inWant || bytes.Equal(w, g)
							}
							if !inWant {
								x.Fail("c19:get-dag-blocks:"+tag, "get-dag output holds identity block %x that the DAG does not link", g)
							}
						}
					}
					if !sameRoots(fl.Payload.Header.Roots, [][]byte{s}) {
						x.Fail("c19:get-dag-root:"+tag, "get-dag output root wrong")
					}
					if (ver == "1") != (fl.Version == 1) {
						x.Fail("c19:get-dag-version:"+tag, "get-dag --version %s wrote a version %d archive", ver, fl.Version)
					}
					x.Nontrivial(fmt.Sprintf("dag|%s|%s|%s|%s|%x|%s|%v", cs.Cont, cs.Arg, cs.Var, ver, start, sl.name, strict))
				}
			}
		}
	}
	if now, err := os.ReadFile(filepath.Join(work, "in.car")); err != nil || !bytes.Equal(now, in) {
		x.Outcome("beyond-statement:input-modified") // the statement speaks of the outputs only
	}
	x.State(fmt.Sprintf("%+v", cs))
	x.Outcome("get-dag")
}

// ---- create --------------------------------------------------------------------

// runC19Create: closure of car create under the tool's own verifiers (content is C18's subject).
// Arg = source shape, Var = version token "ver=1|2", optional "nowrap", optional stale=...
func runC19Create(x *kit.Ctx, cs C19Case) {
	work := filepath.Join(x.Dir, "c19")
	os.RemoveAll(work)
	os.MkdirAll(filepath.Join(work, "src"), 0o755)
	defer os.RemoveAll(work)
	wr := func(rel string, data []byte) {
		p := filepath.Join(work, "src", rel)
		os.MkdirAll(filepath.Dir(p), 0o755)
		os.WriteFile(p, data, 0o644)
	}
	var srcs []string
	switch cs.Arg {
	case "file":
		wr("f.txt", []byte("hello"))
		srcs = []string{"src/f.txt"}
	case "empty":
		wr("empty", nil)
		srcs = []string{"src/empty"}
	case "dir":
		wr("d/a.txt", []byte("A"))
		wr("d/b.txt", []byte("B"))
		srcs = []string{"src/d"}
	case "nested":
		wr("d/a.txt", []byte("A"))
		wr("d/sub/c.txt", []byte("same"))
		wr("d/sub/d.txt", []byte("same")) // equal content: one block, linked twice
		srcs = []string{"src/d"}
	case "big":
		big := make([]byte, 600<<10) // several chunks
		for i := range big {
			big[i] = byte(i * 31 >> 3)
		}
		wr("big.bin", big)
		srcs = []string{"src/big.bin"}
	case "multi":
		wr("f.txt", []byte("hello"))
		wr("d/a.txt", []byte("A"))
		srcs = []string{"src/f.txt", "src/d"}
	}
	ver := c19Var(cs.Var, "ver")
	args := []string{"create", "--version", ver, "-f", "out.car"}
	if c19Var(cs.Var, "nowrap") != "" {
		args = append(args, "--no-wrap")
	}
	args = append(args, srcs...)
	stale := c19Var(cs.Var, "stale")
	c19PutStale(work, "out.car", stale)
	r := drv.Car(work, nil, args...)
	x.Eval(1)
	x.Transition(1)
	tag := "create:v" + ver
	x.State(fmt.Sprintf("%+v", cs))
	x.Outcome("create")
	if r.Exit != 0 {
		if stale != "" {
			// create resumes into an existing file and refuses one that is not its own: nothing emitted
			x.Outcome("create-refused-existing-output")
			return
		}
		x.Fail("c19:cmd-failed:"+tag, "car create failed: %s", clipS(string(r.Stderr), 300))
		return
	}
	c19Validate(x, work, "out.car", tag)
	out, _ := os.ReadFile(filepath.Join(work, "out.car"))
	fl, err := refcar.DecodeFile(out, false)
	if err != nil {
		return
	}
	if (ver == "1") != (fl.Version == 1) {
		x.Fail("c19:create-version:"+tag, "create --version %s wrote a version %d archive", ver, fl.Version)
	}
	x.Nontrivial(fmt.Sprintf("%+v", cs))
}

// ---- enumeration ---------------------------------------------------------------

func genC19(tier string, emit func(any)) {
	thorough := tier == "thorough"
	names := []string{"a", "b", "a'", "i", "s", "e"}
	maxLen := 2
	if thorough {
		names = append(names, "a0", "t", "k")
	}
	var seqs [][]string
	kit.Seqs(names, maxLen, func(s []string) { seqs = append(seqs, s) })
	special := [][]string{{"a", "b", "a", "s"}, {"L128", "a"}}
	seqs = append(seqs, special...)
	allCmds := append(append([]string{}, c19Cmds...), c19DefaultCmds...)
	conts4 := []string{"v1", "v2", "v2pad", "v2noidx"}
	conts5 := append(append([]string{}, conts4...), "v2padnoidx")
	inList := func(l []string, s string) bool {
		for _, e := range l {
			if e == s {
				return true
			}
		}
		return false
	}

	// 1. the base product: sequences x root sets x containers x commands
	for _, sq := range seqs {
		for _, rs := range []string{"a", "ab", "empty"} {
			if rs != "a" && len(sq) == 2 && !thorough {
				continue
			}
			for _, cont := range conts4 {
				for _, cmd := range c19Cmds {
					emit(C19Case{Roots: rs, Seq: sq, Cont: cont, Cmd: cmd})
				}
				if thorough || len(sq) != 2 {
					for _, cmd := range c19DefaultCmds {
						emit(C19Case{Roots: rs, Seq: sq, Cont: cont, Cmd: cmd})
					}
				}
			}
		}
	}

	// 2. the padded index-less container
	for _, sq := range seqs {
		if !thorough && !(len(sq) <= 1 && (len(sq) == 0 || inList([]string{"a", "i"}, sq[0]))) && strings.Join(sq, ",") != "a,b,a,s" {
			continue
		}
		for _, rs := range []string{"a", "ab", "empty"} {
			if rs != "a" && (!thorough || len(sq) == 2) {
				continue
			}
			for _, cmd := range allCmds {
				emit(C19Case{Roots: rs, Seq: sq, Cont: "v2padnoidx", Cmd: cmd})
			}
		}
	}

	// 3. stdout / stdin forms
	ioSeqs := [][]string{{}, {"a", "b"}, {"a", "b", "a", "s"}}
	ioRoots := []string{"a"}
	if thorough {
		ioSeqs = nil
		kit.Seqs(names, 1, func(s []string) { ioSeqs = append(ioSeqs, s) })
		ioSeqs = append(ioSeqs, []string{"a", "b"}, []string{"i", "a"}, []string{"a", "a"})
		ioSeqs = append(ioSeqs, special...)
		ioRoots = []string{"a", "ab", "empty"}
	}
	for _, sq := range ioSeqs {
		for _, rs := range ioRoots {
			for _, cont := range conts5 {
				for _, cmd := range c19IOCmds {
					emit(C19Case{Roots: rs, Seq: sq, Cont: cont, Cmd: cmd, IO: true})
				}
			}
		}
	}

	// 4. archives larger than the 4 KiB bufio reader of car index and the 32 KiB io.Copy buffer,
	// sections with a 3-byte length varint, 150 sections
	bigSeqs := [][]string{{"many150"}, {"L16384", "a", "L40000", "b"}}
	bigConts, bigRoots := []string{"v1", "v2pad"}, []string{"a"}
	if thorough {
		bigSeqs = append(bigSeqs, []string{"a", "L16383", "L2097152"})
		bigConts, bigRoots = conts5, []string{"a", "ab", "empty"}
	}
	for _, sq := range bigSeqs {
		for _, rs := range bigRoots {
			for _, cont := range bigConts {
				for _, cmd := range allCmds {
					emit(C19Case{Roots: rs, Seq: sq, Cont: cont, Cmd: cmd, IO: thorough && inList(c19IOCmds, cmd)})
				}
			}
		}
	}

	// 4b. section lengths sweeping the 3-byte varint boundary 16384 +-40 (the 2-byte boundary 128 +-40 lies inside
	// many150 = lengths 40..189), for the commands that walk or re-emit the sections themselves
	sweepConts := []string{"v1", "v2pad"}
	if thorough {
		sweepConts = conts5
	}
	for _, cont := range sweepConts {
		for _, cmd := range []string{"index:mh", "index:sorted", "index:none", "index:v1", "index:default", "index-create:mh", "index-create:sorted", "detach", "filter", "filter:inverse", "get-block", "list", "concat:v1:2", "check-input"} {
			emit(C19Case{Roots: "a", Seq: []string{"a", "sweep16384", "b"}, Cont: cont, Cmd: cmd})
		}
	}

	// 5. header shapes: duplicate root, CIDv0 root
	rootSeqs := [][]string{{"a0", "b"}, {"a", "b"}}
	rootConts := []string{"v1", "v2"}
	if thorough {
		rootSeqs = nil
		kit.Seqs([]string{"a", "a0", "b"}, 2, func(s []string) { rootSeqs = append(rootSeqs, s) })
		rootConts = conts5
	}
	for _, sq := range rootSeqs {
		for _, rs := range []string{"aa", "a0"} {
			for _, cont := range rootConts {
				for _, cmd := range allCmds {
					emit(C19Case{Roots: rs, Seq: sq, Cont: cont, Cmd: cmd})
				}
			}
		}
	}

	// 6. a stale file at the output path
	staleSeqs := [][]string{{}, {"a", "b"}}
	staleConts, staleRoots := []string{"v1", "v2"}, []string{"a"}
	if thorough {
		staleSeqs = nil
		kit.Seqs(names, 1, func(s []string) { staleSeqs = append(staleSeqs, s) })
		staleSeqs = append(staleSeqs, []string{"a", "b"})
		staleSeqs = append(staleSeqs, special...)
		staleConts, staleRoots = conts5, []string{"a", "empty"}
	}
	for _, kind := range []string{"v2", "garbage"} {
		for _, sq := range staleSeqs {
			for _, rs := range staleRoots {
				for _, cont := range staleConts {
					for _, cmd := range c19StaleCmds {
						emit(C19Case{Roots: rs, Seq: sq, Cont: cont, Cmd: cmd, Var: "stale=" + kind})
					}
				}
			}
		}
	}

	// 7. shapes of the CID list
	listSeqs := [][]string{{}, {"a"}, {"a", "b"}, {"a", "b", "a", "s"}}
	listConts := []string{"v1", "v2"}
	if thorough {
		listSeqs = nil
		kit.Seqs([]string{"a", "b", "a'", "i", "s", "e"}, 2, func(s []string) { listSeqs = append(listSeqs, s) })
		listSeqs = append(listSeqs, special...)
		listConts = conts4
	}
	for _, sq := range listSeqs {
		for _, cont := range listConts {
			for _, cmd := range []string{"filter", "filter:inverse", "filter:all", "filter:v1", "filter:none"} {
				emit(C19Case{Roots: "a", Seq: sq, Cont: cont, Cmd: cmd, Var: "list=messy", IO: thorough && cmd != "filter:all" && cmd != "filter:v1" && cmd != "filter:none"})
				// the plain list without a newline after its last (distinct) entry
				emit(C19Case{Roots: "a", Seq: sq, Cont: cont, Cmd: cmd, Var: "list=nonl", IO: thorough && cmd != "filter:all" && cmd != "filter:v1" && cmd != "filter:none"})
			}
		}
	}

	// 8. append: targets, overlap with what the target holds, refusals, --append --inverse
	appSeqs := [][]string{{"a"}, {"a", "b"}, {"b", "a"}, {"a'", "a"}, {"c", "a"}}
	appConts := []string{"v1", "v2"}
	if thorough {
		appSeqs = nil
		kit.Seqs([]string{"a", "b", "c", "a'", "i"}, 2, func(s []string) { appSeqs = append(appSeqs, s) })
		appSeqs = append(appSeqs, []string{"c", "a", "c", "b"})
		appConts = []string{"v1", "v2", "v2pad"}
	}
	for _, v := range []string{"", "target=a", "target=ab", "target=empty", "target=pad", "target=v1", "ver1", "inverse", "target=a,inverse", "target=ab,list=messy", "target=a,list=nonl", "inverse,list=nonl"} {
		for _, sq := range appSeqs {
			for _, cont := range appConts {
				emit(C19Case{Roots: "a", Seq: sq, Cont: cont, Cmd: "filter:append", Var: v})
			}
		}
	}

	// 9. flag values outside the documented ones; negative controls of the two acceptors
	for _, cont := range conts5 {
		emit(C19Case{Roots: "a", Seq: []string{"a", "b"}, Cont: cont, Cmd: "flags"})
	}
	emit(C19Case{Roots: "a", Seq: []string{"a", "b"}, Cont: "v2", Cmd: "controls"})

	// 10. create
	for _, shape := range []string{"file", "empty", "dir", "nested", "big", "multi"} {
		for _, ver := range []string{"1", "2"} {
			emit(C19Case{Cmd: "create", Arg: shape, Var: "ver=" + ver})
			if shape != "multi" {
				emit(C19Case{Cmd: "create", Arg: shape, Var: "ver=" + ver + ",nowrap"})
			}
			if shape == "dir" {
				for _, kind := range []string{"v2", "garbage"} {
					emit(C19Case{Cmd: "create", Arg: shape, Var: "ver=" + ver + ",stale=" + kind})
				}
			}
		}
	}

	// 11. get-dag
	for _, arg := range []string{"", "root-first", "partial", "leaves", "2roots", "0roots"} {
		for _, cont := range conts5 {
			if !thorough && arg != "" && cont != "v1" && cont != "v2" {
				continue
			}
			for _, st := range []string{"", "chain", "v2", "garbage"} {
				if !thorough && st != "" && !(arg == "" && (cont == "v1" || cont == "v2")) {
					continue
				}
				v := ""
				if st != "" {
					v = "stale=" + st
				}
				emit(C19Case{Cont: cont, Cmd: "get-dag", Arg: arg, Var: v})
			}
		}
	}

	// 12. get-dag --selector over every small DAG (c19sel.go)
	genC19Sel(tier, emit)
}

func init() {
	kit.Register(&kit.Prop{
		ID:  "C19",
		Gen: genC19,
		Run: func(c any, x *kit.Ctx) {
			cs := c.(C19Case)
			switch cs.Cmd {
			case "get-dag":
				runC19Dag(x, cs)
			case "get-dag-selector":
				runC19Sel(x, cs)
			case "create":
				runC19Create(x, cs)
			default:
				runC19(c, x)
			}
		},
		Setup:  func(string) error { return drv.BuildCar() },
		Decode: kit.DecodeAs[C19Case],
		Rule: "every input archive up to the bound laid out by the reference encoder (CARv1, CARv2, padded CARv2 with digest-only index, index-less CARv2, padded index-less CARv2; roots a / ab / none, and on a reduced sequence set aa (duplicate) / a0 (CIDv0); identity, duplicate and equal-multihash blocks; plus archives of 150 sections (section lengths 40..189: the 2-byte varint boundary 128 +-40 and more), of 81 sections with lengths 16384-40..16384+40 (the 3-byte boundary; index / index create / detach-index / filter / get-block / list / concat / acceptors) and of 56 KiB - 2 MiB with 3- and 4-byte section varints) x every sub-command and flag set " +
			"(index with each codec / none / no --codec / --version 1, index create with each codec / no --codec, detach-index (+list), filter plain / --inverse / --version 1 / --append / all / none, get-block of every CID over a stale output file, list (file and stdin), root, concat of 1-3 inputs as v1 and v2, inspect (must accept; the fields of its report are compared and a difference is recorded as an outcome), the two acceptors on the input itself) run with the REAL car binary; " +
			"reduced matrices (fully enumerated, listed in genC19): stdout forms of index / index create / detach-index / get-block / concat and stdin forms (pipe and redirected file) of filter's CID list / detach-index list / root / list / inspect, list to a file (an alternate form that is not byte-equal to the file form is judged on its own by the same oracle); a stale longer CARv2 or garbage file at the output path; a CID list with CRLF, padding, blank lines, a repeated entry and no final newline; " +
			"append targets (1 root / 2 roots + digest-only index / no roots / padded / CARv1) with overlapping content, --append --inverse, --append --version 1; flag values outside the documented ones (refusal or valid output); negative controls of inspect --full and verify; " +
			"car create of 6 source shapes x v1/v2 x wrap/no-wrap; get-dag v1/v2 from every start node (implicit root, explicit, absent) of a UnixFS DAG in 6 variants (block order, an absent linked block x --strict, raw / identity / dag-cbor leaves, 2 roots, 0 roots) x 5 containers x 4 kinds of pre-existing output, plus a matcher-only --selector; " +
			"get-dag --selector (c19sel.go): every DAG of n nodes (node 0 = root, links i->j for i<j, every node reachable; link multiplicity 0..1 for n <= 4 (thorough 5), 0..2 for n <= 3 (thorough 4): all shared sub-DAGs, diamonds and one node linking a child twice; children in ascending and in descending node order; dag-cbor/CIDv1 and dag-pb/CIDv0 nodes (dag-pb n <= 4); an unrelated block stored alongside) " +
			"x the selector family {matcher, explore-all without limit, explore-all with every depth limit 0..n+1 (dag-pb 0..3n+1: a link sits three data-model steps below its node), union of the first two link fields of the start node each continued with explore-all limited to 1 / 2 / 3 blocks or unlimited (16 pairs), recursive first-child and second-child spines, spine + shallow explore-all} x --version 1 / 2, " +
			"compared with the blocks go-ipld-prime's own walker loads for the same selector text over the same blocks (each once; the same blocks in another order than first-load order are recorded as beyond-statement:get-dag-order; a refusal of a walk that reaches an absent block without --strict is recorded, not reported; revisits allowed, as get-dag requests for a custom selector), output root = start CID, output accepted by inspect --full and verify; " +
			"reduced matrices (fully enumerated, genC19Sel): input container v1+v2 for n <= 3, v1 for n = 4 (thorough: all 5 for n <= 3 and the single-link DAGs of 4 nodes, v1+v2 otherwise); on the first container for n <= 3 (thorough also single-link n = 4): implicit start + root-first block order, start at node 1, each node k >= 1 absent from the archive (v2 skips it like the library walk answering SkipMe; thorough: x --strict must refuse when the walk reaches it); " +
			"every produced archive is re-checked with car inspect --full and car verify, its embedded index is compared with its payload, and its content with the reference answer; every input is re-read after the command (a change is recorded as an outcome); " +
			"what the statement does not carry is recorded as a beyond-statement:* outcome, never as a violation: the text of the inspect report and of detach-index list, whether a digest-only index can be listed, side effects on the input or on the target of a refused append, a refused CID list that is empty or messy; non-trivial = non-empty input",
		Bound: func(tier string) map[string]any {
			b := map[string]any{"seq_len": 2, "alphabet": 6, "commands": len(c19Cmds) + len(c19DefaultCmds) + 5, "containers": 5, "max_sections": 150, "max_archive_bytes": 81*16384 + 200,
				"get_block_queries":      "every CID for archives of <= 6 blocks, else first/second/middle/last, plus an absent CID and b",
				"get_dag_selector_nodes": 4, "get_dag_selector_nodes_link_multiplicity_2": 3, "get_dag_selector_codecs": 2, "get_dag_selector_selectors": "cbor 23+n, pb 23+3n", "get_dag_selector_versions": 2}
			if tier == "thorough" {
				b["get_dag_selector_nodes"] = 5
				b["get_dag_selector_nodes_link_multiplicity_2"] = 4
				b["alphabet"] = 9
				b["max_archive_bytes"] = 2097152 + 16383 + 100
			}
			return b
		},
		Assumptions: []string{
			"filter: the blockstore options it writes with are not fixed by the statement, so a section stored twice in the source (or already held by an append target), an identity block and a block under a second CID of a stored multihash may each be kept or dropped; judged: the output is the append target's blocks followed by a subsequence of the selected source sections, and with identity sections dropped and the first section of every multihash kept it equals the selection in source order",
			"filter's output roots: the source's roots that pass the filter (the target's roots under --append); all of the source's roots is accepted and recorded as an outcome",
			"the CID list written by the harness names every selected CID once (the messy list repeats one on purpose); a refusal of the messy or of an empty list is an outcome, a refusal of a plain list a violation",
			"an index emitted by car index may or may not contain identity entries (both accepted)",
			"concat uses the legacy reader, which refuses root-less inputs (documented refusal); if it accepts one the output is judged",
			"car index / car index create without --codec use the flag's documented default car-multihash-index-sorted",
			"filter --append onto a CARv1 or with --version 1 is refused by documented message, onto a padded CARv2 by the blockstore's documented resumption rule; a refusal that changes the existing archive is recorded as an outcome; if accepted the output is judged",
			"detach-index: the emitted index has the codec and the record multiset of the embedded one (byte layout of equal records not judged); on an archive without index a refusal is accepted, an index emitted nevertheless must be the regenerated one",
			"the recorded finding c19:inspect-full-v1:trailing-data-probe is keyed on structure (a CARv1 the reference decoder and plain car inspect accept, refused by --full), not on the error text",
			"get-dag: only --strict fails on a link to an absent block for --version 2; for --version 1 (SelectiveCar) a refusal is accepted; no start CID with 0 or 2 roots, or an absent start block, has no answer (refusal or valid output)",
			"identity-CID leaves may or may not be stored by get-dag (dropped by the CARv2 blockstore, kept by the CARv1 writer)",
			"get-dag --selector: the reference is go-ipld-prime's walker driven by the harness (go-ipld-prime is trusted, go-car is not) with the link-target prototype rule both get-dag writers use (dag-pb blocks into the dag-pb prototype, everything else into basicnode Any); if an untyped dag-pb walk loads other blocks either answer is accepted (outcome get-dag-selector:prototype-sensitive); a selector the reference walk fails on has no answer (outcome); selectors with InterpretAs (the unixfs reifier, known to the CARv2 writer only) are not in the family; block order = first-load order of the walk, as already judged for the default selector",
			"get-dag --selector: the acceptors (inspect --full, verify) are functions of the file bytes; within one case they run once per distinct output",
			"car inspect needs a seekable stdin (redirected file); through a pipe it fails with 'illegal seek' - observed, not judged (inspect is not an emitting sub-command)",
			"car verify rejects a padded index-less CARv2 input ('header claims no index, but extra bytes'): no sub-command emits such an archive, so it is recorded as an outcome (verify-rejects:check-input), not judged",
			"car create onto an existing file resumes into it and refuses a file that is not its own unfinished output (refusal = nothing emitted)",
		},
	})
}

// c19SameMultiset: the same CIDs with the same multiplicities, in any order.
func c19SameMultiset(a, b [][]byte) bool {
	if len(a) != len(b) {
		return false
	}
	n := map[string]int{}
	for _, c := range a {
		n[string(c)]++
	}
	for _, c := range b {
		n[string(c)]--
	}
	for _, v := range n {
		if v != 0 {
			return false
		}
	}
	return true
}
