package props

import (
	"github.com/ipfs/go-cid"
)

// drvCids converts raw CID bytes to go-cid values (nil slice when isNil).
func drvCids(raws [][]byte, isNil bool) []cid.Cid {
	if isNil {
		return nil
	}
	out := []cid.Cid{}
	for _, r := range raws {
		c, err := cid.Cast(r)
		if err != nil {
			panic(err)
		}
		out = append(out, c)
	}
	return out
}
