package props

import (
	"github.com/ipfs/go-cid"

	"verif/drv"
)

// drvCids converts raw CID bytes to go-cid values (nil slice when isNil).
func drvCids(raws [][]byte, isNil bool) []cid.Cid {
	if isNil {
		return nil
	}
	out := []cid.Cid{}
	for _, r := range raws {
		c, err := cid.Cast(r)
		if err != nil {
			panic(err)
		}
		out = append(out, c)
	}
	return out
}

// Prebuild builds the auxiliary binaries (C08 explorer and -race complement, car CLI) so
// that the first check run does not pay for them.
func Prebuild() int {
	rc := 0
	if err := c08Setup("quick"); err != nil {
		println("prebuild C08:", err.Error())
		rc = 1
	}
	if err := drv.BuildCar(); err != nil {
		println("prebuild car:", err.Error())
		rc = 1
	}
	return rc
}
