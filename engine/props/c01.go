package props

import (
	"bytes"
	"fmt"
	"os"
	"path/filepath"
	"strings"

	"verif/drv"
	"verif/kit"
	"verif/model"
	"verif/refcar"
)

// C01Case: one logical content under one option set and container; all writers and all
// readers are exercised inside the case so that they can be compared with each other.
// Lvl selects the reader matrix: 0 = core matrix, 1 = core + base, 2 = core + base + extended
// matrix and the re-read under reader-only options (see c01Plan). All writers run at every level.
type C01Case struct {
	Roots string   `json:"roots"`
	Seq   []string `json:"seq"`
	Opts  drv.Opts `json:"opts"`
	Lvl   int      `json:"lvl,omitempty"`
}

func sameRoots(a, b [][]byte) bool {
	if len(a) != len(b) {
		return false
	}
	for i := range a {
		if !bytes.Equal(a[i], b[i]) {
			return false
		}
	}
	return true
}

func sameBlocks(a, b []refcar.Block, withData bool) string {
	if len(a) != len(b) {
		return fmt.Sprintf("%d blocks vs %d", len(a), len(b))
	}
	for i := range a {
		if !bytes.Equal(a[i].Cid, b[i].Cid) {
			return fmt.Sprintf("block %d CID %x vs %x", i, a[i].Cid, b[i].Cid)
		}
		if withData && !bytes.Equal(a[i].Data, b[i].Data) {
			return fmt.Sprintf("block %d data %x vs %x", i, clip(a[i].Data), clip(b[i].Data))
		}
	}
	return ""
}

func rawV1Key(raw []byte) []byte {
	ci, err := refcar.ParseCID(raw)
	if err != nil {
		panic(err)
	}
	return refcar.CIDv1(refcar.CodecRaw, ci.MhCode, ci.Digest)
}

// c01Plan is the reader matrix of one level.
type c01Plan struct {
	scan    []string // drv.ReadX kinds
	payload []string // drv.ReadPayloadX kinds
	ra      []string // drv.OpenRAC01 kinds
}

// Core matrix (every case): the original reader matrix.
var c01Core = c01Plan{
	scan: []string{
		"br-bytes", "br-stream", "br-file", "root-reader", "root-reader-lenient", "root-load", "root-load-batch", "int-reader", "int-load",
		"br-skip-bytes", "br-skip-stream",
	},
	payload: []string{"data-reader"},
	ra:      []string{"ro-new", "ro-new-at", "ro-open", "st-open", "st-open-at"},
}

// Base matrix (cases with Lvl >= 1), in addition to the core matrix: short-read and
// data-with-EOF sources, remaining capability combinations, state after the end.
var c01Base = c01Plan{
	scan: []string{
		"int-load-batch", "br-onebyte", "br-half", "br-dataerr", "br-skip-onebyte", "br-skip-file", "br-alt-bytes",
		"root-reader-onebyte", "root-reader-dataerr", "root-reader-pair", "int-reader-onebyte", "int-reader-half",
	},
	payload: []string{"data-reader-seek"},
	ra:      []string{"ro-file", "st-file"},
}

// Extended matrix (cases with Lvl >= 2), in addition to the core and base matrices.
var c01Ext = c01Plan{
	scan: []string{
		"br-pipe", "br-skip-pipe", "br-skip-half", "br-skip-dataerr", "br-alt-file", "br-alt-stream", "br-alt-onebyte",
		"root-reader-half", "root-reader-lenient-onebyte", "root-reader-pair-onebyte", "root-load-onebyte", "root-load-batch-half", "root-load-dataerr",
		"int-reader-dataerr", "int-load-onebyte", "int-load-batch-half",
	},
	payload: []string{"data-reader-at", "data-reader-file"},
}

// Re-read of the extended matrix under the reader-only options ZeroLengthSectionAsEOF and
// WithTrustedCAR, which must not change what a valid archive reads as.
var c01ReaderOpts = c01Plan{
	scan:    []string{"br-bytes", "br-skip-stream", "br-alt-bytes", "br-onebyte", "int-reader"},
	payload: []string{"data-reader"},
	ra:      []string{"ro-new", "ro-file", "st-open", "st-open-at"},
}

func c01Legacy(rk string) bool {
	return strings.HasPrefix(rk, "root-") || strings.HasPrefix(rk, "int-")
}

// c01Refuses: the legacy readers that document the refusal of an archive without roots.
func c01Refuses(rk string) bool {
	return c01Legacy(rk) && !strings.HasPrefix(rk, "root-reader-lenient") && !strings.HasPrefix(rk, "root-reader-pair")
}

func runC01(c any, x *kit.Ctx) {
	cs := c.(C01Case)
	roots, rootRaws, nilRoots := kit.Roots(cs.Roots)
	blks := kit.Bs(cs.Seq)
	m := &model.Map{Cfg: modelCfg(cs.Opts)}
	anyErr := false
	for _, b := range blks {
		if m.Put(b) == model.PutTooLarge {
			anyErr = true
		}
	}
	if anyErr {
		return // over-long CIDs are C04's business
	}
	stored := m.RefBlocks()
	wantPayload := refcar.EncodeV1(rootRaws, nilRoots, stored)
	// A nil root list has two legal encodings (CBOR null, which go-car writes today, and the
	// empty array); the statement fixes neither. The first writer whose payload equals one of
	// the two references selects it for the rest of the case, so that all writers (and the
	// payload readers) are still held to one byte-identical payload.
	var altPayload []byte
	if nilRoots {
		altPayload = refcar.EncodeV1(rootRaws, false, stored)
	}
	refChosen := false
	wantV := 2
	if cs.Opts.V1 {
		wantV = 1
	}

	// root-module size functions agree with the bytes the root-module writer emits (LdWrite /
	// LdSize symmetry, HeaderSize = length of the written header)
	if hs, err := drv.RootHeaderSize(roots); err != nil || hs != uint64(len(refcar.EncodeHeader(rootRaws, nilRoots))) {
		x.Fail("c01:root-header-size", "root HeaderSize = %d, %v; the header occupies %d bytes", hs, err, len(refcar.EncodeHeader(rootRaws, nilRoots)))
	}
	for _, s := range m.Stored {
		if got, want := drv.RootLdSize(s.Raw, s.Data), uint64(len(refcar.EncodeSection(s.Ref()))); got != want {
			x.Fail("c01:root-ldsize", "root LdSize(%s) = %d; the section occupies %d bytes", s.Name, got, want)
		}
	}

	writers := []string{"bs", "bsmany", "st-rw", "st-w", "def-path"}
	if cs.Opts.V1 {
		writers = append(writers, "st-stream", "def-stream", "root")
	}
	writers = append(writers, drv.WriterKindsX...)
	files := map[string][]byte{} // distinct outputs by content
	var order []string
	for _, w := range writers {
		in := blks
		if w == "root" {
			in = m.Stored // the root-module writer has no de-duplication of its own
		}
		if (w == "def-path" || w == "def-stream") && len(in) == 0 {
			continue
		}
		var res *drv.WriteResult
		var err error
		extended := false
		for _, k := range drv.WriterKindsX {
			if k == w {
				extended = true
			}
		}
		if extended {
			var rx *drv.WriteResultX
			rx, err = drv.WriteX(w, x.Dir, roots, in, cs.Opts)
			if rx != nil {
				res = &rx.WriteResult
				if len(rx.Readback) > 0 {
					// what a store answers while it is being written is not part of the
					// statement (the produced archive is); the call pattern stays, its effect on
					// the produced file is judged below like that of every other writer
					x.Outcome("beyond-statement:readback:" + w)
				}
			}
		} else {
			res, err = drv.Write(w, x.Dir, roots, in, cs.Opts)
		}
		x.Eval(1)
		x.Transition(len(in) + 2)
		if err != nil {
			x.Fail("c01:open:"+w, "writer %s construction failed: %v", w, err)
			continue
		}
		bad := res.ManyErr != nil || res.FinErr != nil
		for _, e := range res.PutErrs {
			if e != nil {
				bad = true
			}
		}
		if bad {
			x.Fail("c01:write-error:"+w, "writer %s: put/finalize error: many=%v fin=%v puts=%v", w, res.ManyErr, res.FinErr, res.PutErrs)
			continue
		}
		// (1)+(3): reference decode equals the model; payload byte-identical to the reference
		f, err := refcar.DecodeFile(res.Bytes, false)
		if err != nil {
			x.Fail("c01:strict-decode:"+w, "writer %s output not well-formed: %v", w, err)
			continue
		}
		if !refChosen && altPayload != nil && bytes.Equal(f.PayloadRaw, altPayload) {
			wantPayload, refChosen = altPayload, true
			x.Outcome("beyond-statement:nil-roots-written-as-empty-array")
		}
		if bytes.Equal(f.PayloadRaw, wantPayload) {
			refChosen = true
		}
		if !bytes.Equal(f.PayloadRaw, wantPayload) {
			x.Fail("c01:payload:"+w, "writer %s payload differs from reference encoding of the logical content: got %x want %x", w, clip(f.PayloadRaw), clip(wantPayload))
			continue
		}
		if f.Version != wantV {
			x.Fail("c01:version:"+w, "writer %s produced version %d want %d", w, f.Version, wantV)
		}
		// the container options took effect (otherwise the padding / codec dimensions are vacuous)
		if f.Version == 2 && wantV == 2 {
			if want := uint64(refcar.PragmaSize+refcar.V2HeaderSize) + cs.Opts.DataPad; f.V2.DataOffset != want {
				x.Fail("c01:layout:data-offset:"+w, "writer %s: data offset %d want %d (data padding %d)", w, f.V2.DataOffset, want, cs.Opts.DataPad)
			}
			if !f.HasIndex {
				if len(stored) > 0 {
					x.Fail("c01:layout:no-index:"+w, "writer %s: no index written", w)
				} else {
					// nothing to index: leaving the index out is a legal CARv2
					x.Outcome("beyond-statement:layout:no-index-for-empty-payload")
				}
			} else {
				if want := f.V2.DataOffset + f.V2.DataSize + cs.Opts.IndexPad; f.V2.IndexOffset != want {
					x.Fail("c01:layout:index-offset:"+w, "writer %s: index offset %d want %d (index padding %d)", w, f.V2.IndexOffset, want, cs.Opts.IndexPad)
				}
				if cs.Opts.Codec != "" && f.IndexCodec != uint64(cs.Opts.CodecCode()) {
					x.Fail("c01:layout:index-codec:"+w, "writer %s: index codec 0x%x want 0x%x", w, f.IndexCodec, uint64(cs.Opts.CodecCode()))
				}
			}
		}
		k := string(res.Bytes)
		if _, ok := files[k]; !ok {
			files[k] = res.Bytes
			order = append(order, w)
		}
	}
	if len(files) > 1 {
		// The statement demands a byte-identical CARv1 payload, which c01:payload:<writer> has
		// enforced above against one reference; the bytes around it (characteristics, index
		// record order among equal keys, ...) may differ. Every distinct file is read below.
		x.Outcome(fmt.Sprintf("beyond-statement:writers-differ:%d-files", len(files)))
	}
	// (2) every reader returns the same roots and sequence
	path := filepath.Join(x.Dir, "c01-in.car")
	defer os.Remove(path)
	for _, file := range c01Ordered(files) {
		if err := os.WriteFile(path, file, 0o644); err != nil {
			panic(err)
		}
		// the CARv1 payload window per the reference decoder (not per go-car)
		rf, err := refcar.DecodeFile(file, false)
		if err != nil {
			panic(err) // decoded above
		}
		c01ReadAll(x, cs, "", c01Core, cs.Opts, path, file, rf.PayloadRaw, rootRaws, stored, m, wantPayload, wantV)
		if cs.Lvl >= 1 {
			c01ReadAll(x, cs, "", c01Base, cs.Opts, path, file, rf.PayloadRaw, rootRaws, stored, m, wantPayload, wantV)
		}
		if cs.Lvl >= 2 {
			c01ReadAll(x, cs, "", c01Ext, cs.Opts, path, file, rf.PayloadRaw, rootRaws, stored, m, wantPayload, wantV)
			ro := cs.Opts
			ro.ZeroEOF, ro.Trusted = true, true
			c01ReadAll(x, cs, ":ropts", c01ReaderOpts, ro, path, file, rf.PayloadRaw, rootRaws, stored, m, wantPayload, wantV)
		}
	}
	x.State(fmt.Sprintf("%s|%x", cs.Roots, wantPayload))
	x.Outcome(fmt.Sprintf("stored=%d files=%d", len(stored), len(files)))
	if len(stored) >= 2 || len(stored) < len(blks) {
		x.Nontrivial(fmt.Sprintf("%v|%v|%+v", cs.Roots, cs.Seq, cs.Opts))
	}
}

// c01Ordered returns the distinct outputs in a deterministic order.
func c01Ordered(files map[string][]byte) [][]byte {
	var keys []string
	for k := range files {
		keys = append(keys, k)
	}
	// few entries (normally one): insertion sort on the content
	for i := 1; i < len(keys); i++ {
		for j := i; j > 0 && keys[j] < keys[j-1]; j-- {
			keys[j], keys[j-1] = keys[j-1], keys[j]
		}
	}
	out := make([][]byte, len(keys))
	for i, k := range keys {
		out[i] = files[k]
	}
	return out
}

// c01ReadAll runs one reader matrix over one file. tag is appended to the reader kind in
// signatures (it distinguishes the re-read under reader-only options).
func c01ReadAll(x *kit.Ctx, cs C01Case, tag string, plan c01Plan, o drv.Opts, path string, file, payload []byte, rootRaws [][]byte, stored []refcar.Block, m *model.Map, wantPayload []byte, wantV int) {
	for _, rk0 := range plan.scan {
		rk := rk0 + tag
		r := drv.ReadX(rk0, path, file, payload, o)
		x.Eval(1)
		x.Transition(len(stored) + 1)
		if c01Refuses(rk0) && len(rootRaws) == 0 {
			// documented refusal: the legacy readers reject an empty root list. The refusal is
			// recognised by its shape (the constructor fails), not by its text; a reader that
			// does not refuse is held to the statement like every other.
			e := r.OpenErr
			if e == nil {
				e = r.Err
			}
			if e != nil {
				// a refusal comes from the constructor; the loaders construct their reader
				// themselves, there it is an error before the first block reached the store
				loader := strings.Contains(rk0, "-load")
				if r.OpenErr == nil && !(loader && len(r.Blocks) == 0) {
					x.Fail("c01:empty-roots-refusal:"+rk, "reader %s on an archive without roots: fails, but not by refusing it at construction: err=%v (after %d blocks)", rk, r.Err, len(r.Blocks))
				}
				continue
			}
			x.Outcome("beyond-statement:empty-roots-not-refused:" + rk)
		}
		if r.OpenErr != nil || r.Err != nil {
			x.Fail("c01:reader-error:"+rk, "reader %s fails on a valid archive: open=%v err=%v (after %d blocks)", rk, r.OpenErr, r.Err, len(r.Blocks))
			continue
		}
		if !sameRoots(r.Roots, rootRaws) {
			x.Fail("c01:roots:"+rk, "reader %s roots %x want %x", rk, clipRoots(r.Roots), clipRoots(rootRaws))
		}
		if d := sameBlocks(r.Blocks, stored, false); d != "" {
			x.Fail("c01:blocks:"+rk, "reader %s CID sequence differs: %s", rk, d)
		} else {
			for i := range r.Blocks {
				if r.HasData != nil && r.HasData[i] && !bytes.Equal(r.Blocks[i].Data, stored[i].Data) {
					x.Fail("c01:blocks:"+rk, "reader %s sequence differs: block %d data %x vs %x", rk, i, clip(r.Blocks[i].Data), clip(stored[i].Data))
					break
				}
				if r.HasData == nil && !bytes.Equal(r.Blocks[i].Data, stored[i].Data) { // loaders
					x.Fail("c01:blocks:"+rk, "reader %s sequence differs: block %d data %x vs %x", rk, i, clip(r.Blocks[i].Data), clip(stored[i].Data))
					break
				}
				if r.Sizes != nil && r.Sizes[i] != uint64(len(stored[i].Data)) {
					x.Fail("c01:size:"+rk, "reader %s block %d: size %d, the block has %d bytes", rk, i, r.Sizes[i], len(stored[i].Data))
					break
				}
			}
		}
		if strings.HasPrefix(rk0, "br-") && r.Version != uint64(wantV) {
			x.Fail("c01:br-version:"+rk, "reader %s: BlockReader.Version %d want %d", rk, r.Version, wantV)
		}
		for i, p := range r.PostEOF {
			// BlockReader documents io.EOF for every call after the end; of the other
			// readers only "no further block" is demanded
			if (strings.HasPrefix(rk0, "br-") && p != "EOF") || strings.Contains(p, "block ") {
				x.Fail("c01:after-eof:"+rk, "reader %s: call %d after the end returned %s", rk, i+1, p)
				break
			}
		}
		if r.Second != nil {
			if d := sameBlocks(r.Second, stored, true); d != "" {
				x.Fail("c01:blocks:"+rk, "reader %s: second reader (opened together with a third after the first was drained) differs: %s", rk, d)
			}
			if d := sameBlocks(r.Third, stored, true); d != "" {
				x.Fail("c01:blocks:"+rk, "reader %s: third reader (advanced in lockstep with the second) differs: %s", rk, d)
			}
		}
	}
	// v2 reader payload
	for _, rk0 := range plan.payload {
		rk := rk0 + tag
		r := drv.ReadPayloadX(rk0, path, file, o)
		x.Eval(1)
		if r.OpenErr != nil || r.Err != nil {
			x.Fail("c01:reader-error:"+rk, "Reader (%s) fails on a valid archive: open=%v err=%v", rk, r.OpenErr, r.Err)
			continue
		}
		if !sameRoots(r.Roots, rootRaws) {
			x.Fail("c01:roots:"+rk, "Reader.Roots (%s) %x want %x", rk, clipRoots(r.Roots), clipRoots(rootRaws))
		}
		if !bytes.Equal(r.Payload, wantPayload) {
			x.Fail("c01:payload:"+rk, "Reader.DataReader (%s) bytes differ from the payload: got %x want %x", rk, clip(r.Payload), clip(wantPayload))
		}
	}
	// random-access readers
	for _, rk0 := range plan.ra {
		rk := rk0 + tag
		ra, err := drv.OpenRAC01(rk0, x.Dir, path, file, o)
		x.Eval(1)
		if err != nil {
			x.Fail("c01:reader-error:"+rk, "%s fails to open a valid archive: %v", rk, err)
			continue
		}
		rs, err := ra.Roots()
		if err != nil || !sameRoots(rs, rootRaws) {
			x.Fail("c01:roots:"+rk, "%s roots %x (err %v) want %x", rk, clipRoots(rs), err, clipRoots(rootRaws))
		}
		keys, err := ra.Keys()
		if err == nil {
			var want [][]byte
			for _, s := range stored {
				if cs.Opts.Whole {
					want = append(want, s.Cid)
				} else {
					want = append(want, rawV1Key(s.Cid))
				}
			}
			if !sameRoots(keys, want) {
				x.Fail("c01:listing:"+rk, "%s key listing %x want %x", rk, clipRoots(keys), clipRoots(want))
			}
		} else if err != drv.ErrNoListing {
			x.Fail("c01:listing-error:"+rk, "%s AllKeysChan failed: %v", rk, err)
		}
		for _, s := range m.Stored {
			x.Transition(1)
			has, err := ra.Has(s.Cid)
			if err != nil || !has {
				x.Fail("c01:has:"+rk, "%s Has(%s)=%v,%v for a stored block", rk, s.Name, has, err)
			}
			data, err := ra.Get(s.Cid)
			if err != nil || !bytes.Equal(data, s.Data) {
				x.Fail("c01:get:"+rk, "%s Get(%s)=%x,%v want %x", rk, s.Name, clip(data), err, clip(s.Data))
			}
			n, err := ra.Size(s.Cid)
			if err != nil || n != len(s.Data) {
				x.Fail("c01:getsize:"+rk, "%s size of %s = %d,%v; the block has %d bytes", rk, s.Name, n, err, len(s.Data))
			}
		}
		ra.Close()
	}
}

func clipRoots(r [][]byte) [][]byte {
	if len(r) > 4 {
		return append(append([][]byte{}, r[:4]...), []byte(fmt.Sprintf("... %d more", len(r)-4)))
	}
	return r
}

type c01Cont struct {
	v1     bool
	dp, ip uint64
	codec  string
}

type c01DD struct{ whole, dup, sid bool }

func (ct c01Cont) opts(d c01DD) drv.Opts {
	return drv.Opts{V1: ct.v1, DataPad: ct.dp, IndexPad: ct.ip, Codec: ct.codec, Whole: d.whole, AllowDup: d.dup, StoreID: d.sid}
}

// containers; the last one is CARv1 written with the padding and codec options set (the
// options must be ignored by the writers; the readers build a digest-only index over it)
var c01Conts = []c01Cont{{v1: true}, {}, {dp: 1, ip: 1, codec: "sorted"}, {dp: 1413, ip: 7}, {dp: 7, ip: 0, codec: "sorted"}, {v1: true, dp: 7, ip: 3, codec: "sorted"}}

// all eight de-duplication / identity settings (the first six are the original ones)
var c01DDs = []c01DD{{}, {sid: true}, {whole: true}, {dup: true, sid: true}, {whole: true, dup: true}, {whole: true, sid: true}, {dup: true}, {whole: true, dup: true, sid: true}}

// reduced (container, de-dup) matrix for the root sets after the first two: the original
// 2x2 block plus padding / codec / CARv1-with-options met by Whole, AllowDup, StoreID
var c01Reduced = [][2]int{{0, 0}, {0, 1}, {1, 0}, {1, 1}, {3, 4}, {2, 6}, {5, 7}}

func c01HasNew(sq []string) bool {
	for _, n := range sq {
		if n == "j" || n == "I200" {
			return true
		}
	}
	return false
}

func genC01(tier string, emit func(any)) {
	thorough := tier == "thorough"
	names := []string{"a", "b", "e", "a'", "a0", "i", "ia", "s", "t", "k"}
	maxLen := 2
	if thorough {
		names = append(names, "i0", "c")
		maxLen = 3
	}
	var seqs [][]string
	kit.Seqs(names, maxLen, func(s []string) { seqs = append(seqs, s) })
	for _, l := range []string{"L127", "L128", "L16383", "L16384"} {
		seqs = append(seqs, []string{l}, []string{"e", l, "a"})
	}
	if thorough {
		seqs = append(seqs, []string{"L2097151"}, []string{"L2097152", "a"})
	}
	// sequences of length <= 2 that contain one of the additional CID shapes (two-byte codec
	// varint, two-byte digest-length varint)
	var newSeqs [][]string
	kit.Seqs(append(append([]string{}, names...), "j", "I200"), 2, func(s []string) {
		if c01HasNew(s) {
			newSeqs = append(newSeqs, s)
		}
	})
	lvl := func(ri int, sq []string) int {
		boundary := false
		for _, n := range sq {
			if strings.HasPrefix(n, "L") {
				boundary = true
			}
		}
		if len(sq) <= 1 || boundary {
			return 2
		}
		if !thorough {
			// quick: extended matrix under the first root set, base matrix otherwise
			if ri == 0 {
				return 2
			}
			return 1
		}
		if len(sq) <= 2 {
			return 2
		}
		// thorough, sequences of length 3: base matrix under the first root set, core matrix otherwise
		if ri == 0 {
			return 1
		}
		return 0
	}
	// one archive that exceeds every internal buffer and batch size (bufio 4 KiB, loader batches of 1000)
	big := kit.ManyNames(1100)
	for _, o := range []drv.Opts{{V1: true}, {}, {DataPad: 7, IndexPad: 3, Codec: "sorted", AllowDup: true}} {
		emit(C01Case{Roots: "a", Seq: append([]string{"a"}, big...), Opts: o, Lvl: 2})
	}
	// headers whose length crosses the varint widths, the CBOR array-head widths and a 4 KiB buffer
	for _, rs := range kit.C01RootSetsLarge {
		for _, sq := range [][]string{{}, {"a"}, {"a", "b"}, {"e", "L128", "a"}} {
			for _, ct := range c01Conts {
				for _, di := range []int{0, 7} {
					emit(C01Case{Roots: rs, Seq: sq, Opts: ct.opts(c01DDs[di]), Lvl: 2})
				}
			}
		}
	}
	rootSets := append(append([]string{}, kit.RootSetOrder...), kit.C01RootSetsSmall...)
	for _, sq := range seqs {
		for ri, rs := range rootSets {
			if ri < 2 {
				// full product for the first two root sets
				for _, ct := range c01Conts {
					for _, d := range c01DDs {
						emit(C01Case{Roots: rs, Seq: sq, Opts: ct.opts(d), Lvl: lvl(ri, sq)})
					}
				}
				continue
			}
			red := c01Reduced
			if len(sq) >= 3 && ri >= len(kit.RootSetOrder) && lvl(ri, sq) == 0 {
				red = c01Reduced[4:] // the additional root sets meet sequences of length 3 under the three new combinations only
			}
			for _, cd := range red {
				emit(C01Case{Roots: rs, Seq: sq, Opts: c01Conts[cd[0]].opts(c01DDs[cd[1]]), Lvl: lvl(ri, sq)})
			}
		}
	}
	for _, sq := range newSeqs {
		for _, ct := range c01Conts {
			for _, d := range c01DDs {
				emit(C01Case{Roots: "a", Seq: sq, Opts: ct.opts(d), Lvl: 2})
			}
		}
		for _, rs := range []string{"j", "i", "empty"} {
			for _, cd := range c01Reduced {
				emit(C01Case{Roots: rs, Seq: sq, Opts: c01Conts[cd[0]].opts(c01DDs[cd[1]]), Lvl: lvl(1, sq)})
			}
		}
	}
}

func init() {
	kit.Register(&kit.Prop{
		ID:     "C01",
		Gen:    genC01,
		Run:    runC01,
		Decode: kit.DecodeAs[C01Case],
		Rule: "every (root list, block sequence up to the bound, de-dup/identity options, container) is written by every applicable writer " +
			"(blockstore Put, one PutMany, two PutMany halves, Put+PutMany+Put, Put with Has/Get/GetSize of the blocks put so far after every Put; storage ReadableWritable (plain and with Has/Get after every Put), " +
			"Writable on a file (plain and with the caller's data buffer overwritten after every Put), Writable on a stream; deferred path/stream; root-module WriteHeader+LdWrite); " +
			"every output is strictly decoded by the reference codec (payload byte-identical to the reference encoding, for a nil root list to either of its two encodings, CBOR null or empty array, the first writer selecting it for all; version, data offset = 51+padding, an index whenever a block was stored, index offset = end of payload+padding, requested index codec); " +
			"outputs that differ outside the payload, discrepancies of the reads between puts and an index left out of an archive without blocks are recorded as beyond-statement outcomes, not violations; " +
			"and each distinct output is read by the core matrix (lvl>=0: the readers named first in each group) and the base matrix (lvl>=1): BlockReader.Next over {bytes.Reader, plain stream, *os.File, one-byte reads, half reads, data-with-EOF}, SkipNext over {bytes.Reader, plain stream, *os.File, one-byte reads}, SkipNext/Next alternating, " +
			"Reader.Roots (twice) + DataReader (sequential, and ReadAt + Seek(0) + one-byte reads), root CarReader (strict, lenient, one-byte reads, data-with-EOF; one reader drained and called again, then two opened together and advanced in lockstep), root LoadCar (Put store, PutMany store), " +
			"internal carv1 reader (stream, one-byte, half reads) and loader (Put store, PutMany store), NewReadOnly over {bytes.Reader, ReaderAt-only, *os.File} and OpenReadOnly (mmap), OpenReadable over {bytes.Reader, ReaderAt-only, *os.File}; " +
			"checked per reader: roots, (CID, bytes) sequence, SkipNext sizes, BlockReader.Version, two further calls after the end (io.EOF for BlockReader via both methods, no block for the others), key listing, Has/Get/GetSize of every stored block. " +
			"Cases with lvl=2 add the extended matrix (pipe sources, remaining source x family combinations incl. loaders over short reads, NewReader over ReaderAt-only, OpenReader) and a re-read under ZeroLengthSectionAsEOF+WithTrustedCAR. " +
			"The legacy readers get the payload window computed by the reference codec, not by go-car; on an archive without roots those that document the refusal may refuse it (constructor error, for the loaders an error before the first block; the text is not matched), one that does not refuse is compared like every other reader. Root HeaderSize/LdSize are compared with the bytes written. " +
			"non-trivial = >=2 stored blocks or de-duplication fired",
		Bound: func(tier string) map[string]any {
			b := map[string]any{
				"containers":                len(c01Conts),
				"dedup_configs":             len(c01DDs),
				"root_sets":                 len(kit.RootSetOrder) + len(kit.C01RootSetsSmall),
				"root_sets_full_product":    2,
				"reduced_matrix_other_root": len(c01Reduced),
				"large_root_sets":           "r3,r24,r100,r400 (header body 140 / 1002 / 4118 / 16419 bytes) x 4 sequences x all containers x {no option, whole+dup+identity}",
				"extra_cid_shapes":          "j (codec 0x0129), I200 (identity, 200-byte digest): all sequences of length <= 2 containing one of them; root a x full product, roots j, i, empty x reduced matrix",
				"big_archive":               "1101 blocks x {CARv1, CARv2, padded CARv2 + digest-only index + duplicates}",
				"writers":                   5 + 3 + len(drv.WriterKindsX),
				"readers_core":              len(c01Core.scan) + len(c01Core.payload) + len(c01Core.ra),
				"readers_base":              len(c01Base.scan) + len(c01Base.payload) + len(c01Base.ra),
				"readers_extended":          len(c01Ext.scan) + len(c01Ext.payload) + len(c01Ext.ra),
				"readers_reader_options":    len(c01ReaderOpts.scan) + len(c01ReaderOpts.payload) + len(c01ReaderOpts.ra),
			}
			if tier == "thorough" {
				b["seq_len"], b["alphabet"] = 3, 12
				b["section_lengths"] = "127,128,16383,16384,2097151,2097152"
				b["levels"] = "lvl 2 (core+base+extended+reader options): every case with a sequence of length <= 2 or a boundary-size block, large root sets, extra CID shapes, big archive; sequences of length 3: lvl 1 (core+base) under root set a, lvl 0 (core) under the other root sets (the four additional single-root sets meet them under the three new (container, de-dup) combinations only)"
			} else {
				b["seq_len"], b["alphabet"] = 2, 10
				b["section_lengths"] = "127,128,16383,16384"
				b["levels"] = "lvl 2 (core+base+extended+reader options): root set a, sequences of length <= 1, boundary-size sequences, large root sets, extra CID shapes with root a, big archive; lvl 1 (core+base) otherwise"
			}
			return b
		},
		Assumptions: []string{
			"refcar (reference codec) is correct",
			"values outside the alphabet are not covered",
			"sections larger than the v2 readers' default limit (8 MiB) are outside the enumerated space: writers accept them, v2 readers refuse them by default and the root readers accept up to 32 MiB",
			"the reads between puts after the eighth put are limited to the first, the previous and the current block",
			"io.Reader sources obey the io.Reader contract (short reads and data-with-EOF are enumerated, zero-byte reads without error are not)",
			"the root-module traversal writer WriteCar is C15's subject; here the root-module writer is WriteHeader + util.LdWrite",
			"block positions reported by SkipNext (Offset, SourceOffset) are C14's subject; the legacy readers' refusal of an archive without roots is optional and recognised by where it happens (construction), not by its message",
		},
	})
}
