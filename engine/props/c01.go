package props

import (
	"bytes"
	"fmt"

	"verif/drv"
	"verif/kit"
	"verif/model"
	"verif/refcar"
)

// C01Case: one logical content under one option set and container; all writers and all
// readers are exercised inside the case so that they can be compared with each other.
type C01Case struct {
	Roots string   `json:"roots"`
	Seq   []string `json:"seq"`
	Opts  drv.Opts `json:"opts"`
}

func sameRoots(a, b [][]byte) bool {
	if len(a) != len(b) {
		return false
	}
	for i := range a {
		if !bytes.Equal(a[i], b[i]) {
			return false
		}
	}
	return true
}

func sameBlocks(a, b []refcar.Block, withData bool) string {
	if len(a) != len(b) {
		return fmt.Sprintf("%d blocks vs %d", len(a), len(b))
	}
	for i := range a {
		if !bytes.Equal(a[i].Cid, b[i].Cid) {
			return fmt.Sprintf("block %d CID %x vs %x", i, a[i].Cid, b[i].Cid)
		}
		if withData && !bytes.Equal(a[i].Data, b[i].Data) {
			return fmt.Sprintf("block %d data %x vs %x", i, clip(a[i].Data), clip(b[i].Data))
		}
	}
	return ""
}

func rawV1Key(raw []byte) []byte {
	ci, err := refcar.ParseCID(raw)
	if err != nil {
		panic(err)
	}
	return refcar.CIDv1(refcar.CodecRaw, ci.MhCode, ci.Digest)
}

func runC01(c any, x *kit.Ctx) {
	cs := c.(C01Case)
	roots, rootRaws, nilRoots := kit.Roots(cs.Roots)
	blks := kit.Bs(cs.Seq)
	m := &model.Map{Cfg: modelCfg(cs.Opts)}
	anyErr := false
	for _, b := range blks {
		if m.Put(b) == model.PutTooLarge {
			anyErr = true
		}
	}
	if anyErr {
		return // over-long CIDs are C04's business
	}
	stored := m.RefBlocks()
	wantPayload := refcar.EncodeV1(rootRaws, nilRoots, stored)

	writers := []string{"bs", "bsmany", "st-rw", "st-w", "def-path"}
	if cs.Opts.V1 {
		writers = append(writers, "st-stream", "def-stream", "root")
	}
	files := map[string][]byte{} // distinct outputs by content
	var order []string
	for _, w := range writers {
		in := blks
		if w == "root" {
			in = m.Stored // the root-module writer has no de-duplication of its own
		}
		if (w == "def-path" || w == "def-stream") && len(in) == 0 {
			continue
		}
		res, err := drv.Write(w, x.Dir, roots, in, cs.Opts)
		x.Eval(1)
		x.Transition(len(in) + 2)
		if err != nil {
			x.Fail("c01:open:"+w, "writer %s construction failed: %v", w, err)
			continue
		}
		bad := res.ManyErr != nil || res.FinErr != nil
		for _, e := range res.PutErrs {
			if e != nil {
				bad = true
			}
		}
		if bad {
			x.Fail("c01:write-error:"+w, "writer %s: put/finalize error: many=%v fin=%v puts=%v", w, res.ManyErr, res.FinErr, res.PutErrs)
			continue
		}
		// (1)+(3): reference decode equals the model; payload byte-identical to the reference
		f, err := refcar.DecodeFile(res.Bytes, false)
		if err != nil {
			x.Fail("c01:strict-decode:"+w, "writer %s output not well-formed: %v", w, err)
			continue
		}
		if !bytes.Equal(f.PayloadRaw, wantPayload) {
			x.Fail("c01:payload:"+w, "writer %s payload differs from reference encoding of the logical content: got %x want %x", w, clip(f.PayloadRaw), clip(wantPayload))
			continue
		}
		wantV := 2
		if cs.Opts.V1 {
			wantV = 1
		}
		if f.Version != wantV {
			x.Fail("c01:version:"+w, "writer %s produced version %d want %d", w, f.Version, wantV)
		}
		k := string(res.Bytes)
		if _, ok := files[k]; !ok {
			files[k] = res.Bytes
			order = append(order, w)
		}
	}
	if len(files) > 1 {
		x.Fail("c01:writers-differ", "writers produced %d distinct files for the same content and options (first of each: %v)", len(files), order)
	}
	// (2) every reader returns the same roots and sequence
	for _, file := range files {
		for _, rk := range drv.ScanReaderKinds {
			r := drv.Read(rk, x.Dir, file, cs.Opts)
			x.Eval(1)
			x.Transition(len(stored) + 1)
			legacy := rk != "br-bytes" && rk != "br-stream" && rk != "br-file" && rk != "root-reader-lenient"
			if legacy && len(rootRaws) == 0 {
				// documented refusal: the legacy readers reject an empty root list
				e := r.OpenErr
				if e == nil {
					e = r.Err
				}
				if !drv.IsEmptyRootsRefusal(e) {
					x.Fail("c01:empty-roots-refusal:"+rk, "reader %s on an archive without roots: expected the documented refusal, got open=%v err=%v blocks=%d", rk, r.OpenErr, r.Err, len(r.Blocks))
				}
				continue
			}
			if r.OpenErr != nil || r.Err != nil {
				x.Fail("c01:reader-error:"+rk, "reader %s fails on a valid archive: open=%v err=%v", rk, r.OpenErr, r.Err)
				continue
			}
			if !sameRoots(r.Roots, rootRaws) {
				x.Fail("c01:roots:"+rk, "reader %s roots %x want %x", rk, r.Roots, rootRaws)
			}
			if d := sameBlocks(r.Blocks, stored, true); d != "" {
				x.Fail("c01:blocks:"+rk, "reader %s sequence differs: %s", rk, d)
			}
		}
		// skipping block reader: same CID sequence
		for _, rk := range []string{"br-skip-bytes", "br-skip-stream"} {
			r := drv.Read(rk, x.Dir, file, cs.Opts)
			x.Eval(1)
			if r.OpenErr != nil || r.Err != nil {
				x.Fail("c01:reader-error:"+rk, "reader %s fails on a valid archive: open=%v err=%v", rk, r.OpenErr, r.Err)
				continue
			}
			if d := sameBlocks(r.Blocks, stored, false); d != "" {
				x.Fail("c01:blocks:"+rk, "reader %s CID sequence differs: %s", rk, d)
			}
		}
		// v2 reader payload
		r := drv.Read("data-reader", x.Dir, file, cs.Opts)
		x.Eval(1)
		if r.OpenErr != nil || r.Err != nil {
			x.Fail("c01:reader-error:data-reader", "Reader fails on a valid archive: open=%v err=%v", r.OpenErr, r.Err)
		} else {
			if !sameRoots(r.Roots, rootRaws) {
				x.Fail("c01:roots:data-reader", "Reader.Roots %x want %x", r.Roots, rootRaws)
			}
			if !bytes.Equal(r.Payload, wantPayload) {
				x.Fail("c01:payload:data-reader", "Reader.DataReader bytes differ from the payload: got %x want %x", clip(r.Payload), clip(wantPayload))
			}
		}
		// random-access readers
		for _, rk := range drv.RAKinds {
			ra, err := drv.OpenRA(rk, x.Dir, file, cs.Opts)
			x.Eval(1)
			if err != nil {
				x.Fail("c01:reader-error:"+rk, "%s fails to open a valid archive: %v", rk, err)
				continue
			}
			rs, err := ra.Roots()
			if err != nil || !sameRoots(rs, rootRaws) {
				x.Fail("c01:roots:"+rk, "%s roots %x (err %v) want %x", rk, rs, err, rootRaws)
			}
			keys, err := ra.Keys()
			if err == nil {
				var want [][]byte
				for _, s := range stored {
					if cs.Opts.Whole {
						want = append(want, s.Cid)
					} else {
						want = append(want, rawV1Key(s.Cid))
					}
				}
				if !sameRoots(keys, want) {
					x.Fail("c01:listing:"+rk, "%s key listing %x want %x", rk, keys, want)
				}
			} else if err != drv.ErrNoListing {
				x.Fail("c01:listing-error:"+rk, "%s AllKeysChan failed: %v", rk, err)
			}
			for _, s := range m.Stored {
				x.Transition(1)
				has, err := ra.Has(s.Cid)
				if err != nil || !has {
					x.Fail("c01:has:"+rk, "%s Has(%s)=%v,%v for a stored block", rk, s.Name, has, err)
				}
				data, err := ra.Get(s.Cid)
				if err != nil || !bytes.Equal(data, s.Data) {
					x.Fail("c01:get:"+rk, "%s Get(%s)=%x,%v want %x", rk, s.Name, clip(data), err, clip(s.Data))
				}
			}
			ra.Close()
		}
	}
	x.State(fmt.Sprintf("%s|%x", cs.Roots, wantPayload))
	x.Outcome(fmt.Sprintf("stored=%d files=%d", len(stored), len(files)))
	if len(stored) >= 2 || len(stored) < len(blks) {
		x.Nontrivial(fmt.Sprintf("%v|%v|%+v", cs.Roots, cs.Seq, cs.Opts))
	}
}

func genC01(tier string, emit func(any)) {
	names := []string{"a", "b", "e", "a'", "a0", "i", "ia", "s", "t", "k"}
	maxLen := 2
	if tier == "thorough" {
		names = append(names, "i0", "c")
		maxLen = 3
	}
	var seqs [][]string
	kit.Seqs(names, maxLen, func(s []string) { seqs = append(seqs, s) })
	for _, l := range []string{"L127", "L128", "L16383", "L16384"} {
		seqs = append(seqs, []string{l}, []string{"e", l, "a"})
	}
	if tier == "thorough" {
		seqs = append(seqs, []string{"L2097151"}, []string{"L2097152", "a"})
	}
	// one archive that exceeds every internal buffer and batch size (bufio 4 KiB, loader batches of 1000)
	big := kit.ManyNames(1100)
	for _, o := range []drv.Opts{{V1: true}, {}, {DataPad: 7, IndexPad: 3, Codec: "sorted", AllowDup: true}} {
		emit(C01Case{Roots: "a", Seq: append([]string{"a"}, big...), Opts: o})
	}
	type cont struct {
		v1     bool
		dp, ip uint64
		codec  string
	}
	conts := []cont{{v1: true}, {}, {dp: 1, ip: 1, codec: "sorted"}, {dp: 1413, ip: 7}, {dp: 7, ip: 0, codec: "sorted"}}
	type dd struct{ whole, dup, sid bool }
	dds := []dd{{}, {sid: true}, {whole: true}, {dup: true, sid: true}, {whole: true, dup: true}, {whole: true, sid: true}}
	for _, sq := range seqs {
		for ri, rs := range kit.RootSetOrder {
			for ci, ct := range conts {
				for di, d := range dds {
					// full product for the first two root sets; other root sets with the first
					// two containers and de-dup settings only
					if ri >= 2 && (ci >= 2 || di >= 2) {
						continue
					}
					emit(C01Case{Roots: rs, Seq: sq, Opts: drv.Opts{V1: ct.v1, DataPad: ct.dp, IndexPad: ct.ip, Codec: ct.codec, Whole: d.whole, AllowDup: d.dup, StoreID: d.sid}})
				}
			}
		}
	}
}

func init() {
	kit.Register(&kit.Prop{
		ID:     "C01",
		Gen:    genC01,
		Run:    runC01,
		Decode: kit.DecodeAs[C01Case],
		Rule: "every (root list, block sequence up to the bound, de-dup/identity options, container) is written by every applicable writer " +
			"(blockstore Put and PutMany, storage ReadableWritable/Writable/stream, deferred path/stream, root-module header+LdWrite) and each distinct output is read by every reader " +
			"(BlockReader over bytes/stream/file incl. SkipNext, Reader.DataReader, root CarReader/LoadCar, internal carv1 reader/loader, ReadOnly blockstore x3, OpenReadable x2); " +
			"non-trivial = >=2 stored blocks or de-duplication fired",
		Bound: func(tier string) map[string]any {
			if tier == "thorough" {
				return map[string]any{"seq_len": 3, "alphabet": 12, "root_sets": len(kit.RootSetOrder), "containers": 5, "dedup_configs": 6}
			}
			return map[string]any{"seq_len": 2, "alphabet": 10, "root_sets": len(kit.RootSetOrder), "containers": 5, "dedup_configs": 6}
		},
		Assumptions: []string{"refcar (reference codec) is correct", "values outside the alphabet are not covered"},
	})
}
