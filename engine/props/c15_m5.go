package props

// C15 size classes: the lengths that decide how wide a varint length prefix is.
//
// Every announced size and every reported offset of the traversal writers is a sum of "varint width + length" terms
// (one per section, one for the header). The DAGs of the core matrix have sections of 37..~400 bytes and headers of
// 58..~100 bytes only, so a sizing rule that is wrong at another width boundary is not seen there. This file adds
//
//	(A) one node of a 3-node DAG padded so that its section (CID bytes + data) has every length in B-40..B+40 for each
//	    boundary B of the varint width that a legal section can reach (2^7, 2^14, 2^21), as root / middle / last block,
//	(B) the header body length swept over B-40..B+40 for B = 2^7, 2^14 (number of roots x an identity-CID root of
//	    variable length).
//
// The margin 40 is larger than the longest CID used here (36 bytes): a rule that takes the width of the data length
// instead of that of CID + data is wrong exactly for the sections of B..B+35 bytes, and one that forgets the CID on the
// other side for B-36..B-1.

import (
	"fmt"
	"os"
	"runtime/debug"

	"verif/drv"
	"verif/refcar"
)

const c15Margin = 40

// c15Fill: n deterministic bytes.
func c15Fill(id, n int) []byte {
	b := make([]byte, n)
	for i := 0; i < n && i < 1<<16; i++ {
		b[i] = byte(id*37 + i + i>>8)
	}
	for i := 1 << 16; i < n; i *= 2 { // the pattern has period 2^16
		copy(b[i:], b[:i])
	}
	return b
}

func c15CborHeadLen(n int) int {
	switch {
	case n < 24:
		return 1
	case n < 1<<8:
		return 2
	case n < 1<<16:
		return 3
	}
	return 5
}

func c15CborHead(major byte, n int) []byte {
	m := major << 5
	switch {
	case n < 24:
		return []byte{m | byte(n)}
	case n < 1<<8:
		return []byte{m | 24, byte(n)}
	case n < 1<<16:
		return []byte{m | 25, byte(n >> 8), byte(n)}
	}
	return []byte{m | 26, byte(n >> 24), byte(n >> 16), byte(n >> 8), byte(n)}
}

// c15CborPlan: a dag-cbor node {a: link, b: link, ..., p: bytes(pad), z: int} of exactly dataLen bytes. The byte string
// header grows at 24 / 256 / 65536, which leaves a one-byte hole each time; the hole is filled by an id that needs a
// two-byte integer (wide).
func c15CborPlan(linkLens []int, dataLen int) (pad int, wide, ok bool) {
	fixed := 1 + 2 + 2 + 1 // map head, key p, key z, one-byte z
	for _, l := range linkLens {
		fixed += 2 + 2 + 2 + 1 + l
	}
	for _, w := range []int{0, 1} {
		rem := dataLen - fixed - w
		for _, h := range []int{1, 2, 3, 5} {
			p := rem - h
			if p >= 0 && c15CborHeadLen(p) == h {
				return p, w == 1, true
			}
		}
	}
	return 0, false, false
}

func c15NodeSized(id int, links [][]byte, dataLen int) []byte {
	var ll []int
	for _, l := range links {
		ll = append(ll, len(l))
	}
	pad, wide, ok := c15CborPlan(ll, dataLen)
	if !ok {
		panic(fmt.Sprintf("c15: no dag-cbor node of %d bytes with links %v", dataLen, ll))
	}
	b := make([]byte, 0, dataLen)
	b = append(b, 0xa0|byte(len(links)+2))
	for i, l := range links {
		b = append(b, 0x61, byte('a'+i))
		b = append(b, 0xd8, 0x2a)
		b = append(b, 0x58, byte(len(l)+1), 0x00)
		b = append(b, l...)
	}
	b = append(b, 0x61, 'p')
	b = append(b, c15CborHead(2, pad)...)
	b = append(b, c15Fill(id, pad)...)
	b = append(b, 0x61, 'z')
	if wide {
		b = append(b, 0x18, byte(id+100))
	} else {
		b = append(b, byte(id))
	}
	if len(b) != dataLen {
		panic("c15: dag-cbor sizing")
	}
	return b
}

// c15PBPlan: a dag-pb node (links, then Data of n >= 1 bytes) of exactly dataLen bytes. The varint of the Data length
// leaves a one-byte hole at each width step; with links the hole is filled by a two-letter name of the first link, a
// leaf cannot reach it.
func c15PBPlan(linkLens []int, dataLen int) (n int, longName, ok bool) {
	fixed := 1 // Data tag
	for _, l := range linkLens {
		fixed += 2 + 2 + l + 3 + 2
	}
	for _, w := range []int{0, 1} {
		if w == 1 && len(linkLens) == 0 {
			break
		}
		rem := dataLen - fixed - w
		for h := 1; h <= 4; h++ {
			n := rem - h
			if n >= 1 && refcar.UvarintSize(uint64(n)) == h {
				return n, w == 1, true
			}
		}
	}
	return 0, false, false
}

func c15PBNodeSized(id int, links [][]byte, dataLen int) []byte {
	var ll []int
	for _, l := range links {
		ll = append(ll, len(l))
	}
	n, longName, ok := c15PBPlan(ll, dataLen)
	if !ok {
		panic(fmt.Sprintf("c15: no dag-pb node of %d bytes with links %v", dataLen, ll))
	}
	b := make([]byte, 0, dataLen)
	for i, l := range links {
		var lb []byte
		lb = append(lb, 0x0a, byte(len(l)))
		lb = append(lb, l...)
		if i == 0 && longName {
			lb = append(lb, 0x12, 0x02, 'a', 'a')
		} else {
			lb = append(lb, 0x12, 0x01, byte('a'+i))
		}
		lb = append(lb, 0x18, 0x00)
		b = append(b, 0x12, byte(len(lb)))
		b = append(b, lb...)
	}
	b = append(b, 0x0a)
	b = append(b, refcar.PutUvarint(uint64(n))...)
	data := c15Fill(id, n)
	data[0] = byte(id)
	b = append(b, data...)
	if len(b) != dataLen {
		panic("c15: dag-pb sizing")
	}
	return b
}

// c15CidLen: the CID length of node i (size classes use the node's own codec and the 100-byte-class raw leaf only).
func c15CidLen(cs C15Case, i int) int {
	if i == cs.N-1 && cs.N > 1 && cs.leafKind() != "" {
		if cs.leafKind() == "raw" {
			return 36
		}
		return -1
	}
	if cs.Codec == "pb" {
		return 34
	}
	return 36
}

// c15BigLinkLens: the lengths of the link CIDs held by node i, in field order.
func c15BigLinkLens(cs C15Case, i int) []int {
	var out []int
	k := 0
	for a := 0; a < cs.N; a++ {
		for b := a + 1; b < cs.N; b++ {
			if a == i {
				for m := 0; m < cs.Mult[k]; m++ {
					out = append(out, c15CidLen(cs, b))
				}
			}
			k++
		}
	}
	return out
}

// c15SizedReachable: some encoding of node Big-1 has a section of exactly Sect bytes.
func c15SizedReachable(cs C15Case) bool {
	i := cs.Big - 1
	cl := c15CidLen(cs, i)
	if cl < 0 {
		return false
	}
	dataLen := cs.Sect - cl
	if dataLen < 0 {
		return false
	}
	if i == cs.N-1 && cs.N > 1 && cs.leafKind() == "raw" {
		return true
	}
	ll := c15BigLinkLens(cs, i)
	for _, l := range ll {
		if l < 0 {
			return false
		}
	}
	var ok bool
	if cs.Codec == "pb" {
		_, _, ok = c15PBPlan(ll, dataLen)
	} else {
		_, _, ok = c15CborPlan(ll, dataLen)
	}
	return ok
}

func c15SizedData(cs C15Case, special string, i int, links [][]byte) []byte {
	cl := c15CidLen(cs, i)
	if cl < 0 || cs.Sect < cl {
		panic(fmt.Sprintf("c15: node %d cannot be given a section of %d bytes", i, cs.Sect))
	}
	dataLen := cs.Sect - cl
	switch {
	case special == "raw":
		return c15Fill(i, dataLen)
	case special != "":
		panic("c15: size class on a leaf kind that has a fixed length")
	case cs.Codec == "pb":
		return c15PBNodeSized(i, links, dataLen)
	}
	return c15NodeSized(i, links, dataLen)
}

// c15HeaderBodyLen: length of the CARv1 header body {roots: [...], version: 1} for roots of the given CID lengths.
func c15HeaderBodyLen(cidLens []int) int {
	n := 1 + 6 + c15CborHeadLen(len(cidLens)) + 8 + 1
	for _, l := range cidLens {
		n += 2 + c15CborHeadLen(l+1) + 1 + l
	}
	return n
}

func c15IdentCidLen(dataLen int) int {
	return 3 + refcar.UvarintSize(uint64(dataLen)) + dataLen
}

// c15SectBoundaries: the section lengths at which the width of the length prefix changes and which a legal section
// can reach (2^28 is above the 32 MiB that go-car's readers accept for a section; it is not explored).
var c15SectBoundaries = []int{1 << 7, 1 << 14, 1 << 21}

// c15HeaderBoundaries: the same for the header body (2^21 would need ~51000 roots; not explored).
var c15HeaderBoundaries = []int{1 << 7, 1 << 14}

func genC15Sized(tier string, emit func(any)) {
	thorough := tier == "thorough"
	v2writers := []string{"v2-selective", "v2-traversev1", "v2-tofile"}
	type pc struct {
		dp, ip uint64
		codec  string
		noidx  bool
	}
	pcs := []pc{{}, {dp: 3, ip: 2, codec: "sorted"}, {noidx: true}}
	popts := func(p pc, dup bool) drv.Opts {
		return drv.Opts{AllowDup: dup, DataPad: p.dp, IndexPad: p.ip, Codec: p.codec, NoIndex: p.noidx}
	}
	// every entry point of the statement; root module: link-visit-once on/off, Prepare+Dump with one and two callbacks;
	// v2: paddings / index codec / no index; AllowDuplicatePuts in the thorough tier
	emitWriters := func(base C15Case, multiRoot, reduced bool) {
		if reduced {
			// one configuration per entry point
			for _, c := range []C15Case{
				{Writer: "v1-writecar"},
				{Writer: "v1-selective", Once: true},
				{Writer: "v1-prepare-dump"},
				{Writer: "v2-selective"},
				{Writer: "v2-traversev1"},
				{Writer: "v2-tofile", Opts: popts(pcs[1], false)},
			} {
				cs := base
				cs.Writer, cs.Once, cs.Opts = c.Writer, c.Once, c.Opts
				emit(cs)
			}
			return
		}
		cs := base
		cs.Writer = "v1-writecar"
		emit(cs)
		for _, once := range []bool{false, true} {
			cs := base
			cs.Writer, cs.Once = "v1-selective", once
			emit(cs)
			for _, cbs := range []string{"", "two"} {
				cs := base
				cs.Writer, cs.Once, cs.Cbs = "v1-prepare-dump", once, cbs
				emit(cs)
			}
		}
		if multiRoot {
			return // the v2 writers take one root
		}
		for _, w := range v2writers {
			for _, p := range pcs {
				for _, dup := range []bool{false, true} {
					if dup && !thorough {
						continue
					}
					cs := base
					cs.Writer, cs.Opts = w, popts(p, dup)
					emit(cs)
				}
			}
		}
	}

	// (A) section lengths. 3-node DAGs: fan 0->{1,2}, chain 0->1->2, diamond 0->{1,2}, 1->2; dag-cbor/CIDv1 or
	// dag-pb/CIDv0 with the last node of the same codec or raw; the padded node is the root (a block follows at once),
	// the middle one (a block before and after) or the last (nothing after it). explore-all selector.
	type variant struct {
		codec string
		raw   bool
	}
	variants := []variant{{"", false}, {"", true}, {"pb", false}, {"pb", true}}
	shapes := [][]int{{1, 1, 0}, {1, 0, 1}, {1, 1, 1}}
	restoreGC := func() {}
	for _, b := range c15SectBoundaries {
		vs, ss := variants, shapes
		// 2 MiB blocks: the fan with a raw last node (dag-cbor) and with a dag-pb last node; quick tier: one
		// configuration per entry point; thorough tier: every configuration, and the other shapes / variants with one
		// configuration per entry point
		heavy := b >= 1<<21
		if heavy && !thorough {
			vs, ss = []variant{{"", true}, {"pb", false}}, shapes[:1]
		}
		if b >= 1<<21 && os.Getenv("GOGC") == "" {
			// the runner's GC setting (800%, made for many small allocations) lets the heap grow to several GB while
			// every worker holds a few copies of a 2 MiB block; the generator is at most a few dozen cases ahead of
			// the workers, so the setting is switched for about the duration of these cases
			old := debug.SetGCPercent(100)
			restoreGC = func() { debug.SetGCPercent(old) }
		}
		for si, shape := range ss {
			for _, v := range vs {
				for big := 1; big <= 3; big++ {
					for sect := b - c15Margin; sect <= b+c15Margin; sect++ {
						base := C15Case{N: 3, Mult: shape, Codec: v.codec, RawLeaf: v.raw, Sel: "all", Big: big, Sect: sect}
						if !c15SizedReachable(base) {
							continue
						}
						reduced := heavy && (!thorough || !(si == 0 && (v == variant{"", true} || v == variant{"pb", false})))
						emitWriters(base, false, reduced)
					}
				}
			}
		}
	}
	restoreGC()

	// (B) header lengths.
	// the arithmetic of c15HeaderBodyLen is checked against the reference encoder for every emitted case
	checkLen := func(cidLens []int, h int) {
		var roots [][]byte
		for _, l := range cidLens {
			roots = append(roots, make([]byte, l))
		}
		if got := len(refcar.EncodeHeaderBody(roots, false, 1)); got != h {
			panic(fmt.Sprintf("c15: header body of roots %v has %d bytes, computed %d", cidLens, got, h))
		}
	}
	// root module: Dags = (1+dup0) x node 0 of the 2-node DAG 0->leaf, then the identity-CID leaf of identLen data bytes
	for _, codec := range []string{"", "pb"} {
		c0 := 36
		if codec == "pb" {
			c0 = 34
		}
		lens := func(dup0, identLen int) []int {
			var ls []int
			for i := 0; i <= dup0; i++ {
				ls = append(ls, c0)
			}
			return append(ls, c15IdentCidLen(identLen))
		}
		for _, b := range c15HeaderBoundaries {
			for h := b - c15Margin; h <= b+c15Margin; h++ {
				found := false
				for dup0 := 0; dup0 <= (b+c15Margin)/(c0+5) && !found; dup0++ {
					for identLen := 1; identLen <= 64 && !found; identLen++ {
						if c15HeaderBodyLen(lens(dup0, identLen)) != h {
							continue
						}
						found = true
						checkLen(lens(dup0, identLen), h)
						base := C15Case{N: 2, Mult: []int{1}, Codec: codec, Leaf: "ident", IdentLen: identLen, Sel: "all", Dup0: dup0, Root2: 2}
						emitWriters(base, true, false)
					}
				}
			}
		}
	}
	// every writer: the identity-CID leaf alone, as the only root
	for identLen := 1; identLen <= 1<<14+c15Margin; identLen++ {
		h := c15HeaderBodyLen([]int{c15IdentCidLen(identLen)})
		near := false
		for _, b := range c15HeaderBoundaries {
			near = near || (h >= b-c15Margin && h <= b+c15Margin)
		}
		if !near {
			continue
		}
		checkLen([]int{c15IdentCidLen(identLen)}, h)
		emitWriters(C15Case{N: 1, Mult: []int{}, Leaf: "ident", IdentLen: identLen, Sel: "all"}, false, false)
	}
}
