package props

import (
	"bytes"
	"fmt"
	"os"
	"path/filepath"
	"sort"
	"strings"

	"github.com/ipld/go-car/cmd/car/lib"
	carv2 "github.com/ipld/go-car/v2"

	"verif/drv"
	"verif/kit"
	"verif/model"
	"verif/refcar"
)

// C05Case is one finalized writing session.
type C05Case struct {
	Roots  string   `json:"roots"`
	Seq    []string `json:"seq"`
	Opts   drv.Opts `json:"opts"`
	Writer string   `json:"writer"`
}

func modelCfg(o drv.Opts) model.Cfg {
	return model.Cfg{Whole: o.Whole, AllowDup: o.AllowDup, StoreID: o.StoreID, MaxCid: o.MaxCid}
}

func recKey(codec uint64, r refcar.IndexRecord) string {
	if codec == refcar.CodecIndexSorted {
		return fmt.Sprintf("%x@%d", r.Digest, r.Offset)
	}
	return fmt.Sprintf("%x:%x@%d", r.MhCode, r.Digest, r.Offset)
}

func recMultiset(codec uint64, rs []refcar.IndexRecord) string {
	var l []string
	for _, r := range rs {
		l = append(l, recKey(codec, r))
	}
	sort.Strings(l)
	return strings.Join(l, ",")
}

func codecNum(o drv.Opts) uint64 {
	if o.Codec == "sorted" {
		return refcar.CodecIndexSorted
	}
	return refcar.CodecMhIndexSorted
}

// checkFinalized applies the C05 oracle to the bytes of a finalized session.
func checkFinalized(x *kit.Ctx, file []byte, rootRaws [][]byte, nilRoots bool, stored []refcar.Block, o drv.Opts, v1 bool, tag string) {
	wantPayload := refcar.EncodeV1(rootRaws, nilRoots, stored)
	if v1 {
		if !bytes.Equal(file, wantPayload) {
			x.Fail("c05:v1-bytes:"+tag, "CARv1-mode output differs from header(roots)++stored sections: got %d bytes %x want %d bytes %x", len(file), clip(file), len(wantPayload), clip(wantPayload))
		}
		return
	}
	f, err := refcar.DecodeFile(file, false)
	if err != nil {
		x.Fail("c05:strict-decode:"+tag, "finalized file is not well-formed: %v (file %x)", err, clip(file))
		return
	}
	if f.Version != 2 {
		x.Fail("c05:no-pragma:"+tag, "finalized file does not start with the CARv2 pragma")
		return
	}
	if f.V2.DataOffset != 51+o.DataPad {
		x.Fail("c05:data-offset:"+tag, "DataOffset=%d want %d", f.V2.DataOffset, 51+o.DataPad)
	}
	if f.V2.DataSize != uint64(len(wantPayload)) {
		x.Fail("c05:data-size:"+tag, "DataSize=%d want %d", f.V2.DataSize, len(wantPayload))
	}
	if !bytes.Equal(f.PayloadRaw, wantPayload) {
		x.Fail("c05:payload:"+tag, "payload differs from header(roots)++stored sections in put order: got %x want %x", clip(f.PayloadRaw), clip(wantPayload))
		return
	}
	if !f.HasIndex {
		x.Fail("c05:no-index:"+tag, "finalized file has no index")
		return
	}
	if f.V2.IndexOffset != f.V2.DataOffset+f.V2.DataSize+o.IndexPad {
		x.Fail("c05:index-offset:"+tag, "IndexOffset=%d want %d", f.V2.IndexOffset, f.V2.DataOffset+f.V2.DataSize+o.IndexPad)
	}
	if f.IndexCodec != codecNum(o) {
		x.Fail("c05:index-codec:"+tag, "index codec 0x%x want 0x%x", f.IndexCodec, codecNum(o))
	}
	want := refcar.RecordsOf(f.Payload, o.StoreID)
	if got, w := recMultiset(f.IndexCodec, f.Index), recMultiset(f.IndexCodec, want); got != w {
		x.Fail("c05:index-records:"+tag, "index does not resolve exactly the stored sections: got {%s} want {%s}", got, w)
	}
	if f.V2.FullyIndexed() != o.StoreID {
		x.Fail("c05:fully-indexed:"+tag, "fully-indexed flag=%v want %v", f.V2.FullyIndexed(), o.StoreID)
	}
	if f.V2.CharLo != 0 || f.V2.CharHi&^(1<<7) != 0 {
		x.Fail("c05:characteristics:"+tag, "unexpected characteristics bits %x %x", f.V2.CharHi, f.V2.CharLo)
	}
}

func clip(b []byte) []byte {
	if len(b) > 160 {
		return b[:160]
	}
	return b
}

// checkAccepted: the library's own inspection accepts, and its verifier when roots are stored.
func checkAccepted(x *kit.Ctx, file []byte, rootRaws [][]byte, stored []refcar.Block, tag string) {
	rd, err := carv2.NewReader(bytes.NewReader(file))
	if err != nil {
		x.Fail("c05:inspect-open:"+tag, "NewReader rejects finalized file: %v", err)
		return
	}
	st, err := rd.Inspect(true)
	if err != nil {
		x.Fail("c05:inspect:"+tag, "Inspect(true) rejects finalized file: %v", err)
		return
	}
	if st.BlockCount != uint64(len(stored)) {
		x.Fail("c05:inspect-count:"+tag, "Inspect counts %d blocks, stored %d", st.BlockCount, len(stored))
	}
	if len(rootRaws) == 0 {
		return
	}
	for _, r := range rootRaws {
		found := false
		for _, s := range stored {
			if bytes.Equal(s.Cid, r) {
				found = true
			}
		}
		if !found {
			return
		}
	}
	p := filepath.Join(x.Dir, "verify.car")
	if err := os.WriteFile(p, file, 0o644); err != nil {
		panic(err)
	}
	defer os.Remove(p)
	if err := lib.VerifyCar(p); err != nil {
		x.Fail("c05:verify:"+tag, "VerifyCar rejects a finalized file whose roots are all stored: %v", err)
	}
}

func runC05(c any, x *kit.Ctx) {
	cs := c.(C05Case)
	roots, rootRaws, nilRoots := kit.Roots(cs.Roots)
	blks := kit.Bs(cs.Seq)
	m := &model.Map{Cfg: modelCfg(cs.Opts)}
	var wantErr []bool
	deduped := false
	for _, b := range blks {
		r := m.Put(b)
		wantErr = append(wantErr, r == model.PutTooLarge)
		if r == model.PutSkipped {
			deduped = true
		}
	}
	if strings.HasPrefix(cs.Writer, "def-") && len(blks) == 0 {
		return // nothing is created before the first Put (C20)
	}
	res, err := drv.Write(cs.Writer, x.Dir, roots, blks, cs.Opts)
	x.Eval(1)
	x.Transition(len(blks) + 2)
	if err != nil {
		x.Fail("c05:open:"+cs.Writer, "writer construction failed: %v", err)
		return
	}
	if res.ManyErr != nil {
		x.Fail("c05:putmany-error", "PutMany failed: %v", res.ManyErr)
		return
	}
	for i, e := range res.PutErrs {
		if (e != nil) != wantErr[i] {
			x.Fail("c05:put-error", "Put #%d (%s) returned %v, model expects error=%v", i, cs.Seq[i], e, wantErr[i])
			return
		}
	}
	if res.FinErr != nil {
		x.Fail("c05:finalize-error:"+cs.Writer, "Finalize failed: %v", res.FinErr)
		return
	}
	v1 := cs.Opts.V1 || drv.V1Only(cs.Writer)
	tag := "v2"
	if v1 {
		tag = "v1"
	}
	stored := m.RefBlocks()
	checkFinalized(x, res.Bytes, rootRaws, nilRoots, stored, cs.Opts, v1, tag)
	if !x.Failed() {
		checkAccepted(x, res.Bytes, rootRaws, stored, tag)
	}
	x.State(fmt.Sprintf("%x", res.Bytes))
	x.Outcome(fmt.Sprintf("%s stored=%d", tag, len(stored)))
	if deduped || len(stored) >= 2 {
		x.Nontrivial(fmt.Sprintf("%v|%v|%+v", cs.Roots, cs.Seq, cs.Opts))
	}
}

func genC05(tier string, emit func(any)) {
	names := []string{"a", "b", "e", "a'", "a0", "i", "ia", "s", "t"}
	maxLen := 2
	dps := []uint64{0, 1, 1413}
	ips := []uint64{0, 1, 7}
	rootsets := []string{"a", "nil", "ab"}
	if tier == "thorough" {
		names = append(names, "k", "i0", "ip1", "ip2")
		maxLen = 3
		rootsets = []string{"a", "nil", "empty", "ab", "a0"}
	}
	var seqs [][]string
	kit.Seqs(names, maxLen, func(s []string) { seqs = append(seqs, s) })
	for _, l := range []string{"L127", "L128", "L16383", "L16384"} {
		seqs = append(seqs, []string{l}, []string{"a", l, "b"})
	}
	if tier == "thorough" {
		seqs = append(seqs, []string{"L2097151"}, []string{"L2097152", "a"})
	}
	writers := []string{"bs", "st-rw", "st-w", "def-path", "bsmany"}
	for _, sq := range seqs {
		for ri, rs := range rootsets {
			// all paddings/codecs with the first root set; other root sets with a reduced matrix
			for _, dp := range dps {
				for _, ip := range ips {
					if ri > 0 && (dp == 1 || ip == 1) {
						continue
					}
					for _, codec := range []string{"", "sorted"} {
						for _, sid := range []bool{false, true} {
							for _, w := range writers {
								if w == "bsmany" && (ri > 0 || dp != 0 || ip != 0) {
									continue
								}
								emit(C05Case{Roots: rs, Seq: sq, Opts: drv.Opts{DataPad: dp, IndexPad: ip, Codec: codec, StoreID: sid}, Writer: w})
							}
						}
					}
				}
			}
			// CARv1 mode (paddings and codec are irrelevant but one non-zero set is kept)
			for _, sid := range []bool{false, true} {
				for _, w := range []string{"bs", "st-rw", "st-w", "st-stream", "def-path", "def-stream"} {
					emit(C05Case{Roots: rs, Seq: sq, Opts: drv.Opts{V1: true, StoreID: sid}, Writer: w})
				}
				emit(C05Case{Roots: rs, Seq: sq, Opts: drv.Opts{V1: true, StoreID: sid, DataPad: 7, IndexPad: 3}, Writer: "bs"})
			}
			// de-duplication options
			for _, whole := range []bool{false, true} {
				for _, dup := range []bool{false, true} {
					if !whole && !dup {
						continue
					}
					for _, w := range []string{"bs", "st-rw"} {
						emit(C05Case{Roots: rs, Seq: sq, Opts: drv.Opts{Whole: whole, AllowDup: dup, StoreID: true, DataPad: 1}, Writer: w})
						if tier == "thorough" {
							emit(C05Case{Roots: rs, Seq: sq, Opts: drv.Opts{Whole: whole, AllowDup: dup, Codec: "sorted"}, Writer: w})
						}
					}
				}
			}
		}
	}
}

func init() {
	kit.Register(&kit.Prop{
		ID:     "C05",
		Gen:    genC05,
		Run:    runC05,
		Decode: kit.DecodeAs[C05Case],
		Rule: "every put history up to the bound over the block alphabet x roots x data padding x index padding x index codec x StoreIdentityCIDs x WriteAsCarV1 x de-dup options x writer front-end; " +
			"each session is run on the real writer and its bytes are decoded by the independent reference decoder; non-trivial = history with >=2 stored blocks or in which de-duplication fired (distinct by history+options)",
		Bound: func(tier string) map[string]any {
			if tier == "thorough" {
				return map[string]any{"history_len": 3, "alphabet": 11, "data_padding": []int{0, 1, 1413}, "index_padding": []int{0, 1, 7}}
			}
			return map[string]any{"history_len": 2, "alphabet": 9, "data_padding": []int{0, 1, 1413}, "index_padding": []int{0, 1, 7}}
		},
		Assumptions: []string{"refcar (reference codec) is correct", "blocks outside the alphabet behave like some block inside it"},
	})
}
