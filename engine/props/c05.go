package props

import (
	"bytes"
	"fmt"
	"os"
	"path/filepath"
	"runtime"
	"sort"
	"strings"
	"sync/atomic"

	"github.com/ipfs/go-cid"
	"github.com/ipld/go-car/cmd/car/lib"
	carv2 "github.com/ipld/go-car/v2"
	"github.com/ipld/go-car/v2/blockstore"
	"github.com/ipld/go-car/v2/index"

	"verif/drv"
	"verif/kit"
	"verif/model"
	"verif/refcar"
)

// C05Case is one finalized writing session (library front-end or CLI producer).
type C05Case struct {
	Roots  string   `json:"roots"`
	Seq    []string `json:"seq"`
	Opts   drv.Opts `json:"opts"`
	Writer string   `json:"writer"`
	// Plan is the call plan of the session ("p" = Put of the next block, "m<k>" = PutMany of the
	// next k blocks, "|" = Finalize and resume); "" = one Put per block ("bsmany": one PutMany).
	Plan string `json:"plan,omitempty"`
	// Reads interleaves every read entry point of the front-end after each writing call.
	Reads bool `json:"reads,omitempty"`
	// CLI is set for the CLI producers (Writer = "cli").
	CLI *C05CLI `json:"cli,omitempty"`
}

// C05CLI selects one run of a CLI producer.
type C05CLI struct {
	Cmd    string `json:"cmd"`              // create | filter | get-dag
	V1     bool   `json:"v1,omitempty"`     // --version 1
	Tree   string `json:"tree,omitempty"`   // create: source tree
	NoWrap bool   `json:"nowrap,omitempty"` // create: --no-wrap
	Cont   string `json:"cont,omitempty"`   // filter, get-dag: input container (v1, v2, v2pad, v2noidx)
	Sel    string `json:"sel,omitempty"`    // filter: all | half | inverse | none
	Append string `json:"append,omitempty"` // filter: --append onto this pre-existing layout
	Start  string `json:"start,omitempty"`  // get-dag: "", root, sub, f1
	Order  string `json:"order,omitempty"`  // get-dag: "", root-first
}

func modelCfg(o drv.Opts) model.Cfg {
	return model.Cfg{Whole: o.Whole, AllowDup: o.AllowDup, StoreID: o.StoreID, MaxCid: o.MaxCid}
}

func recKey(codec uint64, r refcar.IndexRecord) string {
	if codec == refcar.CodecIndexSorted {
		return fmt.Sprintf("%x@%d", r.Digest, r.Offset)
	}
	return fmt.Sprintf("%x:%x@%d", r.MhCode, r.Digest, r.Offset)
}

func recMultiset(codec uint64, rs []refcar.IndexRecord) string {
	var l []string
	for _, r := range rs {
		l = append(l, recKey(codec, r))
	}
	sort.Strings(l)
	return strings.Join(l, ",")
}

func codecNum(o drv.Opts) uint64 {
	if o.Codec == "sorted" {
		return refcar.CodecIndexSorted
	}
	return refcar.CodecMhIndexSorted
}

// checkFinalized applies the C05 oracle to the bytes of a finalized session.
func checkFinalized(x *kit.Ctx, file []byte, rootRaws [][]byte, nilRoots bool, stored []refcar.Block, o drv.Opts, v1 bool, tag string) {
	wantPayload := refcar.EncodeV1(rootRaws, nilRoots, stored)
	if nilRoots && len(rootRaws) == 0 {
		// a nil roots argument means "no roots": the statement does not say whether the header
		// carries that as a CBOR null (what go-car writes today) or as an empty list
		if alt := refcar.EncodeV1(rootRaws, false, stored); bytes.Equal(payloadOf(file, v1), alt) {
			wantPayload = alt
			x.Outcome("beyond-statement:nil-roots-written-as-empty-list")
		}
	}
	if v1 {
		if !bytes.Equal(file, wantPayload) {
			x.Fail("c05:v1-bytes:"+tag, "CARv1-mode output differs from header(roots)++stored sections: got %d bytes %x want %d bytes %x", len(file), clip(file), len(wantPayload), clip(wantPayload))
		}
		return
	}
	f, err := refcar.DecodeFile(file, false)
	if err != nil {
		x.Fail("c05:strict-decode:"+tag, "finalized file is not well-formed: %v (file %x)", err, clip(file))
		return
	}
	if f.Version != 2 {
		x.Fail("c05:no-pragma:"+tag, "finalized file does not start with the CARv2 pragma")
		return
	}
	if f.V2.DataOffset != 51+o.DataPad {
		x.Fail("c05:data-offset:"+tag, "DataOffset=%d want %d", f.V2.DataOffset, 51+o.DataPad)
	}
	if f.V2.DataSize != uint64(len(wantPayload)) {
		x.Fail("c05:data-size:"+tag, "DataSize=%d want %d", f.V2.DataSize, len(wantPayload))
	}
	if !bytes.Equal(f.PayloadRaw, wantPayload) {
		x.Fail("c05:payload:"+tag, "payload differs from header(roots)++stored sections in put order: got %x want %x", clip(f.PayloadRaw), clip(wantPayload))
		return
	}
	if !f.HasIndex {
		x.Fail("c05:no-index:"+tag, "finalized file has no index")
		return
	}
	if f.V2.IndexOffset != f.V2.DataOffset+f.V2.DataSize+o.IndexPad {
		x.Fail("c05:index-offset:"+tag, "IndexOffset=%d want %d", f.V2.IndexOffset, f.V2.DataOffset+f.V2.DataSize+o.IndexPad)
	}
	if f.IndexCodec != codecNum(o) {
		x.Fail("c05:index-codec:"+tag, "index codec 0x%x want 0x%x", f.IndexCodec, codecNum(o))
	}
	want := refcar.RecordsOf(f.Payload, o.StoreID)
	if got, w := recMultiset(f.IndexCodec, f.Index), recMultiset(f.IndexCodec, want); got != w {
		x.Fail("c05:index-records:"+tag, "index does not resolve exactly the stored sections: got {%s} want {%s}", got, w)
	}
	if f.V2.FullyIndexed() != o.StoreID {
		x.Fail("c05:fully-indexed:"+tag, "fully-indexed flag=%v want %v", f.V2.FullyIndexed(), o.StoreID)
	}
	// beyond the statement (recorded, never a violation): the other characteristics bits and the
	// content of the padding, on which the statement is silent
	if f.V2.CharLo != 0 || f.V2.CharHi&^(1<<7) != 0 {
		x.Outcome("beyond-statement:characteristics-other-bits-set")
	}
	if f.DataPaddingNonZero {
		x.Outcome("beyond-statement:data-padding-nonzero")
	}
	if f.IndexPaddingNonZero {
		x.Outcome("beyond-statement:index-padding-nonzero")
	}
}

// wantPayloads lists the acceptable encodings of header(roots)++sections: one, or two when the
// session was given nil roots (CBOR null first, the empty list second).
func wantPayloads(rootRaws [][]byte, nilRoots bool, stored []refcar.Block) [][]byte {
	out := [][]byte{refcar.EncodeV1(rootRaws, nilRoots, stored)}
	if nilRoots && len(rootRaws) == 0 {
		out = append(out, refcar.EncodeV1(rootRaws, false, stored))
	}
	return out
}

// payloadOf is the CARv1 payload of a finalized file (the file itself in CARv1 mode; nil when a
// CARv2 file does not decode, which checkFinalized reports).
func payloadOf(file []byte, v1 bool) []byte {
	if v1 {
		return file
	}
	if f, err := refcar.DecodeFile(file, false); err == nil {
		return f.PayloadRaw
	}
	return nil
}

var c05Verifies int64

func clip(b []byte) []byte {
	if len(b) > 160 {
		return b[:160]
	}
	return b
}

// lookupKey is what the index codec keys a record by.
func lookupKey(codec uint64, mhCode uint64, digest []byte) string {
	if codec == refcar.CodecIndexSorted {
		return fmt.Sprintf("%x", digest)
	}
	return fmt.Sprintf("%x:%x", mhCode, digest)
}

func offsetsString(l []uint64) string {
	sort.Slice(l, func(i, j int) bool { return l[i] < l[j] })
	return fmt.Sprint(l)
}

// checkAccepted: the library's own inspection accepts the file and reads the same header as
// the reference decoder, the library's index reader resolves exactly the stored sections, and
// its verifier accepts when every root is stored.
func checkAccepted(x *kit.Ctx, file []byte, rootRaws [][]byte, stored []refcar.Block, storeID bool, tag string) {
	rd, err := carv2.NewReader(bytes.NewReader(file))
	if err != nil {
		x.Fail("c05:inspect-open:"+tag, "NewReader rejects finalized file: %v", err)
		return
	}
	st, err := rd.Inspect(true)
	if err != nil {
		x.Fail("c05:inspect:"+tag, "Inspect(true) rejects finalized file: %v", err)
		return
	}
	// The statement says that the inspection ACCEPTS the file; what its Stats report (and what a
	// read-only blockstore serves from the file) belongs to the reading properties: recorded only.
	if st.BlockCount != uint64(len(stored)) {
		x.Outcome("beyond-statement:inspect-count")
	}
	// the library's reading of the file against the reference decoder's
	var gotRoots [][]byte
	for _, r := range st.Roots {
		gotRoots = append(gotRoots, r.Bytes())
	}
	if !sameRoots(gotRoots, rootRaws) {
		x.Outcome("beyond-statement:inspect-roots")
	}
	f, derr := refcar.DecodeFile(file, false)
	if derr == nil {
		if st.Version != uint64(f.Version) {
			x.Outcome("beyond-statement:inspect-version")
		}
		if f.Version == 2 {
			h := st.Header
			if h.DataOffset != f.V2.DataOffset || h.DataSize != f.V2.DataSize || h.IndexOffset != f.V2.IndexOffset || h.Characteristics.IsFullyIndexed() != f.V2.FullyIndexed() {
				x.Outcome("beyond-statement:inspect-header")
			}
			if f.HasIndex && uint64(st.IndexCodec) != f.IndexCodec {
				x.Outcome("beyond-statement:inspect-codec")
			}
		}
		if f.Version == 2 && f.HasIndex {
			checkLibraryIndex(x, file, rd, f, storeID, tag)
		}
	}
	if len(rootRaws) == 0 {
		return
	}
	for _, r := range rootRaws {
		found := false
		for _, s := range stored {
			if bytes.Equal(s.Cid, r) {
				found = true
			}
		}
		if !found {
			return
		}
	}
	p := filepath.Join(x.Dir, "verify.car")
	if err := os.WriteFile(p, file, 0o644); err != nil {
		panic(err)
	}
	defer os.Remove(p)
	err = lib.VerifyCar(p)
	// lib.VerifyCar never closes the second descriptor it opens (it is reclaimed by the
	// os.File finalizer only); with the relaxed GC setting of the runner the descriptors of
	// many small cases can outlive the process limit, so collect every so often
	if atomic.AddInt64(&c05Verifies, 1)%1000 == 0 {
		runtime.GC()
	}
	if err != nil {
		x.Fail("c05:verify:"+tag, "VerifyCar rejects a finalized file whose roots are all stored: %v", err)
	}
}

// checkLibraryIndex reads the written index with the library (index.ReadFrom + GetAll, and a
// read-only blockstore on the file) and requires it to resolve exactly the stored sections.
func checkLibraryIndex(x *kit.Ctx, file []byte, rd *carv2.Reader, f *refcar.File, storeID bool, tag string) {
	ir, err := rd.IndexReader()
	if err != nil {
		x.Fail("c05:lib-index-open:"+tag, "IndexReader on the finalized file: %v", err)
		return
	}
	idx, err := index.ReadFrom(ir)
	if err != nil {
		x.Fail("c05:lib-index-read:"+tag, "index.ReadFrom rejects the written index: %v", err)
		return
	}
	if uint64(idx.Codec()) != f.IndexCodec {
		x.Fail("c05:lib-index-codec:"+tag, "index.ReadFrom yields codec 0x%x, the file says 0x%x", uint64(idx.Codec()), f.IndexCodec)
	}
	wantBy := map[string][]uint64{}
	for _, r := range refcar.RecordsOf(f.Payload, storeID) {
		k := lookupKey(f.IndexCodec, r.MhCode, r.Digest)
		wantBy[k] = append(wantBy[k], r.Offset)
	}
	ro, roErr := blockstore.NewReadOnly(bytes.NewReader(file), nil, carv2.UseWholeCIDs(true), carv2.StoreIdentityCIDs(storeID))
	if roErr != nil {
		x.Outcome("beyond-statement:lib-open-readonly")
	}
	done := map[string]bool{}
	for _, s := range f.Payload.Sections {
		if s.Info.MhCode == refcar.MhIdentity && !storeID {
			continue
		}
		if done[string(s.Cid)] {
			continue
		}
		done[string(s.Cid)] = true
		c, err := cid.Cast(s.Cid)
		if err != nil {
			panic(err)
		}
		var got []uint64
		gerr := idx.GetAll(c, func(o uint64) bool { got = append(got, o); return true })
		want := append([]uint64{}, wantBy[lookupKey(f.IndexCodec, s.Info.MhCode, s.Info.Digest)]...)
		if gerr != nil || offsetsString(got) != offsetsString(want) {
			x.Fail("c05:lib-index-getall:"+tag, "the library resolves CID %x through the written index to offsets %v (err %v), the stored sections with that key lie at %v", s.Cid, got, gerr, want)
		}
		if roErr == nil {
			blk, err := ro.Get(drv.Ctx, c)
			if err != nil || !bytes.Equal(blk.RawData(), s.Data) {
				x.Outcome("beyond-statement:lib-get")
			}
		}
	}
}

// c05Expect is the model's expectation of one session.
type c05Expect struct {
	callErr []bool // per writing call: an error is expected
	// errOK: per writing call, an error that the model does not expect is tolerated (and was
	// returned): the batch holds a block that the documented rules do not store anyway
	errOK   []bool
	cands   []*model.Map // possible final stores (more than one only after a refused call)
	gen1    *model.Map   // resumed kinds: the store at the end of the first generation
	deduped bool
}

func cloneMap(m *model.Map) *model.Map {
	return &model.Map{Cfg: m.Cfg, Stored: append([]kit.Blk{}, m.Stored...)}
}

func storedKey(m *model.Map) string {
	var sb strings.Builder
	for _, s := range m.Stored {
		sb.WriteString(s.Name)
		sb.WriteByte(',')
	}
	return sb.String()
}

// c05Model runs the plan on the reference model. Put of an over-long CID fails and stores
// nothing. A PutMany batch holding an over-long CID fails; which of the batch's other blocks
// it stores is not documented, so "those before the refused one", "none of the batch" and
// "all but the refused ones" are accepted.
//
// gotErr (nil = unknown) tells which calls of the real session returned an error. The statement
// speaks of the finalized file, not of return values: a call that returns an error although the
// model expects none is tolerated when its batch holds a block that the documented rules do not
// store anyway (an identity CID without StoreIdentityCIDs, a duplicate): the writer may have
// refused THAT block. What the call stored is then, as for a refused PutMany, the batch up to
// such a block, none of it, or all of it; the final file decides among the candidates.
func c05Model(cfg model.Cfg, blks []kit.Blk, steps []drv.PlanStep, split int, gotErr []bool) *c05Expect {
	e := &c05Expect{cands: []*model.Map{{Cfg: cfg}}}
	pos := 0
	for si, s := range steps {
		if si == split {
			e.gen1 = cloneMap(e.cands[0])
		}
		batch := blks[pos : pos+s.N]
		pos += s.N
		var next []*model.Map
		seen := map[string]bool{}
		add := func(m *model.Map) {
			if k := storedKey(m); !seen[k] {
				seen[k] = true
				next = append(next, m)
			}
		}
		returned := si < len(gotErr) && gotErr[si]
		wantErr, errOK := false, false
		for _, c := range e.cands {
			before := cloneMap(c)
			cont := cloneMap(c)        // the batch with only the refused blocks left out
			var atSkipped []*model.Map // the batch up to a block that is not stored anyway
			failed := false
			for _, b := range batch {
				cont.Put(b)
				if failed {
					continue
				}
				switch c.Put(b) {
				case model.PutTooLarge:
					failed = true
				case model.PutSkipped:
					e.deduped = true
					atSkipped = append(atSkipped, cloneMap(c))
				}
			}
			add(c)
			if failed {
				wantErr = true
				if s.Many {
					add(before)
					add(cont)
				}
			} else if returned && len(atSkipped) > 0 {
				errOK = true
				for _, m := range atSkipped {
					add(m)
				}
				add(before)
			}
		}
		e.cands = next
		e.callErr = append(e.callErr, wantErr)
		e.errOK = append(e.errOK, errOK && !wantErr)
	}
	if split == len(steps) {
		e.gen1 = cloneMap(e.cands[0])
	}
	return e
}

// sessionOf maps the case to the driver's kind and plan.
func (cs C05Case) sessionOf() (kind string, steps []drv.PlanStep, split int, err error) {
	kind = cs.Writer
	steps, split, err = drv.ParsePlan(cs.Plan)
	if err != nil {
		return
	}
	if cs.Writer == "bsmany" {
		kind = "bs"
		if cs.Plan == "" {
			steps = []drv.PlanStep{{Many: true, N: len(cs.Seq)}}
		}
	}
	if steps == nil {
		steps = []drv.PlanStep{}
		for range cs.Seq {
			steps = append(steps, drv.PlanStep{N: 1})
		}
	}
	if drv.PlanLen(steps) != len(cs.Seq) {
		err = fmt.Errorf("plan %q does not consume the %d blocks of the history", cs.Plan, len(cs.Seq))
	}
	return
}

func runC05(c any, x *kit.Ctx) {
	cs := c.(C05Case)
	if cs.CLI != nil {
		runC05CLI(cs, x)
		return
	}
	roots, rootRaws, nilRoots := kit.Roots(cs.Roots)
	blks := kit.Bs(cs.Seq)
	kind, steps, split, err := cs.sessionOf()
	if err != nil {
		panic(err)
	}
	resumed := kind == "bs-resume" || kind == "st-resume"
	if resumed && split < 0 {
		panic("resumed session without a split in its plan")
	}
	if strings.HasPrefix(cs.Writer, "def-") && len(blks) == 0 {
		return // nothing is created before the first Put (C20)
	}
	res, err := drv.WriteSession(kind, x.Dir, roots, blks, cs.Opts, steps, split, cs.Reads)
	x.Eval(1)
	x.Transition(len(steps) + 2)
	if err != nil {
		x.Fail("c05:open:"+cs.Writer, "writer construction failed: %v", err)
		return
	}
	var gotErr []bool
	for _, call := range res.Calls {
		gotErr = append(gotErr, call.Err != nil)
	}
	e := c05Model(modelCfg(cs.Opts), blks, steps, split, gotErr)
	for i, call := range res.Calls {
		if (call.Err != nil) == e.callErr[i] {
			continue
		}
		if call.Err != nil && e.errOK[i] {
			// return values are not the statement's subject; the file is checked below
			x.Outcome("beyond-statement:error-from-call-holding-a-block-that-is-not-stored")
			continue
		}
		if call.Many {
			x.Fail("c05:putmany-error", "PutMany #%d (%v) returned %v, model expects error=%v", i, cs.Seq[call.From:call.To], call.Err, e.callErr[i])
		} else {
			x.Fail("c05:put-error", "Put #%d (%s) returned %v, model expects error=%v", i, cs.Seq[call.From], call.Err, e.callErr[i])
		}
		return
	}
	if res.Gen1Err != nil {
		x.Fail("c05:finalize-error:"+cs.Writer, "Finalize of the first generation failed: %v", res.Gen1Err)
		return
	}
	if res.FinErr != nil {
		x.Fail("c05:finalize-error:"+cs.Writer, "Finalize failed: %v", res.FinErr)
		return
	}
	v1 := cs.Opts.V1 || drv.SessionV1Only(kind)
	tag := "v2"
	if v1 {
		tag = "v1"
	}
	// after a refused PutMany more than one final store is acceptable: take the one on disk
	chosen := e.cands[0]
	if len(e.cands) > 1 {
		got := res.Bytes
		if !v1 {
			if f, err := refcar.DecodeFile(res.Bytes, false); err == nil {
				got = f.PayloadRaw
			}
		}
	pick:
		for _, cand := range e.cands {
			for _, w := range wantPayloads(rootRaws, nilRoots, cand.RefBlocks()) {
				if bytes.Equal(got, w) {
					chosen = cand
					break pick
				}
			}
		}
	}
	stored := chosen.RefBlocks()
	checkFinalized(x, res.Bytes, rootRaws, nilRoots, stored, cs.Opts, v1, tag)
	if !x.Failed() {
		checkAccepted(x, res.Bytes, rootRaws, stored, cs.Opts.StoreID, tag)
	}
	if kind == "bs-fro" {
		if !bytes.Equal(res.PreClose, res.Bytes) {
			x.Fail("c05:fro-close-changed:"+tag, "the file after FinalizeReadOnly (%d bytes) differs from the file after Close (%d bytes)", len(res.PreClose), len(res.Bytes))
		}
		if res.CloseErr != nil {
			x.Fail("c05:fro-close-error:"+tag, "Close after FinalizeReadOnly failed: %v", res.CloseErr)
		}
	}
	if resumed && e.gen1 != nil && !x.Failed() {
		g1 := e.gen1.RefBlocks()
		checkFinalized(x, res.Gen1, rootRaws, nilRoots, g1, cs.Opts, v1, tag+":gen1")
		if !x.Failed() {
			checkAccepted(x, res.Gen1, rootRaws, g1, cs.Opts.StoreID, tag+":gen1")
		}
	}
	x.State(fmt.Sprintf("%x", res.Bytes))
	x.Outcome(fmt.Sprintf("%s stored=%d", tag, len(stored)))
	refused := false
	for _, w := range e.callErr {
		refused = refused || w
	}
	if refused {
		x.Count("sessions_with_refused_put", 1)
	}
	if e.deduped || refused || len(stored) >= 2 {
		x.Nontrivial(fmt.Sprintf("%v|%v|%+v|%s|%s|%v", cs.Roots, cs.Seq, cs.Opts, cs.Writer, cs.Plan, cs.Reads))
	}
}

// allPlans enumerates every partition of n blocks into consecutive writing calls, each
// singleton being a Put or a PutMany of one ("p", "m1"), longer parts a PutMany.
func allPlans(n int) []string {
	if n == 0 {
		return []string{"", "m0"}
	}
	var out []string
	var rec func(left int, cur []string)
	rec = func(left int, cur []string) {
		if left == 0 {
			out = append(out, strings.Join(cur, ","))
			return
		}
		for k := 1; k <= left; k++ {
			rec(left-k, append(append([]string{}, cur...), fmt.Sprintf("m%d", k)))
			if k == 1 {
				rec(left-k, append(append([]string{}, cur...), "p"))
			}
		}
	}
	rec(n, nil)
	return out
}

// mixedPlans are the plans that are neither all-Put (writer "bs") nor one PutMany ("bsmany").
func mixedPlans(n int) []string {
	var out []string
	for _, p := range allPlans(n) {
		if p == "" || p == fmt.Sprintf("m%d", n) && n > 0 || p == strings.TrimSuffix(strings.Repeat("p,", n), ",") {
			continue
		}
		out = append(out, p)
	}
	return out
}

// resumePlans splits the history after k blocks; each generation is all-Put or one PutMany.
func resumePlans(n int, many bool) []string {
	var out []string
	gen := func(k int) string {
		if k == 0 {
			return ""
		}
		if many {
			return fmt.Sprintf("m%d", k)
		}
		return strings.TrimSuffix(strings.Repeat("p,", k), ",")
	}
	for k := 0; k <= n; k++ {
		out = append(out, gen(k)+"|"+gen(n-k))
	}
	return out
}

func genC05(tier string, emit func(any)) {
	thorough := tier == "thorough"
	names := []string{"a", "b", "e", "a'", "a0", "i", "ia", "s", "t"}
	maxLen := 2
	dps := []uint64{0, 1, 1413}
	ips := []uint64{0, 1, 7}
	rootsets := []string{"a", "nil", "ab"}
	// root sets on the short histories only: header >= 128 bytes (abs), duplicate roots,
	// a 68-byte root, an identity root, no roots, a CIDv0 root
	extraRootsets := []string{"abs", "aa", "s", "i", "empty", "a0"}
	if thorough {
		names = append(names, "k", "i0", "ip1", "ip2")
		maxLen = 3
		rootsets = []string{"a", "nil", "empty", "ab", "a0"}
		extraRootsets = []string{"abs", "aa", "s", "i"}
	}
	var seqs [][]string
	kit.Seqs(names, maxLen, func(s []string) { seqs = append(seqs, s) })
	for _, l := range []string{"L127", "L128", "L16383", "L16384"} {
		seqs = append(seqs, []string{l}, []string{"a", l, "b"})
	}
	if thorough {
		seqs = append(seqs, []string{"L2097151"}, []string{"L2097152", "a"})
	} else {
		// the thorough-only alphabet blocks (empty-digest identity CID, identity CIDs differing
		// late in the digest, blake2b) on a few fixed histories
		seqs = append(seqs, []string{"i0"}, []string{"k"}, []string{"i0", "a"}, []string{"i", "i0"}, []string{"ip1", "ip2"}, []string{"ip2", "ip1"}, []string{"k", "a"}, []string{"ip1", "i0", "ip2"})
	}
	short := func(sq []string) bool {
		if thorough {
			return len(sq) <= 2
		}
		return len(sq) <= 1 || strings.HasPrefix(sq[0], "L") || (len(sq) == 3 && strings.HasPrefix(sq[1], "L")) || (len(sq) == 2 && sq[0] == "a" && (sq[1] == "b" || sq[1] == "ia" || sq[1] == "a'"))
	}
	// the matrix of one (history, root set); full = every padding pair; v1pad = CARv1 mode with
	// non-zero paddings on every front-end (always with full)
	matrix := func(sq []string, rs string, full, v1pad bool) {
		for _, dp := range dps {
			for _, ip := range ips {
				if !full && (dp == 1 || ip == 1) {
					continue
				}
				for _, codec := range []string{"", "sorted"} {
					for _, sid := range []bool{false, true} {
						for _, w := range []string{"bs", "st-rw", "st-w", "def-path", "bsmany"} {
							if w == "bsmany" && !full && !(dp == 0 && ip == 0) && !(dp == 1413 && ip == 7) {
								continue
							}
							emit(C05Case{Roots: rs, Seq: sq, Opts: drv.Opts{DataPad: dp, IndexPad: ip, Codec: codec, StoreID: sid}, Writer: w})
						}
					}
				}
			}
		}
		// CARv1 mode (paddings and codec are irrelevant: zero and one non-zero set)
		for _, sid := range []bool{false, true} {
			for _, w := range []string{"bs", "st-rw", "st-w", "st-stream", "def-path", "def-stream", "bsmany"} {
				emit(C05Case{Roots: rs, Seq: sq, Opts: drv.Opts{V1: true, StoreID: sid}, Writer: w})
			}
			emit(C05Case{Roots: rs, Seq: sq, Opts: drv.Opts{V1: true, StoreID: sid, DataPad: 7, IndexPad: 3}, Writer: "bs"})
			// the stream writer makes itself CARv1: no explicit WriteAsCarV1
			emit(C05Case{Roots: rs, Seq: sq, Opts: drv.Opts{StoreID: sid}, Writer: "def-stream"})
		}
		if full || v1pad {
			for _, w := range []string{"st-rw", "st-w", "st-stream", "def-path", "def-stream", "bsmany"} {
				emit(C05Case{Roots: rs, Seq: sq, Opts: drv.Opts{V1: true, DataPad: 7, IndexPad: 3}, Writer: w})
			}
			emit(C05Case{Roots: rs, Seq: sq, Opts: drv.Opts{DataPad: 7, IndexPad: 3, Codec: "sorted"}, Writer: "def-stream"})
		}
		// de-duplication options
		for _, whole := range []bool{false, true} {
			for _, dup := range []bool{false, true} {
				if !whole && !dup {
					continue
				}
				for _, w := range []string{"bs", "st-rw", "bsmany"} {
					emit(C05Case{Roots: rs, Seq: sq, Opts: drv.Opts{Whole: whole, AllowDup: dup, StoreID: true, DataPad: 1}, Writer: w})
					if thorough {
						emit(C05Case{Roots: rs, Seq: sq, Opts: drv.Opts{Whole: whole, AllowDup: dup, Codec: "sorted"}, Writer: w})
					}
				}
			}
		}
	}
	for _, sq := range seqs {
		for ri, rs := range rootsets {
			matrix(sq, rs, ri == 0, !thorough)
		}
		if short(sq) {
			for _, rs := range extraRootsets {
				matrix(sq, rs, false, true)
			}
		}
	}

	// refused puts: MaxIndexCidSize = 40 refuses "s" (68-byte CID) and "X" (64-byte identity CID)
	var xseqs [][]string
	kit.Seqs(append(append([]string{}, names...), "X"), maxLen, func(s []string) { xseqs = append(xseqs, s) })
	for _, sq := range xseqs {
		for _, rs := range []string{"a", "nil"} {
			if rs != "a" && len(sq) > 2 {
				continue
			}
			for _, sid := range []bool{false, true} {
				for _, w := range []string{"bs", "bsmany", "st-rw", "st-w", "def-path"} {
					emit(C05Case{Roots: rs, Seq: sq, Opts: drv.Opts{MaxCid: 40, StoreID: sid}, Writer: w})
					emit(C05Case{Roots: rs, Seq: sq, Opts: drv.Opts{MaxCid: 40, StoreID: sid, DataPad: 1, IndexPad: 7, Codec: "sorted"}, Writer: w})
				}
				for _, w := range []string{"bs", "bsmany", "st-stream", "def-stream"} {
					emit(C05Case{Roots: rs, Seq: sq, Opts: drv.Opts{MaxCid: 40, StoreID: sid, V1: true}, Writer: w})
				}
			}
		}
	}

	// call plans mixing Put and PutMany (blockstore), on a reduced option matrix
	planOpts := []drv.Opts{
		{}, {DataPad: 1413, IndexPad: 7, Codec: "sorted"}, {StoreID: true}, {StoreID: true, DataPad: 1, Whole: true},
		{StoreID: true, AllowDup: true}, {Whole: true, AllowDup: true, Codec: "sorted"}, {V1: true}, {V1: true, StoreID: true},
		{MaxCid: 40, StoreID: true}, {MaxCid: 40, IndexPad: 1},
	}
	for _, sq := range seqs {
		for _, plan := range mixedPlans(len(sq)) {
			for _, o := range planOpts {
				emit(C05Case{Roots: "a", Seq: sq, Opts: o, Writer: "bs", Plan: plan})
			}
			emit(C05Case{Roots: "abs", Seq: sq, Opts: drv.Opts{StoreID: true, DataPad: 1}, Writer: "bs", Plan: plan})
			emit(C05Case{Roots: "nil", Seq: sq, Opts: drv.Opts{Codec: "sorted"}, Writer: "bs", Plan: plan})
		}
	}

	// other finalize entry points: FinalizeReadOnly then Close; a caller-owned file
	entryOpts := []drv.Opts{{}, {DataPad: 1413, IndexPad: 7, Codec: "sorted", StoreID: true}, {V1: true}, {StoreID: true, Whole: true, IndexPad: 1}}
	for _, sq := range seqs {
		for _, o := range entryOpts {
			for _, w := range []string{"bs-fro", "bsf"} {
				emit(C05Case{Roots: "a", Seq: sq, Opts: o, Writer: w})
			}
		}
		emit(C05Case{Roots: "abs", Seq: sq, Opts: drv.Opts{DataPad: 1, StoreID: true}, Writer: "bs-fro"})
		if len(sq) >= 2 {
			emit(C05Case{Roots: "a", Seq: sq, Opts: drv.Opts{StoreID: true}, Writer: "bs-fro", Plan: fmt.Sprintf("m%d", len(sq))})
			emit(C05Case{Roots: "a", Seq: sq, Opts: drv.Opts{StoreID: true}, Writer: "bsf", Plan: fmt.Sprintf("m%d", len(sq))})
		}
	}

	// reads interleaved with the puts (every read entry point after every writing call)
	readOpts := []drv.Opts{{}, {DataPad: 1, IndexPad: 1, StoreID: true}, {V1: true, StoreID: true}}
	for _, sq := range seqs {
		if len(sq) == 0 {
			continue
		}
		for _, o := range readOpts {
			for _, w := range []string{"bs", "st-rw", "st-w", "def-path", "bs-fro", "bsmany"} {
				emit(C05Case{Roots: "a", Seq: sq, Opts: o, Writer: w, Reads: true})
			}
			if o.V1 {
				emit(C05Case{Roots: "a", Seq: sq, Opts: o, Writer: "st-stream", Reads: true})
				emit(C05Case{Roots: "a", Seq: sq, Opts: o, Writer: "def-stream", Reads: true})
			}
		}
		emit(C05Case{Roots: "abs", Seq: sq, Opts: drv.Opts{Codec: "sorted", Whole: true}, Writer: "bs", Reads: true})
		emit(C05Case{Roots: "abs", Seq: sq, Opts: drv.Opts{Codec: "sorted", Whole: true}, Writer: "st-rw", Reads: true})
	}

	// sessions resumed after a Finalize with the same roots and options
	resumeOpts := []drv.Opts{{}, {DataPad: 1413, IndexPad: 7, Codec: "sorted", StoreID: true}, {V1: true, StoreID: true}}
	if !thorough {
		resumeOpts = append(resumeOpts, drv.Opts{StoreID: true, AllowDup: true, IndexPad: 1})
	}
	for _, sq := range seqs {
		for _, rs := range []string{"a", "abs"} {
			if rs != "a" && !short(sq) {
				continue
			}
			for _, o := range resumeOpts {
				for _, plan := range resumePlans(len(sq), false) {
					emit(C05Case{Roots: rs, Seq: sq, Opts: o, Writer: "bs-resume", Plan: plan})
					emit(C05Case{Roots: rs, Seq: sq, Opts: o, Writer: "st-resume", Plan: plan})
				}
				if len(sq) >= 2 {
					for _, plan := range resumePlans(len(sq), true) {
						emit(C05Case{Roots: rs, Seq: sq, Opts: o, Writer: "bs-resume", Plan: plan})
					}
				}
			}
		}
	}

	genC05CLI(tier, emit)
}

func init() {
	kit.Register(&kit.Prop{
		ID:     "C05",
		Gen:    genC05,
		Run:    runC05,
		Decode: kit.DecodeAs[C05Case],
		Setup:  func(string) error { return drv.BuildCar() },
		Rule: "every put history up to the bound over the block alphabet x roots x data padding x index padding x index codec x StoreIdentityCIDs x WriteAsCarV1 x de-dup options x writer front-end " +
			"(blockstore Put / one PutMany, storage on a ReaderAt+WriterAt / WriterAt-only file / plain stream, deferred writer for path / stream with and without an explicit WriteAsCarV1); plus, on stated reduced option matrices: " +
			"MaxIndexCidSize=40 histories containing refused puts (alphabet + X); every partition of the history into Put/PutMany calls; FinalizeReadOnly+Close and OpenReadWriteFile; every read entry point interleaved after every writing call; " +
			"sessions finalized, resumed with the same roots/options and finalized again (both generations checked); root sets with a >=128-byte header, duplicate, 68-byte and identity roots on the short histories; " +
			"CLI producers run with the real car binary: create (5 trees x v1/v2 x --no-wrap), filter (inputs x containers x selections x v1/v2/--append onto 7 existing layouts), get-dag (every start node x v1/v2 x containers x block order). " +
			"Each session's bytes are decoded by the independent reference decoder (layout, payload, index records, fully-indexed flag), read back by the library (Inspect(true) must accept; index.ReadFrom+GetAll offsets of every stored CID) and given to lib.VerifyCar when every root is stored; " +
			"recorded as beyond-statement outcomes, never violations: Inspect's header/roots/codec/count vs the reference decoder, read-only blockstore Get of every stored CID, reserved characteristics bits, padding content, a nil roots argument written as an empty list, an error returned by a call holding a block that is not stored anyway, the CLI's choice of filtered roots / de-duplication key / traversal order; " +
			"non-trivial = session with >=2 stored blocks or in which de-duplication or a refusal fired (distinct by history+options+writer+plan)",
		Bound: func(tier string) map[string]any {
			b := map[string]any{
				"data_padding": []int{0, 1, 1413}, "index_padding": []int{0, 1, 7},
				"root_sets_full": []string{"a", "nil", "ab"}, "root_sets_short_histories": []string{"abs", "aa", "s", "i", "empty", "a0"},
				"history_len": 2, "alphabet": 9, "alphabet_fixed_histories": []string{"i0", "k", "ip1", "ip2", "L127", "L128", "L16383", "L16384"},
				"max_index_cid_size": []int{0, 40}, "plans_per_len": []int{len(mixedPlans(0)), len(mixedPlans(1)), len(mixedPlans(2)), len(mixedPlans(3))},
				"writer_kinds": []string{"bs", "bsmany", "bs+plan", "bs-fro", "bsf", "bs-resume", "st-rw", "st-w", "st-stream", "st-resume", "def-path", "def-stream", "cli:create", "cli:filter", "cli:get-dag"},
			}
			if tier == "thorough" {
				b["history_len"] = 3
				b["alphabet"] = 13
				b["alphabet_fixed_histories"] = []string{"L127", "L128", "L16383", "L16384", "L2097151", "L2097152"}
				b["root_sets_full"] = []string{"a", "nil", "empty", "ab", "a0"}
				b["root_sets_short_histories"] = []string{"abs", "aa", "s", "i"}
			}
			return b
		},
		Assumptions: []string{
			"refcar (reference codec) is correct",
			"blocks outside the alphabet behave like some block inside it",
			"option sets outside the full matrix (de-dup options, MaxIndexCidSize, call plans, finalize entry points, interleaved reads, resumed sessions, extra root sets, CLI producers) are crossed with the stated reduced matrices only",
			"a PutMany that returns ErrCidTooLarge may have stored the batch's blocks before the refused one, none of the batch, or all but the refused ones (undocumented); all three are accepted",
			"return values of the writing calls are not the statement's subject: an error from a call whose batch holds a block the documented rules do not store anyway (identity CID without StoreIdentityCIDs, duplicate) is recorded as a beyond-statement outcome, and the file may hold the batch up to such a block, none of it or all of it; an error from any other call, and a missing error for an over-long CID, remain violations",
			"a nil roots argument may be written as CBOR null or as an empty list; reserved characteristics bits, padding content, the Stats values of Inspect and the read-only blockstore's Get are recorded as beyond-statement outcomes only",
			"resumed sessions use the same roots and options in both generations and resume only finalized files (other combinations: C06, C12)",
			"CLI filter/get-dag: which of the input's roots filter keeps (any sub-multiset of them is accepted; --append: the existing file's roots), whether its output store de-duplicates by multihash or by whole CID, and the order in which get-dag's traversal puts the reachable blocks (any permutation is accepted) are the CLI's own semantics (C19), recorded as beyond-statement outcomes; layout, payload = header(roots)++those sections, index, flags and acceptance are checked as for the library front-ends",
			"CLI create: the expected sections are taken from the decoded output itself (UnixFS encoding is C18's subject), so only layout, index, flags and acceptance are checked there",
		},
	})
}
