package props

import (
	"bytes"
	"fmt"
	"sort"
	"strings"

	"github.com/ipfs/go-cid"
	carv2 "github.com/ipld/go-car/v2"
	"github.com/ipld/go-car/v2/index"
	"github.com/multiformats/go-multicodec"
	"github.com/multiformats/go-multihash"

	"verif/drv"
	"verif/kit"
	"verif/refcar"
)

type c11rec struct {
	code   uint64
	digest []byte
	off    uint64
}

var c11Alphabet []c11rec

func init() {
	d := func(seed byte, n int) []byte {
		out := make([]byte, n)
		for i := range out {
			out[i] = seed + byte(i*3)
		}
		return out
	}
	D1, D2 := d(0x10, 32), d(0x90, 32)
	E1, E2 := d(0x20, 64), d(0x21, 64)
	F1 := d(0x30, 65)
	c11Alphabet = []c11rec{
		{refcar.MhSha256, D1, 0},
		{refcar.MhSha256, D1, 1},
		{refcar.MhSha256, D2, 1 << 32},
		{refcar.MhIdentity, D1, 7},
		{refcar.MhIdentity, []byte{}, 1<<63 - 1},
		{refcar.MhIdentity, []byte("x"), 3},
		{refcar.MhSha256, D1[:20], 1 << 63},
		{refcar.MhSha512, E1, 5},
		{refcar.MhSha512, E2, 6},
		{refcar.MhBlake2b256, D2, 9},
		{refcar.MhSha256, F1, 11},
		{refcar.MhSha256, []byte("x"), 13},
		{refcar.MhIdentity, E1, 17},
		{refcar.MhSha256, D1, 0}, // exact duplicate of record 0
		// same bucket as D1, identical for the first 8 / first 31 bytes: digests that differ only late
		{refcar.MhSha256, latePrefix(D1, 8), 19},
		{refcar.MhSha256, latePrefix(D1, 31), 23},
		// a very wide digest (an identity CID just under / over the default 2 KiB CID limit is legal;
		// the write side has no width limit, so the read side must take it back)
		{refcar.MhIdentity, d(0x40, 2100), 29},
	}
}

// latePrefix returns a copy of d that equals d on the first n bytes and differs at byte n.
func latePrefix(d []byte, n int) []byte {
	out := append([]byte{}, d...)
	out[n] ^= 0x55
	return out
}

func (r c11rec) cid() cid.Cid {
	mh, err := multihash.Encode(r.digest, r.code)
	if err != nil {
		panic(err)
	}
	return cid.NewCidV1(cid.Raw, mh)
}

type C11Case struct {
	Kind  string   `json:"kind"` // "multiset" or "flatten"
	Recs  []int    `json:"recs,omitempty"`
	Codec string   `json:"codec"`
	Seq   []string `json:"seq,omitempty"`
	SID   bool     `json:"storeid,omitempty"`
}

func permutations(n int, emit func([]int)) {
	p := make([]int, n)
	for i := range p {
		p[i] = i
	}
	var rec func(k int)
	rec = func(k int) {
		if k == n {
			emit(append([]int{}, p...))
			return
		}
		for i := k; i < n; i++ {
			p[k], p[i] = p[i], p[k]
			rec(k + 1)
			p[k], p[i] = p[i], p[k]
		}
	}
	rec(0)
}

func codecOf(name string) multicodec.Code {
	if name == "sorted" {
		return multicodec.CarIndexSorted
	}
	return multicodec.CarMultihashIndexSorted
}

// lookupAll renders the answers of idx to every query as a canonical string.
func lookupAll(idx index.Index, queries []cid.Cid) string {
	var sb strings.Builder
	for _, q := range queries {
		var offs []uint64
		err := idx.GetAll(q, func(o uint64) bool { offs = append(offs, o); return true })
		sort.Slice(offs, func(i, j int) bool { return offs[i] < offs[j] })
		fmt.Fprintf(&sb, "%v/%v;", offs, err)
	}
	return sb.String()
}

func forEachAll(idx index.Index) string {
	it, ok := idx.(index.IterableIndex)
	if !ok {
		return "n/a"
	}
	var l []string
	err := it.ForEach(func(mh multihash.Multihash, o uint64) error {
		l = append(l, fmt.Sprintf("%x@%d", []byte(mh), o))
		return nil
	})
	return fmt.Sprintf("%v/%v", l, err)
}

// normalise sorts offsets inside each run of equal digests (the order the format leaves open).
func normaliseIndexBytes(b []byte) ([]byte, []refcar.IndexRecord, error) {
	codec, recs, err := refcar.DecodeIndex(b)
	if err != nil {
		return nil, nil, err
	}
	return refcar.EncodeIndex(codec, recs), recs, nil
}

func runC11(c any, x *kit.Ctx) {
	cs := c.(C11Case)
	if cs.Kind == "flatten" {
		runC11Flatten(cs, x)
		return
	}
	codec := codecOf(cs.Codec)
	var recs []c11rec
	for _, i := range cs.Recs {
		recs = append(recs, c11Alphabet[i])
	}
	var queries []cid.Cid
	for _, r := range c11Alphabet {
		queries = append(queries, r.cid())
	}
	queries = append(queries, kit.Absent.Cid)
	// reference expectation
	var refRecs []refcar.IndexRecord
	for _, r := range recs {
		refRecs = append(refRecs, refcar.IndexRecord{MhCode: r.code, Digest: r.digest, Offset: r.off})
	}
	codecN := uint64(codec)
	wantBytes := refcar.EncodeIndex(codecN, refRecs)
	var wantLookup strings.Builder
	for _, q := range c11Alphabet {
		var offs []uint64
		for _, r := range recs {
			if bytes.Equal(r.digest, q.digest) && (codecN == refcar.CodecIndexSorted || r.code == q.code) {
				offs = append(offs, r.off)
			}
		}
		sort.Slice(offs, func(i, j int) bool { return offs[i] < offs[j] })
		if len(offs) == 0 {
			fmt.Fprintf(&wantLookup, "[]/%v;", index.ErrNotFound)
		} else {
			fmt.Fprintf(&wantLookup, "%v/<nil>;", offs)
		}
	}
	fmt.Fprintf(&wantLookup, "[]/%v;", index.ErrNotFound)

	repeats := false
	seen := map[string]bool{}
	for _, r := range recs {
		k := fmt.Sprintf("%x", r.digest)
		if codecN != refcar.CodecIndexSorted {
			k = fmt.Sprintf("%x:%s", r.code, k)
		}
		if seen[k] {
			repeats = true
		}
		seen[k] = true
	}
	var firstBytes []byte
	tag := cs.Codec
	permutations(len(recs), func(p []int) {
		idx, err := index.New(codec)
		if err != nil {
			panic(err)
		}
		var load []index.Record
		for _, i := range p {
			load = append(load, index.Record{Cid: recs[i].cid(), Offset: recs[i].off})
		}
		x.Eval(1)
		x.Transition(3)
		if err := idx.Load(load); err != nil {
			x.Fail("c11:load-error:"+tag, "Load failed: %v", err)
			return
		}
		var buf bytes.Buffer
		n, err := index.WriteTo(idx, &buf)
		if err != nil {
			x.Fail("c11:write-error:"+tag, "WriteTo failed: %v", err)
			return
		}
		if n != uint64(buf.Len()) {
			x.Fail("c11:write-count:"+tag, "WriteTo reports %d bytes but wrote %d", n, buf.Len())
		}
		// canonical form
		norm, _, err := normaliseIndexBytes(buf.Bytes())
		if err != nil {
			x.Fail("c11:not-canonical:"+tag, "serialized index rejected by the strict reference decoder (bucket/record ordering, lengths): %v; bytes %x", err, buf.Bytes())
			return
		}
		if !bytes.Equal(norm, wantBytes) {
			x.Fail("c11:bytes-vs-reference:"+tag, "serialized form (normalised inside equal-digest runs) differs from the reference encoding of the record multiset: got %x want %x", norm, wantBytes)
		}
		if !repeats && !bytes.Equal(buf.Bytes(), wantBytes) {
			x.Fail("c11:bytes-vs-reference-exact:"+tag, "no digest repeats, yet bytes differ from the canonical encoding: got %x want %x", buf.Bytes(), wantBytes)
		}
		if firstBytes == nil {
			firstBytes = append([]byte{}, buf.Bytes()...)
		} else if !repeats && !bytes.Equal(firstBytes, buf.Bytes()) {
			x.Fail("c11:order-dependent:"+tag, "bytes depend on load order: %x vs %x", firstBytes, buf.Bytes())
		}
		// lookups before the round trip
		if got := lookupAll(idx, queries); got != wantLookup.String() {
			x.Fail("c11:lookup:"+tag, "GetAll answers %s want %s", got, wantLookup.String())
		}
		// round trip
		idx2, err := index.ReadFrom(bytes.NewReader(buf.Bytes()))
		if err != nil {
			x.Fail("c11:readfrom-error:"+tag, "ReadFrom(WriteTo(x)) failed: %v", err)
			return
		}
		if idx2.Codec() != codec {
			x.Fail("c11:codec:"+tag, "round trip changes codec %v -> %v", codec, idx2.Codec())
		}
		if a, b := lookupAll(idx, queries), lookupAll(idx2, queries); a != b {
			x.Fail("c11:roundtrip-lookup:"+tag, "lookups differ after round trip: %s vs %s", a, b)
		}
		if a, b := forEachAll(idx), forEachAll(idx2); a != b {
			x.Fail("c11:roundtrip-foreach:"+tag, "ForEach differs after round trip: %s vs %s", a, b)
		}
		// the reader through a plain stream too
		idx3, err := index.ReadFrom(drv.PlainReader{R: bytes.NewReader(buf.Bytes())})
		if err != nil || lookupAll(idx3, queries) != lookupAll(idx, queries) {
			x.Fail("c11:roundtrip-stream:"+tag, "ReadFrom over a plain stream: err %v or different lookups", err)
		}
		var buf2 bytes.Buffer
		if _, err := index.WriteTo(idx2, &buf2); err != nil || !bytes.Equal(buf2.Bytes(), buf.Bytes()) {
			x.Fail("c11:rewrite:"+tag, "WriteTo(ReadFrom(b)) != b (err %v)", err)
		}
	})
	x.State(fmt.Sprintf("%s|%x", cs.Codec, wantBytes))
	x.Outcome(fmt.Sprintf("n=%d repeats=%v", len(recs), repeats))
	if len(recs) >= 2 {
		x.Nontrivial(fmt.Sprintf("%v|%s", cs.Recs, cs.Codec))
	}
}

func runC11Flatten(cs C11Case, x *kit.Ctx) {
	roots, _, _ := kit.Roots("a")
	blks := kit.Bs(cs.Seq)
	o := drv.Opts{Codec: cs.Codec, StoreID: cs.SID, AllowDup: true}
	res, err := drv.Write("bs", x.Dir, roots, blks, o)
	x.Eval(1)
	x.Transition(len(blks) + 2)
	if err != nil || res.FinErr != nil {
		x.Fail("c11:flatten-write", "cannot write session: %v %v", err, res)
		return
	}
	f, err := refcar.DecodeFile(res.Bytes, false)
	if err != nil {
		x.Fail("c11:flatten-decode", "finalized file malformed: %v", err)
		return
	}
	gen, err := carv2.GenerateIndex(bytes.NewReader(res.Bytes), o.List()...)
	if err != nil {
		x.Fail("c11:flatten-generate", "GenerateIndex on the finished file failed: %v", err)
		return
	}
	var gb bytes.Buffer
	if _, err := index.WriteTo(gen, &gb); err != nil {
		x.Fail("c11:flatten-generate", "WriteTo failed: %v", err)
		return
	}
	flat, err := index.ReadFrom(bytes.NewReader(f.IndexRaw))
	if err != nil {
		x.Fail("c11:flatten-read", "embedded index unreadable: %v", err)
		return
	}
	var queries []cid.Cid
	for _, n := range kit.AlphaOrder {
		queries = append(queries, kit.B(n).Cid)
	}
	queries = append(queries, kit.Absent.Cid)
	if a, b := lookupAll(flat, queries), lookupAll(gen, queries); a != b {
		x.Fail("c11:flatten-lookup", "flattened session index and regenerated index answer differently: %s vs %s", a, b)
	}
	repeats := false
	seen := map[string]bool{}
	for _, r := range f.Index {
		k := fmt.Sprintf("%x:%x", r.MhCode, r.Digest)
		if seen[k] {
			repeats = true
		}
		seen[k] = true
	}
	if !repeats && !bytes.Equal(f.IndexRaw, gb.Bytes()) {
		x.Fail("c11:flatten-bytes", "no two sections share a digest, yet flattened and regenerated index bytes differ: %x vs %x", f.IndexRaw, gb.Bytes())
	}
	na, _, e1 := normaliseIndexBytes(f.IndexRaw)
	nb, _, e2 := normaliseIndexBytes(gb.Bytes())
	if e1 != nil || e2 != nil || !bytes.Equal(na, nb) {
		x.Fail("c11:flatten-bytes-normalised", "flattened and regenerated index differ beyond equal-digest ordering (%v %v)", e1, e2)
	}
	x.State(fmt.Sprintf("flat|%x", f.IndexRaw))
	x.Outcome(fmt.Sprintf("flatten repeats=%v", repeats))
	if len(f.Index) >= 2 {
		x.Nontrivial(fmt.Sprintf("flat|%v|%s|%v", cs.Seq, cs.Codec, cs.SID))
	}
}

func genC11(tier string, emit func(any)) {
	maxN := 4
	if tier == "thorough" {
		maxN = 5
	}
	n := len(c11Alphabet)
	var rec func(start int, cur []int)
	rec = func(start int, cur []int) {
		for _, codec := range []string{"sorted", "mh"} {
			emit(C11Case{Kind: "multiset", Recs: append([]int{}, cur...), Codec: codec})
		}
		if len(cur) == maxN {
			return
		}
		for i := start; i < n; i++ {
			rec(i, append(cur, i)) // with repetition: the same record twice is a legal multiset
		}
	}
	rec(0, nil)
	names := []string{"a", "b", "a'", "a0", "ia", "i", "s", "t", "k", "i0", "ip1", "ip2"}
	l := 2
	if tier == "thorough" {
		l = 3
	}
	kit.Seqs(names, l, func(s []string) {
		for _, codec := range []string{"sorted", "mh"} {
			for _, sid := range []bool{false, true} {
				emit(C11Case{Kind: "flatten", Seq: s, Codec: codec, SID: sid})
			}
		}
	})
}

func init() {
	kit.Register(&kit.Prop{
		ID:     "C11",
		Gen:    genC11,
		Run:    runC11,
		Decode: kit.DecodeAs[C11Case],
		Rule: "every record multiset up to the bound over 17 records (4 hash codes, widths 0/1/20/32/64/65/2100, equal digests under different codes, duplicate digests at different offsets, exact duplicates, offsets up to 2^63) x ALL load-order permutations x both codecs; " +
			"plus Flatten(session index) vs GenerateIndex(finished file) for every put history up to the bound; non-trivial = >=2 records",
		Bound: func(tier string) map[string]any {
			if tier == "thorough" {
				return map[string]any{"multiset_size": 5, "records": 17, "permutations": "all", "flatten_history_len": 3}
			}
			return map[string]any{"multiset_size": 4, "records": 17, "permutations": "all", "flatten_history_len": 2}
		},
		Assumptions: []string{"refcar index codec is correct"},
	})
}
