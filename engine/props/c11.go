package props

import (
	"bytes"
	"errors"
	"fmt"
	"io"
	"sort"
	"strings"
	"testing/iotest"

	"github.com/ipfs/go-cid"
	carv2 "github.com/ipld/go-car/v2"
	"github.com/ipld/go-car/v2/index"
	"github.com/multiformats/go-multicodec"
	"github.com/multiformats/go-multihash"

	"verif/drv"
	"verif/kit"
	"verif/refcar"
)

type c11rec struct {
	code   uint64
	digest []byte
	off    uint64
}

var c11Alphabet []c11rec

func init() {
	d := func(seed byte, n int) []byte {
		out := make([]byte, n)
		for i := range out {
			out[i] = seed + byte(i*3)
		}
		return out
	}
	D1, D2 := d(0x10, 32), d(0x90, 32)
	E1, E2 := d(0x20, 64), d(0x21, 64)
	F1 := d(0x30, 65)
	c11Alphabet = []c11rec{
		{refcar.MhSha256, D1, 0},
		{refcar.MhSha256, D1, 1},
		{refcar.MhSha256, D2, 1 << 32},
		{refcar.MhIdentity, D1, 7},
		{refcar.MhIdentity, []byte{}, 1<<63 - 1},
		{refcar.MhIdentity, []byte("x"), 3},
		{refcar.MhSha256, D1[:20], 1 << 63},
		{refcar.MhSha512, E1, 5},
		{refcar.MhSha512, E2, 6},
		{refcar.MhBlake2b256, D2, 9},
		{refcar.MhSha256, F1, 11},
		{refcar.MhSha256, []byte("x"), 13},
		{refcar.MhIdentity, E1, 17},
		{refcar.MhSha256, D1, 0}, // exact duplicate of record 0
		// same bucket as D1, identical for the first 8 / first 31 bytes: digests that differ only late
		{refcar.MhSha256, latePrefix(D1, 8), 19},
		{refcar.MhSha256, latePrefix(D1, 31), 23},
		// a very wide digest (an identity CID just under / over the default 2 KiB CID limit is legal;
		// the write side has no width limit, so the read side must take it back)
		{refcar.MhIdentity, d(0x40, 2100), 29},
		// digests that differ only beyond byte 32, in the 64-byte and in the 2100-byte bucket
		{refcar.MhSha512, latePrefix(E1, 40), 31},
		{refcar.MhSha512, latePrefix(E1, 63), 37},
		{refcar.MhIdentity, latePrefix(d(0x40, 2100), 2099), 41},
		// hash codes whose numeric order differs from the order of their serialized bytes (0x0100 > 0x12 but
		// its little-endian bytes sort first), and that collide with sha2-256 when narrowed to 32 bits
		{0x0100, D1, 43},
		{1<<32 | 0x12, D1, 47},
	}
}

// latePrefix returns a copy of d that equals d on the first n bytes and differs at byte n.
func latePrefix(d []byte, n int) []byte {
	out := append([]byte{}, d...)
	out[n] ^= 0x55
	return out
}

func (r c11rec) cid() cid.Cid {
	mh, err := multihash.Encode(r.digest, r.code)
	if err != nil {
		panic(err)
	}
	return cid.NewCidV1(cid.Raw, mh)
}

type C11Case struct {
	Kind  string   `json:"kind"` // "multiset" or "flatten"
	Recs  []int    `json:"recs,omitempty"`
	Codec string   `json:"codec"`
	Seq   []string `json:"seq,omitempty"`
	SID   bool     `json:"storeid,omitempty"`
	// flatten: which writing front end ("" = bs) and whether duplicate puts are de-duplicated
	Writer string `json:"writer,omitempty"`
	NoDup  bool   `json:"nodup,omitempty"`
	// resume: the blocks put in each generation of a session on one file, how every generation but the last
	// ends (one letter each: f = Finalize, d = abandoned without Finalize), and the further options of the session
	Gens  [][]string `json:"gens,omitempty"`
	Ends  string     `json:"ends,omitempty"`
	Whole bool       `json:"whole,omitempty"`
	V1    bool       `json:"v1,omitempty"`
	Pad   bool       `json:"pad,omitempty"`
}

func permutations(n int, emit func([]int)) {
	p := make([]int, n)
	for i := range p {
		p[i] = i
	}
	var rec func(k int)
	rec = func(k int) {
		if k == n {
			emit(append([]int{}, p...))
			return
		}
		for i := k; i < n; i++ {
			p[k], p[i] = p[i], p[k]
			rec(k + 1)
			p[k], p[i] = p[i], p[k]
		}
	}
	rec(0)
}

func isReversed(p []int) bool {
	for i, v := range p {
		if v != len(p)-1-i {
			return false
		}
	}
	return true
}

func codecOf(name string) multicodec.Code {
	if name == "sorted" {
		return multicodec.CarIndexSorted
	}
	return multicodec.CarMultihashIndexSorted
}

// lookupAll renders the answers of idx to every query as a canonical string.
func lookupAll(idx index.Index, queries []cid.Cid) string {
	var sb strings.Builder
	for _, q := range queries {
		var offs []uint64
		err := idx.GetAll(q, func(o uint64) bool { offs = append(offs, o); return true })
		sort.Slice(offs, func(i, j int) bool { return offs[i] < offs[j] })
		// what is compared is the class of the answer (found / not found / another error), not the
		// text of the not-found error: a wrapped ErrNotFound is the same answer
		if errors.Is(err, index.ErrNotFound) {
			err = index.ErrNotFound
		}
		fmt.Fprintf(&sb, "%v/%v;", offs, err)
	}
	return sb.String()
}

func forEachAll(idx index.Index) string {
	it, ok := idx.(index.IterableIndex)
	if !ok {
		return "n/a"
	}
	type e struct {
		mh  string
		off uint64
	}
	var es []e
	err := it.ForEach(func(mh multihash.Multihash, o uint64) error {
		es = append(es, e{string(mh), o})
		return nil
	})
	// the sequence of multihashes is compared as iterated; the order of the offsets inside one run of
	// equal multihashes is the order the format (and the statement) leave open
	var l []string
	for i := 0; i < len(es); {
		j := i
		for j < len(es) && es[j].mh == es[i].mh {
			j++
		}
		run := es[i:j]
		sort.Slice(run, func(a, b int) bool { return run[a].off < run[b].off })
		for _, x := range run {
			l = append(l, fmt.Sprintf("%x@%d", x.mh, x.off))
		}
		i = j
	}
	return fmt.Sprintf("%v/%v", l, err)
}

// forEachList renders ForEach's sequence with the offsets sorted inside each run of equal multihashes
// (the order the format leaves open); ok=false when the index is not iterable.
func forEachList(idx index.Index) (l []string, ok bool, err error) {
	it, ok := idx.(index.IterableIndex)
	if !ok || idx.Codec() == multicodec.CarIndexSorted {
		// the digest-only codec keeps no hash codes, so it cannot enumerate the multihashes that were loaded:
		// whatever a ForEach of it does (absent, unsupported error, ...) is only compared before/after the
		// round trip (forEachAll), not with the reference
		return nil, false, nil
	}
	type e struct {
		mh  string
		off uint64
	}
	var es []e
	err = it.ForEach(func(mh multihash.Multihash, o uint64) error {
		es = append(es, e{string(mh), o})
		return nil
	})
	for i := 0; i < len(es); {
		j := i
		for j < len(es) && es[j].mh == es[i].mh {
			j++
		}
		sort.Slice(es[i:j], func(a, b int) bool { return es[i+a].off < es[i+b].off })
		i = j
	}
	for _, x := range es {
		l = append(l, fmt.Sprintf("%x@%d", x.mh, x.off))
	}
	// the order of iteration is index-specific: what is compared with the reference is the multiset
	sort.Strings(l)
	return l, true, err
}

// wantForEach is the multiset of (multihash, offset) pairs an iteration must yield, in canonical order.
func wantForEach(recs []c11rec) []string {
	rs := append([]c11rec{}, recs...)
	sort.SliceStable(rs, func(i, j int) bool {
		a, b := rs[i], rs[j]
		if a.code != b.code {
			return a.code < b.code
		}
		if len(a.digest) != len(b.digest) {
			return len(a.digest) < len(b.digest)
		}
		if c := bytes.Compare(a.digest, b.digest); c != 0 {
			return c < 0
		}
		return a.off < b.off
	})
	var l []string
	for _, r := range rs {
		mh, _ := multihash.Encode(r.digest, r.code)
		l = append(l, fmt.Sprintf("%x@%d", mh, r.off))
	}
	sort.Strings(l)
	return l
}

type c11SeekFail struct{ io.Reader }

func (c11SeekFail) Seek(int64, int) (int64, error) { return 0, errors.New("illegal seek") }

var errC11Stop = errors.New("c11 stop")

// normalise sorts offsets inside each run of equal digests (the order the format leaves open).
func normaliseIndexBytes(b []byte) ([]byte, []refcar.IndexRecord, error) {
	codec, recs, err := refcar.DecodeIndex(b)
	if err != nil {
		return nil, nil, err
	}
	return refcar.EncodeIndex(codec, recs), recs, nil
}

// sameIndexBytes compares two serialized indexes: byte for byte when no digest repeats, otherwise after
// normalising the order inside each run of equal digests (the order the format and the statement leave open).
func sameIndexBytes(a, b []byte, repeats bool) bool {
	if !repeats {
		return bytes.Equal(a, b)
	}
	na, _, e1 := normaliseIndexBytes(a)
	nb, _, e2 := normaliseIndexBytes(b)
	return e1 == nil && e2 == nil && bytes.Equal(na, nb)
}

// c11SubMultiset reports whether every value of a occurs in b at least as often as in a.
func c11SubMultiset(a, b []uint64) bool {
	m := map[uint64]int{}
	for _, v := range b {
		m[v]++
	}
	for _, v := range a {
		if m[v]--; m[v] < 0 {
			return false
		}
	}
	return true
}

// c11DedupRecs drops exact duplicates: records that repeat an earlier one in everything the codec stores
// (digest and offset; the hash code too unless digestOnly). dup reports whether there was one.
func c11DedupRecs(recs []c11rec, digestOnly bool) (out []c11rec, dup bool) {
	seen := map[string]bool{}
	for _, r := range recs {
		k := fmt.Sprintf("%x@%d", r.digest, r.off)
		if !digestOnly {
			k = fmt.Sprintf("%x:%s", r.code, k)
		}
		if seen[k] {
			dup = true
			continue
		}
		seen[k] = true
		out = append(out, r)
	}
	return out, dup
}

// c11Want is what an on-disk index of the given records must serialize to and answer.
type c11Want struct {
	what    string
	bytes   []byte
	lookup  string
	offs    [][]uint64 // per alphabet key
	forEach []string
}

func c11Expect(what string, recs []c11rec, codecN uint64) c11Want {
	w := c11Want{what: what, offs: make([][]uint64, len(c11Alphabet)), forEach: wantForEach(recs)}
	var refRecs []refcar.IndexRecord
	for _, r := range recs {
		refRecs = append(refRecs, refcar.IndexRecord{MhCode: r.code, Digest: r.digest, Offset: r.off})
	}
	w.bytes = refcar.EncodeIndex(codecN, refRecs)
	var sb strings.Builder
	for qi, q := range c11Alphabet {
		var offs []uint64
		for _, r := range recs {
			if bytes.Equal(r.digest, q.digest) && (codecN == refcar.CodecIndexSorted || r.code == q.code) {
				offs = append(offs, r.off)
			}
		}
		sort.Slice(offs, func(i, j int) bool { return offs[i] < offs[j] })
		w.offs[qi] = offs
		if len(offs) == 0 {
			fmt.Fprintf(&sb, "[]/%v;", index.ErrNotFound)
		} else {
			fmt.Fprintf(&sb, "%v/<nil>;", offs)
		}
	}
	fmt.Fprintf(&sb, "[]/%v;", index.ErrNotFound)
	w.lookup = sb.String()
	return w
}

func runC11(c any, x *kit.Ctx) {
	cs := c.(C11Case)
	if cs.Kind == "flatten" {
		runC11Flatten(cs, x)
		return
	}
	if cs.Kind == "insertion" {
		runC11Insertion(cs, x)
		return
	}
	if cs.Kind == "resume" {
		runC11Resume(cs, x)
		return
	}
	codec := codecOf(cs.Codec)
	var recs []c11rec
	for _, i := range cs.Recs {
		recs = append(recs, c11Alphabet[i])
	}
	var queries []cid.Cid
	for _, r := range c11Alphabet {
		queries = append(queries, r.cid())
	}
	queries = append(queries, kit.Absent.Cid)
	// reference expectation. A multiset that holds one record twice (same digest, same offset, same code where
	// the codec stores it) has two legal indexes: the statement fixes that the form depends on the multiset
	// only, not whether the second copy of an identical entry is kept. Both references are accepted, the same
	// one for every load order and for everything observed (bytes, lookups, iteration).
	codecN := uint64(codec)
	variants := []c11Want{c11Expect("the record multiset", recs, codecN)}
	if dd, dup := c11DedupRecs(recs, codecN == refcar.CodecIndexSorted); dup {
		variants = append(variants, c11Expect("the record multiset without exact duplicates", dd, codecN))
	}
	chosen := -1

	repeats := false
	seen := map[string]bool{}
	for _, r := range recs {
		k := fmt.Sprintf("%x", r.digest)
		if codecN != refcar.CodecIndexSorted {
			k = fmt.Sprintf("%x:%s", r.code, k)
		}
		if seen[k] {
			repeats = true
		}
		seen[k] = true
	}
	var firstBytes []byte
	tag := cs.Codec
	permIndex := 0
	permutations(len(recs), func(p []int) {
		idx, err := index.New(codec)
		if err != nil {
			panic(err)
		}
		var load []index.Record
		for _, i := range p {
			load = append(load, index.Record{Cid: recs[i].cid(), Offset: recs[i].off})
		}
		x.Eval(1)
		x.Transition(3)
		if err := idx.Load(load); err != nil {
			x.Fail("c11:load-error:"+tag, "Load failed: %v", err)
			return
		}
		var buf bytes.Buffer
		n, err := index.WriteTo(idx, &buf)
		if err != nil {
			x.Fail("c11:write-error:"+tag, "WriteTo failed: %v", err)
			return
		}
		if n != uint64(buf.Len()) {
			x.Fail("c11:write-count:"+tag, "WriteTo reports %d bytes but wrote %d", n, buf.Len())
		}
		// canonical form
		norm, _, err := normaliseIndexBytes(buf.Bytes())
		if err != nil {
			x.Fail("c11:not-canonical:"+tag, "serialized index rejected by the strict reference decoder (bucket/record ordering, lengths): %v; bytes %x", err, buf.Bytes())
			return
		}
		vi := -1
		for i, v := range variants {
			if bytes.Equal(norm, v.bytes) {
				vi = i
				break
			}
		}
		if vi < 0 {
			x.Fail("c11:bytes-vs-reference:"+tag, "serialized form (normalised inside equal-digest runs) differs from the reference encoding of the record multiset: got %x want %x", norm, variants[0].bytes)
			vi = 0
		} else if len(variants) > 1 {
			x.Outcome("beyond-statement:exact-duplicates-kept=" + fmt.Sprint(vi == 0))
		}
		if chosen < 0 {
			chosen = vi
		} else if chosen != vi {
			x.Fail("c11:order-dependent:"+tag, "whether an exact duplicate is kept depends on the load order: %s in one order, %s in another", variants[chosen].what, variants[vi].what)
		}
		want := variants[vi]
		wantBytes, wantLookup, wantOffs := want.bytes, want.lookup, want.offs
		if !repeats && !bytes.Equal(buf.Bytes(), wantBytes) {
			x.Fail("c11:bytes-vs-reference-exact:"+tag, "no digest repeats, yet bytes differ from the canonical encoding: got %x want %x", buf.Bytes(), wantBytes)
		}
		if firstBytes == nil {
			firstBytes = append([]byte{}, buf.Bytes()...)
		} else if !repeats && !bytes.Equal(firstBytes, buf.Bytes()) {
			x.Fail("c11:order-dependent:"+tag, "bytes depend on load order: %x vs %x", firstBytes, buf.Bytes())
		}
		// lookups before the round trip
		if got := lookupAll(idx, queries); got != wantLookup {
			x.Fail("c11:lookup:"+tag, "GetAll answers %s want %s", got, wantLookup)
		}
		// the per-order extras below do not depend on the load order beyond what the first and the reversed
		// order show; for multisets of 5 records they run on those two orders only (all orders below that)
		permIndex++
		extras := len(recs) < 5 || permIndex == 1 || isReversed(p)
		if extras {
			// Load must leave the caller his records. The statement says nothing about their ORDER in the
			// caller's slice afterwards (a Load that groups or sorts in place is legal): a reordering is noted,
			// a slice that no longer holds the same records is a violation.
			reordered := false
			var before, after []string
			for k, i := range p {
				if !load[k].Cid.Equals(recs[i].cid()) || load[k].Offset != recs[i].off {
					reordered = true
				}
				before = append(before, fmt.Sprintf("%s@%d", recs[i].cid().KeyString(), recs[i].off))
				after = append(after, fmt.Sprintf("%s@%d", load[k].Cid.KeyString(), load[k].Offset))
			}
			if reordered {
				sort.Strings(before)
				sort.Strings(after)
				if fmt.Sprint(before) != fmt.Sprint(after) {
					x.Fail("c11:load-mutates-input:"+tag, "Load changed the records in the caller's slice (not only their order)")
				} else {
					x.Outcome("beyond-statement:load-reorders-input")
				}
			}
			// serializing twice gives the same bytes
			var again bytes.Buffer
			if n2, err := index.WriteTo(idx, &again); err != nil || n2 != n || !bytes.Equal(again.Bytes(), buf.Bytes()) {
				x.Fail("c11:rewrite-same-index:"+tag, "a second WriteTo of the same index differs (err %v)", err)
			}
			// a lookup that stops after the first hit: exactly one callback, no error, an offset of that key; GetFirst likewise
			for qi, q := range queries[:len(c11Alphabet)] {
				calls := 0
				var first uint64
				err := idx.GetAll(q, func(o uint64) bool { calls++; first = o; return false })
				gf, gerr := index.GetFirst(idx, q)
				if len(wantOffs[qi]) == 0 {
					if !errors.Is(err, index.ErrNotFound) || calls != 0 || !errors.Is(gerr, index.ErrNotFound) {
						x.Fail("c11:stop-lookup-absent:"+tag, "absent key #%d: GetAll err %v after %d callbacks, GetFirst err %v", qi, err, calls, gerr)
					}
					continue
				}
				in := func(o uint64) bool {
					for _, w := range wantOffs[qi] {
						if w == o {
							return true
						}
					}
					return false
				}
				if err != nil || calls != 1 || !in(first) {
					x.Fail("c11:stop-lookup:"+tag, "GetAll with a callback that stops: err %v, %d callbacks, offset %d not in %v", err, calls, first, wantOffs[qi])
				}
				if gerr != nil || !in(gf) {
					x.Fail("c11:getfirst:"+tag, "GetFirst returned %d, %v; offsets of that key are %v", gf, gerr, wantOffs[qi])
				}
			}
			// iteration, against the order the format implies (multihash index) - before and after the round trip
			if l, ok, err := forEachList(idx); ok {
				if err != nil || fmt.Sprint(l) != fmt.Sprint(want.forEach) {
					x.Fail("c11:foreach:"+tag, "ForEach yields %v (err %v) want %v", l, err, want.forEach)
				}
				// a callback error at the k-th call comes back (errors.Is) and stops the iteration; k ranges over
				// the entries the iteration actually has
				it := idx.(index.IterableIndex)
				for k := 0; k < len(l); k++ {
					calls := 0
					err := it.ForEach(func(multihash.Multihash, uint64) error {
						calls++
						if calls == k+1 {
							return errC11Stop
						}
						return nil
					})
					if !errors.Is(err, errC11Stop) || calls != k+1 {
						x.Fail("c11:foreach-abort:"+tag, "callback failing at call %d: ForEach returned %v after %d calls", k+1, err, calls)
					}
				}
			}
			// the same records inserted by two Load calls (every split point of this order)
			for k := 1; k < len(load); k++ {
				split, _ := index.New(codec)
				if err := split.Load(load[:k]); err != nil {
					x.Fail("c11:load-error:"+tag, "Load failed: %v", err)
					break
				}
				if err := split.Load(load[k:]); err != nil {
					x.Fail("c11:load-error:"+tag, "Load failed: %v", err)
					break
				}
				var sb bytes.Buffer
				if _, err := index.WriteTo(split, &sb); err != nil {
					x.Fail("c11:write-error:"+tag, "WriteTo failed: %v", err)
					break
				}
				norm, _, err := normaliseIndexBytes(sb.Bytes())
				if err != nil || !bytes.Equal(norm, wantBytes) || lookupAll(split, queries) != wantLookup {
					x.Fail("c11:split-load:"+tag, "records inserted by Load(first %d) then Load(the other %d) give a different index than one Load of all (decode err %v): lookups %s want %s", k, len(load)-k, err, lookupAll(split, queries), wantLookup)
					break
				}
			}
		}
		// round trip
		idx2, err := index.ReadFrom(bytes.NewReader(buf.Bytes()))
		if err != nil {
			x.Fail("c11:readfrom-error:"+tag, "ReadFrom(WriteTo(x)) failed: %v", err)
			return
		}
		if idx2.Codec() != codec {
			x.Fail("c11:codec:"+tag, "round trip changes codec %v -> %v", codec, idx2.Codec())
		}
		if a, b := lookupAll(idx, queries), lookupAll(idx2, queries); a != b {
			x.Fail("c11:roundtrip-lookup:"+tag, "lookups differ after round trip: %s vs %s", a, b)
		}
		if a, b := forEachAll(idx), forEachAll(idx2); a != b {
			x.Fail("c11:roundtrip-foreach:"+tag, "ForEach differs after round trip: %s vs %s", a, b)
		}
		if l, ok, err := forEachList(idx2); ok {
			if err != nil || fmt.Sprint(l) != fmt.Sprint(want.forEach) {
				x.Fail("c11:foreach-after-roundtrip:"+tag, "ForEach of the index read back yields %v (err %v) want %v", l, err, want.forEach)
			}
		}
		// the other reader capability classes: seekable without ReadByte, Seek method that fails, one byte per
		// Read, trailing bytes after the index
		junk := append(append([]byte{}, buf.Bytes()...), 0xde, 0xad, 0xbe, 0xef, 0, 0, 0, 0, 0, 0, 0, 0)
		readerKinds := []struct {
			name string
			r    io.Reader
		}{
			{"section", io.NewSectionReader(bytes.NewReader(buf.Bytes()), 0, int64(buf.Len()))},
			{"seekfail", c11SeekFail{bytes.NewReader(buf.Bytes())}},
			{"onebyte", iotest.OneByteReader(bytes.NewReader(buf.Bytes()))},
			{"dataerr", iotest.DataErrReader(bytes.NewReader(buf.Bytes()))},
			{"trailing", bytes.NewReader(junk)},
			{"trailing-stream", drv.PlainReader{R: bytes.NewReader(junk)}},
		}
		if !extras {
			readerKinds = nil // the serialized bytes do not depend on the order (asserted above): two orders suffice for 5 records
		}
		for _, rk := range readerKinds {
			ix, err := index.ReadFrom(rk.r)
			if err != nil && rk.name == "seekfail" {
				// a reader whose Seek method always fails: whether ReadFrom falls back to plain reading is
				// outside the statement (C03/C18 own that behaviour); what it reads, when it reads, is checked
				x.Outcome("beyond-statement:readfrom-refuses-seekfail-reader")
				continue
			}
			if err != nil {
				x.Fail("c11:roundtrip-reader:"+rk.name+":"+tag, "ReadFrom over a %s reader failed: %v", rk.name, err)
				continue
			}
			var rb bytes.Buffer
			if _, err := index.WriteTo(ix, &rb); err != nil || !sameIndexBytes(rb.Bytes(), buf.Bytes(), repeats) || lookupAll(ix, queries) != lookupAll(idx, queries) {
				x.Fail("c11:roundtrip-reader:"+rk.name+":"+tag, "index read over a %s reader differs (err %v)", rk.name, err)
			}
		}
		// the reader through a plain stream too
		idx3, err := index.ReadFrom(drv.PlainReader{R: bytes.NewReader(buf.Bytes())})
		if err != nil || lookupAll(idx3, queries) != lookupAll(idx, queries) {
			x.Fail("c11:roundtrip-stream:"+tag, "ReadFrom over a plain stream: err %v or different lookups", err)
		}
		var buf2 bytes.Buffer
		if _, err := index.WriteTo(idx2, &buf2); err != nil || !sameIndexBytes(buf2.Bytes(), buf.Bytes(), repeats) {
			x.Fail("c11:rewrite:"+tag, "WriteTo(ReadFrom(b)) != b (byte for byte without repeated digests, up to the order inside equal-digest runs with them) (err %v)", err)
		}
	})
	x.State(fmt.Sprintf("%s|%x", cs.Codec, variants[0].bytes))
	x.Outcome(fmt.Sprintf("n=%d repeats=%v", len(recs), repeats))
	if len(recs) >= 2 {
		x.Nontrivial(fmt.Sprintf("%v|%s", cs.Recs, cs.Codec))
	}
}

// runC11Insertion: the in-memory insertion index of a writing session, built directly from the records.
func runC11Insertion(cs C11Case, x *kit.Ctx) {
	var recs []c11rec
	for _, i := range cs.Recs {
		recs = append(recs, c11Alphabet[i])
	}
	var queries []cid.Cid
	for _, r := range c11Alphabet {
		queries = append(queries, r.cid())
	}
	// Which records a lookup of the in-memory insertion index matches is not part of the statement (today: every
	// record with the key's bare digest, as the digest-only codec does). Required of an answer: every offset
	// recorded under the key's multihash is there, nothing is there that was not recorded under the key's
	// digest, not-found exactly when the answer is empty. An exact duplicate (same CID, same offset) may be
	// held once or twice.
	dedup, hasDup := c11DedupRecs(recs, false)
	lower, upper := make([][]uint64, len(c11Alphabet)), make([][]uint64, len(c11Alphabet))
	for qi, q := range c11Alphabet {
		for _, r := range dedup {
			if bytes.Equal(r.digest, q.digest) && r.code == q.code {
				lower[qi] = append(lower[qi], r.off)
			}
		}
		for _, r := range recs {
			if bytes.Equal(r.digest, q.digest) {
				upper[qi] = append(upper[qi], r.off)
			}
		}
	}
	// the two legal iterations / flattened forms: of the multiset, and (with an exact duplicate) of the set
	wantIter := []string{fmt.Sprint(wantForEach(recs))}
	if hasDup {
		wantIter = append(wantIter, fmt.Sprint(wantForEach(dedup)))
	}
	oneOf := func(got string, l []string) bool {
		for _, w := range l {
			if w == got {
				return true
			}
		}
		return false
	}
	refBytes := func(rs []c11rec, cn string) []byte {
		var refRecs []refcar.IndexRecord
		for _, r := range rs {
			refRecs = append(refRecs, refcar.IndexRecord{MhCode: r.code, Digest: r.digest, Offset: r.off})
		}
		return refcar.EncodeIndex(uint64(codecOf(cn)), refRecs)
	}
	for _, how := range []string{"insert", "load", "load-reversed"} {
		ii := index.NewInsertionIndex()
		x.Eval(1)
		x.Transition(len(recs))
		switch how {
		case "insert":
			for _, r := range recs {
				ii.InsertNoReplace(r.cid(), r.off)
			}
		default:
			var load []index.Record
			for _, r := range recs {
				load = append(load, index.Record{Cid: r.cid(), Offset: r.off})
			}
			if how == "load-reversed" {
				for i, j := 0, len(load)-1; i < j; i, j = i+1, j-1 {
					load[i], load[j] = load[j], load[i]
				}
			}
			if err := ii.Load(load); err != nil {
				x.Fail("c11:insertion:load-error", "Load failed: %v", err)
				continue
			}
		}
		for qi, q := range queries {
			var got []uint64
			err := ii.GetAll(q, func(o uint64) bool { got = append(got, o); return true })
			okErr := err == nil && len(got) > 0 || errors.Is(err, index.ErrNotFound) && len(got) == 0
			if !okErr || !c11SubMultiset(lower[qi], got) || !c11SubMultiset(got, upper[qi]) {
				x.Fail("c11:insertion:lookup", "insertion index (%s) answers key #%d with %v, %v; recorded under its multihash: %v, under its digest: %v", how, qi, got, err, lower[qi], upper[qi])
				break
			}
			if len(got) != len(upper[qi]) && !hasDup {
				x.Outcome("beyond-statement:insertion-lookup-not-by-bare-digest")
			}
		}
		if l, _, err := forEachList(ii); err != nil || !oneOf(fmt.Sprint(l), wantIter) {
			x.Fail("c11:insertion:foreach", "insertion index (%s) iterates %v (err %v) want %v", how, l, err, wantIter[0])
		}
		var cl []string
		ii.ForEachCid(func(c cid.Cid, o uint64) error {
			cl = append(cl, fmt.Sprintf("%x@%d", []byte(c.Hash()), o))
			return nil
		})
		sort.Strings(cl)
		if !oneOf(fmt.Sprint(cl), wantIter) {
			x.Fail("c11:insertion:foreachcid", "insertion index (%s) iterates CIDs %v want %v", how, cl, wantIter[0])
		}
		// the writer's byte count
		var buf bytes.Buffer
		n, err := index.WriteTo(ii, &buf)
		if err != nil {
			x.Fail("c11:insertion:write-error", "WriteTo failed: %v", err)
		} else if n != uint64(buf.Len()) {
			x.Fail("c11:insertion:write-count", "WriteTo of an insertion index with %d records reports %d bytes but wrote %d", len(recs), n, buf.Len())
		}
		// flattening into either on-disk codec gives that codec's canonical index of the same records
		for _, cn := range []string{"sorted", "mh"} {
			flat, err := ii.Flatten(codecOf(cn))
			if err != nil {
				x.Fail("c11:insertion:flatten-error:"+cn, "Flatten failed: %v", err)
				continue
			}
			var fb bytes.Buffer
			if _, err := index.WriteTo(flat, &fb); err != nil {
				x.Fail("c11:insertion:flatten-error:"+cn, "WriteTo failed: %v", err)
				continue
			}
			norm, _, err := normaliseIndexBytes(fb.Bytes())
			okBytes := err == nil && bytes.Equal(norm, refBytes(recs, cn))
			if dd, dup := c11DedupRecs(recs, cn == "sorted"); err == nil && !okBytes && dup {
				okBytes = bytes.Equal(norm, refBytes(dd, cn)) // exact duplicates stored once
			}
			if !okBytes {
				x.Fail("c11:insertion:flatten-bytes:"+cn, "Flatten(%s) of the insertion index (%s) is not the canonical index of its records (decode err %v)", cn, how, err)
			}
		}
	}
	x.State(fmt.Sprintf("ins|%v", cs.Recs))
	x.Outcome(fmt.Sprintf("insertion n=%d", len(recs)))
	if len(recs) >= 2 {
		x.Nontrivial(fmt.Sprintf("ins|%v", cs.Recs))
	}
}

func runC11Flatten(cs C11Case, x *kit.Ctx) {
	roots, _, _ := kit.Roots("a")
	blks := kit.Bs(cs.Seq)
	o := drv.Opts{Codec: cs.Codec, StoreID: cs.SID, AllowDup: !cs.NoDup}
	wk := cs.Writer
	if wk == "" {
		wk = "bs"
	}
	if wk == "def-path" && len(blks) == 0 {
		return // a deferred writer that never saw a Put creates no file (C20)
	}
	res, err := drv.Write(wk, x.Dir, roots, blks, o)
	x.Eval(1)
	x.Transition(len(blks) + 2)
	if err != nil || res.FinErr != nil {
		x.Fail("c11:flatten-write", "cannot write session: %v %v", err, res)
		return
	}
	c11FinishedOracle(x, wk, res.Bytes, o, cs.Codec, cs.SID, blks,
		fmt.Sprintf("flat|%v|%s|%v|%s|%v", cs.Seq, cs.Codec, cs.SID, wk, cs.NoDup))
}

// c11FinishedOracle: the finished CARv2 file of a writing session (its embedded index is the session index as
// Finalize flattened it) against the index regenerated from that file with the session's options.
func c11FinishedOracle(x *kit.Ctx, wk string, file []byte, o drv.Opts, codecName string, sid bool, blks []kit.Blk, ntKey string) {
	type flattenCase struct {
		Codec string
		SID   bool
	}
	cs := flattenCase{Codec: codecName, SID: sid}
	res := struct{ Bytes []byte }{file}
	f, err := refcar.DecodeFile(res.Bytes, false)
	if err != nil {
		x.Fail("c11:flatten-decode", "finalized file malformed: %v", err)
		return
	}
	gen, err := carv2.GenerateIndex(bytes.NewReader(res.Bytes), o.List()...)
	if err != nil {
		x.Fail("c11:flatten-generate", "GenerateIndex on the finished file failed: %v", err)
		return
	}
	// the same regeneration over a forward-only stream, delivered whole and one byte per Read
	for _, sk := range []string{"plain", "onebyte"} {
		var src io.Reader = drv.PlainReader{R: bytes.NewReader(res.Bytes)}
		if sk == "onebyte" {
			src = iotest.OneByteReader(bytes.NewReader(res.Bytes))
		}
		gs, err := carv2.GenerateIndex(src, o.List()...)
		if err != nil {
			x.Fail("c11:flatten-generate:"+sk, "GenerateIndex over a %s stream of the finished file failed: %v", sk, err)
			continue
		}
		var a, b bytes.Buffer
		if _, e1 := index.WriteTo(gen, &a); e1 == nil {
			if _, e2 := index.WriteTo(gs, &b); e2 != nil || !sameIndexBytes(a.Bytes(), b.Bytes(), true) {
				x.Fail("c11:flatten-generate:"+sk, "the index regenerated from a %s stream differs from the one regenerated from a seekable source (err %v)", sk, e2)
			}
		}
	}
	var gb bytes.Buffer
	if _, err := index.WriteTo(gen, &gb); err != nil {
		x.Fail("c11:flatten-generate", "WriteTo failed: %v", err)
		return
	}
	if !f.HasIndex && len(refcar.RecordsOf(f.Payload, cs.SID)) == 0 {
		// nothing to index: whether an empty index is attached is not part of the statement; the regenerated
		// index must still be the (empty) index of the payload
		if nb, _, err := normaliseIndexBytes(gb.Bytes()); err != nil || !bytes.Equal(nb, refcar.EncodeIndex(uint64(codecOf(cs.Codec)), nil)) {
			x.Fail("c11:flatten-bytes-normalised", "no indexable section, yet the regenerated index is not the empty index (decode err %v)", err)
		}
		x.Outcome("beyond-statement:finished-carv2-of-empty-session-without-index")
		return
	}
	flat, err := index.ReadFrom(bytes.NewReader(f.IndexRaw))
	if err != nil {
		x.Fail("c11:flatten-read", "embedded index unreadable: %v", err)
		return
	}
	// do two entries of the embedded index share a digest? (then the order inside that run is open)
	repeats := false
	seen := map[string]bool{}
	for _, r := range f.Index {
		k := fmt.Sprintf("%x:%x", r.MhCode, r.Digest)
		if seen[k] {
			repeats = true
		}
		seen[k] = true
	}
	// the codec is the requested one, in the file, in the flattened and in the regenerated index
	if wantCodec := uint64(codecOf(cs.Codec)); f.IndexCodec != wantCodec || uint64(flat.Codec()) != wantCodec || uint64(gen.Codec()) != wantCodec {
		x.Fail("c11:flatten-codec:"+wk, "requested index codec %#x: file has %#x, embedded index reads as %#x, GenerateIndex gives %#x", wantCodec, f.IndexCodec, uint64(flat.Codec()), uint64(gen.Codec()))
	}
	// ... and it is the canonical index of the payload's sections (not merely equal to the regenerated one)
	if na, _, err := normaliseIndexBytes(f.IndexRaw); err != nil || !bytes.Equal(na, refcar.EncodeIndex(f.IndexCodec, refcar.RecordsOf(f.Payload, cs.SID))) {
		x.Fail("c11:flatten-vs-payload:"+wk, "the flattened session index is not the index of the payload's sections (decode err %v)", err)
	}
	// the library's own window on the embedded index
	if rd, err := carv2.NewReader(bytes.NewReader(res.Bytes)); err != nil {
		x.Fail("c11:flatten-read", "NewReader: %v", err)
	} else if ir, err := rd.IndexReader(); err != nil || ir == nil {
		x.Fail("c11:flatten-read", "IndexReader: %v", err)
	} else if viaReader, err := index.ReadFrom(ir); err != nil {
		x.Fail("c11:flatten-read", "ReadFrom(IndexReader()): %v", err)
	} else {
		var vb bytes.Buffer
		if _, err := index.WriteTo(viaReader, &vb); err != nil || !sameIndexBytes(vb.Bytes(), f.IndexRaw, repeats) {
			x.Fail("c11:flatten-indexreader:"+wk, "index read through Reader.IndexReader() re-serializes differently from the embedded bytes (beyond the order inside equal-digest runs) (err %v)", err)
		}
	}
	var queries []cid.Cid
	for _, n := range kit.AlphaOrder {
		queries = append(queries, kit.B(n).Cid)
	}
	for _, b := range blks {
		queries = append(queries, b.Cid)
	}
	queries = append(queries, kit.Absent.Cid)
	if a, b := lookupAll(flat, queries), lookupAll(gen, queries); a != b {
		x.Fail("c11:flatten-lookup", "flattened session index and regenerated index answer differently: %s vs %s", a, b)
	}
	if !repeats && !bytes.Equal(f.IndexRaw, gb.Bytes()) {
		x.Fail("c11:flatten-bytes", "no two sections share a digest, yet flattened and regenerated index bytes differ: %x vs %x", f.IndexRaw, gb.Bytes())
	}
	na, _, e1 := normaliseIndexBytes(f.IndexRaw)
	nb, _, e2 := normaliseIndexBytes(gb.Bytes())
	if e1 != nil || e2 != nil || !bytes.Equal(na, nb) {
		x.Fail("c11:flatten-bytes-normalised", "flattened and regenerated index differ beyond equal-digest ordering (%v %v)", e1, e2)
	}
	x.State(fmt.Sprintf("flat|%x", f.IndexRaw))
	x.Outcome(fmt.Sprintf("flatten repeats=%v", repeats))
	if len(f.Index) >= 2 && ntKey != "" {
		x.Nontrivial(ntKey)
	}
}

func genC11(tier string, emit func(any)) {
	maxN := 4
	if tier == "thorough" {
		maxN = 5
	}
	n := len(c11Alphabet)
	var rec func(start int, cur []int)
	rec = func(start int, cur []int) {
		for _, codec := range []string{"sorted", "mh"} {
			emit(C11Case{Kind: "multiset", Recs: append([]int{}, cur...), Codec: codec})
		}
		emit(C11Case{Kind: "insertion", Recs: append([]int{}, cur...)})
		if len(cur) == maxN {
			return
		}
		for i := start; i < n; i++ {
			rec(i, append(cur, i)) // with repetition: the same record twice is a legal multiset
		}
	}
	rec(0, nil)
	names := []string{"a", "b", "a'", "a0", "ia", "i", "s", "t", "k", "i0", "ip1", "ip2"}
	l := 2
	if tier == "thorough" {
		l = 3
	}
	kit.Seqs(names, l, func(s []string) {
		for _, codec := range []string{"sorted", "mh"} {
			for _, sid := range []bool{false, true} {
				emit(C11Case{Kind: "flatten", Seq: s, Codec: codec, SID: sid})
				for _, wk := range []string{"bsmany", "st-rw", "st-w", "def-path"} {
					emit(C11Case{Kind: "flatten", Seq: s, Codec: codec, SID: sid, Writer: wk})
				}
				emit(C11Case{Kind: "flatten", Seq: s, Codec: codec, SID: sid, NoDup: true})
				emit(C11Case{Kind: "flatten", Seq: s, Codec: codec, SID: sid, NoDup: true, Writer: "st-rw"})
			}
		}
	})
	genC11Resume(tier, emit)
}

func init() {
	kit.Register(&kit.Prop{
		ID:     "C11",
		Gen:    genC11,
		Run:    runC11,
		Decode: kit.DecodeAs[C11Case],
		Rule: "every record multiset up to the bound over 17 records (4 hash codes, widths 0/1/20/32/64/65/2100, equal digests under different codes, duplicate digests at different offsets, exact duplicates, offsets up to 2^63) x ALL load-order permutations x both codecs; " +
			"plus Flatten(session index) vs GenerateIndex(finished file) for every put history up to the bound; non-trivial = >=2 records. " +
			"Writing sessions include RESUMED ones (a file reopened for writing: blockstore.OpenReadWrite by path, OpenReadWriteFile on one handle kept across generations, storage.OpenReadableWritable): every put history over the 12 flatten blocks up to the bound x every cut into 2 (and, one block shorter, 3) generations, empty generations included, " +
			"x every way the earlier generations end (Finalize / abandoned without Finalize) x 3 front ends x both codecs x StoreIdentityCIDs x UseWholeCIDs x de-duplication on/off x WriteAsCarV1, the shortest histories also with data+index padding; plus a section at/one past each length-varint width boundary (127/128/16383/16384) in the generation resumed from, followed by a hashed or an IDENTITY block, under the full option cross with and without padding. " +
			"At every Finalize of such a session (first, intermediate, last generation): Index() flattened into BOTH codecs just before Finalize vs GenerateIndex(finished file, the session's options): lookups of every alphabet/put key, bytes (exact unless two indexed sections share digest bytes, else up to the order inside equal-digest runs), and vs the reference index of the payload's sections; for CARv2 the embedded index additionally goes through the whole single-generation oracle. All generations of a session use the same roots and options (sessions that change options between generations are not enumerated: the statement does not say which options the regeneration takes then). " +
			"Oracles follow the statement only: errors are compared by class (errors.Is ErrNotFound), never by text; the order inside a run of equal digests/multihashes is open everywhere (bytes after a round trip, ForEach before/after); " +
			"a multiset with an exact duplicate may serialize/answer as the multiset or as its de-duplicated set (the same choice in every load order); the digest-only codec is not compared with the reference enumeration; " +
			"lookups of the in-memory insertion index are bounded (recorded under the multihash <= answer <= recorded under the digest); reordering of the caller's slice by Load and a refusal of a reader whose Seek fails are recorded as beyond-statement outcomes",
		Bound: func(tier string) map[string]any {
			rb := c11ResumeBoundOf(tier)
			resume := map[string]any{"blocks": len(c11ResumeNames), "history_len_2_generations": rb.histLen, "history_len_3_generations": rb.histLen3, "history_len_with_padding": rb.padHistLen,
				"cuts": "all, empty generations included", "earlier_generations_end": "Finalize|abandoned, all words", "front_ends": c11ResumeWriters,
				"options":           "codec{sorted,mh} x StoreIdentityCIDs x UseWholeCIDs x dedup on/off x WriteAsCarV1 (full cross), padding {none, data 3 + index 2}",
				"boundary_sections": c11ResumeSizes}
			if tier == "thorough" {
				return map[string]any{"multiset_size": 5, "records": 17, "permutations": "all", "flatten_history_len": 3, "resumed_sessions": resume}
			}
			return map[string]any{"multiset_size": 4, "records": 17, "permutations": "all", "flatten_history_len": 2, "resumed_sessions": resume}
		},
		Assumptions: []string{"a first session refused for its option set, and an empty session whose finished CARv2 carries no index, are outside the statement (outcomes beyond-statement:resume-first-session-refused, :finished-carv2-of-empty-session-without-index)", "refcar index codec is correct", "a record repeated exactly (same multihash, same offset) carries no information the statement requires to be kept twice",
			"a file reopened for writing with the roots and options it was written with is a writing session of the statement; the index its Index() accessor hands out just before Finalize is the session index that Finalize flattens",
			"refcar's section scan of the finished payload is correct (used to decide whether two indexed sections share a digest and as the reference index of a resumed session)"},
	})
}
