package props

import (
	"bytes"
	"fmt"
	"os"
	"path/filepath"

	"github.com/ipfs/go-cid"
	carv2 "github.com/ipld/go-car/v2"
	"github.com/ipld/go-car/v2/blockstore"
	"github.com/ipld/go-car/v2/index"
	"github.com/ipld/go-car/v2/storage"

	"verif/drv"
	"verif/kit"
	"verif/refcar"
)

// The flatten-vs-regenerate sentence of C11 is quantified over writing sessions. A writing session is not only the
// one that created its file: a file reopened for writing (blockstore.OpenReadWrite / OpenReadWriteFile on a
// non-empty file, storage.OpenReadableWritable) is a writing session whose index was rebuilt from the sections
// already in the file. This part enumerates sessions made of several generations on one file.

// c11ResumeWriters are the front ends that can reopen a file for writing.
var c11ResumeWriters = []string{"bs-path", "bs-file", "st"}

// c11ResumeNames is the block alphabet of the generations (the one of the single-generation flatten part).
var c11ResumeNames = []string{"a", "b", "a'", "a0", "ia", "i", "s", "t", "k", "i0", "ip1", "ip2"}

// c11ResumeSizes: blocks whose section length sits at / one past each width boundary of the length varint
// (127|128, 16383|16384): the offsets a resumed session computes for the sections that follow them.
var c11ResumeSizes = []string{"L127", "L128", "L16383", "L16384"}

// c11Sess is one generation of a writing session, whatever the front end.
type c11Sess struct {
	put      func(b kit.Blk) error
	index    func() index.Index
	finalize func() error
	abandon  func() // the session ends without Finalize (Discard / the store is dropped)
}

func c11OpenSess(wk, path string, f *os.File, gi int, roots []cid.Cid, opts []carv2.Option) (*c11Sess, error) {
	switch wk {
	case "bs-path", "bs-file":
		var bs *blockstore.ReadWrite
		var err error
		if wk == "bs-path" {
			bs, err = blockstore.OpenReadWrite(path, roots, opts...)
		} else {
			bs, err = blockstore.OpenReadWriteFile(f, roots, opts...)
		}
		if err != nil {
			return nil, err
		}
		return &c11Sess{
			put:      func(b kit.Blk) error { return bs.Put(drv.Ctx, b.Block()) },
			index:    bs.Index,
			finalize: bs.Finalize,
			abandon:  bs.Discard,
		}, nil
	case "st":
		var sc *storage.StorageCar
		var err error
		if gi == 0 {
			sc, err = storage.NewReadableWritable(f, roots, opts...)
		} else {
			sc, err = storage.OpenReadableWritable(f, roots, opts...)
		}
		if err != nil {
			return nil, err
		}
		return &c11Sess{
			put:      func(b kit.Blk) error { return sc.Put(drv.Ctx, b.Cid.KeyString(), b.Data) },
			index:    sc.Index,
			finalize: sc.Finalize,
			abandon:  func() {},
		}, nil
	}
	return nil, fmt.Errorf("unknown resume writer %q", wk)
}

// c11Flat is a session index flattened into one codec, before the session's Finalize.
type c11Flat struct {
	codec string
	idx   index.Index
	bytes []byte
}

func runC11Resume(cs C11Case, x *kit.Ctx) {
	roots, _, _ := kit.Roots("a")
	o := drv.Opts{Codec: cs.Codec, StoreID: cs.SID, Whole: cs.Whole, AllowDup: !cs.NoDup, V1: cs.V1}
	if cs.Pad {
		o.DataPad, o.IndexPad = 3, 2
	}
	wk := cs.Writer
	if len(cs.Ends) != len(cs.Gens)-1 {
		x.Fail("c11:resume-harness", "case has %d generations and %d endings", len(cs.Gens), len(cs.Ends))
		return
	}
	path := filepath.Join(x.Dir, "c11r-"+wk+".car")
	os.Remove(path)
	defer os.Remove(path)
	var f *os.File
	if wk != "bs-path" {
		var err error
		if f, err = os.OpenFile(path, os.O_RDWR|os.O_CREATE|os.O_TRUNC, 0o644); err != nil {
			x.Fail("c11:resume-harness", "scratch file: %v", err)
			return
		}
		defer f.Close()
	}
	var all []kit.Blk
	for gi, names := range cs.Gens {
		last := gi == len(cs.Gens)-1
		s, err := c11OpenSess(wk, path, f, gi, roots, o.List())
		x.Eval(1)
		x.Transition(len(names) + 2)
		if err != nil && gi == 0 {
			// a fresh, empty file: the library refuses this option set before any session exists. Which option
			// combinations a writer accepts is not part of the statement (no writing session, nothing to flatten)
			x.Outcome("beyond-statement:resume-first-session-refused:" + wk)
			return
		}
		if err != nil {
			x.Fail("c11:resume-write:"+wk, "generation %d: the file left by generation %d cannot be opened for writing with the same roots and options: %v", gi, gi-1, err)
			return
		}
		for _, b := range kit.Bs(names) {
			all = append(all, b)
			if err := s.put(b); err != nil {
				s.abandon()
				x.Fail("c11:resume-write:"+wk, "generation %d: Put(%s) failed: %v", gi, b.Name, err)
				return
			}
		}
		if !last && cs.Ends[gi] == 'd' {
			s.abandon()
			continue
		}
		// the session's index, flattened into either codec, as it is when Finalize is called
		var flats []c11Flat
		if ii, ok := s.index().(*index.InsertionIndex); !ok {
			x.Outcome("resume:session-index-not-an-insertion-index")
		} else {
			for _, cn := range []string{"sorted", "mh"} {
				fl, err := ii.Flatten(codecOf(cn))
				if err != nil {
					x.Fail("c11:resume-flatten-error:"+wk, "generation %d: Flatten(%s) of the session index failed: %v", gi, cn, err)
					continue
				}
				var fb bytes.Buffer
				if _, err := index.WriteTo(fl, &fb); err != nil {
					x.Fail("c11:resume-flatten-error:"+wk, "generation %d: WriteTo of the flattened session index failed: %v", gi, err)
					continue
				}
				flats = append(flats, c11Flat{cn, fl, fb.Bytes()})
			}
		}
		if err := s.finalize(); err != nil {
			x.Fail("c11:resume-write:"+wk, "generation %d: Finalize failed: %v", gi, err)
			return
		}
		file, err := os.ReadFile(path)
		if err != nil {
			x.Fail("c11:resume-harness", "read back: %v", err)
			return
		}
		c11ResumeOracle(x, cs, gi, wk, file, o, flats, all)
	}
	x.Outcome(fmt.Sprintf("resume gens=%d ends=%s", len(cs.Gens), cs.Ends))
}

// c11ResumeOracle: the file as generation gi's Finalize left it (a finished archive) against the session index
// flattened just before that Finalize, the index regenerated from the file, and (CARv2) the embedded index.
func c11ResumeOracle(x *kit.Ctx, cs C11Case, gi int, wk string, file []byte, o drv.Opts, flats []c11Flat, put []kit.Blk) {
	tag := fmt.Sprintf("%s:gen%d", wk, gi)
	if gi > 1 {
		tag = wk + ":gen2+"
	}
	if gi == 0 {
		tag = wk + ":gen0"
	}
	f, err := refcar.DecodeFile(file, false)
	if err != nil {
		x.Fail("c11:resume-decode:"+tag, "finished file malformed: %v", err)
		return
	}
	if wantV := map[bool]int{true: 1, false: 2}[cs.V1]; f.Version != wantV {
		x.Fail("c11:resume-decode:"+tag, "finished file has version %d, the session writes version %d", f.Version, wantV)
		return
	}
	var queries []cid.Cid
	for _, n := range kit.AlphaOrder {
		queries = append(queries, kit.B(n).Cid)
	}
	for _, b := range put {
		queries = append(queries, b.Cid)
	}
	queries = append(queries, kit.Absent.Cid)
	// do two indexed sections of the payload share a digest? (then the statement does not ask for identical
	// bytes: the order inside a run of equal digests is open). Decided on the digest bytes alone, as the statement
	// words it; what the normalised comparison below leaves open is only the order inside such a run.
	recs := refcar.RecordsOf(f.Payload, cs.SID)
	repeats := false
	seen := map[string]bool{}
	for _, r := range recs {
		if seen[string(r.Digest)] {
			repeats = true
		}
		seen[string(r.Digest)] = true
	}
	for _, fl := range flats {
		og := o
		og.Codec = fl.codec
		gen, err := carv2.GenerateIndex(bytes.NewReader(file), og.List()...)
		if err != nil {
			x.Fail("c11:resume-generate:"+tag, "GenerateIndex(%s) on the finished file failed: %v", fl.codec, err)
			continue
		}
		var gb bytes.Buffer
		if _, err := index.WriteTo(gen, &gb); err != nil {
			x.Fail("c11:resume-generate:"+tag, "WriteTo failed: %v", err)
			continue
		}
		if a, b := lookupAll(fl.idx, queries), lookupAll(gen, queries); a != b {
			x.Fail("c11:resume-flatten-lookup:"+tag, "generation %d: the session index flattened (%s) and the index regenerated from the finished file answer differently: %s vs %s", gi, fl.codec, a, b)
		}
		if !repeats && !bytes.Equal(fl.bytes, gb.Bytes()) {
			x.Fail("c11:resume-flatten-bytes:"+tag, "generation %d: no two sections share a digest, yet the flattened session index (%s) and the regenerated index differ: %x vs %x", gi, fl.codec, fl.bytes, gb.Bytes())
		}
		na, _, e1 := normaliseIndexBytes(fl.bytes)
		nb, _, e2 := normaliseIndexBytes(gb.Bytes())
		if e1 != nil || e2 != nil || !bytes.Equal(na, nb) {
			x.Fail("c11:resume-flatten-bytes-normalised:"+tag, "generation %d: flattened session index (%s) and regenerated index differ beyond equal-digest ordering (%v %v)", gi, fl.codec, e1, e2)
		}
		// ... and the flattened session index is the canonical index of the payload's sections
		if e1 != nil || !bytes.Equal(na, refcar.EncodeIndex(uint64(codecOf(fl.codec)), recs)) {
			x.Fail("c11:resume-flatten-vs-payload:"+tag, "generation %d: the flattened session index (%s) is not the index of the payload's sections (decode err %v)", gi, fl.codec, e1)
		}
		x.State(fmt.Sprintf("resume|%s|%x", fl.codec, fl.bytes))
	}
	nt := fmt.Sprintf("resume|%v|%s|%s|%s|%v%v%v%v%v|%d", cs.Gens, cs.Ends, cs.Codec, wk, cs.SID, cs.Whole, cs.NoDup, cs.V1, cs.Pad, gi)
	if cs.V1 {
		// a CARv1 carries no index: the flattening above is the only window on the session index
		if len(recs) >= 2 && gi > 0 {
			x.Nontrivial(nt)
		}
		return
	}
	// CARv2: what Finalize embedded is the session index as the library flattened it; the whole of the
	// single-generation oracle applies to it (codec, canonical index of the payload, lookups and bytes against
	// the regenerated index, the library's own IndexReader window)
	if !f.HasIndex && len(recs) == 0 {
		// nothing to index: whether an empty index is attached is not part of the statement (the flattened
		// session index and the regenerated one were compared above)
		x.Outcome("beyond-statement:finished-carv2-of-empty-session-without-index")
		return
	}
	if !f.HasIndex {
		x.Fail("c11:resume-decode:"+tag, "finished CARv2 of generation %d carries no index", gi)
		return
	}
	if gi == 0 {
		nt = "" // a first generation is the single-generation case again
	}
	c11FinishedOracle(x, "resume:"+tag, file, o, cs.Codec, cs.SID, put, nt)
}

// c11Splits emits every way of cutting seq into g consecutive generations (empty generations included).
func c11Splits(seq []string, g int, emit func([][]string)) {
	var rec func(from int, cur [][]string)
	rec = func(from int, cur [][]string) {
		if len(cur) == g-1 {
			emit(append(append([][]string{}, cur...), append([]string{}, seq[from:]...)))
			return
		}
		for to := from; to <= len(seq); to++ {
			rec(to, append(cur, append([]string{}, seq[from:to]...)))
		}
	}
	rec(0, nil)
}

// c11Ends emits every word over {f, d} of length n: how each generation but the last ends.
func c11Ends(n int, emit func(string)) {
	for m := 0; m < 1<<n; m++ {
		b := make([]byte, n)
		for i := range b {
			b[i] = 'f'
			if m>>i&1 == 1 {
				b[i] = 'd'
			}
		}
		emit(string(b))
	}
}

// c11ResumeBound is what genC11Resume enumerates per tier.
type c11ResumeBound struct {
	histLen    int // put histories up to this length, cut into 2 generations, full option cross
	histLen3   int // put histories up to this length, cut into 3 generations, full option cross
	padHistLen int // histories up to this length are also run with data/index padding
}

func c11ResumeBoundOf(tier string) c11ResumeBound {
	if tier == "thorough" {
		return c11ResumeBound{histLen: 3, histLen3: 2, padHistLen: 2}
	}
	return c11ResumeBound{histLen: 2, histLen3: 1, padHistLen: 1}
}

func genC11Resume(tier string, emit func(any)) {
	bd := c11ResumeBoundOf(tier)
	options := func(gens [][]string, ends string, pad bool) {
		for _, wk := range c11ResumeWriters {
			for _, codec := range []string{"sorted", "mh"} {
				for m := 0; m < 16; m++ {
					emit(C11Case{Kind: "resume", Gens: gens, Ends: ends, Writer: wk, Codec: codec,
						SID: m&1 != 0, Whole: m&2 != 0, NoDup: m&4 != 0, V1: m&8 != 0, Pad: pad})
				}
			}
		}
	}
	history := func(seq []string, g int) {
		c11Splits(seq, g, func(gens [][]string) {
			c11Ends(g-1, func(ends string) {
				options(gens, ends, false)
				if len(seq) <= bd.padHistLen {
					options(gens, ends, true)
				}
			})
		})
	}
	kit.Seqs(c11ResumeNames, bd.histLen, func(s []string) { history(s, 2) })
	kit.Seqs(c11ResumeNames, bd.histLen3, func(s []string) { history(s, 3) })
	// section lengths at the width boundaries of the length varint in the generation that is resumed from,
	// followed in that generation by a hashed / an IDENTITY block (whose offset the resumed session computes
	// across the big section), one more block in the resumed generation
	for _, big := range c11ResumeSizes {
		for _, next := range []string{"a", "i"} {
			for _, gens := range [][][]string{{{big, next}, {"b"}}, {{big}, {next, "b"}}} {
				c11Ends(1, func(ends string) {
					options(gens, ends, false)
					options(gens, ends, true)
				})
			}
		}
	}
}
