package props

import (
	"fmt"
	"os"
	"path/filepath"
	"strings"

	"verif/drv"
	"verif/kit"
	"verif/refcar"
)

// ---------------------------------------------------------------- minimal dag-pb / UnixFS encoder
// (own encoder so that unsorted, duplicate and hostile names are expressible)

func pbVarint(x uint64) []byte { return refcar.PutUvarint(x) }

func pbBytes(field int, b []byte) []byte {
	out := pbVarint(uint64(field<<3 | 2))
	out = append(out, pbVarint(uint64(len(b)))...)
	return append(out, b...)
}

func pbUint(field int, v uint64) []byte {
	return append(pbVarint(uint64(field<<3)), pbVarint(v)...)
}

type pbLink struct {
	Name string
	Cid  []byte
	Size uint64
}

// ufsData encodes the UnixFS Data message.
func ufsData(typ uint64, data []byte, withSize bool) []byte {
	out := pbUint(1, typ)
	if data != nil {
		out = append(out, pbBytes(2, data)...)
	}
	if withSize {
		out = append(out, pbUint(3, uint64(len(data)))...)
	}
	return out
}

// pbNode encodes a dag-pb node: links (in the given order) then data.
func pbNode(links []pbLink, data []byte) []byte {
	var out []byte
	for _, l := range links {
		var lb []byte
		lb = append(lb, pbBytes(1, l.Cid)...)
		lb = append(lb, pbBytes(2, []byte(l.Name))...)
		lb = append(lb, pbUint(3, l.Size)...)
		out = append(out, pbBytes(2, lb)...)
	}
	if data != nil {
		out = append(out, pbBytes(1, data)...)
	}
	return out
}

type ufsBuilder struct {
	blocks []refcar.Block
	seen   map[string]bool
}

func (b *ufsBuilder) add(codec uint64, data []byte) []byte {
	d, _ := refcar.Digest(refcar.MhSha256, data)
	c := refcar.CIDv1(codec, refcar.MhSha256, d)
	if b.seen == nil {
		b.seen = map[string]bool{}
	}
	if !b.seen[string(c)] {
		b.seen[string(c)] = true
		b.blocks = append(b.blocks, refcar.Block{Cid: c, Data: data})
	}
	return c
}

func (b *ufsBuilder) file(content []byte) []byte {
	return b.add(refcar.CodecDagPB, pbNode(nil, ufsData(2, content, true)))
}
func (b *ufsBuilder) symlink(target string) []byte {
	return b.add(refcar.CodecDagPB, pbNode(nil, ufsData(4, []byte(target), false)))
}
func (b *ufsBuilder) dir(links []pbLink) []byte {
	return b.add(refcar.CodecDagPB, pbNode(links, ufsData(1, nil, false)))
}

// ---------------------------------------------------------------- the check

type C17Entry struct {
	Name string `json:"name"`
	Kind string `json:"kind"` // file, dir, or sym:<target class>
}

type C17Case struct {
	E1     C17Entry  `json:"e1"`
	E2     *C17Entry `json:"e2,omitempty"`
	Place  string    `json:"place"`  // same-dir, two-roots, parent-child, root-file
	OutDir string    `json:"outdir"` // empty, file-a, dir-a, absent
	Stdin  bool      `json:"stdin,omitempty"`
}

var c17Names = []string{"a", "..", ".", "a/b", "../x", "/abs", "", "unknown", "a/../../x"}
var c17Kinds = []string{"file", "dir", "sym:../sentinel", "sym:ABS/sentinel", "sym:..", "sym:.", "sym:a", "sym:../outside", "sym:ABS/outside"}

func (e C17Entry) build(b *ufsBuilder, sandbox string, child *pbLink) []byte {
	switch {
	case e.Kind == "file":
		return b.file([]byte("EVIL-CONTENT-" + e.Name))
	case e.Kind == "dir":
		var links []pbLink
		if child != nil {
			links = append(links, *child)
		} else {
			links = append(links, pbLink{Name: "inner", Cid: b.file([]byte("inner")), Size: 5})
		}
		return b.dir(links)
	case strings.HasPrefix(e.Kind, "sym:"):
		t := strings.TrimPrefix(e.Kind, "sym:")
		t = strings.Replace(t, "ABS", sandbox, 1)
		return b.symlink(t)
	}
	panic(e.Kind)
}

func runC17(c any, x *kit.Ctx) {
	cs := c.(C17Case)
	sandbox := filepath.Join(x.Dir, "c17sandbox")
	os.RemoveAll(sandbox)
	if err := os.MkdirAll(filepath.Join(sandbox, "outside"), 0o755); err != nil {
		panic(err)
	}
	defer os.RemoveAll(sandbox)
	os.WriteFile(filepath.Join(sandbox, "sentinel"), []byte("SENTINEL"), 0o644)
	os.WriteFile(filepath.Join(sandbox, "outside", "keep"), []byte("KEEP"), 0o644)
	os.WriteFile(filepath.Join(sandbox, "x"), []byte("X-ORIGINAL"), 0o644)
	out := filepath.Join(sandbox, "out")
	switch cs.OutDir {
	case "empty":
		os.MkdirAll(out, 0o755)
	case "file-a":
		os.MkdirAll(out, 0o755)
		os.WriteFile(filepath.Join(out, "a"), []byte("old a"), 0o644)
	case "dir-a":
		os.MkdirAll(filepath.Join(out, "a"), 0o755)
	case "absent":
	}
	// build the archive
	b := &ufsBuilder{}
	var roots [][]byte
	switch cs.Place {
	case "same-dir":
		links := []pbLink{{Name: cs.E1.Name, Cid: cs.E1.build(b, sandbox, nil), Size: 1}}
		if cs.E2 != nil {
			links = append(links, pbLink{Name: cs.E2.Name, Cid: cs.E2.build(b, sandbox, nil), Size: 1})
		}
		roots = [][]byte{b.dir(links)}
	case "two-roots":
		r1 := b.dir([]pbLink{{Name: cs.E1.Name, Cid: cs.E1.build(b, sandbox, nil), Size: 1}})
		roots = [][]byte{r1}
		if cs.E2 != nil {
			// a distinct second root even when the entries are equal
			r2 := b.dir([]pbLink{{Name: cs.E2.Name, Cid: cs.E2.build(b, sandbox, nil), Size: 2}})
			roots = append(roots, r2)
		}
	case "parent-child":
		var child *pbLink
		if cs.E2 != nil {
			child = &pbLink{Name: cs.E2.Name, Cid: cs.E2.build(b, sandbox, nil), Size: 1}
		}
		roots = [][]byte{b.dir([]pbLink{{Name: cs.E1.Name, Cid: cs.E1.build(b, sandbox, child), Size: 1}})}
	case "root-file":
		// roots that are not directories: a symlink/file root, then a second root
		roots = [][]byte{cs.E1.build(b, sandbox, nil)}
		if cs.E2 != nil {
			roots = append(roots, cs.E2.build(b, sandbox, nil))
		}
	}
	// blocks in reverse creation order puts parents first (as car create does); both work for a file source
	var blks []refcar.Block
	for i := len(b.blocks) - 1; i >= 0; i-- {
		blks = append(blks, b.blocks[i])
	}
	archive := refcar.EncodeV1(roots, false, blks)
	apath := filepath.Join(x.Dir, "c17.car")
	os.WriteFile(apath, archive, 0o644)
	defer os.Remove(apath)

	before := drv.Snapshot(sandbox, "out")
	var r drv.RunResult
	if cs.Stdin {
		r = drv.Car(sandbox, archive, "extract", "out")
	} else {
		r = drv.Car(sandbox, nil, "extract", "-f", apath, "out")
	}
	x.Eval(1)
	x.Transition(len(blks))
	after := drv.Snapshot(sandbox, "out")
	// "out" itself may be replaced by something that is not a directory inside the sandbox: still inside
	if d := drv.DiffSnapshots(before, after); len(d) > 0 {
		x.Fail("c17:escape:"+c17Class(cs), "car extract changed files outside the output directory: %v\n(exit %d, stderr %s)", d, r.Exit, clipS(string(r.Stderr), 400))
	}
	// a symlink placed in out may point anywhere, that is allowed; but nothing may have been
	// written THROUGH it: covered by the snapshot of everything outside out.
	x.State(fmt.Sprintf("%+v", cs))
	x.Outcome(fmt.Sprintf("exit=%d", r.Exit))
	if cs.E2 != nil {
		x.Nontrivial(fmt.Sprintf("%+v|%+v|%s|%s", cs.E1, *cs.E2, cs.Place, cs.OutDir))
	}
}

func c17Class(cs C17Case) string {
	k := func(e C17Entry) string {
		if strings.HasPrefix(e.Kind, "sym:") {
			return "symlink"
		}
		return e.Kind
	}
	s := cs.Place + ":" + k(cs.E1)
	if cs.E2 != nil {
		s += "+" + k(*cs.E2)
	}
	return s
}

func genC17(tier string, emit func(any)) {
	names := c17Names
	kinds := c17Kinds
	outdirs := []string{"empty", "file-a", "dir-a", "absent"}
	if tier != "thorough" {
		names = []string{"a", "..", "a/b", "../x", "/abs", ""}
		kinds = []string{"file", "dir", "sym:../sentinel", "sym:ABS/sentinel", "sym:..", "sym:../outside"}
		outdirs = []string{"empty", "file-a"}
	}
	var entries []C17Entry
	for _, n := range names {
		for _, k := range kinds {
			entries = append(entries, C17Entry{n, k})
		}
	}
	for _, od := range outdirs {
		for _, e1 := range entries {
			for _, place := range []string{"same-dir", "root-file"} {
				emit(C17Case{E1: e1, Place: place, OutDir: od})
			}
			for _, e2 := range entries {
				e2 := e2
				for _, place := range []string{"same-dir", "two-roots", "parent-child", "root-file"} {
					if place == "parent-child" && e1.Kind != "dir" {
						continue
					}
					if place == "root-file" && (e1.Name != names[0] || e2.Name != names[0]) {
						continue // names are irrelevant for non-directory roots
					}
					emit(C17Case{E1: e1, E2: &e2, Place: place, OutDir: od})
					if tier == "thorough" && od == "empty" && place != "root-file" {
						emit(C17Case{E1: e1, E2: &e2, Place: place, OutDir: od, Stdin: true})
					}
				}
			}
		}
	}
}

func init() {
	kit.Register(&kit.Prop{
		ID:     "C17",
		Gen:    genC17,
		Run:    runC17,
		Setup:  func(string) error { return drv.BuildCar() },
		Decode: kit.DecodeAs[C17Case],
		Rule: "every UnixFS archive with at most two hostile entries (deviation bound 2) drawn from names {a, .., ., a/b, ../x, /abs, empty, unknown, a/../../x} x kinds {file, directory, symlink to ../sentinel | absolute sentinel | .. | . | a | ../outside | absolute outside} in the placements {same directory, two roots, parent/child, non-directory roots}, " +
			"built with an own dag-pb encoder (unsorted/duplicate names expressible), extracted by the REAL car binary into {empty, pre-populated with file a, with directory a, absent} output directories; oracle: recursive snapshot (names, types, contents, link targets) of everything outside the output directory is unchanged; non-trivial = archive with two hostile entries",
		Bound: func(tier string) map[string]any {
			if tier == "thorough" {
				return map[string]any{"hostile_entries": 2, "names": len(c17Names), "kinds": len(c17Kinds), "placements": 4, "outdirs": 4, "stdin": "for empty output directory"}
			}
			return map[string]any{"hostile_entries": 2, "names": 6, "kinds": 6, "placements": 4, "outdirs": 2}
		},
		Assumptions: []string{"exit status of car extract is irrelevant to the property", "sharded (HAMT) directories are not generated by the own encoder"},
	})
}
