package props

import (
	"fmt"
	"os"
	"path/filepath"
	"strings"
	"sync"
	"sync/atomic"
	"time"

	"verif/drv"
	"verif/kit"
	"verif/refcar"
)

// ---------------------------------------------------------------- minimal dag-pb / UnixFS encoder
// (own encoder so that unsorted, duplicate and hostile names are expressible)

func pbVarint(x uint64) []byte { return refcar.PutUvarint(x) }

func pbBytes(field int, b []byte) []byte {
	out := pbVarint(uint64(field<<3 | 2))
	out = append(out, pbVarint(uint64(len(b)))...)
	return append(out, b...)
}

func pbUint(field int, v uint64) []byte {
	return append(pbVarint(uint64(field<<3)), pbVarint(v)...)
}

type pbLink struct {
	Name string
	Cid  []byte
	Size uint64
}

// ufsData encodes the UnixFS Data message.
func ufsData(typ uint64, data []byte, withSize bool) []byte {
	out := pbUint(1, typ)
	if data != nil {
		out = append(out, pbBytes(2, data)...)
	}
	if withSize {
		out = append(out, pbUint(3, uint64(len(data)))...)
	}
	return out
}

// pbNode encodes a dag-pb node: links (in the given order) then data.
func pbNode(links []pbLink, data []byte) []byte {
	var out []byte
	for _, l := range links {
		var lb []byte
		lb = append(lb, pbBytes(1, l.Cid)...)
		lb = append(lb, pbBytes(2, []byte(l.Name))...)
		lb = append(lb, pbUint(3, l.Size)...)
		out = append(out, pbBytes(2, lb)...)
	}
	if data != nil {
		out = append(out, pbBytes(1, data)...)
	}
	return out
}

type ufsBuilder struct {
	blocks []refcar.Block
	seen   map[string]bool
}

func (b *ufsBuilder) add(codec uint64, data []byte) []byte {
	d, _ := refcar.Digest(refcar.MhSha256, data)
	c := refcar.CIDv1(codec, refcar.MhSha256, d)
	if b.seen == nil {
		b.seen = map[string]bool{}
	}
	if !b.seen[string(c)] {
		b.seen[string(c)] = true
		b.blocks = append(b.blocks, refcar.Block{Cid: c, Data: data})
	}
	return c
}

func (b *ufsBuilder) file(content []byte) []byte {
	return b.add(refcar.CodecDagPB, pbNode(nil, ufsData(2, content, true)))
}
func (b *ufsBuilder) symlink(target string) []byte {
	return b.add(refcar.CodecDagPB, pbNode(nil, ufsData(4, []byte(target), false)))
}
func (b *ufsBuilder) dir(links []pbLink) []byte {
	return b.add(refcar.CodecDagPB, pbNode(links, ufsData(1, nil, false)))
}

// rawLeaf is a raw-codec block (the "degenerate file" of extractElement).
func (b *ufsBuilder) rawLeaf(content []byte) []byte { return b.add(refcar.CodecRaw, content) }

// raw0 is a dag-pb node whose UnixFS type is Raw (0).
func (b *ufsBuilder) raw0(content []byte) []byte {
	return b.add(refcar.CodecDagPB, pbNode(nil, ufsData(0, content, true)))
}

// plain is a dag-pb node without a Data field (not UnixFS): go-unixfsnode reifies it as a
// "pathed" node that lists its links like a directory.
func (b *ufsBuilder) plain(links []pbLink) []byte {
	return b.add(refcar.CodecDagPB, pbNode(links, nil))
}

// shard is a hand-encoded one-level HAMT shard (UnixFS type 5, murmur3, fanout 256, all bitfield
// bits set): every link is a value link named "00"+name. go-unixfsnode's iterator walks the
// links in order and strips the two-character prefix without looking at hash placement (lookup by
// name, i.e. --path, would need the real placement and is not combined with shards).
func (b *ufsBuilder) shard(links []pbLink) []byte {
	ls := make([]pbLink, len(links))
	for i, l := range links {
		l.Name = "00" + l.Name
		ls[i] = l
	}
	bits := make([]byte, 32)
	for i := range bits {
		bits[i] = 0xff
	}
	d := pbUint(1, 5)
	d = append(d, pbBytes(2, bits)...)
	d = append(d, pbUint(5, 0x22)...)
	d = append(d, pbUint(6, 256)...)
	return b.add(refcar.CodecDagPB, pbNode(ls, d))
}

// shard2 is a two-level HAMT: a root shard with one child-shard link ("00") that holds the values.
func (b *ufsBuilder) shard2(links []pbLink) []byte {
	child := b.shard(links)
	bits := make([]byte, 32)
	bits[31] = 1
	d := pbUint(1, 5)
	d = append(d, pbBytes(2, bits)...)
	d = append(d, pbUint(5, 0x22)...)
	d = append(d, pbUint(6, 256)...)
	return b.add(refcar.CodecDagPB, pbNode([]pbLink{{Name: "00", Cid: child, Size: 1}}, d))
}

// ---------------------------------------------------------------- the check

type C17Entry struct {
	Name string `json:"name"`
	Kind string `json:"kind"` // file, dir, hdir, rawfile, raw0 or sym:<target class>
}

type C17Case struct {
	E1     C17Entry  `json:"e1"`
	E2     *C17Entry `json:"e2,omitempty"`
	Place  string    `json:"place"`  // same-dir, two-roots, parent-child, root-file, dir-root+file-root, file-root+dir-root, in-subdir, same-dir-hamt, same-dir-hamt2, same-dir-plainpb
	OutDir string    `json:"outdir"` // empty, file-a, dir-a, absent, sym-a-outside, sym-a-sentinel, sym-unknown-sentinel, sym-a-fresh, sym-d-outside
	Stdin  bool      `json:"stdin,omitempty"`
	Path   string    `json:"path,omitempty"`   // value of --path ("" = option not passed)
	OutArg string    `json:"outarg,omitempty"` // form of the output argument: "" (relative "out"), abs, cwd-omitted, dot, trailing-slash, dotdot, nested, symlinked, dash
	Drop   string    `json:"drop,omitempty"`   // block left out of the archive: e1, e2, root
}

var c17Names = []string{"a", "..", ".", "a/b", "../x", "/abs", "", "unknown", "a/../../x"}
var c17Kinds = []string{"file", "dir", "sym:../sentinel", "sym:ABS/sentinel", "sym:..", "sym:.", "sym:a", "sym:../outside", "sym:ABS/outside"}

// extension alphabets (crossed with the old ones by a reduced matrix, see genC17)
var c17NamesExt = []string{"ABS/x", "ABS/outside/new", "../../c17-up", "../../x"}
var c17KindsExt = []string{"sym:../fresh", "sym:ABS/outside/fresh", "sym:../freshdir", "sym:../../sentinel", "sym:../../outside", "rawfile", "raw0", "hdir"}

var c17OutArgs = []string{"abs", "cwd-omitted", "dot", "trailing-slash", "dotdot", "nested", "symlinked", "dash"}
var c17SymOutDirs = []string{"sym-a-outside", "sym-a-sentinel", "sym-unknown-sentinel", "sym-a-fresh"}

// c17RootMu serialises the cases that probe shared names at the filesystem root.
var c17RootMu sync.Mutex

// c17AggregatePlace marks the one pseudo-case that genC17 emits last: it carries the aggregate
// non-vacuity assertion (kit's Finish hook runs after the exit code is decided and cannot fail a run).
const c17AggregatePlace = "aggregate-nonvacuity"

// c17Agg is the run-wide state behind the aggregate assertion.
var c17Agg struct {
	emitted     int64 // real cases emitted by genC17 (0: no enumeration ran in this process, e.g. --replay)
	done        int64 // real cases finished
	wroteInside int64 // extractions that changed something inside the output directory (or printed a file to stdout)
	plainRun    int64 // executions of the plain control {a,file}, same-dir, empty out, file source, no options
	plainOK     int64 // ... that produced <out>/a with the expected content
}

// c17Plain is the plain control: the one extraction result the repository's own suite pins
// (a named file of a directory root lands under that name in the output directory).
var c17Plain = C17Case{E1: C17Entry{Name: "a", Kind: "file"}, Place: "same-dir", OutDir: "empty"}

func c17IsPlain(cs C17Case) bool {
	return cs.E2 == nil && cs.E1 == c17Plain.E1 && cs.Place == "same-dir" && cs.OutDir == "empty" && !cs.Stdin && cs.Path == "" && cs.OutArg == "" && cs.Drop == ""
}

// c17Aggregate is the aggregate non-vacuity assertion: a tool, an encoder or a harness that never
// extracts anything would make the containment oracle pass vacuously.
func c17Aggregate(x *kit.Ctx) {
	if atomic.LoadInt64(&c17Agg.emitted) == 0 {
		// replayed alone: execute the plain control here
		runC17(c17Plain, x)
	} else {
		for dl := time.Now().Add(20 * time.Minute); atomic.LoadInt64(&c17Agg.done) < atomic.LoadInt64(&c17Agg.emitted) && time.Now().Before(dl); {
			time.Sleep(20 * time.Millisecond)
		}
	}
	if atomic.LoadInt64(&c17Agg.wroteInside) == 0 {
		x.Fail("c17:nonvacuity:nothing-extracted", "no extraction of the whole run wrote anything inside its output directory: the containment oracle is vacuous (%d cases)", atomic.LoadInt64(&c17Agg.done))
	}
	if atomic.LoadInt64(&c17Agg.plainOK) == 0 {
		x.Fail("c17:nonvacuity:plain-control", "the plain control (directory root with the file entry \"a\", empty output directory) did not produce <out>/a with its content in any of its %d execution(s): the containment oracle is vacuous", atomic.LoadInt64(&c17Agg.plainRun))
	}
}

func c17Dirish(e C17Entry) bool { return e.Kind == "dir" || e.Kind == "hdir" }

func (e C17Entry) content() []byte { return []byte("EVIL-CONTENT-" + e.Name) }

func (e C17Entry) build(b *ufsBuilder, sandbox string, child *pbLink) []byte {
	switch {
	case e.Kind == "file":
		return b.file(e.content())
	case e.Kind == "rawfile":
		return b.rawLeaf(e.content())
	case e.Kind == "raw0":
		return b.raw0(e.content())
	case e.Kind == "dir" || e.Kind == "hdir":
		var links []pbLink
		if child != nil {
			links = append(links, *child)
		} else {
			links = append(links, pbLink{Name: "inner", Cid: b.file([]byte("inner")), Size: 5})
		}
		if e.Kind == "hdir" {
			return b.shard(links)
		}
		return b.dir(links)
	case strings.HasPrefix(e.Kind, "sym:"):
		t := strings.TrimPrefix(e.Kind, "sym:")
		t = strings.Replace(t, "ABS", sandbox, 1)
		return b.symlink(t)
	}
	panic(e.Kind)
}

// c17Plant puts the files an escaping write would hit next to (never inside) an output directory.
func c17Plant(dir string) {
	if err := os.MkdirAll(filepath.Join(dir, "outside"), 0o755); err != nil {
		panic(err)
	}
	os.WriteFile(filepath.Join(dir, "sentinel"), []byte("SENTINEL"), 0o644)
	os.WriteFile(filepath.Join(dir, "outside", "keep"), []byte("KEEP"), 0o644)
	os.WriteFile(filepath.Join(dir, "x"), []byte("X-ORIGINAL"), 0o644)
}

func runC17(c any, x *kit.Ctx) {
	cs := c.(C17Case)
	if cs.Place == c17AggregatePlace {
		c17Aggregate(x)
		return
	}
	defer atomic.AddInt64(&c17Agg.done, 1)
	// top/                 snapshot root: sentinel, outside/keep, x, up-sentinel, the archive
	// top/c17sandbox/      working directory of the tool: sentinel, outside/keep, x
	// top/c17sandbox/out   the output directory (nested: out/sub, symlinked: outlink -> realout)
	top := filepath.Join(x.Dir, "c17top")
	sandbox := filepath.Join(top, "c17sandbox")
	os.RemoveAll(top)
	defer os.RemoveAll(top)
	c17Plant(top)
	os.WriteFile(filepath.Join(top, "up-sentinel"), []byte("UP"), 0o644)
	c17Plant(sandbox)
	target := filepath.Join(sandbox, "out")
	switch cs.OutArg {
	case "nested":
		target = filepath.Join(sandbox, "out", "sub")
		c17Plant(filepath.Join(sandbox, "out"))
	case "symlinked":
		target = filepath.Join(sandbox, "realout")
		if err := os.Symlink("realout", filepath.Join(sandbox, "outlink")); err != nil {
			panic(err)
		}
	}
	if cs.OutDir != "absent" {
		if err := os.MkdirAll(target, 0o755); err != nil {
			panic(err)
		}
	}
	switch cs.OutDir {
	case "empty", "absent":
	case "file-a":
		os.WriteFile(filepath.Join(target, "a"), []byte("old a"), 0o644)
	case "dir-a":
		os.MkdirAll(filepath.Join(target, "a"), 0o755)
	case "sym-a-outside": // left behind by an earlier extraction: a link to a directory outside
		os.Symlink("../outside", filepath.Join(target, "a"))
	case "sym-a-sentinel":
		os.Symlink("../sentinel", filepath.Join(target, "a"))
	case "sym-unknown-sentinel":
		os.Symlink("../sentinel", filepath.Join(target, "unknown"))
	case "sym-a-fresh": // dangling: the target does not exist (yet)
		os.Symlink("../fresh", filepath.Join(target, "a"))
	case "sym-d-outside":
		os.Symlink("../outside", filepath.Join(target, "d"))
	default:
		panic(cs.OutDir)
	}

	// build the archive
	b := &ufsBuilder{}
	// The entry name "/abs" is realised as a root-level name that is private to this worker, so
	// that "taken literally it lands at the filesystem root" is observable without a race between
	// the workers (the filesystem root is outside every snapshot).
	absName := "/c17abs-" + filepath.Base(filepath.Dir(x.Dir)) + "-" + filepath.Base(x.Dir)
	subst := func(n string) string {
		if n == "/abs" {
			return absName
		}
		return strings.Replace(n, "ABS", sandbox, 1)
	}
	var e1Cid, e2Cid []byte
	l1 := func(child *pbLink) pbLink {
		e1Cid = cs.E1.build(b, sandbox, child)
		return pbLink{Name: subst(cs.E1.Name), Cid: e1Cid, Size: 1}
	}
	l2 := func(size uint64) pbLink {
		e2Cid = cs.E2.build(b, sandbox, nil)
		return pbLink{Name: subst(cs.E2.Name), Cid: e2Cid, Size: size}
	}
	both := func() []pbLink {
		links := []pbLink{l1(nil)}
		if cs.E2 != nil {
			links = append(links, l2(1))
		}
		return links
	}
	var roots [][]byte
	switch cs.Place {
	case "same-dir":
		roots = [][]byte{b.dir(both())}
	case "same-dir-hamt":
		roots = [][]byte{b.shard(both())}
	case "same-dir-hamt2":
		roots = [][]byte{b.shard2(both())}
	case "same-dir-plainpb":
		roots = [][]byte{b.plain(both())}
	case "in-subdir":
		roots = [][]byte{b.dir([]pbLink{{Name: "d", Cid: b.dir(both()), Size: 1}})}
	case "two-roots":
		roots = [][]byte{b.dir([]pbLink{l1(nil)})}
		if cs.E2 != nil {
			// a distinct second root even when the entries are equal
			roots = append(roots, b.dir([]pbLink{l2(2)}))
		}
	case "parent-child":
		var child *pbLink
		if cs.E2 != nil {
			l := l2(1)
			child = &l
		}
		roots = [][]byte{b.dir([]pbLink{l1(child)})}
	case "root-file":
		// roots that are not directories: a symlink/file root, then a second root
		roots = [][]byte{l1(nil).Cid}
		if cs.E2 != nil {
			roots = append(roots, l2(1).Cid)
		}
	case "dir-root+file-root":
		roots = [][]byte{b.dir([]pbLink{l1(nil)}), l2(1).Cid}
	case "file-root+dir-root":
		roots = [][]byte{l1(nil).Cid, b.dir([]pbLink{l2(2)})}
	default:
		panic(cs.Place)
	}
	var drop []byte
	switch cs.Drop {
	case "e1":
		drop = e1Cid
	case "e2":
		drop = e2Cid
	case "root":
		drop = roots[0]
	}
	// blocks in reverse creation order puts parents first (as car create does); both work for a file source
	var blks []refcar.Block
	for i := len(b.blocks) - 1; i >= 0; i-- {
		if drop != nil && string(b.blocks[i].Cid) == string(drop) {
			continue
		}
		blks = append(blks, b.blocks[i])
	}
	archive := refcar.EncodeV1(roots, false, blks)
	apath := filepath.Join(top, "c17.car")
	os.WriteFile(apath, archive, 0o644)

	// the command line
	args := []string{"extract"}
	if !cs.Stdin {
		args = append(args, "-f", apath)
	}
	if cs.Path != "" {
		args = append(args, "--path", cs.Path)
	}
	cwd := sandbox
	skip := []string{}
	if rel, err := filepath.Rel(top, target); err == nil {
		skip = append(skip, rel)
	}
	switch cs.OutArg {
	case "":
		args = append(args, "out")
	case "abs":
		args = append(args, target)
	case "cwd-omitted":
		cwd = target
	case "dot":
		cwd = target
		args = append(args, ".")
	case "trailing-slash":
		args = append(args, "out/")
	case "dotdot":
		args = append(args, "out/../out")
	case "nested":
		args = append(args, "out/sub")
	case "symlinked":
		args = append(args, "outlink")
	case "dash": // extraction to stdout: there is no output directory at all
		args = append(args, "-")
		skip = nil
	default:
		panic(cs.OutArg)
	}
	if cs.OutDir == "absent" {
		cwd = sandbox
	}

	// root-level paths an escaping write could create: the private absolute name always; with "-"
	// (no output root: a naive join yields "/<name>") also the entry names themselves, under a lock
	// because those names are shared between the workers
	rootProbe := []string{absName}
	if cs.OutArg == "dash" {
		c17RootMu.Lock()
		defer c17RootMu.Unlock()
		for _, n := range []string{subst(cs.E1.Name), func() string {
			if cs.E2 != nil {
				return subst(cs.E2.Name)
			}
			return ""
		}(), "unknown", "inner", "d"} {
			if first := strings.Split(strings.TrimLeft(n, "/"), "/")[0]; first != "" && first != "." && first != ".." {
				rootProbe = append(rootProbe, "/"+first)
			}
		}
	}
	rootStat := func(p string) string {
		fi, err := os.Lstat(p)
		if err != nil {
			return ""
		}
		if fi.IsDir() {
			return "dir" // a pre-existing system directory (e.g. /dev for an ABS name): only its kind is compared
		}
		return fmt.Sprintf("%v|%d|%v", fi.Mode(), fi.Size(), fi.ModTime().UnixNano())
	}
	rootBefore := map[string]string{}
	for _, p := range rootProbe {
		rootBefore[p] = rootStat(p)
	}
	before := drv.Snapshot(top, skip...)
	inBefore := drv.Snapshot(target)
	var r drv.RunResult
	if cs.Stdin {
		r = drv.Car(cwd, archive, args...)
	} else {
		r = drv.Car(cwd, nil, args...)
	}
	x.Eval(1)
	x.Transition(len(blks))
	after := drv.Snapshot(top, skip...)
	inAfter := drv.Snapshot(target)
	// "out" itself may be replaced by something that is not a directory inside the sandbox: still inside
	if d := drv.DiffSnapshots(before, after); len(d) > 0 {
		x.Fail("c17:escape:"+c17Class(cs), "car extract changed files outside the output directory: %v\n(exit %d, stderr %s)", d, r.Exit, clipS(string(r.Stderr), 400))
	}
	// an absolute entry name taken literally lands at the filesystem root, outside the snapshot
	for _, p := range rootProbe {
		if now := rootStat(p); now != "" && now != rootBefore[p] {
			if rootBefore[p] == "" {
				os.RemoveAll(p)
			}
			// a root-level symlink may have been written through: remove what carries our marker
			for _, q := range []string{"/sentinel", "/outside", "/fresh", "/freshdir", "/x"} {
				if data, err := os.ReadFile(q); err == nil && strings.HasPrefix(string(data), "EVIL-CONTENT-") {
					os.Remove(q)
				}
			}
			x.Fail("c17:escape-root:"+c17Class(cs), "car extract created or modified %s at the filesystem root (exit %d, stderr %s)", p, r.Exit, clipS(string(r.Stderr), 400))
			break
		}
	}
	// a symlink placed in out may point anywhere, that is allowed; but nothing may have been
	// written THROUGH it: covered by the snapshot of everything outside out.

	wrote := len(drv.DiffSnapshots(inBefore, inAfter)) > 0 || (cs.OutArg == "dash" && len(r.Stdout) > 0)
	if wrote {
		atomic.AddInt64(&c17Agg.wroteInside, 1)
	}
	// positive controls: what the benign single-entry archives produce. The statement says nothing
	// about WHAT is extracted, so a deviation is an outcome (beyond-statement), never a violation;
	// non-vacuity is asserted once for the whole run by c17Aggregate.
	c17Control(cs, x, r, target, sandbox, inBefore, inAfter)
	guard := strings.Contains(string(r.Stderr), "redirect through symlinks") || strings.Contains(string(r.Stderr), "refusing to write")
	x.State(c17Key(cs))
	oc := fmt.Sprintf("exit=%d", r.Exit)
	if wrote {
		oc += " wrote-inside"
	}
	if guard {
		oc += " refused-by-guard"
	}
	x.Outcome(oc)
	if wrote {
		x.Count("extractions_that_wrote_inside", 1)
	}
	if guard {
		x.Count("extractions_refused_by_symlink_guard", 1)
	}
	if cs.E2 != nil && (wrote || guard) {
		x.Nontrivial(c17Key(cs))
	}
}

// c17Control looks at the result of the benign single-entry cases {a, kind} extracted into an
// empty output directory. Nothing here can fail the run: the property statement is about where
// extraction writes, not about what it produces. The result is recorded as
//   - counter controls_as_expected: the result of the current go-car;
//   - outcome beyond-statement:control-variant:<what>: another result a correct tool may give
//     (another name for a nameless root, a refusal without any write, a link that is not planted);
//   - outcome beyond-statement:c17:control:<place>:<kind>: anything else (the former violation
//     signature, kept as the outcome's name), with the first message under details.
//
// The plain control additionally feeds the aggregate assertion (c17Aggregate).
func c17Control(cs C17Case, x *kit.Ctx, r drv.RunResult, target, sandbox string, inBefore, inAfter map[string]string) {
	if cs.E2 != nil || cs.E1.Name != "a" || cs.OutDir != "empty" || cs.Drop != "" {
		return
	}
	rel := ""
	switch cs.Place {
	case "same-dir", "two-roots", "same-dir-hamt", "same-dir-hamt2", "same-dir-plainpb":
		rel = "a"
		if cs.Path != "" && !((cs.Path == "a" || cs.Path == "/a/") && (cs.Place == "same-dir" || cs.Place == "two-roots" || cs.Place == "same-dir-plainpb")) {
			return
		}
	case "in-subdir":
		rel = "d/a"
		if cs.Path != "" && cs.Path != "d" && cs.Path != "d/a" {
			return
		}
	case "root-file":
		if cs.Path != "" {
			return
		}
		switch cs.E1.Kind {
		case "file", "raw0":
			rel = "unknown"
		case "dir", "hdir":
			rel = "."
		default:
			return // symlink roots and raw-codec roots extract nothing
		}
	default:
		return
	}
	kind := cs.E1.Kind
	if strings.HasPrefix(kind, "sym:") {
		kind = "symlink"
	}
	sig := "c17:control:" + cs.Place + ":" + kind
	ok := func() { x.Count("controls_as_expected", 1) }
	variant := func(what string) {
		x.Outcome("beyond-statement:control-variant:" + what)
		x.Count("controls_legal_variant", 1)
	}
	deviate := func(format string, args ...any) {
		x.Outcome("beyond-statement:" + sig)
		x.Count("controls_deviating", 1)
		x.Note("control deviation "+sig, clipS(fmt.Sprintf(format, args...), 600))
	}
	// what appeared inside the output directory
	var created, createdNonDir []string
	for k, v := range inAfter {
		if _, was := inBefore[k]; !was {
			created = append(created, k)
			if v != "dir" {
				createdNonDir = append(createdNonDir, k)
			}
		}
	}
	unchanged := len(drv.DiffSnapshots(inBefore, inAfter)) == 0
	// refusals of the whole archive or option before anything is written: legal for inputs whose
	// acceptance only the current code (not the statement, the documentation or the suite) fixes
	refused := func() bool {
		if !unchanged || r.Exit == 0 || (cs.OutArg == "dash" && len(r.Stdout) > 0) {
			return false
		}
		switch {
		case cs.Place == "same-dir-plainpb":
			variant("non-unixfs-root-refused")
		case cs.Path == "/a/":
			variant("path-trailing-slash-rejected")
		default:
			return false
		}
		return true
	}
	if c17IsPlain(cs) {
		atomic.AddInt64(&c17Agg.plainRun, 1)
		if got, err := os.ReadFile(filepath.Join(target, rel)); err == nil && string(got) == string(cs.E1.content()) {
			atomic.AddInt64(&c17Agg.plainOK, 1)
		}
	}
	if cs.OutArg == "dash" {
		switch cs.E1.Kind {
		case "file", "raw0", "rawfile":
			switch {
			case string(r.Stdout) == string(cs.E1.content()):
				ok()
			case refused():
			case len(r.Stdout) == 0 && r.Exit != 0 && unchanged && cs.Place != "root-file" && cs.Path == "":
				// a directory cannot be written to stdout; only a single addressed file can
				variant("directory-to-stdout-refused")
			default:
				deviate("benign control: extraction to stdout printed %q, want %q (exit %d, stderr %s)", clipS(string(r.Stdout), 100), cs.E1.content(), r.Exit, clipS(string(r.Stderr), 300))
			}
		}
		return
	}
	p := filepath.Join(target, rel)
	switch {
	case cs.E1.Kind == "file" || cs.E1.Kind == "raw0" || cs.E1.Kind == "rawfile":
		got, err := os.ReadFile(p)
		switch {
		case err == nil && string(got) == string(cs.E1.content()):
			ok()
		case refused():
		case cs.Place == "root-file" && len(created) == 1 && !strings.Contains(created[0], "/") && inAfter[created[0]] == drv.FileDigest(cs.E1.content()):
			// a bare file root has no name: any single new file directly in the output directory will do
			variant("bare-root-file-name")
		default:
			deviate("benign control: %s not extracted as expected: content %q err %v; created %v (exit %d, stderr %s)", p, got, err, created, r.Exit, clipS(string(r.Stderr), 300))
		}
	case c17Dirish(cs.E1):
		got, err := os.ReadFile(filepath.Join(p, "inner"))
		switch {
		case err == nil && string(got) == "inner":
			ok()
		case refused():
		default:
			deviate("benign control: %s/inner not extracted as expected: content %q err %v; created %v (exit %d, stderr %s)", p, got, err, created, r.Exit, clipS(string(r.Stderr), 300))
		}
	case strings.HasPrefix(cs.E1.Kind, "sym:"):
		want := strings.Replace(strings.TrimPrefix(cs.E1.Kind, "sym:"), "ABS", sandbox, 1)
		got, err := os.Readlink(p)
		_, lerr := os.Lstat(p)
		switch {
		case err == nil && got == want:
			ok()
		case lerr != nil && len(createdNonDir) == 0 && want != "a" && want != ".":
			// a link whose target leaves the output directory need not be planted (skipped or refused)
			variant("escaping-symlink-not-created")
		case refused():
		default:
			deviate("benign control: symlink %s not created as expected: target %q err %v, want %q; created %v (exit %d, stderr %s)", p, got, err, want, created, r.Exit, clipS(string(r.Stderr), 300))
		}
	}
}

func c17Class(cs C17Case) string {
	k := func(e C17Entry) string {
		if strings.HasPrefix(e.Kind, "sym:") {
			return "symlink"
		}
		return e.Kind
	}
	s := cs.Place + ":" + k(cs.E1)
	if cs.E2 != nil {
		s += "+" + k(*cs.E2)
	}
	return s
}

func c17Key(cs C17Case) string {
	e2 := "-"
	if cs.E2 != nil {
		e2 = fmt.Sprintf("%q/%s", cs.E2.Name, cs.E2.Kind)
	}
	return fmt.Sprintf("%q/%s|%s|%s|%s|%v|%s|%s|%s", cs.E1.Name, cs.E1.Kind, e2, cs.Place, cs.OutDir, cs.Stdin, cs.Path, cs.OutArg, cs.Drop)
}

func c17Cross(names, kinds []string) []C17Entry {
	var out []C17Entry
	for _, n := range names {
		for _, k := range kinds {
			out = append(out, C17Entry{n, k})
		}
	}
	return out
}

func c17Union(sets ...[]C17Entry) []C17Entry {
	seen := map[C17Entry]bool{}
	var out []C17Entry
	for _, s := range sets {
		for _, e := range s {
			if !seen[e] {
				seen[e] = true
				out = append(out, e)
			}
		}
	}
	return out
}

// c17Sets are the entry sets of one tier. core is crossed completely (as before); the extension
// alphabets enter through the reduced sets X (extension entries), P (partners) and their subsets.
type c17Sets struct {
	names, kinds []string   // core alphabets
	core         []C17Entry // names x kinds
	x            []C17Entry // extension entries: new names x few kinds + few names x new kinds
	pcore        []C17Entry // small core subset
	psmall       []C17Entry // pcore + {a} x new kinds
	pmin         []C17Entry // smallest partner set (quick-tier option matrices)
	p            []C17Entry // pcore + x
	outdirs      []string
	symOutdirs   []string
	bareKinds    []string // kinds of a non-directory root next to a directory root
	outArgs      []string
	pathsOK      []string // --path values that pathSegments accepts
	pathsBad     []string // --path values that pathSegments must reject
}

func c17SetsFor(tier string) c17Sets {
	var s c17Sets
	if tier == "thorough" {
		s.names, s.kinds = c17Names, c17Kinds
		s.x = c17Union(c17Cross(c17NamesExt, []string{"file", "dir", "sym:../sentinel"}), c17Cross([]string{"a", "a/b", "unknown"}, c17KindsExt),
			c17Cross([]string{"..", "../x", "a/../../x"}, []string{"rawfile", "raw0", "hdir"}))
		s.pcore = c17Cross([]string{"a", "..", "a/b", "../x", "unknown"}, []string{"file", "dir", "sym:../sentinel", "sym:../outside"})
		s.psmall = c17Union(s.pcore, c17Cross([]string{"a"}, c17KindsExt))
		s.outdirs = []string{"empty", "file-a", "dir-a", "absent"}
		s.symOutdirs = c17SymOutDirs
		s.bareKinds = []string{"file", "dir", "raw0", "rawfile", "sym:../sentinel", "hdir"}
		s.pathsOK = []string{"a", "/a/", "a/a", "a/unknown", "a/inner", "unknown"}
		s.pathsBad = []string{"..", ".", "a/..", "a//b", "../a"}
		s.pmin = s.pcore
	} else {
		s.names = []string{"a", "..", "a/b", "../x", "/abs", ""}
		s.kinds = []string{"file", "dir", "sym:../sentinel", "sym:ABS/sentinel", "sym:..", "sym:../outside"}
		s.x = c17Union(c17Cross([]string{"ABS/x", "../../c17-up"}, []string{"file", "sym:../sentinel"}), c17Cross([]string{"a"}, c17KindsExt),
			c17Cross([]string{"../x"}, []string{"rawfile", "hdir"}))
		s.pcore = c17Cross([]string{"a", "../x", "unknown"}, []string{"file", "dir", "sym:../sentinel"})
		s.psmall = c17Union(s.pcore, c17Cross([]string{"a"}, []string{"sym:../fresh", "rawfile", "hdir"}))
		s.outdirs = []string{"empty", "file-a"}
		s.symOutdirs = []string{"sym-a-outside", "sym-unknown-sentinel"}
		s.pmin = c17Cross([]string{"a", "../x"}, []string{"file", "dir", "sym:../sentinel"})
		s.bareKinds = []string{"file", "dir", "raw0"}
		s.pathsOK = []string{"a", "a/a"}
		s.pathsBad = []string{"..", "a/.."}
	}
	s.core = c17Cross(s.names, s.kinds)
	s.p = c17Union(s.pcore, s.x)
	s.outArgs = c17OutArgs
	return s
}

func genC17(tier string, emit func(any)) {
	s := c17SetsFor(tier)
	thorough := tier == "thorough"
	seen := map[string]bool{}
	n := 0
	// em emits a case once; combinations that make no sense are dropped here.
	em := func(cs C17Case) {
		switch cs.Place {
		case "parent-child":
			if cs.E2 == nil || !c17Dirish(cs.E1) {
				return
			}
		case "root-file": // names are irrelevant for non-directory roots
			if cs.E2 != nil && (cs.E1.Name != "a" || cs.E2.Name != "a") {
				return
			}
		case "dir-root+file-root":
			if cs.E2 == nil || cs.E2.Name != "a" {
				return
			}
		case "file-root+dir-root":
			if cs.E2 == nil || cs.E1.Name != "a" {
				return
			}
		}
		if cs.OutDir == "absent" && cs.OutArg != "" {
			return
		}
		if cs.Drop == "e2" && cs.E2 == nil {
			return
		}
		k := c17Key(cs)
		if seen[k] {
			return
		}
		seen[k] = true
		n++
		emit(cs)
	}
	single := func(es []C17Entry, places []string, base C17Case) {
		for _, e := range es {
			for _, pl := range places {
				cs := base
				cs.E1, cs.E2, cs.Place = e, nil, pl
				em(cs)
			}
		}
	}
	pairs := func(as, bs []C17Entry, places []string, base C17Case) {
		for _, e1 := range as {
			for _, e2 := range bs {
				e2 := e2
				for _, pl := range places {
					cs := base
					cs.E1, cs.E2, cs.Place = e1, &e2, pl
					em(cs)
				}
			}
		}
	}
	bare := func(kinds []string) []C17Entry { return c17Cross([]string{"a"}, kinds) }
	dirPlaces := []string{"same-dir", "two-roots", "parent-child"}
	all := c17Union(s.core, s.x)

	// 0. positive controls first: benign {a, kind} alone, every placement, every output argument form
	ctlKinds := append(append([]string{}, s.kinds...), c17KindsExt...)
	ctlPlaces := []string{"same-dir", "root-file", "in-subdir", "same-dir-hamt", "same-dir-hamt2", "same-dir-plainpb"}
	single(bare(ctlKinds), ctlPlaces, C17Case{OutDir: "empty"})
	single(bare(ctlKinds), ctlPlaces, C17Case{OutDir: "empty", Stdin: true})
	for _, oa := range s.outArgs {
		single(bare([]string{"file", "dir", "sym:../sentinel", "rawfile", "hdir"}), ctlPlaces, C17Case{OutDir: "empty", OutArg: oa})
	}
	for _, p := range []string{"a", "/a/"} {
		single(bare([]string{"file", "dir", "sym:../sentinel", "rawfile", "hdir"}), []string{"same-dir", "same-dir-plainpb"}, C17Case{OutDir: "empty", Path: p})
	}
	for _, p := range []string{"d", "d/a"} {
		single(bare([]string{"file", "dir", "sym:../sentinel", "rawfile", "hdir"}), []string{"in-subdir"}, C17Case{OutDir: "empty", Path: p})
	}

	// 1. the core product (complete): every pair of core entries in the four original placements
	for _, od := range s.outdirs {
		if od == "absent" {
			// the tool refuses a missing output directory before it writes anything (EvalSymlinks
			// fails): reduced matrix
			single(all, []string{"same-dir", "root-file"}, C17Case{OutDir: od})
			pairs(s.psmall, s.psmall, append(dirPlaces, "root-file"), C17Case{OutDir: od})
			continue
		}
		for _, e1 := range s.core {
			for _, place := range []string{"same-dir", "root-file"} {
				em(C17Case{E1: e1, Place: place, OutDir: od})
			}
			for _, e2 := range s.core {
				e2 := e2
				for _, place := range []string{"same-dir", "two-roots", "parent-child", "root-file"} {
					em(C17Case{E1: e1, E2: &e2, Place: place, OutDir: od})
					if thorough && od == "empty" && place != "root-file" {
						em(C17Case{E1: e1, E2: &e2, Place: place, OutDir: od, Stdin: true})
					}
				}
			}
		}
	}

	// 2. extension alphabets (names that are absolute sandbox paths or climb two levels; dangling
	// and two-level symlink targets, raw leaves, UnixFS Raw nodes, sharded sub-directories):
	// every pair with at least one extension entry and a partner from P
	extOutdirs := []string{"empty"}
	if thorough {
		extOutdirs = []string{"empty", "dir-a"}
	}
	for _, od := range extOutdirs {
		single(s.x, []string{"same-dir", "root-file"}, C17Case{OutDir: od})
		if od != "empty" {
			pairs(s.psmall, s.psmall, dirPlaces, C17Case{OutDir: od})
			continue
		}
		pairs(s.x, s.p, dirPlaces, C17Case{OutDir: od})
		pairs(s.p, s.x, dirPlaces, C17Case{OutDir: od})
		pairs(bare(c17KindsExt), bare(append(append([]string{}, s.kinds...), c17KindsExt...)), []string{"root-file"}, C17Case{OutDir: od})
		pairs(bare(s.kinds), bare(c17KindsExt), []string{"root-file"}, C17Case{OutDir: od})
	}

	// 3. new placements
	// 3a. a directory root next to a bare (non-directory, or bare directory) root, both orders:
	// the bare root is written to <out>/unknown without passing resolvePath
	mixOutdirs := []string{"empty"}
	if thorough {
		mixOutdirs = []string{"empty", "file-a", "dir-a"}
	}
	for _, od := range mixOutdirs {
		pairs(all, bare(s.bareKinds), []string{"dir-root+file-root"}, C17Case{OutDir: od})
		pairs(bare(s.bareKinds), all, []string{"file-root+dir-root"}, C17Case{OutDir: od})
	}
	// 3b. both entries inside a sub-directory (relative targets scaled to the depth are in X)
	single(all, []string{"in-subdir"}, C17Case{OutDir: "empty"})
	deep := s.p
	if !thorough {
		deep = c17Union(s.psmall, c17Cross([]string{"a/b"}, []string{"file", "dir"}), c17Cross([]string{"a"}, []string{"sym:../../outside"}))
	}
	pairs(deep, deep, []string{"in-subdir"}, C17Case{OutDir: "empty"})
	// 3c. sharded root directory (own iterator, strips a name prefix), one and two levels
	single(all, []string{"same-dir-hamt", "same-dir-hamt2", "same-dir-plainpb"}, C17Case{OutDir: "empty"})
	pairs(deep, deep, []string{"same-dir-hamt"}, C17Case{OutDir: "empty"})
	if thorough {
		pairs(s.psmall, s.psmall, []string{"same-dir-hamt2", "same-dir-plainpb"}, C17Case{OutDir: "empty"})
	} else {
		pairs(s.pmin, s.pmin, []string{"same-dir-hamt2", "same-dir-plainpb"}, C17Case{OutDir: "empty"})
	}

	// 4. output directories that already hold a symlink (left by an earlier extraction)
	for _, od := range s.symOutdirs {
		single(all, []string{"same-dir", "root-file", "same-dir-hamt"}, C17Case{OutDir: od})
		pairs(s.psmall, s.psmall, append(dirPlaces, "root-file"), C17Case{OutDir: od})
		pairs(s.psmall, bare(s.bareKinds), []string{"dir-root+file-root"}, C17Case{OutDir: od})
		pairs(bare(s.bareKinds), s.psmall, []string{"file-root+dir-root"}, C17Case{OutDir: od})
	}
	single(all, []string{"in-subdir"}, C17Case{OutDir: "sym-d-outside"})
	pairs(s.pmin, s.pmin, []string{"in-subdir"}, C17Case{OutDir: "sym-d-outside"})

	// 5. options
	// 5a. --path: rejected values never reach the extraction; accepted values are crossed with the
	// pairs in which an entry carries the first segment's name
	pathSet := c17Union(s.pcore, c17Cross([]string{"a"}, []string{"sym:../fresh", "rawfile", "hdir"}), c17Cross([]string{".."}, []string{"file", "dir", "sym:../sentinel"}))
	for _, p := range append(append([]string{}, s.pathsBad...), s.pathsOK...) {
		segs := strings.Split(strings.Trim(p, "/"), "/")
		var hit, rest []C17Entry
		for _, e := range pathSet {
			if e.Name == segs[0] {
				hit = append(hit, e)
			} else {
				rest = append(rest, e)
			}
		}
		bad := false
		for _, q := range s.pathsBad {
			bad = bad || q == p
		}
		places := []string{"same-dir", "parent-child"}
		if bad && !thorough {
			places = []string{"same-dir"}
		}
		if len(segs) == 1 && !bad {
			places = append([]string{}, dirPlaces...)
			if thorough {
				places = append(places, "same-dir-plainpb", "root-file")
			}
		}
		base := C17Case{OutDir: "empty", Path: p}
		single(pathSet, []string{"same-dir", "root-file", "same-dir-plainpb"}, base)
		pairs(hit, pathSet, places, base)
		pairs(rest, hit, places, base)
		pairs(hit, bare(s.bareKinds), []string{"dir-root+file-root"}, base)
		pairs(bare(s.bareKinds), hit, []string{"file-root+dir-root"}, base)
		if !bad && (thorough || p == "a") {
			base.OutDir = "sym-a-outside"
			pairs(hit, pathSet, []string{"same-dir", "two-roots", "parent-child"}, base)
			pairs(rest, hit, []string{"same-dir", "two-roots"}, base)
		}
	}
	for _, p := range []string{"d", "d/a", "d/unknown"} {
		pairs(s.pmin, s.pmin, []string{"in-subdir"}, C17Case{OutDir: "empty", Path: p})
	}
	// 5b. form of the output argument
	for _, oa := range s.outArgs {
		for _, od := range []string{"empty", "file-a"} {
			base := C17Case{OutDir: od, OutArg: oa}
			if thorough {
				single(all, []string{"same-dir", "root-file"}, base)
			} else {
				single(s.pmin, []string{"same-dir", "root-file"}, base)
			}
			if od == "empty" {
				pairs(s.pmin, s.pmin, append(dirPlaces, "root-file"), base)
				pairs(s.pmin, bare(s.bareKinds), []string{"dir-root+file-root"}, base)
			}
		}
	}
	// 5c. missing blocks
	for _, stdin := range []bool{false, true} {
		ps := s.psmall
		if stdin {
			ps = s.pcore
		}
		if !thorough {
			ps = s.pmin
		}
		for _, d := range []string{"e1", "e2"} {
			base := C17Case{OutDir: "empty", Drop: d, Stdin: stdin}
			if stdin && !thorough {
				pairs(s.pmin, s.pmin, dirPlaces, base)
				continue
			}
			pairs(ps, ps, dirPlaces, base)
			pairs(s.pmin, s.pmin, []string{"in-subdir", "same-dir-hamt", "root-file"}, base)
			pairs(s.pmin, bare(s.bareKinds), []string{"dir-root+file-root"}, base)
		}
		single(s.pcore, []string{"same-dir", "root-file"}, C17Case{OutDir: "empty", Drop: "root", Stdin: stdin})
		single(s.pcore, []string{"same-dir"}, C17Case{OutDir: "empty", Drop: "e1", Stdin: stdin})
	}
	// 5d. stdin with non-directory roots and with pre-populated output directories
	pairs(bare(s.kinds), bare(s.kinds), []string{"root-file"}, C17Case{OutDir: "empty", Stdin: true})
	stdinOutdirs := []string{"file-a", "sym-a-outside"}
	if thorough {
		stdinOutdirs = []string{"file-a", "sym-a-outside", "sym-unknown-sentinel"}
	}
	for _, od := range stdinOutdirs {
		sp := s.psmall
		if !thorough {
			sp = s.pmin
		}
		pairs(sp, sp, []string{"same-dir", "two-roots"}, C17Case{OutDir: od, Stdin: true})
		pairs(s.pmin, bare(s.bareKinds), []string{"dir-root+file-root"}, C17Case{OutDir: od, Stdin: true})
	}
	// 6. last: the aggregate non-vacuity assertion over all the cases above
	atomic.StoreInt64(&c17Agg.emitted, int64(n))
	emit(C17Case{Place: c17AggregatePlace})
}

func init() {
	kit.Register(&kit.Prop{
		ID:     "C17",
		Gen:    genC17,
		Run:    runC17,
		Setup:  func(string) error { return drv.BuildCar() },
		Decode: kit.DecodeAs[C17Case],
		Finish: func(tier string, extra map[string]any) {
			extra["nonvacuity"] = map[string]any{
				"cases":                         atomic.LoadInt64(&c17Agg.emitted),
				"extractions_that_wrote_inside": atomic.LoadInt64(&c17Agg.wroteInside),
				"plain_control_executions":      atomic.LoadInt64(&c17Agg.plainRun),
				"plain_control_produced_file":   atomic.LoadInt64(&c17Agg.plainOK),
				"asserted_by":                   "the last case (place " + c17AggregatePlace + "): signatures c17:nonvacuity:nothing-extracted, c17:nonvacuity:plain-control",
			}
		},
		Rule: "every UnixFS archive with at most two hostile entries (deviation bound 2) built with an own dag-pb encoder (unsorted/duplicate names expressible) and extracted by the REAL car binary. " +
			"CORE (complete product): names {a, .., ., a/b, ../x, /abs, empty, unknown, a/../../x} x kinds {file, directory, symlink to ../sentinel | absolute sentinel | .. | . | a | ../outside | absolute outside} in the placements {same directory, two roots, parent/child, non-directory roots} x output directory {empty, holding file a, holding directory a} (+ stdin source for the empty one); a missing output directory with a reduced matrix (the tool refuses it before writing). " +
			"EXTENSIONS (explicit reduced matrices, all fully enumerated): names {absolute path into the sandbox, absolute path into the outside directory, ../../c17-up, ../../x} and kinds {dangling symlink ../fresh | absolute fresh | ../freshdir, two-level targets ../../sentinel | ../../outside, raw-codec leaf, UnixFS Raw node, sharded (HAMT) sub-directory} as set X, paired in both orders with the partner set P = {a, .., a/b, ../x, unknown} x {file, dir, ../sentinel, ../outside} + X; " +
			"placements {directory root + bare root and reversed (the bare root lands on <out>/unknown), both entries inside a sub-directory, one-level and two-level hand-encoded HAMT root, non-UnixFS dag-pb root}; output directories that already hold a symlink {a->../outside, a->../sentinel, unknown->../sentinel, a->../fresh (dangling), d->../outside}; " +
			"options: --path {accepted: a, /a/, a/a, a/unknown, a/inner, unknown, d, d/a, d/unknown; rejected: .., ., a/.., a//b, ../a} crossed with the pairs carrying the first segment's name; output argument form {relative, absolute, omitted (cwd), ., trailing slash, out/../out, nested out/sub with sentinels in out, symlink to the real directory, - (stdout)}; one block missing {entry 1, entry 2, root} from file and stdin; stdin with non-directory roots and pre-populated output directories. " +
			"ORACLE: recursive snapshot (names, types, contents, link targets) of the sandbox's PARENT directory (sentinels at both levels, the archive itself) minus the output directory is unchanged; the name /abs is realised as a per-worker private root-level path that must not appear; with '-' the root-level names of the entries must not appear; " +
			"NON-VACUITY (one aggregate assertion, evaluated by the last case once every other case has finished): some extraction of the run wrote inside its output directory AND the plain control (directory root with the file entry a, empty output directory, file source, no options) produced <out>/a with its content. " +
			"positive controls (recorded, never violations - the statement does not say what is extracted): the benign archive {a, kind} alone in every placement/output form is classified as expected (counter controls_as_expected), legal variant (outcome beyond-statement:control-variant:<what>: other name for a bare file root, directory refused on stdout, escaping link not planted, non-UnixFS root or trailing-slash --path refused before any write; exit status ignored) or deviating (outcome beyond-statement:c17:control:<place>:<kind>, message under details); " +
			"non-trivial = archive with two hostile entries whose extraction wrote inside the output directory or was refused by a symlink guard",
		Bound: func(tier string) map[string]any {
			s := c17SetsFor(tier)
			return map[string]any{"hostile_entries": 2, "names": len(s.names), "kinds": len(s.kinds), "core_entries": len(s.core),
				"extension_names": len(c17NamesExt), "extension_kinds": len(c17KindsExt), "extension_entries_X": len(s.x), "partners_P": len(s.p), "partners_small": len(s.psmall), "partners_core": len(s.pcore), "partners_min": len(s.pmin),
				"placements": 10, "outdirs": len(s.outdirs), "symlink_outdirs": len(s.symOutdirs) + 1, "bare_root_kinds": len(s.bareKinds),
				"outarg_forms": len(s.outArgs) + 1, "paths_accepted": len(s.pathsOK) + 3, "paths_rejected": len(s.pathsBad), "dropped_block": 3,
				"stdin": "core pairs with empty output directory (thorough), controls, missing blocks, non-directory roots, pre-populated output directories"}
		},
		Assumptions: []string{
			"exit status and error text of car extract are irrelevant to the property (the control classification uses the exit status only to recognise a refusal that wrote nothing; the guard counters match two error texts and feed outcomes only)",
			"what a benign archive extracts to (names, link creation, stdout dumps, acceptance of non-UnixFS roots or of a trailing slash in --path) is beyond the statement: deviations are outcomes; the run fails for vacuity only if nothing at all was written inside any output directory or the plain control {a,file} did not produce <out>/a",
			"the hand-encoded HAMT and non-UnixFS placements are accepted by the current go-unixfsnode; a stricter decoder turns those cases into refusals (still checked for containment) and shows up as control outcomes, not violations",
			"the extension alphabets, new placements, symlink-holding output directories and options are crossed by the reduced matrices stated in the rule, not by the complete product",
			"HAMT shards are hand-encoded without real hash placement (go-unixfsnode's iterator does not check it); --path lookups, which need the placement, are not combined with shards",
			"writes at the filesystem root are observed only for the per-worker name standing for /abs and, with '-', for the first components of the entry names; everything else is observed up to the parent of the working directory",
			"file modes and timestamps outside the output directory are not compared",
		},
	})
}
