package props

import (
	"bytes"
	"errors"
	"fmt"
	"io"
	"os"
	"path/filepath"
	"testing/iotest"

	"github.com/ipfs/go-cid"
	carv2 "github.com/ipld/go-car/v2"
	"github.com/ipld/go-car/v2/index"
	"github.com/multiformats/go-multihash"

	"verif/kit"
	"verif/refcar"
)

type C14Case struct {
	Seq     []string `json:"seq"`
	Cont    string   `json:"cont"` // v1, v2, v2pad
	Trusted bool     `json:"trusted,omitempty"`
	Roots   string   `json:"roots,omitempty"`  // root set (header width); "" = "a"
	Prefix  int      `json:"prefix,omitempty"` // bytes that precede the archive in the source; the source is handed over positioned after them
	// ZeroEOF: 0 = option off; 1 = ZeroLengthSectionAsEOF on, no padding; 2,3 = option on and 1 / 3 zero
	// bytes follow the last section (inside DataSize for CARv2)
	ZeroEOF int `json:"zeroeof,omitempty"`
	// Hdr, when set, replaces Roots: the header's roots as runs {count, byte length of each root CID}, every root an
	// identity-multihash CIDv1 of exactly that many bytes (c14_m5.go)
	Hdr [][2]int `json:"hdr,omitempty"`
}

// probeR counts how far the source has been consumed.
type probeR struct {
	r       io.Reader
	pos     int64
	maxRead int64
}

func (p *probeR) Read(b []byte) (int, error) {
	n, err := p.r.Read(b)
	p.pos += int64(n)
	if p.pos > p.maxRead {
		p.maxRead = p.pos
	}
	return n, err
}

type probeRS struct {
	probeR
	s io.Seeker
}

func (p *probeRS) Seek(off int64, whence int) (int64, error) {
	n, err := p.s.Seek(off, whence)
	if err == nil {
		p.pos = n
	}
	return n, err
}

var c14Sources = []string{"bytes", "stream", "stream1", "streamEOF", "file", "rawfile", "pipe", "datareader"}

func runC14(c any, x *kit.Ctx) {
	cs := c.(C14Case)
	rootsName := cs.Roots
	if rootsName == "" {
		rootsName = "a"
	}
	_, rootRaws, nilRoots := kit.Roots(rootsName)
	if len(cs.Hdr) > 0 {
		rootsName = "hdr" + c14HdrKey(cs.Hdr)
		rootRaws, nilRoots = c14HdrRoots(cs.Hdr), false
	}
	blks := kit.Bs(cs.Seq)
	var rb []refcar.Block
	for _, b := range blks {
		rb = append(rb, b.Ref())
	}
	payload := refcar.EncodeV1(rootRaws, nilRoots, rb)
	pl, err := refcar.DecodePayload(payload, false, true)
	if err != nil {
		panic(err)
	}
	data := payload
	switch cs.ZeroEOF {
	case 2:
		data = append(append([]byte{}, payload...), 0)
	case 3:
		data = append(append([]byte{}, payload...), 0, 0, 0)
	}
	var arch []byte
	var base uint64
	switch cs.Cont {
	case "v1":
		arch = data
	case "v2":
		arch = refcar.EncodeV2(data, 0, 0, refcar.EncodeIndex(refcar.CodecMhIndexSorted, refcar.RecordsOf(pl, false)), false)
		base = 51
	case "v2pad":
		arch = refcar.EncodeV2(data, 7, 3, refcar.EncodeIndex(refcar.CodecIndexSorted, refcar.RecordsOf(pl, false)), false)
		base = 58
	}
	prefix := int64(cs.Prefix)
	file := append(bytes.Repeat([]byte{0xAA}, cs.Prefix), arch...)
	payloadEnd := prefix + int64(base) + int64(len(data)) // absolute, in the source
	path := filepath.Join(x.Dir, "c14.car")
	if err := os.WriteFile(path, file, 0o644); err != nil {
		panic(err)
	}
	defer os.Remove(path)

	// what go-car's own index generation records for this payload: Offset must agree with it
	// (index generation is another function with a policy of its own: when it refuses the payload, or hands out an
	// index that cannot be walked, the cross-check is skipped and the fact recorded; that is not a violation of C14)
	idxOffsets := map[string][]uint64{}
	haveIdx := false
	if gi, err := carv2.GenerateIndex(bytes.NewReader(payload), carv2.StoreIdentityCIDs(true)); err == nil {
		if it, ok := gi.(index.IterableIndex); ok {
			if err := it.ForEach(func(mh multihash.Multihash, off uint64) error {
				idxOffsets[string(mh)] = append(idxOffsets[string(mh)], off)
				return nil
			}); err == nil {
				haveIdx = true
			} else {
				x.Outcome("beyond-statement:generate-index-foreach-fails")
			}
		} else {
			x.Outcome("beyond-statement:generate-index-not-iterable")
		}
	} else {
		x.Outcome("beyond-statement:generate-index-fails")
	}

	n := len(blks)
	for _, srcKind := range c14Sources {
		for mask := 0; mask < 1<<n; mask++ {
			failed := false
			fail := func(sig, f string, a ...any) { failed = true; x.Fail(sig, f, a...) }
			var src io.Reader
			var pr *probeR
			var closer io.Closer
			var consumed func() int64 // absolute position the source has been consumed to, when knowable
			skipPrefix := func(r io.Reader) {
				if prefix > 0 {
					if _, err := io.CopyN(io.Discard, r, prefix); err != nil {
						panic(err)
					}
				}
			}
			switch srcKind {
			case "bytes":
				// the raw *bytes.Reader (ReadSeeker + ByteReader + ReaderAt)
				r := bytes.NewReader(file)
				r.Seek(prefix, io.SeekStart)
				src = r
				consumed = func() int64 { return int64(len(file)) - int64(r.Len()) }
			case "stream", "stream1", "streamEOF":
				// the probe sits on top of the short-read wrappers: what is counted is what go-car consumes
				var inner io.Reader = bytes.NewReader(file)
				if srcKind == "stream1" {
					inner = iotest.OneByteReader(inner)
				} else if srcKind == "streamEOF" {
					inner = iotest.DataErrReader(inner)
				}
				p := &probeR{r: inner}
				skipPrefix(p)
				pr = p
				src = p
			case "pipe":
				// an *os.File that is NOT seekable although it has a Seek method (stdin of `cat x | ...`)
				pr_, pw, err := os.Pipe()
				if err != nil {
					panic(err)
				}
				go func() { pw.Write(file); pw.Close() }()
				skipPrefix(pr_)
				closer = pr_
				src = pr_
			case "file":
				f, err := os.Open(path)
				if err != nil {
					panic(err)
				}
				f.Seek(prefix, io.SeekStart)
				closer = f
				p := &probeRS{probeR: probeR{r: f, pos: prefix, maxRead: prefix}, s: f}
				pr = &p.probeR
				src = p
			case "datareader":
				// the archive as the payload of an outer CARv1/CARv2 Reader would hand it out: an offset reader
				// over an io.ReaderAt, which can Seek but not to its end (CARv1), or an io.SectionReader
				if prefix > 0 {
					continue // DataReader() always starts at the archive
				}
				// carv2.NewReader / DataReader only build this kind of source; they are not what C14 is about: when
				// they refuse the archive (a policy of their own) the source kind is skipped and the fact recorded
				rd, err := carv2.NewReader(bytes.NewReader(arch))
				if err != nil {
					x.Outcome("beyond-statement:datareader-source-unavailable")
					continue
				}
				if cs.Cont == "v1" {
					dr, err := rd.DataReader()
					if err != nil {
						x.Outcome("beyond-statement:datareader-source-unavailable")
						continue
					}
					src = dr
				} else {
					// for a CARv2 the whole file is wanted: wrap it as the payload window of itself
					src = io.NewSectionReader(bytes.NewReader(arch), 0, int64(len(arch)))
				}
			case "rawfile":
				// the *os.File itself: ReaderAt, ReaderFrom, WriterTo as well as ReadSeeker
				f, err := os.Open(path)
				if err != nil {
					panic(err)
				}
				f.Seek(prefix, io.SeekStart)
				closer = f
				src = f
				consumed = func() int64 { p, _ := f.Seek(0, io.SeekCurrent); return p }
			}
			tag := cs.Cont + ":" + srcKind
			var bropts []carv2.Option
			if cs.Trusted {
				bropts = append(bropts, carv2.WithTrustedCAR(true))
				tag += ":trusted"
			}
			if cs.ZeroEOF > 0 {
				bropts = append(bropts, carv2.ZeroLengthSectionAsEOF(true))
				tag += ":zeroeof"
			}
			if prefix > 0 {
				tag += ":prefixed"
			}
			if len(cs.Hdr) > 0 {
				tag += ":hdrshape"
			}
			br, err := carv2.NewBlockReader(src, bropts...)
			x.Eval(1)
			if err != nil {
				if len(cs.Hdr) > 0 && c14HdrOversize(rootRaws) {
					// a resource limit on header/root-CID size is a policy the statement does not speak about (like the
					// 32 MiB header limit the sweep stays under): a refusal at open is recorded, never a violation
					x.Outcome("beyond-statement:open-refuses-oversize-header")
				} else {
					x.Fail("c14:open:"+tag, "NewBlockReader fails on a valid archive: %v", err)
				}
				if closer != nil {
					closer.Close()
				}
				continue
			}
			wantV := uint64(1)
			if cs.Cont != "v1" {
				wantV = 2
			}
			// Version and Roots are documented fields the statement says nothing about (a wrong header width shows
			// in the offsets below): recorded, never a violation
			if br.Version != wantV {
				x.Outcome("beyond-statement:version-field-differs")
			}
			if len(br.Roots) != len(rootRaws) {
				x.Outcome("beyond-statement:roots-field-differs")
			} else {
				for i, r := range br.Roots {
					if !bytes.Equal(r.Bytes(), rootRaws[i]) {
						x.Outcome("beyond-statement:roots-field-differs")
						break
					}
				}
			}
			for i := 0; i < n; i++ {
				sec := pl.Sections[i]
				x.Transition(1)
				if mask&(1<<i) != 0 {
					md, err := br.SkipNext()
					if err != nil {
						fail("c14:skip-error:"+tag, "SkipNext #%d (choices %0*b) failed: %v", i, n, mask, err)
						break
					}
					if !bytes.Equal(md.Cid.Bytes(), sec.Cid) {
						fail("c14:skip-cid:"+tag, "SkipNext #%d (choices %0*b) CID %x want %x", i, n, mask, md.Cid.Bytes(), sec.Cid)
						break
					}
					if md.Offset != sec.Offset {
						fail("c14:offset:"+tag, "SkipNext #%d (choices %0*b) Offset=%d want %d", i, n, mask, md.Offset, sec.Offset)
					}
					// SourceOffset counts from where the archive starts in the source; a seekable source that was
					// handed over at a non-zero position may equally be reported in absolute positions of that source
					// (the statement and the doc comment leave the origin open in that case)
					srcBytes := arch
					if absSO := uint64(prefix) + base + sec.Offset; prefix > 0 && md.SourceOffset == absSO &&
						(srcKind == "bytes" || srcKind == "file" || srcKind == "rawfile") {
						srcBytes = file
					} else if md.SourceOffset != base+sec.Offset {
						fail("c14:source-offset:"+tag, "SkipNext #%d (choices %0*b) SourceOffset=%d want %d", i, n, mask, md.SourceOffset, base+sec.Offset)
					}
					if md.Size != uint64(len(sec.Data)) {
						fail("c14:size:"+tag, "SkipNext #%d (choices %0*b) Size=%d want %d", i, n, mask, md.Size, len(sec.Data))
					}
					// the bytes found at that offset of the archive are this section: length prefix, then the CID
					if so := md.SourceOffset; so < uint64(len(srcBytes)) {
						l, vn, err := refcar.Uvarint(srcBytes[so:])
						if err != nil || l != uint64(len(sec.Cid)+len(sec.Data)) || !bytes.HasPrefix(srcBytes[int(so)+vn:], sec.Cid) {
							fail("c14:source-offset-bytes:"+tag, "the bytes at SourceOffset %d are not this section's length prefix and CID", so)
						}
					} else {
						fail("c14:source-offset-bytes:"+tag, "SourceOffset %d lies outside the archive", md.SourceOffset)
					}
					// ... and Offset is an offset go-car's own index generation records for that multihash
					if c, err := cid.Cast(sec.Cid); err == nil && haveIdx {
						found := false
						for _, o := range idxOffsets[string(c.Hash())] {
							if o == md.Offset {
								found = true
							}
						}
						// an index need not record every copy of a block that the payload repeats: Offset has to be
						// among the recorded ones only when the index records one offset per section of that multihash
						copies := 0
						for _, o := range pl.Sections {
							if oc, err := cid.Cast(o.Cid); err == nil && bytes.Equal(oc.Hash(), c.Hash()) {
								copies++
							}
						}
						if !found && len(idxOffsets[string(c.Hash())]) >= copies {
							fail("c14:offset-vs-index:"+tag, "SkipNext #%d Offset=%d is not among the offsets GenerateIndex records for that multihash (%v)", i, md.Offset, idxOffsets[string(c.Hash())])
						}
					}
				} else {
					b, err := br.Next()
					if err != nil {
						fail("c14:next-error:"+tag, "Next #%d (choices %0*b) failed: %v", i, n, mask, err)
						break
					}
					if !bytes.Equal(b.Cid().Bytes(), sec.Cid) || !bytes.Equal(b.RawData(), sec.Data) {
						fail("c14:next-block:"+tag, "Next #%d (choices %0*b) returned %x want %x", i, n, mask, b.Cid().Bytes(), sec.Cid)
						break
					}
				}
			}
			if !failed {
				// end of archive, whichever calls ask: every pair over {Next, SkipNext} is spread over the masks
				// (and all four pairs are tried for the all-Next and all-Skip strings)
				call := func(skip bool) error {
					if skip {
						_, err := br.SkipNext()
						return err
					}
					_, err := br.Next()
					return err
				}
				first, second := mask&1 != 0, (mask>>1)&1 != 0
				if n < 2 {
					second = (mask+n)%2 == 0
				}
				// the visited sequence ends where the archive ends: the call after the last block must signal the end
				// (io.EOF, possibly wrapped), not hand out another block or fail otherwise. That the end is sticky
				// and that the value is the bare io.EOF are documented, not part of the statement: recorded only.
				err1 := call(first)
				if !errors.Is(err1, io.EOF) {
					fail("c14:eof:"+tag, "call after the last block (choices %0*b, skip=%v) returned %v want io.EOF", n, mask, first, err1)
				} else if err1 != io.EOF {
					x.Outcome("beyond-statement:eof-wrapped")
				}
				if err := call(second); err != io.EOF {
					x.Outcome("beyond-statement:eof-not-sticky")
				}
				if err := call(!second); err != io.EOF {
					x.Outcome("beyond-statement:eof-not-sticky")
				}
			}
			if cs.Cont != "v1" {
				// the source is never consumed past the end of the payload
				switch {
				case pr != nil:
					if pr.maxRead > payloadEnd {
						fail("c14:overread:"+tag, "source consumed up to offset %d, payload ends at %d (choices %0*b)", pr.maxRead, payloadEnd, n, mask)
					}
				case consumed != nil:
					if p := consumed(); p > payloadEnd {
						fail("c14:overread:"+tag, "source positioned at %d after the scan, payload ends at %d (choices %0*b)", p, payloadEnd, n, mask)
					}
				case srcKind == "pipe":
					rest, _ := io.Copy(io.Discard, src)
					if want := int64(len(file)) - payloadEnd; rest < want {
						fail("c14:overread:"+tag, "only %d bytes are left in the pipe after the scan, %d follow the payload (choices %0*b)", rest, want, n, mask)
					}
				}
			}
			if closer != nil {
				closer.Close()
			}
			if mask != 0 && mask != 1<<n-1 {
				x.Nontrivial(fmt.Sprintf("%v|%s|%s|%d|%s|%d|%d", cs.Seq, cs.Cont, srcKind, mask, rootsName, cs.Prefix, cs.ZeroEOF))
			}
		}
	}
	x.State(fmt.Sprintf("%s|%x|%d|%d", cs.Cont, payload, cs.Prefix, cs.ZeroEOF))
	if len(cs.Hdr) > 0 {
		// which header length-prefix widths the header shapes realised (vacuity check of the sweep)
		x.Outcome(fmt.Sprintf("hdrshape:length-prefix-width=%d", c14VarintLen(uint64(len(refcar.EncodeHeaderBody(rootRaws, nilRoots, 1))))))
	}
	x.Outcome(fmt.Sprintf("n=%d", n))
}

var c14Conts = []string{"v1", "v2", "v2pad"}

func genC14(tier string, emit func(any)) {
	names := []string{"e", "i0", "a0", "s", "L127", "L128"}
	maxLen := 4
	if tier == "thorough" {
		names = append(names, "X", "L16383", "L16384")
		maxLen = 5
	}
	kit.Seqs(names, maxLen, func(s []string) {
		for _, cont := range c14Conts {
			emit(C14Case{Seq: s, Cont: cont})
			if len(s) <= maxLen-1 {
				emit(C14Case{Seq: s, Cont: cont, Trusted: true})
			}
		}
	})
	// header shapes (length prefix 1, 2 and 3 bytes wide; no roots; null roots; CIDv0, sha512, duplicate roots),
	// a source that is not at position 0 when handed over, and ZeroLengthSectionAsEOF with and without null padding:
	// each crossed with all sequences up to a reduced length
	redLen := 2
	if tier == "thorough" {
		redLen = 3
	}
	rootSets := []string{"empty", "nil", "ab", "aa", "a0", "s", "r4", "r24", "r100"}
	if tier == "thorough" {
		rootSets = append(rootSets, "r400")
	}
	kit.Seqs(names, redLen, func(s []string) {
		for _, cont := range c14Conts {
			for _, rs := range rootSets {
				emit(C14Case{Seq: s, Cont: cont, Roots: rs})
			}
			for _, pfx := range []int{1, 200, 5000} {
				emit(C14Case{Seq: s, Cont: cont, Prefix: pfx})
				emit(C14Case{Seq: s, Cont: cont, Prefix: pfx, Roots: "r4"})
			}
			for z := 1; z <= 3; z++ {
				emit(C14Case{Seq: s, Cont: cont, ZeroEOF: z})
				emit(C14Case{Seq: s, Cont: cont, ZeroEOF: z, Prefix: 1, Roots: "r4"})
			}
		}
	})
	// header shapes by size class (c14HeaderShapes: every root-CID byte length 4..300 and around 65535, header bodies
	// around 16384 (thorough: 2^21) bytes, root counts across 23/24 and 255/256 (thorough: 65535/65536), ordered pairs
	// of boundary lengths), each x container x a reduced set of sequences (quick: 4 fixed ones of 0-3 blocks with all
	// their choice strings; thorough: every sequence up to 2 blocks), and once with all the options together
	hdrSeqs := [][]string{{}, {"a"}, {"i0", "L128"}, {"L127", "a0", "s"}}
	hdrSeqsAll := hdrSeqs
	if tier == "thorough" {
		kit.Seqs(names, 2, func(s []string) {
			if len(s) > 0 {
				hdrSeqsAll = append(hdrSeqsAll, s)
			}
		})
	}
	for _, h := range c14HeaderShapes(tier) {
		seqs := hdrSeqsAll
		if c14HdrBytes(h) > 100000 {
			seqs = hdrSeqs // headers of 0.5 MB and 2 MB: the four fixed sequences in either tier
		}
		for _, cont := range c14Conts {
			for _, s := range seqs {
				emit(C14Case{Seq: s, Cont: cont, Hdr: h})
			}
			emit(C14Case{Seq: hdrSeqs[3], Cont: cont, Hdr: h, Trusted: true})
			emit(C14Case{Seq: hdrSeqs[3], Cont: cont, Hdr: h, Prefix: 200, ZeroEOF: 2})
		}
	}
	// sections around the 3->4 byte length-prefix boundary and larger than any copy buffer or pipe buffer
	big := [][]string{{"L70000", "a"}, {"a", "L70000", "e"}}
	if tier == "thorough" {
		big = append(big, []string{"L2097151", "a"}, []string{"L2097152", "a"}, []string{"a", "L2097152"})
	}
	for _, s := range big {
		for _, cont := range c14Conts {
			emit(C14Case{Seq: s, Cont: cont})
			emit(C14Case{Seq: s, Cont: cont, Prefix: 200, Roots: "r4", ZeroEOF: 2})
		}
	}
	if tier == "thorough" {
		six := [][]string{{"e", "i0", "a0", "s", "L127", "L128"}, {"L128", "L127", "s", "a0", "i0", "e"}, {"L16384", "e", "L16383", "i0", "X", "a"}, {"a", "a", "a", "a", "a", "a"}}
		for _, s := range six {
			for _, cont := range c14Conts {
				emit(C14Case{Seq: s, Cont: cont})
				emit(C14Case{Seq: s, Cont: cont, Prefix: 200, Roots: "r4", ZeroEOF: 3})
			}
		}
	}
}

func init() {
	kit.Register(&kit.Prop{
		ID:     "C14",
		Gen:    genC14,
		Run:    runC14,
		Decode: kit.DecodeAs[C14Case],
		Rule: "every archive with up to N blocks over an alphabet of CID widths 4..68 and section lengths at varint boundaries x {CARv1, CARv2, padded CARv2 with index} x {verifying, TrustedCAR} x EVERY Next/SkipNext choice string (2^n) " +
			"x {bytes.Reader, plain stream, one-byte-read stream, data-with-EOF stream, wrapped *os.File, raw *os.File, *os.File over a pipe}; crossed (reduced length) with 10 header shapes (0..400 roots: length prefix 1-3 bytes, null/empty/CIDv0/sha512/duplicate roots), " +
			"a source positioned 1/200/5000 bytes into its stream, and ZeroLengthSectionAsEOF with 0/1/3 bytes of null padding; sections of 70000 and 2^21 bytes; " +
			"header size classes (identity-multihash roots realise every CID byte length): one root of EVERY byte length 4..300 and 65532..65538 (CBOR byte-string head of 1+len widens at 24, 256, 65536), one root such that the header body is every length 16384+-40 (thorough: 2^21+-2; length prefix 2->3, 3->4 bytes), " +
			"n equal roots for every n in 0..40 and 250..260 (array head widens at 24, 256; thorough: 65534..65537) x root length {4,22,23,24,36}, every ordered pair of root lengths over {22,23,24,36,254,255,256}; each shape x 3 containers x a reduced sequence set (quick: 4 fixed sequences of 0..3 blocks, thorough: every sequence of <=2 blocks; shapes over 100 kB: the 4 fixed ones) with all choice strings and all sources, plus once with TrustedCAR and once with prefix 200 + ZeroLengthSectionAsEOF + 1 null byte; " +
			"metadata compared with the reference layout, with the bytes at those offsets (SourceOffset of a seekable source handed over at a non-zero position may count from the archive start or from position 0 of the source) and with go-car's own GenerateIndex " +
			"(where it records one offset per section of the multihash; skipped and recorded when index generation fails); the call after the last block, for every {Next,SkipNext} choice, must signal io.EOF (errors.Is); " +
			"Version/Roots, bare and sticky io.EOF on further calls are recorded as beyond-statement outcomes only; source consumption bounded on every source kind; non-trivial = choice string mixing both calls",
		Bound: func(tier string) map[string]any {
			if tier == "thorough" {
				return map[string]any{"blocks": "<=5 exhaustive over 9 block shapes, plus selected 6-block and large-section archives", "choice_strings": "all 2^n", "sources": len(c14Sources), "header_shapes": 11, "cross_product_blocks": "<=3",
					"header_size_shapes": len(c14HeaderShapes(tier)), "header_size_shape_sequences": "every sequence <=2 blocks + 1 of 3 blocks (4 fixed sequences for headers over 100 kB)"}
			}
			return map[string]any{"blocks": "<=4 exhaustive over 6 block shapes, plus large-section archives", "choice_strings": "all 2^n", "sources": len(c14Sources), "header_shapes": 10, "cross_product_blocks": "<=2",
				"header_size_shapes": len(c14HeaderShapes(tier)), "header_size_shape_sequences": "4 fixed sequences of 0..3 blocks"}
		},
		Assumptions: []string{"resource policy is outside the statement: a reader that refuses a root CID longer than 2 KiB or a header body over 1 MiB at open is recorded (beyond-statement:open-refuses-oversize-header), as is a carv2.NewReader that refuses the harness's datareader source", "refcar layout is correct", "a 'valid CAR' has a canonical DAG-CBOR header (a header go-car's lenient decoder accepts but re-encodes at another length is outside the property)",
			"SourceOffset is relative to where the archive starts in the source (the position at which the source was handed to NewBlockReader); for a seekable source handed over at a non-zero position the absolute position in that source is accepted as well",
			"an index may record fewer offsets than the payload has copies of a block: Offset must be among the recorded ones only when there is one per copy",
			"a root may be any CID go-cid reads back unchanged, including identity-multihash CIDs with digests of up to 2 MiB (codec raw; dag-json where raw cannot realise the length: 132 and 16389); the header stays below the default 32 MiB limit",
			"header size classes are crossed with a reduced set of block sequences (stated in the rule), not with every archive of the main sweep"},
	})
}
