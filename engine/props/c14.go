package props

import (
	"bytes"
	"fmt"
	"io"
	"os"
	"path/filepath"

	carv2 "github.com/ipld/go-car/v2"

	"verif/kit"
	"verif/refcar"
)

type C14Case struct {
	Seq     []string `json:"seq"`
	Cont    string   `json:"cont"` // v1, v2, v2pad
	Trusted bool     `json:"trusted,omitempty"`
}

// probeR counts how far the source has been consumed.
type probeR struct {
	r       io.Reader
	pos     int64
	maxRead int64
}

func (p *probeR) Read(b []byte) (int, error) {
	n, err := p.r.Read(b)
	p.pos += int64(n)
	if p.pos > p.maxRead {
		p.maxRead = p.pos
	}
	return n, err
}

type probeRS struct {
	probeR
	s io.Seeker
}

func (p *probeRS) Seek(off int64, whence int) (int64, error) {
	n, err := p.s.Seek(off, whence)
	if err == nil {
		p.pos = n
	}
	return n, err
}

func runC14(c any, x *kit.Ctx) {
	cs := c.(C14Case)
	_, rootRaws, _ := kit.Roots("a")
	blks := kit.Bs(cs.Seq)
	var rb []refcar.Block
	for _, b := range blks {
		rb = append(rb, b.Ref())
	}
	payload := refcar.EncodeV1(rootRaws, false, rb)
	pl, err := refcar.DecodePayload(payload, false, true)
	if err != nil {
		panic(err)
	}
	var file []byte
	var base uint64
	switch cs.Cont {
	case "v1":
		file = payload
	case "v2":
		file = refcar.EncodeV2(payload, 0, 0, refcar.EncodeIndex(refcar.CodecMhIndexSorted, refcar.RecordsOf(pl, false)), false)
		base = 51
	case "v2pad":
		file = refcar.EncodeV2(payload, 7, 3, refcar.EncodeIndex(refcar.CodecIndexSorted, refcar.RecordsOf(pl, false)), false)
		base = 58
	}
	payloadEnd := int64(base) + int64(len(payload))
	path := filepath.Join(x.Dir, "c14.car")
	if err := os.WriteFile(path, file, 0o644); err != nil {
		panic(err)
	}
	defer os.Remove(path)
	n := len(blks)
	for _, srcKind := range []string{"bytes", "stream", "file", "pipe"} {
		for mask := 0; mask < 1<<n; mask++ {
			var src io.Reader
			var pr *probeR
			var closer io.Closer
			switch srcKind {
			case "bytes":
				// the raw *bytes.Reader (ReadSeeker + ByteReader + ReaderAt): no probe possible
				// without hiding its interfaces, so the over-read bound is checked on the others
				src = bytes.NewReader(file)
			case "stream":
				p := &probeR{r: bytes.NewReader(file)}
				pr = p
				src = p
			case "pipe":
				// an *os.File that is NOT seekable although it has a Seek method (stdin of `cat x | ...`)
				pr_, pw, err := os.Pipe()
				if err != nil {
					panic(err)
				}
				go func() { pw.Write(file); pw.Close() }()
				closer = pr_
				src = pr_
			case "file":
				f, err := os.Open(path)
				if err != nil {
					panic(err)
				}
				closer = f
				p := &probeRS{probeR: probeR{r: f}, s: f}
				pr = &p.probeR
				src = p
			}
			tag := cs.Cont + ":" + srcKind
			var bropts []carv2.Option
			if cs.Trusted {
				bropts = append(bropts, carv2.WithTrustedCAR(true))
				tag += ":trusted"
			}
			br, err := carv2.NewBlockReader(src, bropts...)
			x.Eval(1)
			if err != nil {
				x.Fail("c14:open:"+tag, "NewBlockReader fails on a valid archive: %v", err)
				if closer != nil {
					closer.Close()
				}
				continue
			}
			for i := 0; i < n; i++ {
				sec := pl.Sections[i]
				x.Transition(1)
				if mask&(1<<i) != 0 {
					md, err := br.SkipNext()
					if err != nil {
						x.Fail("c14:skip-error:"+tag, "SkipNext #%d (choices %0*b) failed: %v", i, n, mask, err)
						break
					}
					if !bytes.Equal(md.Cid.Bytes(), sec.Cid) {
						x.Fail("c14:skip-cid:"+tag, "SkipNext #%d (choices %0*b) CID %x want %x", i, n, mask, md.Cid.Bytes(), sec.Cid)
						break
					}
					if md.Offset != sec.Offset {
						x.Fail("c14:offset:"+tag, "SkipNext #%d (choices %0*b) Offset=%d want %d", i, n, mask, md.Offset, sec.Offset)
					}
					if md.SourceOffset != base+sec.Offset {
						x.Fail("c14:source-offset:"+tag, "SkipNext #%d (choices %0*b) SourceOffset=%d want %d", i, n, mask, md.SourceOffset, base+sec.Offset)
					}
					if md.Size != uint64(len(sec.Data)) {
						x.Fail("c14:size:"+tag, "SkipNext #%d (choices %0*b) Size=%d want %d", i, n, mask, md.Size, len(sec.Data))
					}
					// the varint found at those offsets is the section's
					if md.SourceOffset < uint64(len(file)) {
						if l, _, err := refcar.Uvarint(file[md.SourceOffset:]); err != nil || l != uint64(len(sec.Cid)+len(sec.Data)) {
							x.Fail("c14:source-offset-bytes:"+tag, "varint at SourceOffset %d is not the section's length prefix", md.SourceOffset)
						}
					}
				} else {
					b, err := br.Next()
					if err != nil {
						x.Fail("c14:next-error:"+tag, "Next #%d (choices %0*b) failed: %v", i, n, mask, err)
						break
					}
					if !bytes.Equal(b.Cid().Bytes(), sec.Cid) || !bytes.Equal(b.RawData(), sec.Data) {
						x.Fail("c14:next-block:"+tag, "Next #%d (choices %0*b) returned %x want %x", i, n, mask, b.Cid().Bytes(), sec.Cid)
						break
					}
				}
			}
			if !x.Failed() {
				// end of archive, whichever call asks
				var err error
				if mask&1 != 0 {
					_, err = br.SkipNext()
				} else {
					_, err = br.Next()
				}
				if err != io.EOF {
					x.Fail("c14:eof:"+tag, "call after the last block (choices %0*b) returned %v want io.EOF", n, mask, err)
				}
				_, err = br.Next()
				if err != io.EOF {
					x.Fail("c14:eof-sticky:"+tag, "second call after the end returned %v want io.EOF", err)
				}
			}
			if pr != nil && cs.Cont != "v1" && pr.maxRead > payloadEnd {
				x.Fail("c14:overread:"+tag, "source consumed up to offset %d, payload ends at %d (choices %0*b)", pr.maxRead, payloadEnd, n, mask)
			}
			if closer != nil {
				closer.Close()
			}
			if mask != 0 && mask != 1<<n-1 {
				x.Nontrivial(fmt.Sprintf("%v|%s|%s|%d", cs.Seq, cs.Cont, srcKind, mask))
			}
		}
	}
	x.State(fmt.Sprintf("%s|%x", cs.Cont, payload))
	x.Outcome(fmt.Sprintf("n=%d", n))
}

func genC14(tier string, emit func(any)) {
	names := []string{"e", "i0", "a0", "s", "L127", "L128"}
	maxLen := 4
	if tier == "thorough" {
		names = append(names, "X", "L16383", "L16384")
		maxLen = 5
	}
	kit.Seqs(names, maxLen, func(s []string) {
		for _, cont := range []string{"v1", "v2", "v2pad"} {
			emit(C14Case{Seq: s, Cont: cont})
			if len(s) <= maxLen-1 {
				emit(C14Case{Seq: s, Cont: cont, Trusted: true})
			}
		}
	})
	if tier == "thorough" {
		six := [][]string{{"e", "i0", "a0", "s", "L127", "L128"}, {"L128", "L127", "s", "a0", "i0", "e"}, {"L16384", "e", "L16383", "i0", "X", "a"}, {"a", "a", "a", "a", "a", "a"}}
		for _, s := range six {
			for _, cont := range []string{"v1", "v2", "v2pad"} {
				emit(C14Case{Seq: s, Cont: cont})
			}
		}
	}
}

func init() {
	kit.Register(&kit.Prop{
		ID:     "C14",
		Gen:    genC14,
		Run:    runC14,
		Decode: kit.DecodeAs[C14Case],
		Rule: "every archive with up to N blocks over an alphabet of CID widths 4..68 and section lengths at varint boundaries x {CARv1, CARv2, padded CARv2 with index} x {verifying, TrustedCAR} x EVERY Next/SkipNext choice string (2^n) x {bytes.Reader, plain stream, *os.File, *os.File over a pipe}; " +
			"metadata compared with the reference layout and the bytes; source consumption probed; non-trivial = choice string mixing both calls",
		Bound: func(tier string) map[string]any {
			if tier == "thorough" {
				return map[string]any{"blocks": "<=5 exhaustive over 9 block shapes, plus selected 6-block archives", "choice_strings": "all 2^n"}
			}
			return map[string]any{"blocks": "<=4 exhaustive over 6 block shapes", "choice_strings": "all 2^n"}
		},
		Assumptions: []string{"refcar layout is correct", "over-read bound is probed on the stream and file sources (a raw bytes.Reader cannot be probed without hiding its interfaces)"},
	})
}
