package props

import (
	"bytes"
	"context"
	"fmt"
	"io"
	"os"
	"path/filepath"
	"sort"
	"strings"
	"sync"
	"sync/atomic"

	"github.com/anishathalye/porcupine"
	"github.com/ipfs/go-cid"
	"github.com/ipld/go-car/v2/blockstore"
	"github.com/ipld/go-car/v2/storage"
	"github.com/ipld/go-car/v2/storage/deferred"

	"verif/drv"
	"verif/kit"
	"verif/refcar"
	"verif/vsync"
)

// ---------------------------------------------------------------- history

type c08In struct {
	Op   string // put putmany has get size roots keys finalize finalize-ro discard close
	Keys []string
}

type c08Out struct {
	Err      bool
	Found    bool
	NotFound bool // the error is a not-found error
	Data     string
	Size     int
}

type c08Listing struct {
	client     int
	call       int64    // before AllKeysChan is called
	got        int64    // after AllKeysChan returned
	ret        int64    // after the channel was drained / the cancellation was observed
	keys       []string // names resolved from CIDs
	err        bool
	cancelled  bool
	rawUnknown []string
}

type c08Hist struct {
	mu       sync.Mutex // real mutex: only matters in the free-running -race complement
	ops      []porcupine.Operation
	listings []c08Listing
	// put returns, for the listing oracle: key -> return timestamp of the first successful put
	// (0 = stored before the threads started)
	putRet map[string]int64
}

func (h *c08Hist) record(client int, in c08In, call int64, out c08Out) {
	ret := vsync.Now()
	h.mu.Lock()
	defer h.mu.Unlock()
	h.ops = append(h.ops, porcupine.Operation{ClientId: client, Input: in, Call: call, Output: out, Return: ret})
	if (in.Op == "put" || in.Op == "putmany") && !out.Err {
		for _, k := range in.Keys {
			if h.putRet == nil {
				h.putRet = map[string]int64{}
			}
			if _, ok := h.putRet[k]; !ok {
				h.putRet[k] = ret
			}
		}
	}
}

// c08Cfg is what the sequential specification and the file oracle need to know about the
// configuration of the store under test.
type c08Cfg struct {
	whole   bool
	dedup   bool
	storeID bool
	v1      bool   // the output is a CARv1
	maxCid  uint64 // MaxIndexCidSize (0 = default 2048)
	// strictClosedKeys: AllKeysChan on a closed store must fail. Documented for ReadWrite ("once
	// finalized, all read and write calls to this blockstore will result in errors"), not for
	// a ReadOnly that was closed.
	strictClosedKeys bool
}

const (
	c08Normal   = iota // stored like any block
	c08IDFree          // identity CID, StoreIdentityCIDs off: never stored, always "present"
	c08TooLarge        // CID longer than MaxIndexCidSize: Put fails, never stored
)

func (c c08Cfg) class(name string) int {
	b := kit.B(name)
	if c08IsIdentity(b.Raw) && !c.storeID {
		return c08IDFree
	}
	max := c.maxCid
	if max == 0 {
		max = 2048
	}
	if uint64(len(b.Raw)) > max {
		return c08TooLarge
	}
	return c08Normal
}

func c08IsIdentity(raw []byte) bool {
	ci, err := refcar.ParseCID(raw)
	return err == nil && ci.MhCode == refcar.MhIdentity
}

// c08State is the state of the sequential specification: a set of keys plus the lifecycle.
type c08State struct {
	keys   string // sorted, comma separated
	closed bool
	ro     bool // FinalizeReadOnly: writes refused, reads keep working
}

func c08KeyOf(name string, whole bool) string {
	if whole {
		return name
	}
	// by multihash: a, a' and a0 share one key
	switch name {
	case "a'", "a0":
		return "a"
	}
	return name
}

func c08StateHas(s c08State, k string) bool {
	for _, e := range strings.Split(s.keys, ",") {
		if e == k && e != "" {
			return true
		}
	}
	return false
}

func c08StateAdd(s c08State, k string) c08State {
	if c08StateHas(s, k) {
		return s
	}
	l := []string{}
	if s.keys != "" {
		l = strings.Split(s.keys, ",")
	}
	l = append(l, k)
	sort.Strings(l)
	s.keys = strings.Join(l, ",")
	return s
}

// c08Step is the (nondeterministic) sequential specification. It returns every state the
// store may be in after the operation, or nothing when the observed result is impossible.
//
// A read (Has/Get/GetSize) of a closed store may fail, or be served correctly from what the store
// still holds; an absent key is reported by any error (both recorded as beyond-statement outcomes).
//
// Deliberately unspecified (any result accepted): the result of a lifecycle call on a store
// that is already closed, Roots on a closed store (ReadOnly.Roots has no closed check and
// only fails when the file happens to be closed), identity-CID queries on a closed store (the
// identity fast paths run before the closed check), which prefix of a batch a failed PutMany
// has stored.
func c08Step(cfg c08Cfg, s c08State, in c08In, out c08Out) []interface{} {
	one := func(ok bool, n c08State) []interface{} {
		if !ok {
			return nil
		}
		return []interface{}{n}
	}
	switch in.Op {
	case "put", "putmany":
		if s.closed || s.ro {
			return one(out.Err, s)
		}
		bad := -1
		for i, k := range in.Keys {
			if cfg.class(k) == c08TooLarge {
				bad = i
				break
			}
		}
		if bad < 0 {
			if out.Err {
				return nil
			}
			for _, k := range in.Keys {
				if cfg.class(k) == c08Normal {
					s = c08StateAdd(s, c08KeyOf(k, cfg.whole))
				}
			}
			return one(true, s)
		}
		if !out.Err {
			return nil
		}
		// the batch failed at in.Keys[bad]: any prefix of the keys before it may be stored
		res := []interface{}{s}
		for _, k := range in.Keys[:bad] {
			if cfg.class(k) == c08Normal {
				s = c08StateAdd(s, c08KeyOf(k, cfg.whole))
				res = append(res, s)
			}
		}
		return res
	case "has":
		k := in.Keys[0]
		if cfg.class(k) == c08IDFree {
			if !out.Err && out.Found {
				return one(true, s)
			}
			return one(s.closed && out.Err, s)
		}
		if s.closed && out.Err {
			return one(true, s)
		}
		// (a closed store that still answers must answer correctly)
		return one(!out.Err && out.Found == c08StateHas(s, c08KeyOf(k, cfg.whole)), s)
	case "get", "size":
		k := in.Keys[0]
		b := kit.B(k)
		good := !out.Err && out.Data == string(b.Data)
		if in.Op == "size" {
			good = !out.Err && out.Size == len(b.Data)
		}
		present := c08StateHas(s, c08KeyOf(k, cfg.whole))
		if cfg.class(k) == c08IDFree || (in.Op == "size" && c08IsIdentity(b.Raw)) {
			// GetSize answers identity CIDs from the CID alone whatever StoreIdentityCIDs says
			if good {
				return one(true, s)
			}
			return one(out.Err && (s.closed || (cfg.class(k) != c08IDFree && !present && out.NotFound)), s)
		}
		if s.closed && out.Err {
			return one(true, s)
		}
		// (a closed store that still answers must answer correctly)
		if !present {
			// which error reports an absent key is not part of the statement
			return one(out.Err, s)
		}
		return one(good, s)
	case "roots":
		if !out.Err && out.Found {
			return one(true, s)
		}
		return one(s.closed && out.Err, s)
	case "keys":
		// the call of AllKeysChan itself (the listed keys are judged by the listing oracle)
		if s.closed {
			return one(out.Err || !cfg.strictClosedKeys, s)
		}
		return one(!out.Err, s)
	case "finalize-ro":
		if s.closed || s.ro {
			return one(true, s) // result of a repeated lifecycle call is not specified
		}
		s.ro = true
		return one(!out.Err, s)
	case "finalize", "discard", "close":
		if s.closed {
			return one(true, s) // duplicate lifecycle calls: result not specified
		}
		if s.ro && in.Op == "finalize" {
			// Finalize after FinalizeReadOnly: not specified whether it closes or refuses
			if out.Err {
				return one(true, s)
			}
			s.closed = true
			return one(true, s)
		}
		s.closed = true
		return one(in.Op == "discard" || !out.Err, s)
	}
	return nil
}

func c08PorcupineModel(cfg c08Cfg, init c08State) porcupine.Model {
	nm := porcupine.NondeterministicModel{
		Init: func() []interface{} { return []interface{}{init} },
		Step: func(state, input, output interface{}) []interface{} {
			return c08Step(cfg, state.(c08State), input.(c08In), output.(c08Out))
		},
		Equal: func(a, b interface{}) bool { return a.(c08State) == b.(c08State) },
		DescribeOperation: func(input, output interface{}) string {
			return fmt.Sprintf("%+v -> %+v", input, output)
		},
	}
	return nm.ToModel()
}

// ---------------------------------------------------------------- scenarios

// c08Env is one fresh instance of a scenario.
type c08Env struct {
	names  []string
	bodies []func()
	hist   *c08Hist
	// final brings the store into its final state if the scenario did not (Finalize / Close)
	// and returns the output; (nil, nil) = there is no output to judge.
	final   func() (file []byte, err error)
	cleanup func()
	cfg     c08Cfg
	pre     []string // blocks stored (successfully) before the threads started
	preRO   bool     // FinalizeReadOnly was called before the threads started
	// info: the scenario is outside the property statement (e.g. a read-only store); whatever
	// it shows is reported as an informational outcome, never as a violation.
	info bool
	// noFile: the scenario produces no output (read-only view)
	noFile bool
	// extra, when set, adds scenario-specific observations after the run
	extra func(add func(sig, f string, a ...any))
	// beyond: what the last c08Check saw that the statement is silent about
	beyond []string
}

type c08Scenario struct {
	Name string
	Desc string
	New  func(dir string, o drv.Opts) *c08Env
	// Opts, when set, replaces the default configuration matrix (quick, thorough).
	Opts func(tier string) []drv.Opts
	Info bool
	// NoRace: not run in the free-running complement
	NoRace bool
}

var c08Roots = []cid.Cid{kit.B("a").Cid}

func c08CfgOf(o drv.Opts) c08Cfg {
	return c08Cfg{whole: o.Whole, dedup: !o.AllowDup, storeID: o.StoreID, v1: o.V1, maxCid: o.MaxCid, strictClosedKeys: true}
}

func c08NewEnv(o drv.Opts) *c08Env {
	return &c08Env{hist: &c08Hist{}, cfg: c08CfgOf(o)}
}

// seq runs the operations of one thread with a scheduling point between consecutive ones, so
// that another thread's call can complete after op i returned and before op i+1 is invoked.
func seq(ops ...func()) func() {
	return func() {
		for i, op := range ops {
			if i > 0 {
				vsync.Yield("between ops")
			}
			op()
		}
	}
}

// store wrapper used by scenario threads --------------------------------

type c08Store interface {
	Put(b kit.Blk) error
	PutMany(bs []kit.Blk) error
	Has(c cid.Cid) (bool, error)
	Get(c cid.Cid) ([]byte, error)
	Size(c cid.Cid) (int, error)
	Keys(ctx context.Context) (<-chan cid.Cid, error)
	Life(op string) error
	Roots() ([]cid.Cid, error)
}

// prePut stores blocks before the threads start (not scheduled, not part of the history).
func (e *c08Env) prePut(st c08Store, names ...string) {
	for _, n := range names {
		if err := st.Put(kit.B(n)); err != nil {
			panic(fmt.Sprintf("c08: set-up Put(%s): %v", n, err))
		}
		e.preStored(n)
	}
}

func (e *c08Env) preStored(names ...string) {
	for _, n := range names {
		e.pre = append(e.pre, n)
		if e.hist.putRet == nil {
			e.hist.putRet = map[string]int64{}
		}
		e.hist.putRet[n] = 0
	}
}

func (e *c08Env) opPut(st c08Store, client int, name string) {
	call := vsync.Now()
	err := st.Put(kit.B(name))
	e.hist.record(client, c08In{"put", []string{name}}, call, c08Out{Err: err != nil})
}
func (e *c08Env) opPutMany(st c08Store, client int, names ...string) {
	call := vsync.Now()
	err := st.PutMany(kit.Bs(names))
	e.hist.record(client, c08In{"putmany", names}, call, c08Out{Err: err != nil})
}
func (e *c08Env) opHas(st c08Store, client int, name string) {
	call := vsync.Now()
	h, err := st.Has(kit.B(name).Cid)
	e.hist.record(client, c08In{"has", []string{name}}, call, c08Out{Err: err != nil, Found: h})
}
func (e *c08Env) opGet(st c08Store, client int, name string) {
	call := vsync.Now()
	d, err := st.Get(kit.B(name).Cid)
	out := c08Out{Err: err != nil, Found: err == nil, Data: string(d), NotFound: err != nil && isNotFound(err)}
	e.hist.record(client, c08In{"get", []string{name}}, call, out)
}
func (e *c08Env) opSize(st c08Store, client int, name string) {
	call := vsync.Now()
	n, err := st.Size(kit.B(name).Cid)
	e.hist.record(client, c08In{"size", []string{name}}, call, c08Out{Err: err != nil, Found: err == nil, Size: n, NotFound: err != nil && isNotFound(err)})
}
func (e *c08Env) opRoots(st c08Store, client int) {
	call := vsync.Now()
	r, err := st.Roots()
	// Found = the root list is exactly the one the store was created with
	same := err == nil && len(r) == len(c08Roots)
	if same {
		for i := range r {
			if !r[i].Equals(c08Roots[i]) {
				same = false
			}
		}
	}
	e.hist.record(client, c08In{"roots", nil}, call, c08Out{Err: err != nil, Found: same, Size: len(r)})
}
func (e *c08Env) opLife(st c08Store, client int, op string) {
	call := vsync.Now()
	err := st.Life(op)
	e.hist.record(client, c08In{op, nil}, call, c08Out{Err: err != nil})
}

// opKeys drains AllKeysChan (take < 0: all) and optionally cancels after `take` keys.
// each, when set, is called with every key received (a consumer that uses the store while
// it iterates).
func (e *c08Env) opKeys(st c08Store, client int, take int, each ...func(name string)) {
	ctx, cancel := context.WithCancel(context.Background())
	defer cancel()
	l := c08Listing{client: client, call: vsync.Now()}
	ch, err := st.Keys(ctx)
	l.got = vsync.Now()
	e.hist.mu.Lock()
	e.hist.ops = append(e.hist.ops, porcupine.Operation{ClientId: client, Input: c08In{"keys", nil}, Call: l.call, Output: c08Out{Err: err != nil}, Return: l.got})
	e.hist.mu.Unlock()
	if err != nil {
		l.err = true
		l.ret = vsync.Now()
		e.hist.mu.Lock()
		e.hist.listings = append(e.hist.listings, l)
		e.hist.mu.Unlock()
		return
	}
	for take != 0 {
		c, ok := vsync.Recv(ch)
		if !ok {
			break
		}
		n := c08NameOf(c)
		l.keys = append(l.keys, n)
		for _, f := range each {
			f(n)
		}
		if take > 0 {
			take--
		}
	}
	if take == 0 {
		vsync.Yield("cancel")
		cancel()
		l.cancelled = true
		// the producer must notice the cancellation and close the channel
		for {
			if _, ok := vsync.Recv(ch); !ok {
				break
			}
		}
	}
	l.ret = vsync.Now()
	e.hist.mu.Lock()
	e.hist.listings = append(e.hist.listings, l)
	e.hist.mu.Unlock()
}

var c08Names = []string{"a", "b", "c", "a'", "a0", "e", "i", "X", "L40", "L41", "L42", "L43", "L44"}

var c08NameMaps struct {
	once  sync.Once
	exact map[string]string // CID bytes -> name
	flat  map[string]string // CIDv1(raw, multihash) bytes -> name (listing without whole CIDs)
}

func c08NameInit() {
	c08NameMaps.exact = map[string]string{}
	c08NameMaps.flat = map[string]string{}
	for _, n := range c08Names {
		b := kit.B(n)
		c08NameMaps.exact[string(b.Raw)] = n
		k := string(rawV1Key(b.Raw))
		if _, ok := c08NameMaps.flat[k]; !ok {
			c08NameMaps.flat[k] = n
		}
	}
}

// c08NameOf resolves a listed key to a block name ("?..." when it is not in the alphabet).
func c08NameOf(c cid.Cid) string {
	c08NameMaps.once.Do(c08NameInit)
	if n, ok := c08NameMaps.exact[string(c.Bytes())]; ok {
		return n
	}
	if n, ok := c08NameMaps.flat[string(c.Bytes())]; ok {
		return n
	}
	return "?" + c.String()
}

// c08NameOfRaw resolves the CID of a section ("" when it is not in the alphabet).
func c08NameOfRaw(raw []byte) string {
	c08NameMaps.once.Do(c08NameInit)
	return c08NameMaps.exact[string(raw)]
}

type c08BS struct{ bs *blockstore.ReadWrite }

func (s c08BS) Put(b kit.Blk) error { return s.bs.Put(drv.Ctx, b.Block()) }
func (s c08BS) PutMany(bs []kit.Blk) error {
	st := &bsStore{bs: s.bs}
	return st.PutMany(bs)
}
func (s c08BS) Has(c cid.Cid) (bool, error) { return s.bs.Has(drv.Ctx, c) }
func (s c08BS) Get(c cid.Cid) ([]byte, error) {
	b, err := s.bs.Get(drv.Ctx, c)
	if err != nil {
		return nil, err
	}
	if !b.Cid().Equals(c) {
		return []byte("block with CID " + b.Cid().String()), nil
	}
	return b.RawData(), nil
}
func (s c08BS) Size(c cid.Cid) (int, error) { return s.bs.GetSize(drv.Ctx, c) }
func (s c08BS) Keys(ctx context.Context) (<-chan cid.Cid, error) {
	return s.bs.AllKeysChan(ctx)
}
func (s c08BS) Roots() ([]cid.Cid, error) { return s.bs.Roots() }
func (s c08BS) Life(op string) error {
	switch op {
	case "finalize-ro":
		return s.bs.FinalizeReadOnly()
	case "finalize":
		return s.bs.Finalize()
	case "close":
		return s.bs.Close()
	case "discard":
		s.bs.Discard()
		return nil
	}
	panic(op)
}

// c08ST drives a storage.WritableCar; rd is nil for a write-only (streaming) CAR.
type c08ST struct {
	w  storage.WritableCar
	rd *storage.StorageCar
}

func (s c08ST) Put(b kit.Blk) error { return s.w.Put(drv.Ctx, b.Cid.KeyString(), b.Data) }
func (s c08ST) PutMany(bs []kit.Blk) error {
	panic("no PutMany on storage")
}
func (s c08ST) Has(c cid.Cid) (bool, error) { return s.w.Has(drv.Ctx, c.KeyString()) }
func (s c08ST) Get(c cid.Cid) ([]byte, error) {
	if s.rd == nil {
		panic("no Get on a write-only storage")
	}
	return s.rd.Get(drv.Ctx, c.KeyString())
}
func (s c08ST) Size(c cid.Cid) (int, error) {
	d, err := s.Get(c)
	return len(d), err
}
func (s c08ST) Keys(ctx context.Context) (<-chan cid.Cid, error) { panic("no listing on storage") }
func (s c08ST) Roots() ([]cid.Cid, error)                        { return s.w.Roots(), nil }
func (s c08ST) Life(op string) error {
	if op == "finalize" {
		return s.w.Finalize()
	}
	panic(op)
}

type c08DW struct{ dw *deferred.DeferredCarWriter }

func (s c08DW) Put(b kit.Blk) error           { return s.dw.Put(drv.Ctx, b.Cid.KeyString(), b.Data) }
func (s c08DW) PutMany(bs []kit.Blk) error    { panic("no PutMany") }
func (s c08DW) Has(c cid.Cid) (bool, error)   { return s.dw.Has(drv.Ctx, c.KeyString()) }
func (s c08DW) Get(c cid.Cid) ([]byte, error) { panic("no Get") }
func (s c08DW) Size(c cid.Cid) (int, error)   { panic("no Size") }
func (s c08DW) Keys(ctx context.Context) (<-chan cid.Cid, error) {
	panic("no listing")
}
func (s c08DW) Roots() ([]cid.Cid, error) { panic("no roots") }
func (s c08DW) Life(op string) error {
	if op == "close" {
		return s.dw.Close()
	}
	panic(op)
}

type c08RO struct{ bs *blockstore.ReadOnly }

func (s c08RO) Put(b kit.Blk) error         { return s.bs.Put(drv.Ctx, b.Block()) }
func (s c08RO) PutMany(bs []kit.Blk) error  { panic("no") }
func (s c08RO) Has(c cid.Cid) (bool, error) { return s.bs.Has(drv.Ctx, c) }
func (s c08RO) Get(c cid.Cid) ([]byte, error) {
	b, err := s.bs.Get(drv.Ctx, c)
	if err != nil {
		return nil, err
	}
	return b.RawData(), nil
}
func (s c08RO) Size(c cid.Cid) (int, error) { return s.bs.GetSize(drv.Ctx, c) }
func (s c08RO) Keys(ctx context.Context) (<-chan cid.Cid, error) {
	return s.bs.AllKeysChan(ctx)
}
func (s c08RO) Roots() ([]cid.Cid, error) { return s.bs.Roots() }
func (s c08RO) Life(op string) error {
	if op == "close" {
		return s.bs.Close()
	}
	panic(op)
}

// c08Sink is a plain io.Writer (no WriteAt, no Seek): the streaming CARv1 output.
type c08Sink struct{ buf bytes.Buffer }

func (s *c08Sink) Write(p []byte) (int, error) { return s.buf.Write(p) }

var _ io.Writer = (*c08Sink)(nil)

// closedOK reports whether the history holds a lifecycle call that closed the store.
func (e *c08Env) closedByScenario() bool {
	for _, op := range e.hist.ops {
		in := op.Input.(c08In)
		switch in.Op {
		case "discard":
			return true
		case "finalize", "close":
			if !op.Output.(c08Out).Err {
				return true
			}
		}
	}
	return false
}

func (e *c08Env) roByScenario() bool {
	if e.preRO {
		return true
	}
	for _, op := range e.hist.ops {
		if op.Input.(c08In).Op == "finalize-ro" && !op.Output.(c08Out).Err {
			return true
		}
	}
	return false
}

// c08InitialFile is the finalized output of an earlier session holding the given blocks.
func c08InitialFile(o drv.Opts, names ...string) []byte {
	var bl []refcar.Block
	for _, n := range names {
		bl = append(bl, kit.B(n).Ref())
	}
	payload := refcar.EncodeV1([][]byte{kit.B("a").Raw}, false, bl)
	if o.V1 {
		return payload
	}
	pl, err := refcar.DecodePayload(payload, false, true)
	if err != nil {
		panic(err)
	}
	return refcar.EncodeV2(payload, 0, 0, refcar.EncodeIndex(refcar.CodecMhIndexSorted, refcar.RecordsOf(pl, o.StoreID)), o.StoreID)
}

// c08NewBS opens a fresh blockstore.ReadWrite. mode: "" = OpenReadWrite on a new path,
// "resume" = OpenReadWrite on the finalized file of an earlier session holding a and b,
// "file" = OpenReadWriteFile over a caller-owned handle.
func c08NewBSMode(dir string, o drv.Opts, mode string) (*c08Env, c08Store) {
	path := filepath.Join(dir, "c08.car")
	os.Remove(path)
	e := c08NewEnv(o)
	var bs *blockstore.ReadWrite
	var own *os.File
	var err error
	switch mode {
	case "resume":
		if err := os.WriteFile(path, c08InitialFile(o, "a", "b"), 0o644); err != nil {
			panic(err)
		}
		e.preStored("a", "b")
		bs, err = blockstore.OpenReadWrite(path, c08Roots, o.List()...)
	case "file":
		own, err = os.OpenFile(path, os.O_RDWR|os.O_CREATE|os.O_TRUNC, 0o644)
		if err != nil {
			panic(err)
		}
		bs, err = blockstore.OpenReadWriteFile(own, c08Roots, o.List()...)
	default:
		bs, err = blockstore.OpenReadWrite(path, c08Roots, o.List()...)
	}
	if err != nil {
		panic(err)
	}
	e.final = func() ([]byte, error) {
		if !e.closedByScenario() {
			if e.roByScenario() {
				if err := bs.Close(); err != nil {
					return nil, err
				}
			} else if err := bs.Finalize(); err != nil {
				return nil, err
			}
		}
		return os.ReadFile(path)
	}
	e.cleanup = func() {
		bs.Discard()
		if own != nil {
			own.Close()
		}
		os.Remove(path)
	}
	return e, c08BS{bs}
}

func c08NewBS(dir string, o drv.Opts) (*c08Env, c08Store) { return c08NewBSMode(dir, o, "") }

// c08NewST opens a storage CAR over a file. mode: "" = NewReadableWritable on a new file,
// "resume" = OpenReadableWritable on the finalized file of an earlier session holding a and b.
func c08NewSTMode(dir string, o drv.Opts, mode string) (*c08Env, c08Store) {
	path := filepath.Join(dir, "c08.car")
	os.Remove(path)
	e := c08NewEnv(o)
	if mode == "resume" {
		if err := os.WriteFile(path, c08InitialFile(o, "a", "b"), 0o644); err != nil {
			panic(err)
		}
		e.preStored("a", "b")
	}
	f, err := os.OpenFile(path, os.O_RDWR|os.O_CREATE, 0o644)
	if err != nil {
		panic(err)
	}
	var st *storage.StorageCar
	if mode == "resume" {
		st, err = storage.OpenReadableWritable(f, c08Roots, o.List()...)
	} else {
		st, err = storage.NewReadableWritable(f, c08Roots, o.List()...)
	}
	if err != nil {
		panic(err)
	}
	e.final = func() ([]byte, error) {
		if !e.closedByScenario() {
			if err := st.Finalize(); err != nil {
				return nil, err
			}
		}
		return os.ReadFile(path)
	}
	e.cleanup = func() { f.Close(); os.Remove(path) }
	return e, c08ST{w: st, rd: st}
}

func c08NewST(dir string, o drv.Opts) (*c08Env, c08Store) { return c08NewSTMode(dir, o, "") }

// c08NewStream opens a write-only storage CAR over a plain io.Writer (always a CARv1).
func c08NewStream(o drv.Opts) (*c08Env, c08Store) {
	o.V1 = true
	e := c08NewEnv(o)
	sink := &c08Sink{}
	w, err := storage.NewWritable(sink, c08Roots, o.List()...)
	if err != nil {
		panic(err)
	}
	e.final = func() ([]byte, error) {
		if !e.closedByScenario() {
			if err := w.Finalize(); err != nil {
				return nil, err
			}
		}
		return append([]byte{}, sink.buf.Bytes()...), nil
	}
	e.cleanup = func() {}
	return e, c08ST{w: w}
}

// c08NewDeferred opens a deferred writer: over a path, or (stream) over a plain io.Writer.
func c08NewDeferred(dir string, o drv.Opts, stream bool) (*c08Env, c08Store) {
	path := filepath.Join(dir, "c08-def.car")
	os.Remove(path)
	var dw *deferred.DeferredCarWriter
	sink := &c08Sink{}
	if stream {
		// the stream constructor forces WriteAsCarV1
		dw = deferred.NewDeferredCarWriterForStream(sink, c08Roots, o.List()...)
		o.V1 = true
	} else {
		dw = deferred.NewDeferredCarWriterForPath(path, c08Roots, o.List()...)
	}
	e := c08NewEnv(o)
	e.final = func() ([]byte, error) {
		if !e.closedByScenario() {
			if err := dw.Close(); err != nil {
				return nil, err
			}
		}
		if stream {
			if sink.buf.Len() == 0 {
				return nil, nil
			}
			return append([]byte{}, sink.buf.Bytes()...), nil
		}
		b, err := os.ReadFile(path)
		if os.IsNotExist(err) {
			return nil, nil
		}
		return b, err
	}
	e.cleanup = func() { dw.Close(); os.Remove(path) }
	return e, c08DW{dw}
}

// c08NewRO opens a ReadOnly blockstore over a finished archive of the given blocks.
// mmap: through OpenReadOnly on a CARv2 file with an index (Close really releases something).
func c08NewRO(dir string, o drv.Opts, mmap bool, names ...string) (*c08Env, c08Store) {
	var bl []refcar.Block
	for _, n := range names {
		bl = append(bl, kit.B(n).Ref())
	}
	file := refcar.EncodeV1([][]byte{kit.B("a").Raw}, false, bl)
	var bs *blockstore.ReadOnly
	var err error
	path := filepath.Join(dir, "c08-ro.car")
	if mmap {
		pl, derr := refcar.DecodePayload(file, false, true)
		if derr != nil {
			panic(derr)
		}
		v2 := refcar.EncodeV2(file, 0, 0, refcar.EncodeIndex(refcar.CodecMhIndexSorted, refcar.RecordsOf(pl, false)), false)
		if err := os.WriteFile(path, v2, 0o644); err != nil {
			panic(err)
		}
		bs, err = blockstore.OpenReadOnly(path, o.List()...)
	} else {
		bs, err = blockstore.NewReadOnly(bytes.NewReader(file), nil, o.List()...)
	}
	if err != nil {
		panic(err)
	}
	e := c08NewEnv(o)
	e.cfg.dedup = true
	e.cfg.strictClosedKeys = false
	e.noFile = true
	e.preStored(names...)
	e.final = func() ([]byte, error) { return nil, nil }
	e.cleanup = func() {
		if mmap {
			bs.Close()
			os.Remove(path)
		}
	}
	return e, c08RO{bs}
}

// configuration matrices -------------------------------------------------

func c08DefaultOpts(tier string) []drv.Opts {
	return []drv.Opts{{}, {AllowDup: true}, {Whole: true}, {V1: true}}
}

// c08PairOpts: scenarios whose puts collide additionally get the option pairs in the thorough tier.
func c08PairOpts(tier string) []drv.Opts {
	l := c08DefaultOpts(tier)
	if tier == "thorough" {
		l = append(l, drv.Opts{V1: true, AllowDup: true}, drv.Opts{Whole: true, AllowDup: true}, drv.Opts{V1: true, Whole: true})
	}
	return l
}

// c08HeavyOpts: the scenarios with the largest schedule spaces (they hit the execution cap in
// the thorough tier) run under the three original configurations only.
func c08HeavyOpts(tier string) []drv.Opts {
	return []drv.Opts{{}, {AllowDup: true}, {Whole: true}}
}

// c08TwoOpts: large schedule space, configuration-insensitive paths.
func c08TwoOpts(tier string) []drv.Opts { return []drv.Opts{{}, {V1: true}} }

// stream outputs are always CARv1
func c08StreamOpts(tier string) []drv.Opts {
	return []drv.Opts{{V1: true}, {V1: true, AllowDup: true}, {V1: true, Whole: true}}
}

func c08IdentityOpts(tier string) []drv.Opts {
	l := []drv.Opts{{}, {StoreID: true}, {StoreID: true, AllowDup: true}, {StoreID: true, V1: true}}
	if tier == "thorough" {
		l = append(l, drv.Opts{V1: true}, drv.Opts{StoreID: true, Whole: true}, drv.Opts{AllowDup: true})
	}
	return l
}

func c08MaxCidOpts(tier string) []drv.Opts {
	l := []drv.Opts{{MaxCid: 40}, {MaxCid: 40, StoreID: true}, {MaxCid: 40, StoreID: true, AllowDup: true}}
	if tier == "thorough" {
		l = append(l, drv.Opts{MaxCid: 40, StoreID: true, V1: true}, drv.Opts{MaxCid: 40, StoreID: true, Whole: true})
	}
	return l
}

// c08ReadersOpts: the overlapping-readers scenarios; the whole-CID lookup path comes second so that
// the quick tier's -race complement (first two configurations) runs it.
func c08ReadersOpts(tier string) []drv.Opts {
	return []drv.Opts{{}, {Whole: true}, {AllowDup: true}, {V1: true}}
}

func c08ROOpts(tier string) []drv.Opts { return []drv.Opts{{}, {Whole: true}} }

func c08RO1Opts(tier string) []drv.Opts {
	if tier == "thorough" {
		return c08ROOpts(tier)
	}
	return []drv.Opts{{}}
}

var c08Scenarios = []c08Scenario{
	{Name: "S1", Opts: c08PairOpts, Desc: "bs: Put a || Put a || Has a; Get a", New: func(dir string, o drv.Opts) *c08Env {
		e, st := c08NewBS(dir, o)
		e.names = []string{"T0", "T1", "T2"}
		e.bodies = []func(){
			func() { e.opPut(st, 0, "a") },
			func() { e.opPut(st, 1, "a") },
			seq(func() { e.opHas(st, 2, "a") }, func() { e.opGet(st, 2, "a") }),
		}
		return e
	}},
	{Name: "S2", Desc: "bs: Put a; Put b || AllKeysChan(drain) || Has a", New: func(dir string, o drv.Opts) *c08Env {
		e, st := c08NewBS(dir, o)
		e.names = []string{"T0", "T1", "T2"}
		e.bodies = []func(){
			seq(func() { e.opPut(st, 0, "a") }, func() { e.opPut(st, 0, "b") }),
			func() { e.opKeys(st, 1, -1) },
			func() { e.opHas(st, 2, "a") },
		}
		return e
	}},
	{Name: "S3", Desc: "bs: Put a || Finalize || Get a", New: func(dir string, o drv.Opts) *c08Env {
		e, st := c08NewBS(dir, o)
		e.names = []string{"T0", "T1", "T2"}
		e.bodies = []func(){
			func() { e.opPut(st, 0, "a") },
			func() { e.opLife(st, 1, "finalize") },
			func() { e.opGet(st, 2, "a") },
		}
		return e
	}},
	{Name: "S4", Desc: "bs: PutMany[a,b] || Get b; Get a || GetSize b", New: func(dir string, o drv.Opts) *c08Env {
		e, st := c08NewBS(dir, o)
		e.names = []string{"T0", "T1", "T2"}
		e.bodies = []func(){
			func() { e.opPutMany(st, 0, "a", "b") },
			seq(func() { e.opGet(st, 1, "b") }, func() { e.opGet(st, 1, "a") }),
			func() { e.opSize(st, 2, "b") },
		}
		return e
	}},
	{Name: "S5", Desc: "bs: (a, c stored before) AllKeysChan(take 1, cancel) || Put b || Discard", New: func(dir string, o drv.Opts) *c08Env {
		e, st := c08NewBS(dir, o)
		e.prePut(st, "a", "c")
		e.names = []string{"T0", "T1", "T2"}
		e.bodies = []func(){
			func() { e.opKeys(st, 0, 1) },
			func() { e.opPut(st, 1, "b") },
			func() { e.opLife(st, 2, "discard") },
		}
		return e
	}},
	{Name: "S6", Opts: c08PairOpts, Desc: "storage: Put a || Put a' || Has a; Get a || Finalize", New: func(dir string, o drv.Opts) *c08Env {
		e, st := c08NewST(dir, o)
		e.names = []string{"T0", "T1", "T2", "T3"}
		e.bodies = []func(){
			func() { e.opPut(st, 0, "a") },
			func() { e.opPut(st, 1, "a'") },
			seq(func() { e.opHas(st, 2, "a") }, func() { e.opGet(st, 2, "a") }),
			func() { e.opLife(st, 3, "finalize") },
		}
		return e
	}},
	{Name: "S7", Opts: c08PairOpts, Desc: "deferred (path): Put a || Put a || Has a || Close", New: func(dir string, o drv.Opts) *c08Env {
		e, st := c08NewDeferred(dir, o, false)
		e.names = []string{"T0", "T1", "T2", "T3"}
		e.bodies = []func(){
			func() { e.opPut(st, 0, "a") },
			func() { e.opPut(st, 1, "a") },
			func() { e.opHas(st, 2, "a") },
			func() { e.opLife(st, 3, "close") },
		}
		return e
	}},
	{Name: "S8", Desc: "ReadOnly over a finished CARv1 (bytes.Reader): AllKeysChan(drain) || Get a; Has b || Close", Opts: c08ROOpts, New: func(dir string, o drv.Opts) *c08Env {
		e, st := c08NewRO(dir, o, false, "a", "b", "c")
		e.names = []string{"T0", "T1", "T2"}
		e.bodies = []func(){
			func() { e.opKeys(st, 0, -1) },
			// no scheduling point between the two calls here (S31 has one): the schedule space of
			// this scenario stays small enough to be exhausted at pre-emption bound 6
			func() { e.opGet(st, 1, "a"); e.opHas(st, 1, "b") },
			func() { e.opLife(st, 2, "close") },
		}
		return e
	}},
	{Name: "S9", Opts: c08HeavyOpts, Desc: "bs: AllKeysChan(take 1, cancel) || AllKeysChan(drain) || Put b (a stored before)", New: func(dir string, o drv.Opts) *c08Env {
		e, st := c08NewBS(dir, o)
		e.prePut(st, "a")
		e.names = []string{"T0", "T1", "T2"}
		e.bodies = []func(){
			func() { e.opKeys(st, 0, 1) },
			func() { e.opKeys(st, 1, -1) },
			func() { e.opPut(st, 2, "b") },
		}
		return e
	}},
	{Name: "S10", Opts: c08PairOpts, Desc: "bs: Put a; Has a || Put a'; Get a' || GetSize a", New: func(dir string, o drv.Opts) *c08Env {
		e, st := c08NewBS(dir, o)
		e.names = []string{"T0", "T1", "T2"}
		e.bodies = []func(){
			seq(func() { e.opPut(st, 0, "a") }, func() { e.opHas(st, 0, "a") }),
			seq(func() { e.opPut(st, 1, "a'") }, func() { e.opGet(st, 1, "a'") }),
			func() { e.opSize(st, 2, "a") },
		}
		return e
	}},
	{Name: "S11", Desc: "bs: Finalize || AllKeysChan(drain) || Put b (a stored before)", New: func(dir string, o drv.Opts) *c08Env {
		e, st := c08NewBS(dir, o)
		e.prePut(st, "a")
		e.names = []string{"T0", "T1", "T2"}
		e.bodies = []func(){
			func() { e.opLife(st, 0, "finalize") },
			func() { e.opKeys(st, 1, -1) },
			func() { e.opPut(st, 2, "b") },
		}
		return e
	}},
	{Name: "S12", Desc: "storage: Put a || Put b; Has a || Finalize || Get b; Roots", New: func(dir string, o drv.Opts) *c08Env {
		e, st := c08NewST(dir, o)
		e.names = []string{"T0", "T1", "T2", "T3"}
		e.bodies = []func(){
			func() { e.opPut(st, 0, "a") },
			seq(func() { e.opPut(st, 1, "b") }, func() { e.opHas(st, 1, "a") }),
			func() { e.opLife(st, 2, "finalize") },
			seq(func() { e.opGet(st, 3, "b") }, func() { e.opRoots(st, 3) }),
		}
		return e
	}},
	{Name: "S13", Opts: c08PairOpts, Desc: "bs: PutMany[a,b] || PutMany[b,c] || Has b; Get c", New: func(dir string, o drv.Opts) *c08Env {
		e, st := c08NewBS(dir, o)
		e.names = []string{"T0", "T1", "T2"}
		e.bodies = []func(){
			func() { e.opPutMany(st, 0, "a", "b") },
			func() { e.opPutMany(st, 1, "b", "c") },
			seq(func() { e.opHas(st, 2, "b") }, func() { e.opGet(st, 2, "c") }),
		}
		return e
	}},
	{Name: "S14", Desc: "bs: FinalizeReadOnly || Put a || Get b; Has a (b stored before)", New: func(dir string, o drv.Opts) *c08Env {
		e, st := c08NewBS(dir, o)
		e.prePut(st, "b")
		e.names = []string{"T0", "T1", "T2"}
		e.bodies = []func(){
			func() { e.opLife(st, 0, "finalize-ro") },
			func() { e.opPut(st, 1, "a") },
			seq(func() { e.opGet(st, 2, "b") }, func() { e.opHas(st, 2, "a") }),
		}
		return e
	}},
	{Name: "S15", Desc: "bs: Roots; GetSize a || Put a || Finalize", New: func(dir string, o drv.Opts) *c08Env {
		e, st := c08NewBS(dir, o)
		e.names = []string{"T0", "T1", "T2"}
		e.bodies = []func(){
			seq(func() { e.opRoots(st, 0) }, func() { e.opSize(st, 0, "a") }),
			func() { e.opPut(st, 1, "a") },
			func() { e.opLife(st, 2, "finalize") },
		}
		return e
	}},
	// ---- streaming (CARv1 over a plain io.Writer) front ends
	{Name: "S16", Desc: "storage NewWritable(plain io.Writer, CARv1): Put a || Put a' || Has a; Has b || Finalize", Opts: c08StreamOpts, New: func(dir string, o drv.Opts) *c08Env {
		e, st := c08NewStream(o)
		e.names = []string{"T0", "T1", "T2", "T3"}
		e.bodies = []func(){
			func() { e.opPut(st, 0, "a") },
			func() { e.opPut(st, 1, "a'") },
			seq(func() { e.opHas(st, 2, "a") }, func() { e.opHas(st, 2, "b") }),
			func() { e.opLife(st, 3, "finalize") },
		}
		return e
	}},
	{Name: "S17", Desc: "storage NewWritable(plain io.Writer, CARv1): Put a || Put b; Has a || Finalize || Has b; Roots", Opts: c08StreamOpts, New: func(dir string, o drv.Opts) *c08Env {
		e, st := c08NewStream(o)
		e.names = []string{"T0", "T1", "T2", "T3"}
		e.bodies = []func(){
			func() { e.opPut(st, 0, "a") },
			seq(func() { e.opPut(st, 1, "b") }, func() { e.opHas(st, 1, "a") }),
			func() { e.opLife(st, 2, "finalize") },
			seq(func() { e.opHas(st, 3, "b") }, func() { e.opRoots(st, 3) }),
		}
		return e
	}},
	{Name: "S18", Desc: "deferred (stream): Put a || Put b || Has a; Has b || Close", Opts: c08StreamOpts, New: func(dir string, o drv.Opts) *c08Env {
		e, st := c08NewDeferred(dir, o, true)
		e.names = []string{"T0", "T1", "T2", "T3"}
		e.bodies = []func(){
			func() { e.opPut(st, 0, "a") },
			func() { e.opPut(st, 1, "b") },
			seq(func() { e.opHas(st, 2, "a") }, func() { e.opHas(st, 2, "b") }),
			func() { e.opLife(st, 3, "close") },
		}
		return e
	}},
	// ---- lifecycle call against lifecycle call
	{Name: "S19", Desc: "bs: Finalize || Finalize || Put a; Has a", New: func(dir string, o drv.Opts) *c08Env {
		e, st := c08NewBS(dir, o)
		e.names = []string{"T0", "T1", "T2"}
		e.bodies = []func(){
			func() { e.opLife(st, 0, "finalize") },
			func() { e.opLife(st, 1, "finalize") },
			seq(func() { e.opPut(st, 2, "a") }, func() { e.opHas(st, 2, "a") }),
		}
		return e
	}},
	{Name: "S20", Desc: "bs: Finalize || Discard || Get a; GetSize a (a stored before)", New: func(dir string, o drv.Opts) *c08Env {
		e, st := c08NewBS(dir, o)
		e.prePut(st, "a")
		e.names = []string{"T0", "T1", "T2"}
		e.bodies = []func(){
			func() { e.opLife(st, 0, "finalize") },
			func() { e.opLife(st, 1, "discard") },
			seq(func() { e.opGet(st, 2, "a") }, func() { e.opSize(st, 2, "a") }),
		}
		return e
	}},
	{Name: "S21", Opts: c08TwoOpts, Desc: "bs: (a, b stored, FinalizeReadOnly done before) Close || Get a; Has b || AllKeysChan(drain)", New: func(dir string, o drv.Opts) *c08Env {
		e, st := c08NewBS(dir, o)
		e.prePut(st, "a", "b")
		if err := st.Life("finalize-ro"); err != nil {
			panic(err)
		}
		e.preRO = true
		e.names = []string{"T0", "T1", "T2"}
		e.bodies = []func(){
			func() { e.opLife(st, 0, "close") },
			seq(func() { e.opGet(st, 1, "a") }, func() { e.opHas(st, 1, "b") }),
			func() { e.opKeys(st, 2, -1) },
		}
		return e
	}},
	{Name: "S22", Desc: "storage: Finalize || Finalize || Put a || Get a", New: func(dir string, o drv.Opts) *c08Env {
		e, st := c08NewST(dir, o)
		e.names = []string{"T0", "T1", "T2", "T3"}
		e.bodies = []func(){
			func() { e.opLife(st, 0, "finalize") },
			func() { e.opLife(st, 1, "finalize") },
			func() { e.opPut(st, 2, "a") },
			func() { e.opGet(st, 3, "a") },
		}
		return e
	}},
	{Name: "S23", Desc: "deferred (path): Close || Close || Put a; Has a", New: func(dir string, o drv.Opts) *c08Env {
		e, st := c08NewDeferred(dir, o, false)
		e.names = []string{"T0", "T1", "T2"}
		e.bodies = []func(){
			func() { e.opLife(st, 0, "close") },
			func() { e.opLife(st, 1, "close") },
			seq(func() { e.opPut(st, 2, "a") }, func() { e.opHas(st, 2, "a") }),
		}
		return e
	}},
	// ---- more than two writers
	{Name: "S24", Opts: c08PairOpts, Desc: "bs: Put a || Put a || Put a' || Put b; Get a", New: func(dir string, o drv.Opts) *c08Env {
		e, st := c08NewBS(dir, o)
		e.names = []string{"T0", "T1", "T2", "T3"}
		e.bodies = []func(){
			func() { e.opPut(st, 0, "a") },
			func() { e.opPut(st, 1, "a") },
			func() { e.opPut(st, 2, "a'") },
			seq(func() { e.opPut(st, 3, "b") }, func() { e.opGet(st, 3, "a") }),
		}
		return e
	}},
	// ---- identity and over-long CIDs
	{Name: "S25", Desc: "bs: Put i || Has i; Get i; GetSize i || Finalize (i = identity CID; StoreIdentityCIDs on and off)", Opts: c08IdentityOpts, New: func(dir string, o drv.Opts) *c08Env {
		e, st := c08NewBS(dir, o)
		e.names = []string{"T0", "T1", "T2"}
		e.bodies = []func(){
			func() { e.opPut(st, 0, "i") },
			seq(func() { e.opHas(st, 1, "i") }, func() { e.opGet(st, 1, "i") }, func() { e.opSize(st, 1, "i") }),
			func() { e.opLife(st, 2, "finalize") },
		}
		return e
	}},
	{Name: "S26", Desc: "bs, MaxIndexCidSize=40: PutMany[a,X] || Has a; Get X || PutMany[b,a] (X = 64-byte identity CID)", Opts: c08MaxCidOpts, New: func(dir string, o drv.Opts) *c08Env {
		e, st := c08NewBS(dir, o)
		e.names = []string{"T0", "T1", "T2"}
		e.bodies = []func(){
			func() { e.opPutMany(st, 0, "a", "X") },
			seq(func() { e.opHas(st, 1, "a") }, func() { e.opGet(st, 1, "X") }),
			func() { e.opPutMany(st, 2, "b", "a") },
		}
		return e
	}},
	{Name: "S27", Desc: "storage: Put i || Get i; Has i || Finalize || Put a (StoreIdentityCIDs on and off)", Opts: c08IdentityOpts, New: func(dir string, o drv.Opts) *c08Env {
		e, st := c08NewST(dir, o)
		e.names = []string{"T0", "T1", "T2", "T3"}
		e.bodies = []func(){
			func() { e.opPut(st, 0, "i") },
			seq(func() { e.opGet(st, 1, "i") }, func() { e.opHas(st, 1, "i") }),
			func() { e.opLife(st, 2, "finalize") },
			func() { e.opPut(st, 3, "a") },
		}
		return e
	}},
	// ---- other constructors
	{Name: "S28", Opts: c08PairOpts, Desc: "bs resumed with OpenReadWrite from a finalized file holding a, b: Put a || Put c || Has b; Get a", New: func(dir string, o drv.Opts) *c08Env {
		e, st := c08NewBSMode(dir, o, "resume")
		e.names = []string{"T0", "T1", "T2"}
		e.bodies = []func(){
			func() { e.opPut(st, 0, "a") },
			func() { e.opPut(st, 1, "c") },
			seq(func() { e.opHas(st, 2, "b") }, func() { e.opGet(st, 2, "a") }),
		}
		return e
	}},
	{Name: "S29", Desc: "bs over a caller-owned file (OpenReadWriteFile): Put a || Finalize || Roots; Has a", New: func(dir string, o drv.Opts) *c08Env {
		e, st := c08NewBSMode(dir, o, "file")
		e.names = []string{"T0", "T1", "T2"}
		e.bodies = []func(){
			func() { e.opPut(st, 0, "a") },
			func() { e.opLife(st, 1, "finalize") },
			seq(func() { e.opRoots(st, 2) }, func() { e.opHas(st, 2, "a") }),
		}
		return e
	}},
	{Name: "S30", Opts: c08PairOpts, Desc: "storage resumed with OpenReadableWritable from a finalized file holding a, b: Put a || Put c || Get b; Has c || Finalize", New: func(dir string, o drv.Opts) *c08Env {
		e, st := c08NewSTMode(dir, o, "resume")
		e.names = []string{"T0", "T1", "T2", "T3"}
		e.bodies = []func(){
			func() { e.opPut(st, 0, "a") },
			func() { e.opPut(st, 1, "c") },
			seq(func() { e.opGet(st, 2, "b") }, func() { e.opHas(st, 2, "c") }),
			func() { e.opLife(st, 3, "finalize") },
		}
		return e
	}},
	// ---- read-only views (S8 family)
	{Name: "S31", Desc: "ReadOnly via OpenReadOnly (mmap) over a CARv2 with index: AllKeysChan(drain) || Get a; Has b || Close", Opts: c08RO1Opts, New: func(dir string, o drv.Opts) *c08Env {
		e, st := c08NewRO(dir, o, true, "a", "b", "c")
		e.names = []string{"T0", "T1", "T2"}
		e.bodies = []func(){
			func() { e.opKeys(st, 0, -1) },
			seq(func() { e.opGet(st, 1, "a") }, func() { e.opHas(st, 1, "b") }),
			func() { e.opLife(st, 2, "close") },
		}
		return e
	}},
	{Name: "S32", Desc: "ReadOnly over 7 blocks (the producer blocks on the full channel buffer): AllKeysChan(take 1, cancel) || Close || Has a", Opts: c08RO1Opts, New: func(dir string, o drv.Opts) *c08Env {
		e, st := c08NewRO(dir, o, false, "a", "b", "c", "L40", "L41", "L42", "L43")
		e.names = []string{"T0", "T1", "T2"}
		e.bodies = []func(){
			func() { e.opKeys(st, 0, 1) },
			func() { e.opLife(st, 1, "close") },
			func() { e.opHas(st, 2, "a") },
		}
		return e
	}},
	// ---- informational: outside the property statement
	{Name: "S33", Opts: c08ReadersOpts, Desc: "storage: (a stored before) Has a || Has b || Has a'; Put b (readers of one kind overlap under the shared lock)", New: func(dir string, o drv.Opts) *c08Env {
		e, st := c08NewST(dir, o)
		e.prePut(st, "a")
		e.names = []string{"T0", "T1", "T2"}
		e.bodies = []func(){
			func() { e.opHas(st, 0, "a") },
			func() { e.opHas(st, 1, "b") },
			seq(func() { e.opHas(st, 2, "a'") }, func() { e.opPut(st, 2, "b") }),
		}
		return e
	}},
	{Name: "S34", Opts: c08ReadersOpts, Desc: "storage: (a, b stored before) Get a; Has b || Get a; Has a || Get b || Put a'", New: func(dir string, o drv.Opts) *c08Env {
		e, st := c08NewST(dir, o)
		e.prePut(st, "a")
		e.prePut(st, "b")
		e.names = []string{"T0", "T1", "T2", "T3"}
		e.bodies = []func(){
			seq(func() { e.opGet(st, 0, "a") }, func() { e.opHas(st, 0, "b") }),
			seq(func() { e.opGet(st, 1, "a") }, func() { e.opHas(st, 1, "a") }),
			func() { e.opGet(st, 2, "b") },
			func() { e.opPut(st, 3, "a'") },
		}
		return e
	}},
	{Name: "S35", Opts: c08ReadersOpts, Desc: "bs: (a, b stored before) Has a; GetSize b || Has b; Get a || GetSize a || Put a'", New: func(dir string, o drv.Opts) *c08Env {
		e, st := c08NewBS(dir, o)
		e.prePut(st, "a")
		e.prePut(st, "b")
		e.names = []string{"T0", "T1", "T2", "T3"}
		e.bodies = []func(){
			seq(func() { e.opHas(st, 0, "a") }, func() { e.opSize(st, 0, "b") }),
			seq(func() { e.opHas(st, 1, "b") }, func() { e.opGet(st, 1, "a") }),
			func() { e.opSize(st, 2, "a") },
			func() { e.opPut(st, 3, "a'") },
		}
		return e
	}},
	{Name: "I1", Desc: "INFORMATIONAL, ReadOnly over 8 blocks: for k := range AllKeysChan { Get k } || Close", Info: true, NoRace: true, Opts: func(string) []drv.Opts { return []drv.Opts{{}} }, New: func(dir string, o drv.Opts) *c08Env {
		e, st := c08NewRO(dir, o, false, "a", "b", "c", "L40", "L41", "L42", "L43", "L44")
		e.info = true
		e.names = []string{"T0", "T1"}
		e.bodies = []func(){
			func() { e.opKeys(st, 0, -1, func(n string) { e.opGet(st, 0, n) }) },
			func() { e.opLife(st, 1, "close") },
		}
		return e
	}},
	{Name: "I2", Desc: "INFORMATIONAL (OnPut is not among the operations of the statement), deferred (path): OnPut(cb, once) || Put a || Put b", Info: true, Opts: func(string) []drv.Opts { return []drv.Opts{{}} }, New: func(dir string, o drv.Opts) *c08Env {
		e, st := c08NewDeferred(dir, o, false)
		e.info = true
		dw := st.(c08DW).dw
		var regs, fired int32
		e.names = []string{"T0", "T1", "T2"}
		e.bodies = []func(){
			func() {
				atomic.AddInt32(&regs, 1)
				dw.OnPut(func(int) { atomic.AddInt32(&fired, 1) }, true)
			},
			func() { e.opPut(st, 1, "a") },
			func() { e.opPut(st, 2, "b") },
		}
		e.extra = func(add func(sig, f string, a ...any)) {
			if r, f := atomic.LoadInt32(&regs), atomic.LoadInt32(&fired); f > r {
				add("c08:onput-once-fired-again:I2", "%d once-callbacks were registered with OnPut but they fired %d times", r, f)
			}
		}
		return e
	}},
}

func c08FindScenario(name string) *c08Scenario {
	for i := range c08Scenarios {
		if c08Scenarios[i].Name == name {
			return &c08Scenarios[i]
		}
	}
	return nil
}
