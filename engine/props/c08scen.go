package props

import (
	"bytes"
	"context"
	"fmt"
	"os"
	"path/filepath"
	"sort"
	"strings"
	"sync"

	"github.com/anishathalye/porcupine"
	"github.com/ipfs/go-cid"
	"github.com/ipld/go-car/v2/blockstore"
	"github.com/ipld/go-car/v2/storage"
	"github.com/ipld/go-car/v2/storage/deferred"

	"verif/drv"
	"verif/kit"
	"verif/refcar"
	"verif/vsync"
)

// ---------------------------------------------------------------- history

type c08In struct {
	Op   string // put has get size finalize discard putmany close
	Keys []string
}

type c08Out struct {
	Err   bool
	Found bool
	Data  string
	Size  int
}

type c08Listing struct {
	client     int
	call, ret  int64
	keys       []string // names resolved from CIDs
	err        bool
	cancelled  bool
	rawUnknown []string
}

type c08Hist struct {
	mu       sync.Mutex // real mutex: only matters in the free-running -race complement
	ops      []porcupine.Operation
	listings []c08Listing
	// put returns, for the listing oracle: key -> return timestamp of a successful put
	putRet map[string]int64
	putAny map[string]bool
}

func (h *c08Hist) record(client int, in c08In, call int64, out c08Out) {
	ret := vsync.Now()
	h.mu.Lock()
	defer h.mu.Unlock()
	h.ops = append(h.ops, porcupine.Operation{ClientId: client, Input: in, Call: call, Output: out, Return: ret})
	if (in.Op == "put" || in.Op == "putmany") && !out.Err {
		for _, k := range in.Keys {
			if h.putRet == nil {
				h.putRet = map[string]int64{}
			}
			if _, ok := h.putRet[k]; !ok {
				h.putRet[k] = ret
			}
		}
	}
}

// c08Model is the sequential specification: a set of keys plus a closed flag.
type c08State struct {
	keys   string // sorted, comma separated
	closed bool
	ro     bool // FinalizeReadOnly: writes refused, reads keep working
}

func c08KeyOf(name string, whole bool) string {
	if whole {
		return name
	}
	// by multihash: a, a' and a0 share one key
	switch name {
	case "a'", "a0":
		return "a"
	}
	return name
}

func c08PorcupineModel(whole bool) porcupine.Model {
	has := func(s c08State, k string) bool {
		for _, e := range strings.Split(s.keys, ",") {
			if e == k && e != "" {
				return true
			}
		}
		return false
	}
	add := func(s c08State, k string) c08State {
		if has(s, k) {
			return s
		}
		l := []string{}
		if s.keys != "" {
			l = strings.Split(s.keys, ",")
		}
		l = append(l, k)
		sort.Strings(l)
		s.keys = strings.Join(l, ",")
		return s
	}
	return porcupine.Model{
		Init: func() interface{} { return c08State{} },
		Step: func(state, input, output interface{}) (bool, interface{}) {
			s := state.(c08State)
			in := input.(c08In)
			out := output.(c08Out)
			switch in.Op {
			case "put", "putmany":
				if s.closed || s.ro {
					return out.Err, s
				}
				if out.Err {
					return false, s
				}
				for _, k := range in.Keys {
					s = add(s, c08KeyOf(k, whole))
				}
				return true, s
			case "has":
				if s.closed {
					return out.Err, s
				}
				return !out.Err && out.Found == has(s, c08KeyOf(in.Keys[0], whole)), s
			case "get", "size":
				if s.closed {
					return out.Err, s
				}
				present := has(s, c08KeyOf(in.Keys[0], whole))
				if !present {
					return out.Err && !out.Found, s // not-found error
				}
				b := kit.B(in.Keys[0])
				if in.Op == "get" {
					return !out.Err && out.Data == string(b.Data), s
				}
				return !out.Err && out.Size == len(b.Data), s
			case "roots":
				if s.closed {
					return out.Err, s
				}
				return !out.Err && out.Size == 1, s
			case "finalize-ro":
				if s.closed || s.ro {
					return true, s // result of a repeated lifecycle call is not specified
				}
				s.ro = true
				return !out.Err, s
			case "finalize", "discard", "close":
				if s.closed {
					return true, s // duplicate lifecycle calls: result not specified
				}
				s.closed = true
				return in.Op == "discard" || !out.Err, s
			}
			return false, s
		},
		Equal: func(a, b interface{}) bool { return a.(c08State) == b.(c08State) },
		DescribeOperation: func(input, output interface{}) string {
			return fmt.Sprintf("%+v -> %+v", input, output)
		},
	}
}

// ---------------------------------------------------------------- scenarios

// c08Env is one fresh instance of a scenario.
type c08Env struct {
	names   []string
	bodies  []func()
	hist    *c08Hist
	final   func() (file []byte, err error) // finalize if needed and return the file
	cleanup func()
	whole   bool
	dedup   bool
}

type c08Scenario struct {
	Name string
	Desc string
	New  func(dir string, o drv.Opts) *c08Env
}

var c08Roots = []cid.Cid{kit.B("a").Cid}

// store wrapper used by scenario threads --------------------------------

type c08Store interface {
	Put(b kit.Blk) error
	PutMany(bs []kit.Blk) error
	Has(c cid.Cid) (bool, error)
	Get(c cid.Cid) ([]byte, error)
	Size(c cid.Cid) (int, error)
	Keys(ctx context.Context) (<-chan cid.Cid, error)
	Life(op string) error
	Roots() (int, error)
}

func (e *c08Env) opPut(st c08Store, client int, name string) {
	call := vsync.Now()
	err := st.Put(kit.B(name))
	e.hist.record(client, c08In{"put", []string{name}}, call, c08Out{Err: err != nil})
}
func (e *c08Env) opPutMany(st c08Store, client int, names ...string) {
	call := vsync.Now()
	err := st.PutMany(kit.Bs(names))
	e.hist.record(client, c08In{"putmany", names}, call, c08Out{Err: err != nil})
}
func (e *c08Env) opHas(st c08Store, client int, name string) {
	call := vsync.Now()
	h, err := st.Has(kit.B(name).Cid)
	e.hist.record(client, c08In{"has", []string{name}}, call, c08Out{Err: err != nil, Found: h})
}
func (e *c08Env) opGet(st c08Store, client int, name string) {
	call := vsync.Now()
	d, err := st.Get(kit.B(name).Cid)
	out := c08Out{Err: err != nil, Found: err == nil, Data: string(d)}
	if err != nil && !isNotFound(err) {
		out.Found = false
	}
	e.hist.record(client, c08In{"get", []string{name}}, call, out)
}
func (e *c08Env) opSize(st c08Store, client int, name string) {
	call := vsync.Now()
	n, err := st.Size(kit.B(name).Cid)
	e.hist.record(client, c08In{"size", []string{name}}, call, c08Out{Err: err != nil, Found: err == nil, Size: n})
}
func (e *c08Env) opRoots(st c08Store, client int) {
	call := vsync.Now()
	n, err := st.Roots()
	e.hist.record(client, c08In{"roots", nil}, call, c08Out{Err: err != nil, Size: n})
}
func (e *c08Env) opLife(st c08Store, client int, op string) {
	call := vsync.Now()
	err := st.Life(op)
	e.hist.record(client, c08In{op, nil}, call, c08Out{Err: err != nil})
}

// opKeys drains AllKeysChan (take < 0: all) and optionally cancels after `take` keys.
func (e *c08Env) opKeys(st c08Store, client int, take int) {
	ctx, cancel := context.WithCancel(context.Background())
	defer cancel()
	l := c08Listing{client: client, call: vsync.Now()}
	ch, err := st.Keys(ctx)
	if err != nil {
		l.err = true
		l.ret = vsync.Now()
		e.hist.mu.Lock()
		e.hist.listings = append(e.hist.listings, l)
		e.hist.mu.Unlock()
		return
	}
	for take != 0 {
		c, ok := vsync.Recv(ch)
		if !ok {
			break
		}
		l.keys = append(l.keys, c08NameOf(c))
		if take > 0 {
			take--
		}
	}
	if take == 0 {
		vsync.Yield("cancel")
		cancel()
		l.cancelled = true
		// the producer must notice the cancellation and close the channel
		for {
			if _, ok := vsync.Recv(ch); !ok {
				break
			}
		}
	}
	l.ret = vsync.Now()
	e.hist.mu.Lock()
	e.hist.listings = append(e.hist.listings, l)
	e.hist.mu.Unlock()
}

func c08NameOf(c cid.Cid) string {
	for _, n := range []string{"a", "b", "c", "a'", "a0", "e"} {
		b := kit.B(n)
		if b.Cid.Equals(c) {
			return n
		}
	}
	for _, n := range []string{"a", "b", "c", "e"} {
		if bytes.Equal(rawV1Key(kit.B(n).Raw), c.Bytes()) {
			return n
		}
	}
	return "?" + c.String()
}

type c08BS struct{ bs *blockstore.ReadWrite }

func (s c08BS) Put(b kit.Blk) error { return s.bs.Put(drv.Ctx, b.Block()) }
func (s c08BS) PutMany(bs []kit.Blk) error {
	st := &bsStore{bs: s.bs}
	return st.PutMany(bs)
}
func (s c08BS) Has(c cid.Cid) (bool, error) { return s.bs.Has(drv.Ctx, c) }
func (s c08BS) Get(c cid.Cid) ([]byte, error) {
	b, err := s.bs.Get(drv.Ctx, c)
	if err != nil {
		return nil, err
	}
	return b.RawData(), nil
}
func (s c08BS) Size(c cid.Cid) (int, error) { return s.bs.GetSize(drv.Ctx, c) }
func (s c08BS) Keys(ctx context.Context) (<-chan cid.Cid, error) {
	return s.bs.AllKeysChan(ctx)
}
func (s c08BS) Roots() (int, error) {
	r, err := s.bs.Roots()
	return len(r), err
}
func (s c08BS) Life(op string) error {
	switch op {
	case "finalize-ro":
		return s.bs.FinalizeReadOnly()
	case "finalize":
		return s.bs.Finalize()
	case "discard":
		s.bs.Discard()
		return nil
	}
	panic(op)
}

type c08ST struct{ st *storage.StorageCar }

func (s c08ST) Put(b kit.Blk) error { return s.st.Put(drv.Ctx, b.Cid.KeyString(), b.Data) }
func (s c08ST) PutMany(bs []kit.Blk) error {
	panic("no PutMany on storage")
}
func (s c08ST) Has(c cid.Cid) (bool, error)   { return s.st.Has(drv.Ctx, c.KeyString()) }
func (s c08ST) Get(c cid.Cid) ([]byte, error) { return s.st.Get(drv.Ctx, c.KeyString()) }
func (s c08ST) Size(c cid.Cid) (int, error) {
	d, err := s.st.Get(drv.Ctx, c.KeyString())
	return len(d), err
}
func (s c08ST) Keys(ctx context.Context) (<-chan cid.Cid, error) { panic("no listing on storage") }
func (s c08ST) Roots() (int, error)                              { return len(s.st.Roots()), nil }
func (s c08ST) Life(op string) error {
	if op == "finalize" {
		return s.st.Finalize()
	}
	panic(op)
}

type c08DW struct{ dw *deferred.DeferredCarWriter }

func (s c08DW) Put(b kit.Blk) error           { return s.dw.Put(drv.Ctx, b.Cid.KeyString(), b.Data) }
func (s c08DW) PutMany(bs []kit.Blk) error    { panic("no PutMany") }
func (s c08DW) Has(c cid.Cid) (bool, error)   { return s.dw.Has(drv.Ctx, c.KeyString()) }
func (s c08DW) Get(c cid.Cid) ([]byte, error) { panic("no Get") }
func (s c08DW) Size(c cid.Cid) (int, error)   { panic("no Size") }
func (s c08DW) Keys(ctx context.Context) (<-chan cid.Cid, error) {
	panic("no listing")
}
func (s c08DW) Roots() (int, error) { panic("no roots") }
func (s c08DW) Life(op string) error {
	if op == "close" {
		return s.dw.Close()
	}
	panic(op)
}

type c08RO struct{ bs *blockstore.ReadOnly }

func (s c08RO) Put(b kit.Blk) error         { return s.bs.Put(drv.Ctx, b.Block()) }
func (s c08RO) PutMany(bs []kit.Blk) error  { panic("no") }
func (s c08RO) Has(c cid.Cid) (bool, error) { return s.bs.Has(drv.Ctx, c) }
func (s c08RO) Get(c cid.Cid) ([]byte, error) {
	b, err := s.bs.Get(drv.Ctx, c)
	if err != nil {
		return nil, err
	}
	return b.RawData(), nil
}
func (s c08RO) Size(c cid.Cid) (int, error) { return s.bs.GetSize(drv.Ctx, c) }
func (s c08RO) Keys(ctx context.Context) (<-chan cid.Cid, error) {
	return s.bs.AllKeysChan(ctx)
}
func (s c08RO) Roots() (int, error) {
	r, err := s.bs.Roots()
	return len(r), err
}
func (s c08RO) Life(op string) error {
	if op == "close" {
		return s.bs.Close()
	}
	panic(op)
}

func c08NewBS(dir string, o drv.Opts) (*c08Env, c08Store) {
	path := filepath.Join(dir, "c08.car")
	os.Remove(path)
	bs, err := blockstore.OpenReadWrite(path, c08Roots, o.List()...)
	if err != nil {
		panic(err)
	}
	e := &c08Env{hist: &c08Hist{}, whole: o.Whole, dedup: !o.AllowDup}
	closedByScenario := func() bool {
		for _, op := range e.hist.ops {
			in := op.Input.(c08In)
			if in.Op == "finalize" || in.Op == "discard" {
				return true
			}
		}
		return false
	}
	e.final = func() ([]byte, error) {
		if !closedByScenario() {
			ro := false
			for _, op := range e.hist.ops {
				if op.Input.(c08In).Op == "finalize-ro" {
					ro = true
				}
			}
			if ro {
				if err := bs.Close(); err != nil {
					return nil, err
				}
			} else if err := bs.Finalize(); err != nil {
				return nil, err
			}
		}
		b, err := os.ReadFile(path)
		return b, err
	}
	e.cleanup = func() { bs.Discard(); os.Remove(path) }
	return e, c08BS{bs}
}

func c08NewST(dir string, o drv.Opts) (*c08Env, c08Store) {
	path := filepath.Join(dir, "c08.car")
	os.Remove(path)
	f, err := os.OpenFile(path, os.O_RDWR|os.O_CREATE|os.O_TRUNC, 0o644)
	if err != nil {
		panic(err)
	}
	st, err := storage.NewReadableWritable(f, c08Roots, o.List()...)
	if err != nil {
		panic(err)
	}
	e := &c08Env{hist: &c08Hist{}, whole: o.Whole, dedup: !o.AllowDup}
	e.final = func() ([]byte, error) {
		fin := false
		for _, op := range e.hist.ops {
			if op.Input.(c08In).Op == "finalize" {
				fin = true
			}
		}
		if !fin {
			if err := st.Finalize(); err != nil {
				return nil, err
			}
		}
		return os.ReadFile(path)
	}
	e.cleanup = func() { f.Close(); os.Remove(path) }
	return e, c08ST{st}
}

var c08Scenarios = []c08Scenario{
	{"S1", "bs: Put a || Put a || Has a; Get a", func(dir string, o drv.Opts) *c08Env {
		e, st := c08NewBS(dir, o)
		e.names = []string{"T0", "T1", "T2"}
		e.bodies = []func(){
			func() { e.opPut(st, 0, "a") },
			func() { e.opPut(st, 1, "a") },
			func() { e.opHas(st, 2, "a"); e.opGet(st, 2, "a") },
		}
		return e
	}},
	{"S2", "bs: Put a; Put b || AllKeysChan(drain) || Has a", func(dir string, o drv.Opts) *c08Env {
		e, st := c08NewBS(dir, o)
		e.names = []string{"T0", "T1", "T2"}
		e.bodies = []func(){
			func() { e.opPut(st, 0, "a"); e.opPut(st, 0, "b") },
			func() { e.opKeys(st, 1, -1) },
			func() { e.opHas(st, 2, "a") },
		}
		return e
	}},
	{"S3", "bs: Put a || Finalize || Get a", func(dir string, o drv.Opts) *c08Env {
		e, st := c08NewBS(dir, o)
		e.names = []string{"T0", "T1", "T2"}
		e.bodies = []func(){
			func() { e.opPut(st, 0, "a") },
			func() { e.opLife(st, 1, "finalize") },
			func() { e.opGet(st, 2, "a") },
		}
		return e
	}},
	{"S4", "bs: PutMany[a,b] || Get b; Get a || GetSize b", func(dir string, o drv.Opts) *c08Env {
		e, st := c08NewBS(dir, o)
		e.names = []string{"T0", "T1", "T2"}
		e.bodies = []func(){
			func() { e.opPutMany(st, 0, "a", "b") },
			func() { e.opGet(st, 1, "b"); e.opGet(st, 1, "a") },
			func() { e.opSize(st, 2, "b") },
		}
		return e
	}},
	{"S5", "bs: Put a (before) ; AllKeysChan(take 1, cancel) || Put b || Discard", func(dir string, o drv.Opts) *c08Env {
		e, st := c08NewBS(dir, o)
		if err := st.Put(kit.B("a")); err != nil {
			panic(err)
		}
		if err := st.Put(kit.B("c")); err != nil {
			panic(err)
		}
		e.hist.putRet = map[string]int64{"a": 0, "c": 0}
		e.names = []string{"T0", "T1", "T2"}
		e.bodies = []func(){
			func() { e.opKeys(st, 0, 1) },
			func() { e.opPut(st, 1, "b") },
			func() { e.opLife(st, 2, "discard") },
		}
		pre := e.hist
		_ = pre
		return e
	}},
	{"S6", "storage: Put a || Put a' || Has a; Get a || Finalize", func(dir string, o drv.Opts) *c08Env {
		e, st := c08NewST(dir, o)
		e.names = []string{"T0", "T1", "T2", "T3"}
		e.bodies = []func(){
			func() { e.opPut(st, 0, "a") },
			func() { e.opPut(st, 1, "a'") },
			func() { e.opHas(st, 2, "a"); e.opGet(st, 2, "a") },
			func() { e.opLife(st, 3, "finalize") },
		}
		return e
	}},
	{"S7", "deferred: Put a || Put a || Has a || Close", func(dir string, o drv.Opts) *c08Env {
		path := filepath.Join(dir, "c08-def.car")
		os.Remove(path)
		dw := deferred.NewDeferredCarWriterForPath(path, c08Roots, o.List()...)
		st := c08DW{dw}
		e := &c08Env{hist: &c08Hist{}, whole: o.Whole, dedup: !o.AllowDup}
		e.names = []string{"T0", "T1", "T2", "T3"}
		e.bodies = []func(){
			func() { e.opPut(st, 0, "a") },
			func() { e.opPut(st, 1, "a") },
			func() { e.opHas(st, 2, "a") },
			func() { e.opLife(st, 3, "close") },
		}
		e.final = func() ([]byte, error) {
			b, err := os.ReadFile(path)
			if os.IsNotExist(err) {
				return nil, nil
			}
			return b, err
		}
		e.cleanup = func() { dw.Close(); os.Remove(path) }
		return e
	}},
	{"S8", "ReadOnly over a finished file: AllKeysChan(drain) || Get a; Has b || Close", func(dir string, o drv.Opts) *c08Env {
		file := refcar.EncodeV1([][]byte{kit.B("a").Raw}, false, []refcar.Block{kit.B("a").Ref(), kit.B("b").Ref(), kit.B("c").Ref()})
		bs, err := blockstore.NewReadOnly(bytes.NewReader(file), nil, o.List()...)
		if err != nil {
			panic(err)
		}
		st := c08RO{bs}
		e := &c08Env{hist: &c08Hist{putRet: map[string]int64{"a": 0, "b": 0, "c": 0}}, whole: o.Whole, dedup: true}
		e.names = []string{"T0", "T1", "T2"}
		e.bodies = []func(){
			func() { e.opKeys(st, 0, -1) },
			func() { e.opGet(st, 1, "a"); e.opHas(st, 1, "b") },
			func() { e.opLife(st, 2, "close") },
		}
		e.final = func() ([]byte, error) { return nil, nil }
		e.cleanup = func() {}
		return e
	}},
	{"S9", "bs: AllKeysChan(take 1, cancel) || AllKeysChan(drain) || Put b (a stored before)", func(dir string, o drv.Opts) *c08Env {
		e, st := c08NewBS(dir, o)
		st.Put(kit.B("a"))
		e.hist.putRet = map[string]int64{"a": 0}
		e.names = []string{"T0", "T1", "T2"}
		e.bodies = []func(){
			func() { e.opKeys(st, 0, 1) },
			func() { e.opKeys(st, 1, -1) },
			func() { e.opPut(st, 2, "b") },
		}
		return e
	}},
	{"S10", "bs: Put a; Has a || Put a'; Get a' || GetSize a", func(dir string, o drv.Opts) *c08Env {
		e, st := c08NewBS(dir, o)
		e.names = []string{"T0", "T1", "T2"}
		e.bodies = []func(){
			func() { e.opPut(st, 0, "a"); e.opHas(st, 0, "a") },
			func() { e.opPut(st, 1, "a'"); e.opGet(st, 1, "a'") },
			func() { e.opSize(st, 2, "a") },
		}
		return e
	}},
	{"S11", "bs: Finalize || AllKeysChan(drain) || Put b (a stored before)", func(dir string, o drv.Opts) *c08Env {
		e, st := c08NewBS(dir, o)
		st.Put(kit.B("a"))
		e.hist.putRet = map[string]int64{"a": 0}
		e.names = []string{"T0", "T1", "T2"}
		e.bodies = []func(){
			func() { e.opLife(st, 0, "finalize") },
			func() { e.opKeys(st, 1, -1) },
			func() { e.opPut(st, 2, "b") },
		}
		return e
	}},
	{"S12", "storage: Put a || Put b; Has a || Finalize || Get b", func(dir string, o drv.Opts) *c08Env {
		e, st := c08NewST(dir, o)
		e.names = []string{"T0", "T1", "T2", "T3"}
		e.bodies = []func(){
			func() { e.opPut(st, 0, "a") },
			func() { e.opPut(st, 1, "b"); e.opHas(st, 1, "a") },
			func() { e.opLife(st, 2, "finalize") },
			func() { e.opGet(st, 3, "b") },
		}
		return e
	}},
	{"S13", "bs: PutMany[a,b] || PutMany[b,c] || Has b; Get c", func(dir string, o drv.Opts) *c08Env {
		e, st := c08NewBS(dir, o)
		e.names = []string{"T0", "T1", "T2"}
		e.bodies = []func(){
			func() { e.opPutMany(st, 0, "a", "b") },
			func() { e.opPutMany(st, 1, "b", "c") },
			func() { e.opHas(st, 2, "b"); e.opGet(st, 2, "c") },
		}
		return e
	}},
	{"S14", "bs: FinalizeReadOnly || Put a || Get b; Has a (b stored before)", func(dir string, o drv.Opts) *c08Env {
		e, st := c08NewBS(dir, o)
		st.Put(kit.B("b"))
		e.hist.putRet = map[string]int64{"b": 0}
		e.names = []string{"T0", "T1", "T2"}
		e.bodies = []func(){
			func() { e.opLife(st, 0, "finalize-ro") },
			func() { e.opPut(st, 1, "a") },
			func() { e.opGet(st, 2, "b"); e.opHas(st, 2, "a") },
		}
		return e
	}},
	{"S15", "bs: Roots; GetSize a || Put a || Finalize", func(dir string, o drv.Opts) *c08Env {
		e, st := c08NewBS(dir, o)
		e.names = []string{"T0", "T1", "T2"}
		e.bodies = []func(){
			func() { e.opRoots(st, 0); e.opSize(st, 0, "a") },
			func() { e.opPut(st, 1, "a") },
			func() { e.opLife(st, 2, "finalize") },
		}
		return e
	}},
}

func c08FindScenario(name string) *c08Scenario {
	for i := range c08Scenarios {
		if c08Scenarios[i].Name == name {
			return &c08Scenarios[i]
		}
	}
	return nil
}
