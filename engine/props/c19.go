package props

import (
	"bytes"
	"fmt"
	"os"
	"path/filepath"
	"sort"
	"strings"

	"github.com/ipfs/go-cid"
	"github.com/multiformats/go-multihash"

	"verif/drv"
	"verif/kit"
	"verif/model"
	"verif/refcar"
)

type C19Case struct {
	Roots string   `json:"roots"`
	Seq   []string `json:"seq"`
	Cont  string   `json:"cont"` // v1 v2 v2pad v2noidx v2padnoidx
	Cmd   string   `json:"cmd"`
	Arg   string   `json:"arg,omitempty"`
	// Var: comma separated variant tokens: stale=v2|garbage|chain (a file already sits at the output
	// path), list=messy|nonl (CID list shape: messy = CRLF/padding/blank lines/a repeat; nonl = no newline after the last entry), target=a|ab|empty|pad|v1 (append target), ver1, inverse.
	Var string `json:"var,omitempty"`
	// IO: also run the stdout / stdin forms of the command and compare them with the file forms.
	IO bool `json:"io,omitempty"`
}

var c19Cmds = []string{
	"index:mh", "index:sorted", "index:none", "index:v1", "index-create:mh", "index-create:sorted", "detach", "detach-list",
	"filter", "filter:inverse", "filter:v1", "filter:append", "filter:all", "filter:none",
	"get-block", "list", "root", "concat:v1:1", "concat:v1:2", "concat:v1:3", "concat:v2:2", "inspect",
	"check-input",
}

// commands that only differ from an enumerated one by flag parsing (no --codec given)
var c19DefaultCmds = []string{"index:default", "index-create:default"}

// commands with a stdout or stdin form
var c19IOCmds = []string{
	"index:mh", "index:sorted", "index:none", "index:v1", "index:default", "index-create:mh", "index-create:sorted", "index-create:default",
	"detach", "detach-list", "filter", "filter:inverse", "get-block", "list", "root", "concat:v1:2", "concat:v2:2", "inspect",
}

// commands that write to a path at which a stale file may sit
var c19StaleCmds = []string{
	"index:mh", "index:v1", "index:none", "index-create:mh", "detach", "filter", "filter:v1", "filter:inverse", "concat:v1:2", "concat:v2:2",
}

func cidStr(raw []byte) string {
	c, err := cid.Cast(raw)
	if err != nil {
		panic(err)
	}
	return c.String()
}

// c19Var returns the value of a variant token ("" if absent; "1" for a bare token).
func c19Var(v, key string) string {
	for _, t := range strings.Split(v, ",") {
		k, val, has := strings.Cut(t, "=")
		if k == key {
			if !has {
				return "1"
			}
			return val
		}
	}
	return ""
}

// c19Seq expands the block-sequence names of a case ("many150" = 150 distinct small blocks).
func c19Seq(names []string) []string {
	var out []string
	for _, n := range names {
		if strings.HasPrefix(n, "sweep") {
			// section lengths N-40 .. N+40 around a varint width boundary N, in ascending order: every length
			// at which the section's length prefix, or the prefix of the data length alone (section length
			// minus the 36-byte CID), changes width, each followed by further sections
			var k int
			fmt.Sscanf(n[5:], "%d", &k)
			for l := k - 40; l <= k+40; l++ {
				out = append(out, fmt.Sprintf("L%d", l))
			}
			continue
		}
		if strings.HasPrefix(n, "many") {
			var k int
			fmt.Sscanf(n[4:], "%d", &k)
			out = append(out, kit.ManyNames(k)...)
			continue
		}
		out = append(out, n)
	}
	return out
}

// c19StaleBytes: the content of a file that already sits at an output path.
func c19StaleBytes(kind string) []byte {
	switch kind {
	case "v2":
		// a valid, longer CARv2 with other roots
		bl := []refcar.Block{kit.B("c").Ref(), kit.B("e").Ref(), kit.B("b").Ref(), kit.B("L128").Ref(), kit.B("L127").Ref()}
		p := refcar.EncodeV1([][]byte{kit.B("c").Raw, kit.B("e").Raw}, false, bl)
		pl, _ := refcar.DecodePayload(p, false, true)
		return refcar.EncodeV2(p, 0, 0, refcar.EncodeIndex(refcar.CodecMhIndexSorted, refcar.RecordsOf(pl, false)), false)
	case "garbage":
		return bytes.Repeat([]byte("this is not an archive. "), 40)
	}
	return nil
}

func c19PutStale(work, file, kind string) {
	if b := c19StaleBytes(kind); b != nil {
		os.WriteFile(filepath.Join(work, file), b, 0o644)
	}
}

// c19Validate: every produced archive is accepted by car inspect --full and, when its
// roots are among its blocks, by car verify; an embedded index is the index of the payload.
func c19Validate(x *kit.Ctx, work, file, tag string) {
	c19ValidateOpt(x, work, file, tag, false)
}

func c19ValidateOpt(x *kit.Ctx, work, file, tag string, verifyOutcomeOnly bool) {
	b, err := os.ReadFile(filepath.Join(work, file))
	if err != nil {
		x.Fail("c19:no-output:"+tag, "command produced no output file %s", file)
		return
	}
	fl, derr := refcar.DecodeFile(b, true)
	r := drv.Car(work, nil, "inspect", "--full", file)
	x.Eval(1)
	if r.Exit != 0 {
		msg := string(r.Stderr)
		if derr == nil && fl.Version == 1 {
			// call-site specific: lib.InspectCar's trailing-data probe reads the file's untouched
			// offset 0 after Inspect went through ReadAt; every CARv1 trips it. The recorded finding is
			// keyed on the structure (a CARv1 the reference decoder accepts, refused by --full only), not
			// on the wording of the error.
			r2 := drv.Car(work, nil, "inspect", file)
			x.Eval(1)
			if r2.Exit != 0 {
				// the plain form refuses it too: not the recorded finding
				x.Fail("c19:inspect-full-rejects:"+tag, "car inspect --full rejects the output (reference decode: %v): %s", derr, clipS(msg, 300))
				x.Fail("c19:inspect-rejects:"+tag, "car inspect rejects the output: %s", clipS(string(r2.Stderr), 300))
			} else {
				x.Fail("c19:inspect-full-v1:trailing-data-probe", "car inspect --full rejects a valid CARv1 output that car inspect accepts: %s", clipS(msg, 200))
				c19InspectReport(x, tag, string(r2.Stdout), b)
			}
		} else {
			x.Fail("c19:inspect-full-rejects:"+tag, "car inspect --full rejects the output (reference decode: %v): %s", derr, clipS(msg, 300))
		}
	} else {
		c19InspectReport(x, tag, string(r.Stdout), b)
	}
	if derr != nil {
		x.Fail("c19:output-malformed:"+tag, "output is not a well-formed archive: %v", derr)
		return
	}
	if fl.Version == 2 && fl.HasIndex {
		got := recMultiset(fl.IndexCodec, fl.Index)
		if got != recMultiset(fl.IndexCodec, refcar.RecordsOf(fl.Payload, false)) && got != recMultiset(fl.IndexCodec, refcar.RecordsOf(fl.Payload, true)) {
			x.Fail("c19:output-index:"+tag, "embedded index {%s} is not the index of the payload it follows (with or without identity entries)", clipS(got, 400))
		}
	}
	roots := fl.Payload.Header.Roots
	if len(roots) == 0 {
		return
	}
	for _, rt := range roots {
		found := false
		for _, s := range fl.Payload.Sections {
			if bytes.Equal(s.Cid, rt) {
				found = true
			}
		}
		if !found {
			return
		}
	}
	v := drv.Car(work, nil, "verify", file)
	x.Eval(1)
	if v.Exit != 0 {
		if verifyOutcomeOnly {
			x.Outcome("verify-rejects:" + tag)
			return
		}
		x.Fail("c19:verify-rejects:"+tag, "car verify rejects an output whose roots are all stored: %s", clipS(string(v.Stderr), 300))
	} else {
		x.Outcome("verified")
	}
}

// c19InspectReport compares the semantic fields of an inspect report with the reference decode
// of the inspected bytes: version, payload window, index offset and type, roots, presence of the
// roots, block count. car inspect figures in the statement as an acceptor only; the labels and the
// layout of its report are not fixed by it, so a difference is recorded as an outcome
// (beyond-statement:inspect-report), never as a violation.
func c19InspectReport(x *kit.Ctx, tag, stdout string, file []byte) {
	fl, err := refcar.DecodeFile(file, true)
	if err != nil {
		return
	}
	fields := map[string]string{}
	var roots []string
	lines := strings.Split(stdout, "\n")
	for i := 0; i < len(lines); i++ {
		k, v, ok := strings.Cut(lines[i], ":")
		if !ok || strings.HasPrefix(lines[i], "\t") {
			continue
		}
		v = strings.TrimSpace(v)
		if k == "Roots" {
			if v != "" && v != "(none)" {
				roots = append(roots, v)
			}
			for i+1 < len(lines) && strings.HasPrefix(lines[i+1], "\t") {
				i++
				roots = append(roots, strings.TrimSpace(lines[i]))
			}
			continue
		}
		fields[k] = v
	}
	want := map[string]string{
		"Version":     fmt.Sprint(fl.Version),
		"Block count": fmt.Sprint(len(fl.Payload.Sections)),
	}
	present := "Yes"
	for _, rt := range fl.Payload.Header.Roots {
		found := false
		for _, s := range fl.Payload.Sections {
			if bytes.Equal(s.Cid, rt) {
				found = true
			}
		}
		if !found {
			present = "No"
		}
	}
	want["Root blocks present in data"] = present
	if fl.Version == 2 {
		want["Characteristics"] = fmt.Sprintf("%x", file[refcar.PragmaSize:refcar.PragmaSize+16])
		want["Data offset"] = fmt.Sprint(fl.V2.DataOffset)
		want["Data (payload) length"] = fmt.Sprint(fl.V2.DataSize)
		want["Index offset"] = fmt.Sprint(fl.V2.IndexOffset)
		switch {
		case !fl.HasIndex:
			want["Index type"] = "(none)"
		case fl.IndexCodec == refcar.CodecIndexSorted:
			want["Index type"] = "car-index-sorted"
		case fl.IndexCodec == refcar.CodecMhIndexSorted:
			want["Index type"] = "car-multihash-index-sorted"
		}
	}
	var keys []string
	for k := range want {
		keys = append(keys, k)
	}
	sort.Strings(keys)
	for _, k := range keys {
		if fields[k] != want[k] {
			x.Outcome("beyond-statement:inspect-report")
			return
		}
	}
	var wantRoots []string
	for _, rt := range fl.Payload.Header.Roots {
		wantRoots = append(wantRoots, cidStr(rt))
	}
	if strings.Join(roots, ",") != strings.Join(wantRoots, ",") {
		x.Outcome("beyond-statement:inspect-report")
	}
}

func c19Blocks(fl *refcar.File) []refcar.Block {
	var out []refcar.Block
	for _, s := range fl.Payload.Sections {
		out = append(out, refcar.Block{Cid: s.Cid, Data: s.Data})
	}
	return out
}

// c19Env is one case's scratch directory, input archive and its reference decode.
type c19Env struct {
	x        *kit.Ctx
	cs       C19Case
	work     string
	tag      string
	in       []byte
	payload  []byte
	pl       *refcar.Payload
	rootRaws [][]byte
	blks     []kit.Blk
	rb       []refcar.Block
}

func (e *c19Env) run(stdin []byte, args ...string) drv.RunResult {
	e.x.Eval(1)
	return drv.Car(e.work, stdin, args...)
}

func (e *c19Env) path(f string) string { return filepath.Join(e.work, f) }

func (e *c19Env) stale(file string) { c19PutStale(e.work, file, c19Var(e.cs.Var, "stale")) }

func c19Container(cont string, payload []byte, pl *refcar.Payload) []byte {
	switch cont {
	case "v1":
		return payload
	case "v2":
		return refcar.EncodeV2(payload, 0, 0, refcar.EncodeIndex(refcar.CodecMhIndexSorted, refcar.RecordsOf(pl, false)), false)
	case "v2pad":
		return refcar.EncodeV2(payload, 3, 2, refcar.EncodeIndex(refcar.CodecIndexSorted, refcar.RecordsOf(pl, false)), false)
	case "v2noidx":
		return refcar.EncodeV2(payload, 0, 0, nil, false)
	case "v2padnoidx":
		return refcar.EncodeV2(payload, 3, 0, nil, false)
	}
	panic("unknown container " + cont)
}

func runC19(c any, x *kit.Ctx) {
	cs := c.(C19Case)
	work := filepath.Join(x.Dir, "c19")
	os.RemoveAll(work)
	os.MkdirAll(work, 0o755)
	defer os.RemoveAll(work)
	e := &c19Env{x: x, cs: cs, work: work, tag: cs.Cmd}
	_, e.rootRaws, _ = kit.Roots(cs.Roots)
	e.blks = kit.Bs(c19Seq(cs.Seq))
	for _, b := range e.blks {
		e.rb = append(e.rb, b.Ref())
	}
	e.payload = refcar.EncodeV1(e.rootRaws, false, e.rb)
	e.pl, _ = refcar.DecodePayload(e.payload, false, true)
	e.in = c19Container(cs.Cont, e.payload, e.pl)
	os.WriteFile(e.path("in.car"), e.in, 0o644)
	x.Eval(1)
	x.Transition(1)
	cmd, arg, _ := strings.Cut(cs.Cmd, ":")
	switch cmd {
	case "index":
		e.index(arg)
	case "index-create":
		e.indexCreate(arg)
	case "detach", "detach-list":
		e.detach(cmd)
	case "filter":
		e.filter(arg)
	case "get-block":
		e.getBlock()
	case "list":
		e.list()
	case "root":
		e.root()
	case "inspect":
		e.inspect()
	case "concat":
		e.concat(arg)
	case "check-input":
		// the acceptors on the generated inputs themselves (positive control of the two verifiers
		// on containers no sub-command emits, e.g. padded ones)
		c19ValidateOpt(x, work, "in.car", e.tag, cs.Cont == "v2padnoidx")
	case "flags":
		e.flags()
	case "controls":
		e.controls()
	}
	// no sub-command touches its input today; the statement speaks of the outputs only
	if now, err := os.ReadFile(e.path("in.car")); err != nil || !bytes.Equal(now, e.in) {
		x.Outcome("beyond-statement:input-modified")
	}
	x.State(fmt.Sprintf("%+v", cs))
	x.Outcome(cmd)
	if len(e.blks) >= 1 {
		x.Nontrivial(fmt.Sprintf("%+v", cs))
	}
}

func (e *c19Env) index(arg string) {
	x, tag := e.x, e.tag
	var args []string
	var wantCodec uint64
	switch arg {
	case "v1":
		args = []string{"index", "--version", "1"}
	case "none":
		args = []string{"index", "--codec", "none"}
	case "mh":
		args = []string{"index", "--codec", "car-multihash-index-sorted"}
		wantCodec = refcar.CodecMhIndexSorted
	case "sorted":
		args = []string{"index", "--codec", "car-index-sorted"}
		wantCodec = refcar.CodecIndexSorted
	case "default":
		args = []string{"index"}
		wantCodec = refcar.CodecMhIndexSorted // the documented default of --codec
	}
	e.stale("out.car")
	r := e.run(nil, append(append([]string{}, args...), "in.car", "out.car")...)
	if r.Exit != 0 {
		x.Fail("c19:cmd-failed:"+tag, "car index failed on a valid archive: %s", clipS(string(r.Stderr), 300))
		return
	}
	// content: the oracle on the emitted bytes; sig maps an assertion to its signature (the stdout form
	// reports under c19:stdout-form)
	content := func(out []byte, sig func(string) string) {
		fl, err := refcar.DecodeFile(out, false)
		if err != nil {
			return
		}
		if !bytes.Equal(fl.PayloadRaw, e.payload) {
			x.Fail(sig("c19:index-payload"), "car index changed the payload")
		}
		switch arg {
		case "v1":
			if fl.Version != 1 {
				x.Fail(sig("c19:index-version"), "index --version 1 produced version %d", fl.Version)
			}
		case "none":
			if fl.Version != 2 || fl.HasIndex {
				x.Fail(sig("c19:index-none"), "index --codec none: version %d hasIndex %v", fl.Version, fl.HasIndex)
			}
		default:
			if fl.Version != 2 || !fl.HasIndex {
				x.Fail(sig("c19:index-missing"), "no index in output")
				return
			}
			if fl.IndexCodec != wantCodec {
				x.Fail(sig("c19:index-codec"), "index codec 0x%x in the output, 0x%x requested", fl.IndexCodec, wantCodec)
			}
			got := recMultiset(fl.IndexCodec, fl.Index)
			if got != recMultiset(fl.IndexCodec, refcar.RecordsOf(e.pl, false)) && got != recMultiset(fl.IndexCodec, refcar.RecordsOf(e.pl, true)) {
				x.Fail(sig("c19:index-records"), "index {%s} is not the index of the payload (with or without identity entries)", clipS(got, 400))
			}
		}
	}
	c19Validate(x, e.work, "out.car", tag)
	out, _ := os.ReadFile(e.path("out.car"))
	content(out, func(s string) string { return s + ":" + tag })
	if e.cs.IO {
		r2 := e.run(nil, append(append([]string{}, args...), "in.car")...)
		if r2.Exit != 0 {
			x.Fail("c19:stdout-form:"+tag, "car index to stdout failed (exit %d): %s", r2.Exit, clipS(string(r2.Stderr), 200))
		} else if !bytes.Equal(r2.Stdout, out) {
			// not byte-equal to the file form (the statement does not ask for that): judged on its own
			x.Outcome("beyond-statement:alternate-form-differs")
			e.alt(r2.Stdout, "out-stdout.car", "stdout-form", content)
		}
	}
}

// alt judges the output of an alternate (stdout / stdin) form of a command that is not byte-equal to the
// file form: the acceptors and the content oracle, reported under the form's signature.
func (e *c19Env) alt(out []byte, file, form string, content func([]byte, func(string) string)) {
	sig := "c19:" + form + ":" + e.tag
	if out != nil {
		os.WriteFile(e.path(file), out, 0o644)
	} else {
		out, _ = os.ReadFile(e.path(file))
	}
	if _, err := refcar.DecodeFile(out, false); err != nil {
		e.x.Fail(sig, "the %s output is not a well-formed archive: %v", form, err)
		return
	}
	c19Validate(e.x, e.work, file, e.tag)
	content(out, func(string) string { return sig })
}

func (e *c19Env) indexCreate(arg string) {
	x, tag := e.x, e.tag
	args := []string{"index"}
	wantCodec := uint64(refcar.CodecMhIndexSorted)
	switch arg {
	case "sorted":
		args = append(args, "--codec", "car-index-sorted")
		wantCodec = refcar.CodecIndexSorted
	case "mh":
		args = append(args, "--codec", "car-multihash-index-sorted")
	}
	args = append(args, "create", "in.car")
	e.stale("out.idx")
	r := e.run(nil, append(append([]string{}, args...), "out.idx")...)
	if r.Exit != 0 {
		x.Fail("c19:cmd-failed:"+tag, "car index create failed: %s", clipS(string(r.Stderr), 300))
		return
	}
	content := func(out []byte, sig func(string) string) {
		cn, recs, err := refcar.DecodeIndex(out)
		if err != nil {
			x.Fail(sig("c19:detached-index-malformed"), "detached index malformed: %v", err)
			return
		}
		if cn != wantCodec {
			x.Fail(sig("c19:detached-index-codec"), "detached index has codec 0x%x, 0x%x requested", cn, wantCodec)
		}
		got := recMultiset(cn, recs)
		if got != recMultiset(cn, refcar.RecordsOf(e.pl, false)) && got != recMultiset(cn, refcar.RecordsOf(e.pl, true)) {
			x.Fail(sig("c19:detached-index-records"), "detached index {%s} is not the index of the payload", clipS(got, 400))
		}
	}
	out, _ := os.ReadFile(e.path("out.idx"))
	content(out, func(s string) string { return s + ":" + tag })
	if e.cs.IO {
		r2 := e.run(nil, args...)
		if r2.Exit != 0 {
			x.Fail("c19:stdout-form:"+tag, "car index create to stdout failed (exit %d): %s", r2.Exit, clipS(string(r2.Stderr), 200))
		} else if !bytes.Equal(r2.Stdout, out) {
			x.Outcome("beyond-statement:alternate-form-differs")
			content(r2.Stdout, func(string) string { return "c19:stdout-form:" + tag })
		}
	}
}

func (e *c19Env) detach(cmd string) {
	x, tag, cs := e.x, e.tag, e.cs
	e.stale("out.idx")
	r := e.run(nil, "detach-index", "in.car", "out.idx")
	hasIdx := cs.Cont == "v2" || cs.Cont == "v2pad"
	// isIndexOfPayload: a well-formed index whose records are those of the payload (with or without identity entries)
	isIndexOfPayload := func(b []byte, codec uint64) string {
		cn, recs, err := refcar.DecodeIndex(b)
		if err != nil {
			return fmt.Sprintf("malformed: %v", err)
		}
		if codec != 0 && cn != codec {
			return fmt.Sprintf("codec 0x%x, the embedded index has 0x%x", cn, codec)
		}
		got := recMultiset(cn, recs)
		if got != recMultiset(cn, refcar.RecordsOf(e.pl, false)) && got != recMultiset(cn, refcar.RecordsOf(e.pl, true)) {
			return fmt.Sprintf("records {%s} are not those of the payload", clipS(got, 400))
		}
		return ""
	}
	if !hasIdx {
		// the statement does not demand a refusal here: a refusal emits nothing; an index that is emitted
		// nevertheless must be the regenerated one
		if r.Exit != 0 {
			x.Outcome("refused")
			return
		}
		x.Outcome("detach-index-less-accepted")
		out, _ := os.ReadFile(e.path("out.idx"))
		if d := isIndexOfPayload(out, 0); d != "" {
			x.Fail("c19:detach-no-index:"+tag, "detach-index succeeded on an archive without index and what it emitted is not the index of the payload: %s", d)
		}
		return
	}
	if r.Exit != 0 {
		x.Fail("c19:cmd-failed:"+tag, "detach-index failed: %s", clipS(string(r.Stderr), 300))
		return
	}
	out, _ := os.ReadFile(e.path("out.idx"))
	fin, _ := refcar.DecodeFile(e.in, false)
	// "an index equal to a regenerated one": same codec, same records; the byte layout of equal records is not fixed
	if !bytes.Equal(out, fin.IndexRaw) {
		if d := isIndexOfPayload(out, fin.IndexCodec); d != "" {
			x.Fail("c19:detach-bytes:"+tag, "detached index is not the embedded index: %s", d)
		} else {
			x.Outcome("detach-reserialized")
		}
	}
	if cs.IO && cmd == "detach" {
		r2 := e.run(nil, "detach-index", "in.car")
		if r2.Exit != 0 {
			x.Fail("c19:stdout-form:"+tag, "detach-index to stdout failed (exit %d): %s", r2.Exit, clipS(string(r2.Stderr), 200))
		} else if !bytes.Equal(r2.Stdout, fin.IndexRaw) {
			if d := isIndexOfPayload(r2.Stdout, fin.IndexCodec); d != "" {
				x.Fail("c19:stdout-form:"+tag, "detach-index to stdout (%d bytes) is not the embedded index: %s", len(r2.Stdout), d)
			}
		}
	}
	if cmd == "detach-list" {
		l := e.run(nil, "detach-index", "list", "out.idx")
		// detach-index list prints a listing, it emits neither an archive nor an index: its text, whether a
		// digest-only index can be listed, and the agreement of its stdin forms are not the statement's
		// subject and are recorded as outcomes
		if cs.IO {
			// the index on stdin: through a pipe and redirected from the file
			l2 := e.run(out, "detach-index", "list")
			l3 := drv.CarStdinFile(e.work, "out.idx", "detach-index", "list")
			x.Eval(1)
			for _, o := range []drv.RunResult{l2, l3} {
				if (o.Exit == 0) != (l.Exit == 0) || !bytes.Equal(o.Stdout, l.Stdout) {
					x.Outcome("beyond-statement:detach-list-stdin-form")
				}
			}
		}
		if cs.Cont == "v2pad" { // car-index-sorted is not iterable today
			if l.Exit == 0 {
				x.Outcome("beyond-statement:detach-list-sorted-accepted")
			}
			return
		}
		var want []string
		for _, rec := range fin.Index {
			mh, _ := multihash.Encode(rec.Digest, rec.MhCode)
			want = append(want, fmt.Sprintf("%s %d", multihash.Multihash(mh).String(), rec.Offset))
		}
		got := strings.Split(strings.TrimSpace(string(l.Stdout)), "\n")
		if len(want) == 0 {
			got = nil
			if strings.TrimSpace(string(l.Stdout)) != "" {
				got = []string{string(l.Stdout)}
			}
		}
		sort.Strings(want)
		sort.Strings(got)
		if l.Exit != 0 || strings.Join(got, "|") != strings.Join(want, "|") {
			x.Outcome("beyond-statement:detach-list-text")
		}
	}
}

func clipL(l []string) []string {
	if len(l) > 8 {
		return append(append([]string{}, l[:8]...), fmt.Sprintf("... (%d)", len(l)))
	}
	return l
}

// c19AppendTarget: the existing archive of a filter --append run.
func c19AppendTarget(kind string) (file []byte, blocks []refcar.Block, roots [][]byte) {
	mk := func(rootNames, names []string, v1 bool, dataPad, idxPad uint64, codec uint64) ([]byte, []refcar.Block, [][]byte) {
		var bl []refcar.Block
		for _, b := range kit.Bs(names) {
			bl = append(bl, b.Ref())
		}
		rts := [][]byte{}
		for _, b := range kit.Bs(rootNames) {
			rts = append(rts, b.Raw)
		}
		p := refcar.EncodeV1(rts, false, bl)
		if v1 {
			return p, bl, rts
		}
		pl, _ := refcar.DecodePayload(p, false, true)
		return refcar.EncodeV2(p, dataPad, idxPad, refcar.EncodeIndex(codec, refcar.RecordsOf(pl, false)), false), bl, rts
	}
	switch kind {
	case "a": // overlaps the usual sources: de-duplication against what is already there
		return mk([]string{"a"}, []string{"a"}, false, 0, 0, refcar.CodecMhIndexSorted)
	case "ab": // two roots, digest-only index
		return mk([]string{"a", "b"}, []string{"a", "b"}, false, 0, 0, refcar.CodecIndexSorted)
	case "empty": // no roots
		return mk(nil, []string{"b"}, false, 0, 0, refcar.CodecMhIndexSorted)
	case "pad": // padded: the blockstore documents that resumption needs matching padding options
		return mk([]string{"a", "b"}, []string{"a", "b"}, false, 3, 2, refcar.CodecIndexSorted)
	case "v1": // documented refusal
		return mk([]string{"c"}, []string{"c"}, true, 0, 0, 0)
	}
	return mk([]string{"c"}, []string{"c"}, false, 0, 0, refcar.CodecMhIndexSorted)
}

func (e *c19Env) filter(arg string) {
	x, tag, cs, blks := e.x, e.tag, e.cs, e.blks
	// selection: by argument
	var sel [][]byte
	switch arg {
	case "all":
		for _, b := range blks {
			sel = append(sel, b.Raw)
		}
	case "none":
	default:
		for i, b := range blks {
			if i%2 == 0 {
				sel = append(sel, b.Raw)
			}
		}
		sel = append(sel, kit.Absent.Raw)
	}
	var lines []string
	selected := map[string]bool{}
	for _, s := range sel {
		if selected[string(s)] {
			continue // a block stored twice in the source is still named once: repeated entries are the messy list's business
		}
		lines = append(lines, cidStr(s))
		selected[string(s)] = true
	}
	list := []byte(strings.Join(lines, "\n") + "\n")
	if c19Var(cs.Var, "list") == "messy" {
		// the same set: CRLF and padded lines, blank lines, a repeated entry, no final newline
		var sb strings.Builder
		for i, l := range lines {
			switch i % 3 {
			case 0:
				sb.WriteString("  " + l + " \r\n\n")
			case 1:
				sb.WriteString(l + "\r\n")
			default:
				sb.WriteString("\t" + l + "\n \n")
			}
		}
		if len(lines) > 0 {
			sb.WriteString(lines[0])
		} else {
			sb.WriteString("\r\n \n\t")
		}
		list = []byte(sb.String())
	}
	if c19Var(cs.Var, "list") == "nonl" {
		list = []byte(strings.Join(lines, "\n"))
	}
	os.WriteFile(e.path("cids.txt"), list, 0o644)
	var flags []string
	inverse := arg == "inverse" || c19Var(cs.Var, "inverse") != ""
	if inverse {
		flags = append(flags, "--inverse")
	}
	v1 := arg == "v1" || c19Var(cs.Var, "ver1") != ""
	if v1 {
		flags = append(flags, "--version", "1")
	}
	var preBlocks []refcar.Block
	var preRoots [][]byte
	var preFile []byte
	appendMode := arg == "append"
	target := c19Var(cs.Var, "target")
	if appendMode {
		// an existing archive to append to
		preFile, preBlocks, preRoots = c19AppendTarget(target)
		os.WriteFile(e.path("out.car"), preFile, 0o644)
		flags = append(flags, "--append")
	} else {
		e.stale("out.car")
	}
	args := append(append([]string{"filter", "--cid-file", "cids.txt"}, flags...), "in.car", "out.car")
	r := e.run(nil, args...)
	if r.Exit != 0 {
		if appendMode && (target == "pad" || target == "v1" || v1) {
			// a documented refusal: nothing is emitted, so the existing archive must be as it was
			now, _ := os.ReadFile(e.path("out.car"))
			if !bytes.Equal(now, preFile) {
				// a side effect of a refusal; the statement speaks of what a run that goes through emits
				x.Outcome("beyond-statement:append-refused-modified")
			}
			x.Outcome("append-refused:" + target)
			return
		}
		if c19Var(cs.Var, "list") == "messy" || len(lines) == 0 {
			// the shape of the CID list (CRLF, padding, blank lines, a repeated entry, no final newline; no entry
			// at all) is not among the configurations the statement quantifies over: a refusal emits nothing
			x.Outcome("beyond-statement:filter-list-refused")
			return
		}
		x.Fail("c19:cmd-failed:"+tag, "car filter failed: %s", clipS(string(r.Stderr), 300))
		return
	}
	content := func(out []byte, sig func(string) string) {
		e.filterContent(out, sig, preBlocks, preRoots, selected, inverse, appendMode, v1, target)
	}
	c19Validate(x, e.work, "out.car", tag)
	out, _ := os.ReadFile(e.path("out.car"))
	content(out, func(s string) string { return s + ":" + tag })
	if cs.IO && !appendMode {
		// the CID list on stdin (pipe) instead of --cid-file
		a2 := append(append([]string{"filter"}, flags...), "in.car", "out2.car")
		r2 := e.run(list, a2...)
		out2, _ := os.ReadFile(e.path("out2.car"))
		if r2.Exit != 0 {
			x.Fail("c19:stdin-form:"+tag, "car filter with the CID list on stdin failed (exit %d): %s", r2.Exit, clipS(string(r2.Stderr), 200))
		} else if !bytes.Equal(out2, out) {
			x.Outcome("beyond-statement:alternate-form-differs")
			e.alt(nil, "out2.car", "stdin-form", content)
		}
	}
}

// filterContent: the content oracle of one filter output.
func (e *c19Env) filterContent(out []byte, sig func(string) string, preBlocks []refcar.Block, preRoots [][]byte, selected map[string]bool, inverse, appendMode, v1 bool, target string) {
	x, blks := e.x, e.blks
	fl, err := refcar.DecodeFile(out, false)
	if err != nil {
		return
	}
	// the statement's answer: exactly the selected blocks in source order (behind what an append target
	// already holds). Which blockstore options the command writes with is not fixed by it, so a section
	// stored twice, an identity block and a block under a second CID of the same multihash may each be
	// kept or dropped: (1) the output is what the target held followed by a subsequence of the selected
	// source sections, (2) with identity sections dropped and the first section of every multihash kept,
	// output and selection are the same sequence.
	full := append([]refcar.Block{}, preBlocks...)
	for _, b := range blks {
		if selected[string(b.Raw)] != inverse {
			full = append(full, b.Ref())
		}
	}
	if d := c19FilterBlocks(c19Blocks(fl), full, len(preBlocks)); d != "" {
		x.Fail(sig("c19:filter-blocks"), "filter output blocks differ from the selected blocks in source order: %s", d)
	}
	var wantRoots [][]byte
	if appendMode {
		wantRoots = preRoots
	} else {
		for _, rt := range e.rootRaws {
			if selected[string(rt)] != inverse {
				wantRoots = append(wantRoots, rt)
			}
		}
	}
	if !sameRoots(fl.Payload.Header.Roots, wantRoots) && !(len(wantRoots) == 0 && len(fl.Payload.Header.Roots) == 0) {
		if !appendMode && sameRoots(fl.Payload.Header.Roots, e.rootRaws) {
			// the statement does not say which of the source's roots the output lists: all of them is the other reading
			x.Outcome("beyond-statement:filter-roots-unfiltered")
		} else {
			x.Fail(sig("c19:filter-roots"), "filter output roots %x want %x", fl.Payload.Header.Roots, wantRoots)
		}
	}
	if appendMode && (v1 || target == "v1") {
		return // an accepted append outside the documented domain: only validity and content are judged
	}
	if v1 != (fl.Version == 1) {
		x.Fail(sig("c19:filter-version"), "filter output version %d", fl.Version)
	}
}

// c19FilterBlocks judges the sections of a filter output against full = the append target's blocks
// (the first npre entries) followed by every selected source section in source order.
func c19FilterBlocks(got, full []refcar.Block, npre int) string {
	if len(got) < npre {
		return fmt.Sprintf("%d blocks, the append target alone held %d", len(got), npre)
	}
	if d := sameBlocks(got[:npre], full[:npre], true); d != "" {
		return "the append target's blocks changed: " + d
	}
	// (1) a subsequence of the selection, CID and data
	j := npre
	for i := npre; i < len(got); i++ {
		for j < len(full) && !(bytes.Equal(full[j].Cid, got[i].Cid) && bytes.Equal(full[j].Data, got[i].Data)) {
			j++
		}
		if j == len(full) {
			return fmt.Sprintf("block %d (CID %x, %d data bytes) is not a selected source section in source order", i, got[i].Cid, len(got[i].Data))
		}
		j++
	}
	// (2) nothing selected is lost: the first section of every multihash, identity sections aside
	norm := func(l []refcar.Block) []refcar.Block {
		var out []refcar.Block
		seen := map[string]bool{}
		for _, b := range l {
			k := string(multihashBytes(b.Cid))
			if model.IsIdentity(b.Cid) || seen[k] {
				continue
			}
			seen[k] = true
			out = append(out, b)
		}
		return out
	}
	return sameBlocks(norm(got), norm(full), true)
}

func (e *c19Env) getBlock() {
	x, tag, blks := e.x, e.tag, e.blks
	qs := append([]kit.Blk{}, blks...)
	if len(blks) > 6 {
		// reduced matrix for the many-block archives: first, second, middle, last
		qs = []kit.Blk{blks[0], blks[1], blks[len(blks)/2], blks[len(blks)-1]}
		x.Note("get-block on archives of more than 6 blocks queries first/second/middle/last only", true)
	}
	stale := bytes.Repeat([]byte("stale block file "), 20)
	for _, q := range append(qs, kit.Absent, kit.B("b")) {
		// a longer file already sits at the output path
		os.WriteFile(e.path("blk.bin"), stale, 0o644)
		r := e.run(nil, "get-block", "in.car", cidStr(q.Raw), "blk.bin")
		present := false
		for _, b := range blks {
			if bytes.Equal(multihashBytes(b.Raw), multihashBytes(q.Raw)) {
				present = true
			}
		}
		ident := model.IsIdentity(q.Raw)
		if present || ident {
			got, _ := os.ReadFile(e.path("blk.bin"))
			if r.Exit != 0 || !bytes.Equal(got, q.Data) {
				x.Fail("c19:get-block:"+tag, "get-block %s: exit %d, %d bytes, want the block's %d bytes", q.Name, r.Exit, len(got), len(q.Data))
			}
			if e.cs.IO {
				r2 := e.run(nil, "get-block", "in.car", cidStr(q.Raw))
				if r2.Exit != 0 || !bytes.Equal(r2.Stdout, q.Data) {
					x.Fail("c19:stdout-form:"+tag, "get-block %s to stdout: exit %d, %d bytes, want the block's %d bytes", q.Name, r2.Exit, len(r2.Stdout), len(q.Data))
				}
			}
		} else if r.Exit == 0 {
			x.Fail("c19:get-block-absent:"+tag, "get-block of an absent CID succeeded")
		}
		os.Remove(e.path("blk.bin"))
	}
}

func (e *c19Env) list() {
	x, tag := e.x, e.tag
	r := e.run(nil, "list", "in.car")
	var want []string
	for _, b := range e.blks {
		want = append(want, cidStr(b.Raw))
	}
	got := strings.Fields(string(r.Stdout))
	if r.Exit != 0 || strings.Join(got, ",") != strings.Join(want, ",") {
		x.Fail("c19:list:"+tag, "car list prints %v (exit %d) want scan order %v", clipL(got), r.Exit, clipL(want))
	}
	// and from stdin
	sameList := func(o []byte) bool { return strings.Join(strings.Fields(string(o)), ",") == strings.Join(want, ",") }
	r2 := e.run(e.in, "list")
	if r2.Exit != 0 || !sameList(r2.Stdout) {
		x.Fail("c19:list-stdin:"+tag, "car list from stdin does not print the scan order (exit %d): %s", r2.Exit, clipS(string(r2.Stderr), 200))
	}
	if e.cs.IO {
		// stdin redirected from the file; output to a file argument over a stale file
		r3 := drv.CarStdinFile(e.work, "in.car", "list")
		x.Eval(1)
		if r3.Exit != 0 || !sameList(r3.Stdout) {
			x.Fail("c19:list-stdin:"+tag, "car list with stdin redirected from the file does not print the scan order (exit %d): %s", r3.Exit, clipS(string(r3.Stderr), 200))
		}
		os.WriteFile(e.path("out.txt"), bytes.Repeat([]byte("stale line\n"), 2000), 0o644)
		r4 := e.run(nil, "list", "in.car", "out.txt")
		f, _ := os.ReadFile(e.path("out.txt"))
		if r4.Exit != 0 || !sameList(f) {
			x.Fail("c19:list-file:"+tag, "car list to a file (exit %d, %d bytes) does not print the scan order (stdout form: %d bytes)", r4.Exit, len(f), len(r.Stdout))
		}
	}
}

func (e *c19Env) root() {
	x, tag := e.x, e.tag
	r := e.run(nil, "root", "in.car")
	var want []string
	for _, rt := range e.rootRaws {
		want = append(want, cidStr(rt))
	}
	got := strings.Fields(string(r.Stdout))
	if r.Exit != 0 || strings.Join(got, ",") != strings.Join(want, ",") {
		x.Fail("c19:root:"+tag, "car root prints %v (exit %d) want %v", got, r.Exit, want)
	}
	if e.cs.IO {
		r2 := e.run(e.in, "root")
		r3 := drv.CarStdinFile(e.work, "in.car", "root")
		x.Eval(1)
		for i, o := range []drv.RunResult{r2, r3} {
			if o.Exit != 0 || strings.Join(strings.Fields(string(o.Stdout)), ",") != strings.Join(want, ",") {
				x.Fail("c19:stdin-form:"+tag, "car root from stdin (%s; exit %d) prints %q, from the file %q: %s", []string{"pipe", "file"}[i], o.Exit, clipS(string(o.Stdout), 200), clipS(string(r.Stdout), 200), clipS(string(o.Stderr), 200))
			}
		}
	}
}

func (e *c19Env) inspect() {
	x, tag := e.x, e.tag
	r := e.run(nil, "inspect", "in.car")
	if r.Exit != 0 {
		x.Fail("c19:inspect-input:"+tag, "car inspect rejects a valid input: %s", clipS(string(r.Stderr), 200))
		return
	}
	if !strings.Contains(string(r.Stdout), fmt.Sprintf("Block count: %d\n", len(e.blks))) {
		x.Outcome("beyond-statement:inspect-report") // the wording of the report is not the statement's subject
	}
	c19InspectReport(x, tag, string(r.Stdout), e.in)
	if e.cs.IO {
		// stdin must be seekable for inspect (it reads through ReadAt): redirected from the file
		r2 := drv.CarStdinFile(e.work, "in.car", "inspect")
		x.Eval(1)
		if r2.Exit != 0 {
			x.Fail("c19:stdin-form:"+tag, "car inspect with stdin redirected from the file rejects a valid input (exit %d): %s", r2.Exit, clipS(string(r2.Stderr), 200))
		} else if string(r2.Stdout) != string(r.Stdout) {
			x.Outcome("beyond-statement:inspect-report")
		}
	}
}

func (e *c19Env) concat(arg string) {
	x, tag := e.x, e.tag
	parts := strings.Split(arg, ":")
	ver, n := parts[0], int(parts[1][0]-'0')
	// further inputs: the same content in another container, and a third fixed archive
	second := refcar.EncodeV2(e.payload, 5, 0, nil, false)
	os.WriteFile(e.path("in2.car"), second, 0o644)
	third := refcar.EncodeV1([][]byte{kit.B("c").Raw}, false, []refcar.Block{kit.B("c").Ref(), kit.B("e").Ref()})
	os.WriteFile(e.path("in3.car"), third, 0o644)
	vflag := []string{"--version", strings.TrimPrefix(ver, "v")}
	inputs := []string{"in.car", "in2.car", "in3.car"}[:n]
	e.stale("out.car")
	r := e.run(nil, append(append([]string{"concat", "-o", "out.car"}, vflag...), inputs...)...)
	if len(e.rootRaws) == 0 && r.Exit != 0 {
		x.Outcome("concat-rootless-input") // the legacy reader used by concat refuses root-less inputs (documented)
		return
	}
	if r.Exit != 0 {
		x.Fail("c19:cmd-failed:"+tag, "car concat failed: %s", clipS(string(r.Stderr), 300))
		return
	}
	want := append([]refcar.Block{}, e.rb...)
	if n >= 2 {
		want = append(want, e.rb...)
	}
	if n >= 3 {
		want = append(want, kit.B("c").Ref(), kit.B("e").Ref())
	}
	out, _ := os.ReadFile(e.path("out.car"))
	if e.cs.IO {
		r2 := e.run(nil, append(append([]string{"concat"}, vflag...), inputs...)...)
		if r2.Exit != 0 {
			x.Fail("c19:stdout-form:"+tag, "car concat to stdout failed (exit %d): %s", r2.Exit, clipS(string(r2.Stderr), 200))
		} else if !bytes.Equal(r2.Stdout, out) {
			// not byte-equal to the -o form (the statement does not ask for that): judged on its own
			x.Outcome("beyond-statement:alternate-form-differs")
			e.alt(r2.Stdout, "out-stdout.car", "stdout-form", func(o []byte, sig func(string) string) {
				fl, err := refcar.DecodeFile(o, false)
				if err != nil {
					return
				}
				if d := sameBlocks(c19Blocks(fl), want, true); d != "" {
					x.Fail(sig("c19:concat-blocks"), "concat output is not the concatenation of the inputs' blocks: %s", d)
				}
				if !sameRoots(fl.Payload.Header.Roots, e.rootRaws) {
					x.Fail(sig("c19:concat-roots"), "concat output roots differ from the first input's")
				}
			})
		}
	}
	fl, err := refcar.DecodeFile(out, false)
	if err != nil {
		x.Fail("c19:concat-"+ver+":output-malformed", "concat --version %s output is not a well-formed archive: %v", strings.TrimPrefix(ver, "v"), err)
		// keep the content oracle alive behind the recorded --version 2 framing defect: what follows the
		// 40 header bytes must still be the concatenation under the first input's roots
		if ver != "v2" || len(out) < refcar.V2HeaderSize {
			return
		}
		p, perr := refcar.DecodePayload(out[refcar.V2HeaderSize:], false, true)
		if perr != nil {
			x.Fail("c19:concat-v2:payload-malformed", "concat --version 2: the bytes after the 40-byte header are not a well-formed payload: %v", perr)
			return
		}
		fl = &refcar.File{Version: 1, Payload: p}
	} else {
		c19Validate(x, e.work, "out.car", tag)
	}
	if d := sameBlocks(c19Blocks(fl), want, true); d != "" {
		x.Fail("c19:concat-blocks:"+tag, "concat output is not the concatenation of the inputs' blocks: %s", d)
	}
	if !sameRoots(fl.Payload.Header.Roots, e.rootRaws) {
		x.Fail("c19:concat-roots:"+tag, "concat output roots differ from the first input's")
	}
}

// flags: version / codec values outside the documented ones. A refusal emits nothing; if the
// command goes through, what it wrote is an emitted archive and must be valid.
func (e *c19Env) flags() {
	x := e.x
	os.WriteFile(e.path("cids.txt"), []byte(cidStr(kit.B("a").Raw)+"\n"), 0o644)
	for _, f := range []struct {
		name string
		args []string
	}{
		{"index-version-3", []string{"index", "--version", "3", "in.car", "out.car"}},
		{"index-version-0", []string{"index", "--version", "0", "in.car", "out.car"}},
		{"index-v1-codec", []string{"index", "--version", "1", "--codec", "car-index-sorted", "in.car", "out.car"}},
		{"index-unknown-codec", []string{"index", "--codec", "raw", "in.car", "out.car"}},
		{"filter-version-3", []string{"filter", "--version", "3", "--cid-file", "cids.txt", "in.car", "out.car"}},
		{"get-dag-version-3", []string{"get-dag", "--version", "3", "in.car", cidStr(kit.B("a").Raw), "out.car"}},
		{"concat-version-3", []string{"concat", "--version", "3", "-o", "out.car", "in.car"}},
	} {
		os.Remove(e.path("out.car"))
		r := e.run(nil, f.args...)
		if r.Exit != 0 {
			x.Outcome("flag-refused:" + f.name)
			continue
		}
		x.Outcome("flag-accepted:" + f.name)
		c19Validate(x, e.work, "out.car", "flags:"+f.name)
	}
}

// controls: the two acceptors the property leans on must not be vacuous. Each input is an
// archive as a sub-command emits it (car index output) with one defect.
func (e *c19Env) controls() {
	x := e.x
	a, b, s := kit.B("a"), kit.B("b"), kit.B("s")
	p := refcar.EncodeV1([][]byte{a.Raw}, false, []refcar.Block{a.Ref(), b.Ref()})
	pl, _ := refcar.DecodePayload(p, false, true)
	recs := refcar.RecordsOf(pl, false)
	good := refcar.EncodeV2(p, 0, 0, refcar.EncodeIndex(refcar.CodecMhIndexSorted, recs), false)
	os.WriteFile(e.path("c.car"), good, 0o644)
	if r := e.run(nil, "inspect", "--full", "c.car"); r.Exit != 0 {
		x.Fail("c19:control:baseline", "inspect --full rejects the intact control archive: %s", clipS(string(r.Stderr), 200))
		return
	}
	if r := e.run(nil, "verify", "c.car"); r.Exit != 0 {
		x.Fail("c19:control:baseline", "verify rejects the intact control archive: %s", clipS(string(r.Stderr), 200))
		return
	}
	// 1. a flipped data byte
	bad := append([]byte{}, good...)
	bad[refcar.PragmaSize+refcar.V2HeaderSize+len(p)-1] ^= 0x01
	os.WriteFile(e.path("c.car"), bad, 0o644)
	if r := e.run(nil, "inspect", "--full", "c.car"); r.Exit == 0 {
		x.Fail("c19:control:inspect-full-accepts-corrupt-block", "inspect --full accepts an archive whose last block does not hash to its CID")
	}
	// 2. the last section overstates what the payload holds
	short := refcar.EncodeV2(p[:len(p)-1], 0, 0, nil, false)
	os.WriteFile(e.path("c.car"), short, 0o644)
	if r := e.run(nil, "inspect", "--full", "c.car"); r.Exit == 0 {
		x.Fail("c19:control:inspect-full-accepts-truncated", "inspect --full accepts an archive whose last section is cut short")
	}
	// 3. a root that is not stored
	p3 := refcar.EncodeV1([][]byte{a.Raw, s.Raw}, false, []refcar.Block{a.Ref(), b.Ref()})
	pl3, _ := refcar.DecodePayload(p3, false, true)
	os.WriteFile(e.path("c.car"), refcar.EncodeV2(p3, 0, 0, refcar.EncodeIndex(refcar.CodecMhIndexSorted, refcar.RecordsOf(pl3, false)), false), 0o644)
	if r := e.run(nil, "verify", "c.car"); r.Exit == 0 {
		x.Fail("c19:control:verify-accepts-missing-root", "verify accepts an archive with a root that is not among its blocks")
	}
	// 4. an index that lacks the record of a stored block
	os.WriteFile(e.path("c.car"), refcar.EncodeV2(p, 0, 0, refcar.EncodeIndex(refcar.CodecMhIndexSorted, recs[:1]), false), 0o644)
	if r := e.run(nil, "verify", "c.car"); r.Exit == 0 {
		x.Fail("c19:control:verify-accepts-incomplete-index", "verify accepts an archive whose index has no record for a stored block")
	}
	// (no CARv1 control: inspect --full fails on every CARv1 for the recorded trailing-data-probe reason)
}
